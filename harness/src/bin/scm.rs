//! C10 (hand-over codec): real `ScmSocket::send_listeners` / `receive_listeners`
//! over a real unix stream pair with real bound sockets, vs the Lean model
//! `Sozu.Scm.Model`, plus the property's own oracles (every listener arrives,
//! in its protocol list, bound to its own address, for any set up to 200).
use std::collections::{BTreeMap, HashMap, HashSet};
use std::net::{IpAddr, Ipv4Addr, Ipv6Addr, SocketAddr};
use std::os::unix::io::{IntoRawFd, RawFd};
use std::os::unix::net::UnixStream;

use prost::Message;
use sozu_command_lib::proto::command::ListenersCount;
use sozu_command_lib::scm_socket::{Listeners, ScmSocket, ScmSocketError, MAX_BYTES_OUT, MAX_FDS_OUT};
use verif_harness::*;

struct Scm;

// ------------------------------------------------------------- sockets ----

fn so_cookie(fd: RawFd) -> Option<u64> {
    let mut v: u64 = 0;
    let mut l: libc::socklen_t = 8;
    let rc = unsafe {
        libc::getsockopt(fd, libc::SOL_SOCKET, libc::SO_COOKIE, &mut v as *mut u64 as *mut libc::c_void, &mut l)
    };
    if rc == 0 {
        Some(v)
    } else {
        None
    }
}

fn so_type(fd: RawFd) -> i32 {
    let mut v: libc::c_int = 0;
    let mut l: libc::socklen_t = 4;
    unsafe {
        libc::getsockopt(fd, libc::SOL_SOCKET, libc::SO_TYPE, &mut v as *mut i32 as *mut libc::c_void, &mut l);
    }
    v
}

fn setopt(fd: RawFd, level: i32, name: i32, val: i32) {
    unsafe {
        libc::setsockopt(fd, level, name, &val as *const i32 as *const libc::c_void, 4);
    }
}

fn sockaddr_of(a: &SocketAddr) -> (libc::sockaddr_storage, libc::socklen_t) {
    let mut st: libc::sockaddr_storage = unsafe { std::mem::zeroed() };
    match a {
        SocketAddr::V4(v4) => {
            let sin = &mut st as *mut _ as *mut libc::sockaddr_in;
            unsafe {
                (*sin).sin_family = libc::AF_INET as u16;
                (*sin).sin_port = v4.port().to_be();
                (*sin).sin_addr.s_addr = u32::from_ne_bytes(v4.ip().octets());
            }
            (st, std::mem::size_of::<libc::sockaddr_in>() as u32)
        }
        SocketAddr::V6(v6) => {
            let sin = &mut st as *mut _ as *mut libc::sockaddr_in6;
            unsafe {
                (*sin).sin6_family = libc::AF_INET6 as u16;
                (*sin).sin6_port = v6.port().to_be();
                (*sin).sin6_addr.s6_addr = v6.ip().octets();
                (*sin).sin6_scope_id = v6.scope_id();
                (*sin).sin6_flowinfo = v6.flowinfo();
            }
            (st, std::mem::size_of::<libc::sockaddr_in6>() as u32)
        }
    }
}

fn getsockname(fd: RawFd) -> Option<SocketAddr> {
    let mut st: libc::sockaddr_storage = unsafe { std::mem::zeroed() };
    let mut l = std::mem::size_of::<libc::sockaddr_storage>() as libc::socklen_t;
    let rc = unsafe { libc::getsockname(fd, &mut st as *mut _ as *mut libc::sockaddr, &mut l) };
    if rc != 0 {
        return None;
    }
    match st.ss_family as i32 {
        libc::AF_INET => {
            let sin = unsafe { &*(&st as *const _ as *const libc::sockaddr_in) };
            Some(SocketAddr::new(
                IpAddr::V4(Ipv4Addr::from(sin.sin_addr.s_addr.to_ne_bytes())),
                u16::from_be(sin.sin_port),
            ))
        }
        libc::AF_INET6 => {
            let sin = unsafe { &*(&st as *const _ as *const libc::sockaddr_in6) };
            Some(SocketAddr::V6(std::net::SocketAddrV6::new(
                Ipv6Addr::from(sin.sin6_addr.s6_addr),
                u16::from_be(sin.sin6_port),
                sin.sin6_flowinfo,
                sin.sin6_scope_id,
            )))
        }
        _ => None,
    }
}

/// A real socket bound (when the environment allows) to `addr`.
struct Sock {
    fd: RawFd,
    udp: bool,
    cookie: u64,
    bound: bool,
}

fn make_socket(addr: &SocketAddr, udp: bool) -> Sock {
    let fam = if addr.is_ipv4() { libc::AF_INET } else { libc::AF_INET6 };
    let ty = if udp { libc::SOCK_DGRAM } else { libc::SOCK_STREAM };
    let mut fd = unsafe { libc::socket(fam, ty | libc::SOCK_CLOEXEC, 0) };
    let mut bound = false;
    if fd >= 0 {
        setopt(fd, libc::SOL_SOCKET, libc::SO_REUSEADDR, 1);
        setopt(fd, libc::SOL_SOCKET, libc::SO_REUSEPORT, 1);
        setopt(fd, libc::SOL_IP, libc::IP_FREEBIND, 1);
        if let IpAddr::V6(ip) = addr.ip() {
            // a v4-mapped address can only be bound on a dual-stack socket
            setopt(fd, libc::IPPROTO_IPV6, libc::IPV6_V6ONLY, ip.to_ipv4_mapped().is_none() as i32);
        }
        let (st, l) = sockaddr_of(addr);
        let rc = unsafe { libc::bind(fd, &st as *const _ as *const libc::sockaddr, l) };
        if rc == 0 {
            bound = udp || unsafe { libc::listen(fd, 16) } == 0;
        }
    } else {
        // no such address family here: any socket will do for the codec
        fd = unsafe { libc::socket(libc::AF_INET, ty | libc::SOCK_CLOEXEC, 0) };
    }
    assert!(fd >= 0, "cannot create a socket (fd limit?)");
    Sock { fd, udp, cookie: so_cookie(fd).unwrap_or(0), bound }
}

/// one `sendmsg` with the given bytes and an SCM_RIGHTS control message: what a
/// peer that does not go through `send_listeners` can put on the scm socket
fn raw_send(sock: RawFd, bytes: &[u8], fds: &[RawFd]) -> bool {
    unsafe {
        let mut iov = libc::iovec { iov_base: bytes.as_ptr() as *mut libc::c_void, iov_len: bytes.len() };
        let space = libc::CMSG_SPACE((fds.len() * 4) as u32) as usize;
        let mut ctl = vec![0u8; space.max(1)];
        let mut msg: libc::msghdr = std::mem::zeroed();
        msg.msg_iov = &mut iov;
        msg.msg_iovlen = 1;
        if !fds.is_empty() {
            msg.msg_control = ctl.as_mut_ptr() as *mut libc::c_void;
            msg.msg_controllen = space as _;
            let c = libc::CMSG_FIRSTHDR(&msg);
            (*c).cmsg_level = libc::SOL_SOCKET;
            (*c).cmsg_type = libc::SCM_RIGHTS;
            (*c).cmsg_len = libc::CMSG_LEN((fds.len() * 4) as u32) as _;
            std::ptr::copy_nonoverlapping(fds.as_ptr() as *const u8, libc::CMSG_DATA(c), fds.len() * 4);
        }
        libc::sendmsg(sock, &msg, 0) >= 0
    }
}

fn close(fd: RawFd) {
    unsafe {
        libc::close(fd);
    }
}

// ---------------------------------------------------------------- case ----

type Entry = (String, usize);

fn parse_list(field: &str, w: &str) -> Option<Vec<Entry>> {
    let (n, l) = w.split_once('=')?;
    if n != field {
        return None;
    }
    if l == "-" {
        return Some(vec![]);
    }
    l.split(',')
        .map(|e| {
            let (a, i) = e.rsplit_once('@')?;
            Some((a.to_string(), i.parse().ok()?))
        })
        .collect()
}

fn show_list(l: &[(String, String)]) -> String {
    if l.is_empty() {
        "-".into()
    } else {
        l.iter().map(|(a, i)| format!("{a}@{i}")).collect::<Vec<_>>().join(",")
    }
}

struct Case {
    tx: Option<ScmSocket>,
    rx: Option<ScmSocket>,
    socks: BTreeMap<usize, Sock>,
    /// latest received duplicate of socket `id` (what a relaying process would pass on)
    cur: HashMap<usize, RawFd>,
    /// what the last successful `send` carried: per protocol, (addr, id)
    in_flight: Option<[Vec<Entry>; 4]>,
    in_flight_bytes: usize,
    dirty: bool,
    /// a raw message (not from `send_listeners`) is in flight: the identity oracles do not apply
    raw_in_flight: bool,
}

impl Case {
    fn new() -> Case {
        Case { tx: None, rx: None, socks: BTreeMap::new(), cur: HashMap::new(), in_flight: None, in_flight_bytes: 0, dirty: false, raw_in_flight: false }
    }
    fn reset(&mut self) {
        for s in [self.tx.take(), self.rx.take()].into_iter().flatten() {
            close(s.fd);
        }
        for (_, fd) in self.cur.drain() {
            close(fd);
        }
        for (_, s) in std::mem::take(&mut self.socks) {
            close(s.fd);
        }
        self.in_flight = None;
        self.dirty = false;
        self.raw_in_flight = false;
    }
    fn open(&mut self) {
        self.reset();
        let (a, b) = UnixStream::pair().expect("unix stream pair");
        self.tx = Some(ScmSocket::new(a.into_raw_fd()).expect("scm tx"));
        let mut rx = ScmSocket::new(b.into_raw_fd()).expect("scm rx");
        rx.set_blocking(false).expect("non-blocking rx");
        self.rx = Some(rx);
    }
    /// fds in this process that are duplicates of our sockets but that nobody holds
    fn close_strays(&mut self) -> usize {
        let cookies: HashSet<u64> = self.socks.values().map(|s| s.cookie).collect();
        let held: HashSet<RawFd> = self.socks.values().map(|s| s.fd).chain(self.cur.values().cloned()).collect();
        let mut n = 0;
        let mut fds: Vec<RawFd> = vec![];
        if let Ok(rd) = std::fs::read_dir("/proc/self/fd") {
            for e in rd.flatten() {
                if let Some(fd) = e.file_name().to_str().and_then(|s| s.parse::<RawFd>().ok()) {
                    fds.push(fd);
                }
            }
        }
        for fd in fds {
            if held.contains(&fd) {
                continue;
            }
            if let Some(c) = so_cookie(fd) {
                if c != 0 && cookies.contains(&c) {
                    close(fd);
                    n += 1;
                }
            }
        }
        n
    }
}

impl Drop for Case {
    fn drop(&mut self) {
        self.reset();
    }
}

const PROTOS: [&str; 4] = ["http", "tls", "tcp", "udp"];

fn err_kind(e: &ScmSocketError) -> &'static str {
    match e {
        ScmSocketError::Send(_) => "send",
        ScmSocketError::Receive(_) => "receive",
        ScmSocketError::DecodeError(_) => "decode",
        ScmSocketError::ListenersCountInconsistent { .. } => "count",
        ScmSocketError::WrongSocketAddress { .. } => "addr",
        _ => "other",
    }
}

// ----------------------------------------------------------- generator ----

fn gen_addr(rng: &mut Rng, profile: u64) -> SocketAddr {
    match profile {
        // short v4
        0 => SocketAddr::new(IpAddr::V4(Ipv4Addr::new(127, 0, 0, rng.range(1, 9) as u8)), rng.range(1024, 9999) as u16),
        // long v4 (21 characters)
        1 => SocketAddr::new(
            IpAddr::V4(Ipv4Addr::new(127, rng.range(100, 255) as u8, rng.range(100, 255) as u8, rng.range(100, 254) as u8)),
            rng.range(10000, 65535) as u16,
        ),
        // any v4 loopback
        2 => SocketAddr::new(
            IpAddr::V4(Ipv4Addr::new(127, rng.below(256) as u8, rng.below(256) as u8, rng.range(1, 254) as u8)),
            rng.range(1024, 65535) as u16,
        ),
        // v6 loopback
        3 => SocketAddr::new(IpAddr::V6(Ipv6Addr::LOCALHOST), rng.range(1024, 65535) as u16),
        // full-length v6 (47 characters), bound through IP_FREEBIND
        4 => {
            let mut seg = [0u16; 8];
            for s in seg.iter_mut() {
                *s = rng.range(0x1000, 0xffff) as u16;
            }
            seg[0] = 0x2001;
            SocketAddr::new(IpAddr::V6(Ipv6Addr::from(seg)), rng.range(10000, 65535) as u16)
        }
        // v6 with zero runs (compressed form), v4-mapped
        5 => {
            let mut seg = [0u16; 8];
            seg[0] = 0xfd00;
            seg[7] = rng.range(1, 0xffff) as u16;
            if rng.chance(1, 2) {
                seg[3] = rng.range(1, 0xffff) as u16;
            }
            SocketAddr::new(IpAddr::V6(Ipv6Addr::from(seg)), rng.range(1, 65535) as u16)
        }
        _ => SocketAddr::new(
            IpAddr::V6(Ipv4Addr::new(127, 0, rng.below(256) as u8, rng.range(1, 254) as u8).to_ipv6_mapped()),
            rng.range(1024, 65535) as u16,
        ),
    }
}

fn gen_count(rng: &mut Rng) -> usize {
    let r = rng.below(100);
    (if r < 6 {
        0
    } else if r < 30 {
        rng.range(1, 10)
    } else if r < 55 {
        rng.range(10, 100)
    } else if r < 85 {
        rng.range(100, 200)
    } else if r < 93 {
        200
    } else if r < 97 {
        rng.range(201, 253)
    } else {
        rng.range(254, 270)
    }) as usize
}

fn send_line(lists: &[Vec<Entry>; 4]) -> String {
    let mut s = String::from("send");
    for (p, l) in PROTOS.iter().zip(lists.iter()) {
        let l2: Vec<(String, String)> = l.iter().map(|(a, i)| (a.clone(), i.to_string())).collect();
        s.push_str(&format!(" {p}={}", show_list(&l2)));
    }
    s
}

impl Area for Scm {
    fn name(&self) -> &'static str {
        "scm"
    }
    fn rule(&self) -> String {
        "hand-over cases over one unix stream pair (8% raw peers: a hand-written scm message whose manifest, descriptor count and address texts need not agree - more addresses than descriptors, unparsable addresses, surplus descriptors); 1-3 rounds of send_listeners/receive_listeners with 0..270 real sockets (TCP listeners in http/tls/tcp, UDP sockets in udp; v4 short/long/any loopback, v6 loopback, full-length v6, compressed v6, v4-mapped; SO_REUSEPORT duplicates of one address; later rounds re-send the *received* descriptors like the worker->main->new-worker chain), a drain after every failed receive, receive on an empty socket; non-trivial = a round carried >= 2 listeners; distinct = distinct op sequence".into()
    }
    fn cases(&self, thorough: bool) -> u64 {
        if thorough {
            24_000
        } else {
            1_500
        }
    }
    fn corpus(&self) -> Vec<Vec<String>> {
        let mut out = vec![];
        // F18 witness: 200 TCP listeners with 19-character addresses (Props.lean: C10_capacity_counterexample)
        // witnesses of finding F18 (repaired by fd7301c): with the former 4096-byte buffer, 21 bytes per
        // entry -> 195 listeners overflowed, 194 fitted; full-length v6 (49 bytes per entry) -> 84
        // overflowed, 83 fitted. Kind 3: MAX_FDS_OUT listeners on the longest address text there is (58 bytes).
        for (n, kind) in [(200usize, 1), (195, 1), (194, 1), (100, 1), (200, 0), (84, 2), (83, 2), (200, 2), (200, 3)] {
            let l: Vec<Entry> = (0..n)
                .map(|i| {
                    let a = match kind {
                        1 => format!("127.100.{}.{}:{}", 10 + i / 50, 10 + i % 50, 10000 + i),
                        0 => format!("127.0.0.{}:{}", 1 + i % 9, 1024 + i),
                        2 => format!("[2001:1db8:1111:2222:3333:4444:5555:{:x}]:{}", 0x1000 + i, 10000 + i),
                        _ => format!("[2001:1db8:1111:2222:3333:4444:5555:{:x}%4294967295]:65535", 0x1000 + i),
                    };
                    (a, i)
                })
                .collect();
            out.push(vec!["new".to_string(), send_line(&[vec![], vec![], l, vec![]]), "recv".into(), "drain".into()]);
        }
        // raw peers: more addresses than descriptors, an address that does not parse, surplus descriptors
        out.push(vec!["new".into(), "sendraw http=127.0.0.1:80,127.0.0.2:80,127.0.0.3:80 tls=- tcp=- udp=- fds=-".into(), "recv".into(), "drain".into()]);
        out.push(vec!["new".into(), "sendraw http=127.0.0.1:80 tls=- tcp=bad-address udp=- fds=0,1".into(), "recv".into(), "drain".into()]);
        out.push(vec!["new".into(), "sendraw http=127.0.0.1:80 tls=- tcp=- udp=127.0.0.9:53 fds=0,1,2,3".into(), "recv".into(), "drain".into()]);
        out.push(vec!["new".into(), "recv".into(), send_line(&[vec![], vec![], vec![], vec![]]), "recv".into(), "recv".into()]);
        out
    }
    fn gen(&self, rng: &mut Rng, _thorough: bool) -> Vec<String> {
        let mut ops = vec!["new".to_string()];
        if rng.chance(1, 12) {
            // a peer that writes the scm message itself: manifest and descriptors need not agree,
            // addresses need not parse (the guards of receive_listeners before it indexes the fd array)
            let n = *rng.pick(&[0u64, 1, 2, 3, 5, 20, 199, 200, 201]) as usize;
            let mut lists: [Vec<String>; 4] = Default::default();
            let bad = rng.chance(1, 3);
            let bad_at = rng.below(n.max(1) as u64) as usize;
            for i in 0..n {
                let a = if bad && i == bad_at { format!("bad{i}") } else { format!("10.{}.{}.1:{}", i / 250, i % 250, 1000 + i) };
                lists[rng.below(4) as usize].push(a);
            }
            let k = match rng.below(6) {
                0 => 0,
                1 => n.saturating_sub(1),
                2 => n + 2,
                3 => n / 2,
                _ => n,
            }
            .min(240);
            let show = |l: &Vec<String>| if l.is_empty() { "-".to_string() } else { l.join(",") };
            let fds = if k == 0 { "-".to_string() } else { (0..k).map(|i| i.to_string()).collect::<Vec<_>>().join(",") };
            ops.push(format!("sendraw http={} tls={} tcp={} udp={} fds={fds}", show(&lists[0]), show(&lists[1]), show(&lists[2]), show(&lists[3])));
            ops.push("recv".into());
            ops.push("drain".into());
            return ops;
        }
        let n = gen_count(rng);
        // address profile of the case: uniform or mixed
        let prof = rng.below(9);
        let mut addrs: Vec<(SocketAddr, bool)> = vec![]; // (addr, is_udp) of socket id = index
        let udp_share = *rng.pick(&[0u64, 0, 10, 30, 100]);
        for _ in 0..n {
            let p = if prof < 7 { prof } else { rng.below(7) };
            let a = if !addrs.is_empty() && rng.chance(1, 15) { rng.pick(&addrs).0 } else { gen_addr(rng, p) };
            addrs.push((a, rng.below(100) < udp_share));
        }
        let proto_mix = rng.below(4); // 0: all tcp, 1: all http, 2..: mixed
        let proto_of = |rng: &mut Rng, udp: bool| -> usize {
            if udp {
                3
            } else {
                match proto_mix {
                    0 => 2,
                    1 => 0,
                    _ => rng.below(3) as usize,
                }
            }
        };
        let assignment: Vec<usize> = addrs.iter().map(|(_, u)| proto_of(rng, *u)).collect();
        let rounds = if n > 200 { 1 } else { rng.range(1, 3) };
        for r in 0..rounds {
            if rng.chance(1, 12) {
                ops.push("recv".into()); // nothing in flight
            }
            let mut ids: Vec<usize> = (0..n).collect();
            if r > 0 && rng.chance(1, 2) {
                // a later hand-over carries a subset, in another order
                rng.shuffle(&mut ids);
                let keep = rng.range(0, n as u64) as usize;
                ids.truncate(keep);
            } else if rng.chance(1, 4) {
                rng.shuffle(&mut ids);
            }
            let mut lists: [Vec<Entry>; 4] = Default::default();
            for i in ids {
                lists[assignment[i]].push((addrs[i].0.to_string(), i));
            }
            ops.push(send_line(&lists));
            ops.push("recv".into());
            // a failed receive leaves bytes and descriptors behind
            let bytes = ListenersCount {
                http: lists[0].iter().map(|e| e.0.clone()).collect(),
                tls: lists[1].iter().map(|e| e.0.clone()).collect(),
                tcp: lists[2].iter().map(|e| e.0.clone()).collect(),
                udp: lists[3].iter().map(|e| e.0.clone()).collect(),
            }
            .encode_length_delimited_to_vec()
            .len();
            let cnt: usize = lists.iter().map(|l| l.len()).sum();
            if bytes > MAX_BYTES_OUT || cnt > MAX_FDS_OUT || rng.chance(1, 10) {
                ops.push("drain".into());
            }
        }
        ops
    }
    fn run_impl(&self, ops: &[String]) -> ImplRun {
        let mut r = ImplRun::default();
        let mut c = Case::new();
        for op in ops {
            let w: Vec<&str> = op.split_whitespace().collect();
            match w.first().copied().unwrap_or("") {
                "new" if w.len() == 1 => {
                    c.open();
                    r.out.push("new".into());
                }
                "send" if w.len() == 5 => {
                    let parsed: Option<Vec<Vec<Entry>>> = (0..4).map(|k| parse_list(PROTOS[k], w[k + 1])).collect();
                    let Some(parsed) = parsed else {
                        r.out.push("bad-op".into());
                        continue;
                    };
                    let Some(tx) = c.tx.clone() else {
                        r.out.push("bad-op".into());
                        continue;
                    };
                    if c.dirty || c.in_flight.is_some() {
                        r.out.push("unmodelled".into());
                        continue;
                    }
                    let lists: [Vec<Entry>; 4] = [parsed[0].clone(), parsed[1].clone(), parsed[2].clone(), parsed[3].clone()];
                    // materialise the sockets
                    let mut bad_addr = false;
                    let mut ls = Listeners::default();
                    for (k, l) in lists.iter().enumerate() {
                        for (a, id) in l {
                            let Ok(addr) = a.parse::<SocketAddr>() else {
                                bad_addr = true;
                                continue;
                            };
                            let s = c.socks.entry(*id).or_insert_with(|| make_socket(&addr, k == 3));
                            if !s.bound {
                                r.tags.push("socket-not-bound".into());
                            }
                            let fd = c.cur.get(id).cloned().unwrap_or(s.fd);
                            let dst = match k {
                                0 => &mut ls.http,
                                1 => &mut ls.tls,
                                2 => &mut ls.tcp,
                                _ => &mut ls.udp,
                            };
                            dst.push((addr, fd));
                        }
                    }
                    if bad_addr {
                        r.out.push("bad-op".into());
                        continue;
                    }
                    let count: usize = lists.iter().map(|l| l.len()).sum();
                    let bytes = ListenersCount {
                        http: ls.http.iter().map(|t| t.0.to_string()).collect(),
                        tls: ls.tls.iter().map(|t| t.0.to_string()).collect(),
                        tcp: ls.tcp.iter().map(|t| t.0.to_string()).collect(),
                        udp: ls.udp.iter().map(|t| t.0.to_string()).collect(),
                    }
                    .encode_length_delimited_to_vec()
                    .len();
                    r.tags.push(format!("send:n={}", match count { 0 => "0", 1..=9 => "1-9", 10..=99 => "10-99", 100..=199 => "100-199", 200 => "200", _ => ">200" }));
                    r.tags.push(format!("send:bytes{}", if bytes > MAX_BYTES_OUT { ">MAX_BYTES_OUT" } else { "<=MAX_BYTES_OUT" }));
                    for (k, l) in lists.iter().enumerate() {
                        if !l.is_empty() {
                            r.tags.push(format!("proto:{}", PROTOS[k]));
                        }
                        for (a, _) in l {
                            r.tags.push(if a.starts_with('[') { "addr:v6".to_string() } else { "addr:v4".into() });
                        }
                    }
                    if count >= 2 {
                        r.nontrivial = true;
                    }
                    match tx.send_listeners(&ls) {
                        Ok(()) => {
                            c.in_flight = Some(lists);
                            c.in_flight_bytes = bytes;
                            r.out.push(format!("ok bytes={bytes} fds={count}"));
                        }
                        Err(e) => {
                            r.tags.push(format!("send-err:{}", err_kind(&e)));
                            if count <= 200 {
                                r.oracle.push(("handover-send-failed".into(), format!("{count} listeners: {e}")));
                            }
                            r.out.push(format!("err {}", err_kind(&e)));
                        }
                    }
                }
                "sendraw" if w.len() == 6 => {
                    let lists: Option<Vec<Vec<String>>> = (0..4)
                        .map(|k| {
                            let (n, l) = w[k + 1].split_once('=')?;
                            if n != PROTOS[k] {
                                return None;
                            }
                            Some(if l == "-" { vec![] } else { l.split(',').map(|x| x.to_string()).collect() })
                        })
                        .collect();
                    let ids: Option<Vec<usize>> = w[5].strip_prefix("fds=").and_then(|l| if l == "-" { Some(vec![]) } else { l.split(',').map(|x| x.parse().ok()).collect() });
                    let (Some(lists), Some(ids), Some(tx)) = (lists, ids, c.tx.clone()) else {
                        r.out.push("bad-op".into());
                        continue;
                    };
                    if c.dirty || c.in_flight.is_some() || c.raw_in_flight {
                        r.out.push("unmodelled".into());
                        continue;
                    }
                    let any: SocketAddr = "127.0.0.1:0".parse().unwrap();
                    let mut fds = vec![];
                    for id in &ids {
                        let s = c.socks.entry(*id).or_insert_with(|| {
                            let mut s = make_socket(&any, false);
                            s.bound = false; // bound to a port of the kernel's choice, not to a manifest address
                            s
                        });
                        fds.push(c.cur.get(id).cloned().unwrap_or(s.fd));
                    }
                    let bytes = ListenersCount { http: lists[0].clone(), tls: lists[1].clone(), tcp: lists[2].clone(), udp: lists[3].clone() }.encode_length_delimited_to_vec();
                    r.tags.push("send:raw".into());
                    r.nontrivial = true;
                    if raw_send(tx.fd, &bytes, &fds) {
                        c.raw_in_flight = true;
                        c.in_flight_bytes = bytes.len();
                        r.out.push(format!("ok bytes={} fds={}", bytes.len(), fds.len()));
                    } else {
                        r.tags.push("send-err:raw".into());
                        r.out.push("err send".into());
                    }
                }
                "recv" if w.len() == 1 => {
                    let Some(rx) = c.rx.clone() else {
                        r.out.push("bad-op".into());
                        continue;
                    };
                    if c.dirty {
                        r.out.push("unmodelled".into());
                        continue;
                    }
                    let sent = c.in_flight.take();
                    let raw = std::mem::take(&mut c.raw_in_flight);
                    let res = rx.receive_listeners();
                    let by_cookie: HashMap<u64, usize> = c.socks.iter().map(|(i, s)| (s.cookie, *i)).collect();
                    match res {
                        Ok(got) => {
                            r.tags.push("recv:ok".into());
                            let lists = [&got.http, &got.tls, &got.tcp, &got.udp];
                            let mut line = String::from("ok");
                            let mut got_ids: [Vec<Entry>; 4] = Default::default();
                            for (k, l) in lists.iter().enumerate() {
                                let mut shown = vec![];
                                for (addr, fd) in l.iter() {
                                    let id = so_cookie(*fd).and_then(|ck| by_cookie.get(&ck).cloned());
                                    match id {
                                        Some(id) => {
                                            let s = &c.socks[&id];
                                            // ---- oracle: the descriptor is the listener of that address
                                            // (a scope id on a global address is not kept by the kernel)
                                            let same = getsockname(*fd).map(|g| g.ip() == addr.ip() && g.port() == addr.port()).unwrap_or(false);
                                            if s.bound && !same && !raw {
                                                r.oracle.push(("listener-fd-mispaired".into(), format!("{} {addr} came with a descriptor bound to {:?}", PROTOS[k], getsockname(*fd))));
                                            }
                                            let want_ty = if s.udp { libc::SOCK_DGRAM } else { libc::SOCK_STREAM };
                                            if !raw && (so_type(*fd) != want_ty || (k == 3) != s.udp) {
                                                r.oracle.push(("listener-fd-mispaired".into(), format!("{} {addr}: wrong socket type", PROTOS[k])));
                                            }
                                            if let Some(old) = c.cur.insert(id, *fd) {
                                                if old != *fd {
                                                    close(old);
                                                }
                                            }
                                            got_ids[k].push((addr.to_string(), id));
                                            shown.push((addr.to_string(), id.to_string()));
                                        }
                                        None => {
                                            r.oracle.push(("listener-fd-mispaired".into(), format!("{} {addr} came with a descriptor that is none of the sockets sent", PROTOS[k])));
                                            shown.push((addr.to_string(), "?".into()));
                                        }
                                    }
                                }
                                line.push_str(&format!(" {}={}", PROTOS[k], show_list(&shown)));
                            }
                            // ---- oracle: exactly what was handed over arrives
                            match &sent {
                                Some(sent) if *sent != got_ids => {
                                    let ns: usize = sent.iter().map(|l| l.len()).sum();
                                    let ng: usize = got_ids.iter().map(|l| l.len()).sum();
                                    let class = if ng < ns { "listener-lost" } else { "listener-fd-mispaired" };
                                    r.oracle.push((class.into(), format!("sent {ns} listeners, received {ng}; lists differ")));
                                }
                                None if !raw && got_ids.iter().any(|l| !l.is_empty()) => {
                                    r.oracle.push(("listener-from-nowhere".into(), "listeners received although nothing was in flight".into()));
                                }
                                _ => {}
                            }
                            r.out.push(line);
                        }
                        Err(e) => {
                            let k = err_kind(&e);
                            r.tags.push(format!("recv-err:{k}"));
                            if raw {
                                c.dirty = true;
                            }
                            if let Some(sent) = &sent {
                                c.dirty = true;
                                let n: usize = sent.iter().map(|l| l.len()).sum();
                                if n <= 200 {
                                    // the property: any set up to the documented fd limit is handed over
                                    let class = if c.in_flight_bytes > MAX_BYTES_OUT && k == "decode" {
                                        "manifest-buffer-too-small"
                                    } else {
                                        "handover-failed"
                                    };
                                    r.oracle.push((class.into(), format!("{n} listeners, manifest of {} bytes: {e}", c.in_flight_bytes)));
                                }
                            }
                            r.out.push(format!("err {k}"));
                        }
                    }
                }
                "drain" if w.len() == 1 => {
                    let Some(rx) = c.rx.clone() else {
                        r.out.push("bad-op".into());
                        continue;
                    };
                    let mut total = 0usize;
                    let mut buf = vec![0u8; 65536];
                    loop {
                        let n = unsafe { libc::recv(rx.fd, buf.as_mut_ptr() as *mut libc::c_void, buf.len(), libc::MSG_DONTWAIT) };
                        if n <= 0 {
                            break;
                        }
                        total += n as usize;
                    }
                    let strays = c.close_strays();
                    c.in_flight = None;
                    c.dirty = false;
                    r.tags.push(if total > 0 { "drain:leftover-bytes".to_string() } else { "drain:clean".into() });
                    r.out.push(format!("drained bytes={total} fds={strays}"));
                }
                _ => r.out.push("bad-op".into()),
            }
        }
        // every case ends with nothing stray
        let _ = c.close_strays();
        let set: std::collections::BTreeSet<String> = r.tags.drain(..).collect();
        r.tags = set.into_iter().collect();
        r
    }
    fn classify_mismatch(&self, _ops: &[String], _i: &[String], _m: &[String]) -> String {
        "scm-model-mismatch".into()
    }
}

fn main() {
    std::panic::set_hook(Box::new(|_| {}));
    let args = parse_args();
    std::process::exit(run_area(&Scm, &args));
}
