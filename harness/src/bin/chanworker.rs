//! C11, the channel's *user* on the worker side (`lib/src/server.rs`:
//! `read_channel_messages_and_notify`, the response `QUEUE`, `send_queue`).
//!
//! A real `Server` runs in a thread on a command `Channel` whose peer end is a
//! raw unix socket owned by the harness (own framing: 8-byte LE length + prost,
//! independent of `Channel`), so the harness decides when to read: request
//! bursts pile up answers behind a minimal `SO_SNDBUF`, which forces partial
//! writes, remainders in the back buffer and `write_message` refusals
//! (remainder + frame > max_buffer_size) in `send_queue`.
//!
//! Model: the FIFO spec `Sozu.Channel.wstep` (ids of unanswered requests); the
//! driver prints what a `wread k` must return. Oracles (model-independent):
//! every request answered exactly once, in request order, id and content
//! intact, worker alive and answering at the end.
use std::collections::{HashMap, HashSet, VecDeque};
use std::io::{Read, Write};
use std::os::unix::io::{AsRawFd, FromRawFd, IntoRawFd};
use std::os::unix::net::UnixStream;
use std::panic::{catch_unwind, AssertUnwindSafe};
use std::sync::{Arc, Mutex};
use std::time::{Duration, Instant};

use mio::net::UnixStream as MioUnixStream;
use prost::Message;
use sozu_command_lib::channel::Channel;
use sozu_command_lib::config::{ConfigBuilder, FileConfig};
use sozu_command_lib::proto::command::{
    request::RequestType, response_content::ContentType, HardStop, QueryMaxConnectionsPerIp, Request,
    ResponseStatus, ServerConfig, SoftStop, Status, WorkerRequest, WorkerResponse,
};
use sozu_command_lib::scm_socket::{Listeners, ScmSocket};
use sozu_command_lib::state::ConfigState;
use sozu_lib::server::Server;
use verif_harness::rig::{quiet_logs_silently, silence_worker_panics};
use verif_harness::*;

/// A liveness verdict (stalled / wedged) is only given after a generous, polled
/// deadline *and* a confirming second probe, so a worker thread starved by a
/// loaded machine is not mistaken for a wedged one. Once such a failure has been
/// confirmed in this process, the re-runs of the shrinker use the short window
/// (they only have to reproduce what was already established).
static CONFIRMED: std::sync::atomic::AtomicBool = std::sync::atomic::AtomicBool::new(false);

fn silence_window() -> Duration {
    if CONFIRMED.load(std::sync::atomic::Ordering::Relaxed) {
        Duration::from_millis(1500)
    } else {
        Duration::from_secs(6)
    }
}

struct W {
    sock: UnixStream,
    thread: Option<std::thread::JoinHandle<()>>,
    exit: Arc<Mutex<Option<Option<String>>>>,
    scm_fds: (i32, i32),
    rx: Vec<u8>,
    max: usize,
    ids: HashMap<String, u64>,
    outstanding: VecDeque<u64>,
    answered: HashSet<u64>,
    idlen: HashMap<u64, usize>,
    unanswerable: Vec<u64>,
    partial_frames: bool,
    /// seq of a SoftStop that was sent (the worker is expected to exit after answering it)
    soft: Option<u64>,
    /// this case already has a liveness verdict: later reads do not wait again
    liveness_failed: bool,
    barriers: u64,
}

fn make_id(seq: u64, len: usize) -> String {
    let mut s = format!("{seq}:");
    let mut x = seq.wrapping_mul(0x9E37_79B9_7F4A_7C15) | 1;
    while s.len() < len {
        x ^= x << 13;
        x ^= x >> 7;
        x ^= x << 17;
        s.push((b'a' + (x % 26) as u8) as char);
    }
    s
}

fn frame(m: &impl Message) -> Vec<u8> {
    let p = m.encode_to_vec();
    let mut f = (p.len() + 8).to_le_bytes().to_vec();
    f.extend_from_slice(&p);
    f
}

impl W {
    fn start(buf: u64, max: u64, sndbuf: i32) -> Result<W, String> {
        quiet_logs_silently();
        let config = ConfigBuilder::new(FileConfig::default(), "").into_config().map_err(|e| format!("into_config: {e}"))?;
        let mut server_config = ServerConfig::from(&config);
        server_config.command_buffer_size = buf;
        server_config.max_command_buffer_size = max;
        let (ws, hs) = MioUnixStream::pair().map_err(|e| e.to_string())?;
        if sndbuf > 0 {
            unsafe {
                libc::setsockopt(ws.as_raw_fd(), libc::SOL_SOCKET, libc::SO_SNDBUF, &sndbuf as *const _ as *const libc::c_void, 4);
            }
        }
        let cmd_worker: Channel<WorkerResponse, WorkerRequest> = Channel::new(ws, buf, max);
        let sock = unsafe { UnixStream::from_raw_fd(hs.into_raw_fd()) };
        sock.set_nonblocking(false).map_err(|e| e.to_string())?;
        sock.set_write_timeout(Some(Duration::from_secs(10))).map_err(|e| e.to_string())?;
        let (scm_a, scm_b) = UnixStream::pair().map_err(|e| e.to_string())?;
        let (fa, fb) = (scm_a.into_raw_fd(), scm_b.into_raw_fd());
        let scm_main = ScmSocket::new(fa).map_err(|e| format!("scm: {e}"))?;
        let scm_worker = ScmSocket::new(fb).map_err(|e| format!("scm: {e}"))?;
        scm_main.send_listeners(&Listeners::default()).map_err(|e| format!("send_listeners: {e}"))?;
        let exit = Arc::new(Mutex::new(None));
        let exit_t = exit.clone();
        let (tx, rx) = std::sync::mpsc::channel::<Result<(), String>>();
        let thread = std::thread::Builder::new()
            .name("rig-worker-chan".into())
            .stack_size(8 << 20)
            .spawn(move || {
                // debugging aid: CW_LOG=<file> [CW_LOG_LEVEL=trace] turns the worker's own logs on
                match std::env::var("CW_LOG") {
                    Ok(path) => {
                        let level = std::env::var("CW_LOG_LEVEL").unwrap_or_else(|_| "trace".into());
                        let _ = sozu_command_lib::logging::setup_logging(&format!("file://{path}"), false, None, None, None, &level, "CW");
                    }
                    Err(_) => quiet_logs_silently(),
                }
                let r = catch_unwind(AssertUnwindSafe(|| {
                    match Server::try_new_from_config(cmd_worker, scm_worker, server_config, ConfigState::new().produce_initial_state(), false) {
                        Ok(mut server) => {
                            let _ = tx.send(Ok(()));
                            server.run();
                            None
                        }
                        Err(e) => {
                            let _ = tx.send(Err(format!("{e}")));
                            Some(format!("try_new_from_config: {e}"))
                        }
                    }
                }));
                let state = match r {
                    Ok(s) => s,
                    Err(p) => Some(p.downcast_ref::<String>().cloned().or_else(|| p.downcast_ref::<&str>().map(|s| s.to_string())).unwrap_or_else(|| "panic".into())),
                };
                *exit_t.lock().unwrap_or_else(|e| e.into_inner()) = Some(state);
            })
            .map_err(|e| e.to_string())?;
        match rx.recv_timeout(Duration::from_secs(10)) {
            Ok(Ok(())) => {}
            Ok(Err(e)) => return Err(e),
            Err(_) => return Err("worker did not come up".into()),
        }
        Ok(W {
            sock,
            thread: Some(thread),
            exit,
            scm_fds: (fa, fb),
            rx: vec![],
            max: max.max(buf) as usize,
            ids: HashMap::new(),
            outstanding: VecDeque::new(),
            answered: HashSet::new(),
            idlen: HashMap::new(),
            unanswerable: vec![],
            partial_frames: false,
            soft: None,
            liveness_failed: false,
            barriers: 0,
        })
    }

    fn dead(&self) -> Option<Option<String>> {
        self.exit.lock().unwrap_or_else(|e| e.into_inner()).clone()
    }

    fn send(&mut self, req: &WorkerRequest) -> bool {
        self.sock.write_all(&frame(req)).is_ok()
    }

    /// next complete frame of the raw stream, waiting until `deadline`
    fn next_frame(&mut self, deadline: Instant, oracle: &mut Vec<(String, String)>) -> Option<WorkerResponse> {
        self.next_frame_within(deadline, silence_window(), oracle)
    }

    /// next complete frame; gives up at `deadline` or after `silence` without a single byte
    /// (quiescence of the channel), whichever comes first: no wait is unbounded
    fn next_frame_within(&mut self, deadline: Instant, silence: Duration, oracle: &mut Vec<(String, String)>) -> Option<WorkerResponse> {
        let mut last_byte = Instant::now();
        loop {
            if self.rx.len() >= 8 {
                let l = usize::from_le_bytes(self.rx[..8].try_into().unwrap());
                if l < 8 || l > self.max {
                    oracle.push(("worker-response-corrupted".into(), format!("frame with declared length {l} (ceiling {})", self.max)));
                    self.rx.clear();
                    return None;
                }
                if self.rx.len() >= l {
                    let f: Vec<u8> = self.rx.drain(..l).collect();
                    match WorkerResponse::decode(&f[8..]) {
                        Ok(m) => return Some(m),
                        Err(e) => {
                            oracle.push(("worker-response-corrupted".into(), format!("undecodable response frame of {l} B: {e}")));
                            return None;
                        }
                    }
                }
                self.partial_frames = true;
            }
            let left = deadline.saturating_duration_since(Instant::now());
            if left.is_zero() || last_byte.elapsed() > silence {
                return None;
            }
            let _ = self.sock.set_read_timeout(Some(left.min(Duration::from_millis(100)).max(Duration::from_millis(1))));
            let mut tmp = [0u8; 65536];
            match self.sock.read(&mut tmp) {
                Ok(0) => return None,
                Ok(n) => {
                    last_byte = Instant::now();
                    self.rx.extend_from_slice(&tmp[..n]);
                }
                Err(_) => {
                    if self.dead().is_some() {
                        return None;
                    }
                }
            }
        }
    }

    /// property oracle on one final answer
    fn account(&mut self, m: &WorkerResponse, oracle: &mut Vec<(String, String)>) -> String {
        let short = |s: &str| s.chars().take(24).collect::<String>();
        let Some(&seq) = self.ids.get(&m.id) else {
            oracle.push(("worker-response-corrupted".into(), format!("answer carries an id nobody sent ({} B): {}..", m.id.len(), short(&m.id))));
            return "?".into();
        };
        let ok = m.status == ResponseStatus::Ok as i32
            && (self.soft == Some(seq) || matches!(m.content.as_ref().and_then(|c| c.content_type.as_ref()), Some(ContentType::MaxConnectionsPerIpLimit(_))));
        if !ok {
            oracle.push(("worker-response-corrupted".into(), format!("answer to request {seq} has status {} / unexpected content", m.status)));
        }
        if !self.answered.insert(seq) {
            oracle.push(("worker-response-duplicated".into(), format!("request {seq} answered twice")));
            return seq.to_string();
        }
        match self.outstanding.front() {
            Some(&h) if h == seq => {
                self.outstanding.pop_front();
            }
            Some(&h) => {
                oracle.push((
                    "worker-responses-out-of-order".into(),
                    format!("answer to request {seq} arrived while request {h} (sent earlier) is still unanswered"),
                ));
                self.outstanding.retain(|x| *x != seq);
            }
            None => {}
        }
        seq.to_string()
    }

    fn read_finals(&mut self, k: usize, oracle: &mut Vec<(String, String)>) -> Vec<String> {
        let target = k.min(self.outstanding.len());
        let mut got = vec![];
        let confirmed = CONFIRMED.load(std::sync::atomic::Ordering::Relaxed);
        // 1. wait for the answers themselves: quiescence windows (the second is the confirmation);
        //    once this case has a liveness failure nothing more is awaited, and after a failure was
        //    confirmed in this process (shrinker re-runs) one short window is enough
        let (windows, silence) = if self.liveness_failed {
            (1, Duration::from_millis(30))
        } else if confirmed {
            (1, Duration::from_millis(100))
        } else {
            (2, Duration::from_secs(6))
        };
        for _ in 0..windows {
            let deadline = Instant::now() + Duration::from_secs(60);
            while got.len() < target {
                match self.next_frame_within(deadline, silence, oracle) {
                    Some(m) if m.id.starts_with("PROBE-") || m.status == ResponseStatus::Processing as i32 => continue,
                    Some(m) => got.push(self.account(&m, oracle)),
                    None => break,
                }
            }
            if got.len() >= target || self.dead().is_some() {
                break;
            }
        }
        if got.len() >= target || self.dead().is_some() || self.liveness_failed {
            return got;
        }
        // 2. the channel is quiet and answers are missing. Answers leave the worker in request
        //    order, so a barrier settles it without relying on time: a Status sent now is answered
        //    after everything asked before it - whatever is still missing then never comes.
        self.barriers += 1;
        let barrier_id = format!("PROBE-barrier-{}", self.barriers);
        let probe = WorkerRequest { id: barrier_id.clone(), content: Request { request_type: Some(RequestType::Status(Status {})) } };
        let before_barrier = got.len();
        let mut barrier_answered = false;
        if self.send(&probe) {
            let deadline = Instant::now() + Duration::from_secs(60);
            let wait = if confirmed { Duration::from_millis(1500) } else { Duration::from_secs(6) };
            loop {
                match self.next_frame_within(deadline, wait, oracle) {
                    Some(m) if m.id == barrier_id => {
                        if m.status != ResponseStatus::Processing as i32 {
                            barrier_answered = true;
                            break;
                        }
                    }
                    Some(m) if m.id.starts_with("PROBE-") || m.status == ResponseStatus::Processing as i32 => continue,
                    Some(m) => {
                        if got.len() < target {
                            got.push(self.account(&m, oracle));
                        } else {
                            let _ = self.account(&m, oracle);
                        }
                    }
                    None => break,
                }
            }
        }
        if got.len() < target && barrier_answered {
            oracle.push((
                "worker-response-never-arrives".into(),
                format!(
                    "{} answer(s) were due, {} arrived; a Status sent afterwards was answered, and answers leave the worker in request order: request {} (and {} more) will never be answered",
                    target, got.len(), self.outstanding.front().copied().unwrap_or(0), (target - got.len()).saturating_sub(1)
                ),
            ));
            CONFIRMED.store(true, std::sync::atomic::Ordering::Relaxed);
            self.liveness_failed = true;
        } else if got.len() > before_barrier && !confirmed {
            // the missing answers came only after the worker was prodded (two full windows of silence before)
            oracle.push((
                "worker-response-stalled".into(),
                format!("{} answer(s) were due, only {} arrived during two quiet windows of 6 s; the rest came after a further request woke the worker", target, before_barrier),
            ));
            CONFIRMED.store(true, std::sync::atomic::Ordering::Relaxed);
            self.liveness_failed = true;
        } else if got.len() < target {
            // neither the answers nor the barrier: `wstop` decides whether the worker is wedged
            self.liveness_failed = true;
        }
        got
    }

    fn stop(&mut self, oracle: &mut Vec<(String, String)>) -> String {
        // liveness: a Status request sent now must be answered
        let mut verdict = "alive";
        if self.soft.is_some() {
            // graceful stop: every answer (the SoftStop's last) must have arrived, then the thread ends
            let t0 = Instant::now();
            while self.dead().is_none() && t0.elapsed() < Duration::from_secs(6) {
                std::thread::sleep(Duration::from_millis(1));
            }
            // whatever is still in the socket now
            let deadline = Instant::now() + Duration::from_millis(200);
            while let Some(m) = self.next_frame(deadline, oracle) {
                if m.status != ResponseStatus::Processing as i32 && !m.id.starts_with("PROBE-") {
                    let _ = self.account(&m, oracle);
                }
            }
            match self.dead() {
                Some(None) => {
                    if !self.outstanding.is_empty() {
                        oracle.push((
                            "worker-softstop-drops-pending-responses".into(),
                            format!("the worker stopped gracefully but {} answer(s) never arrived (first unanswered: request {}; the SoftStop itself is request {})",
                                self.outstanding.len(), self.outstanding[0], self.soft.unwrap_or(0)),
                        ));
                    }
                    if let Some(t) = self.thread.take() {
                        let _ = t.join();
                    }
                    unsafe {
                        libc::close(self.scm_fds.0);
                        libc::close(self.scm_fds.1);
                    }
                    return format!("stopped left={}", self.outstanding.len());
                }
                Some(Some(msg)) => {
                    oracle.push(("worker-dead".into(), format!("worker thread panicked: {msg}")));
                    return format!("dead left={}", self.outstanding.len());
                }
                None => {
                    oracle.push(("worker-softstop-never-completes".into(), "no session is open but the worker is still running 6 s after SoftStop".into()));
                    // fall through to the liveness probes and the hard stop
                }
            }
        }
        if let Some(state) = self.dead() {
            oracle.push(("worker-dead".into(), format!("worker thread ended: {state:?}")));
            verdict = "dead";
        } else {
            let mut answered = false;
            // two probes, each with its own polled silence window
            for attempt in 0..2 {
                let probe = WorkerRequest { id: format!("PROBE-status-{attempt}"), content: Request { request_type: Some(RequestType::Status(Status {})) } };
                if !self.send(&probe) {
                    continue;
                }
                let deadline = Instant::now() + Duration::from_secs(60);
                loop {
                    match self.next_frame(deadline, oracle) {
                        Some(m) if m.id.starts_with("PROBE-status-") => {
                            if m.status != ResponseStatus::Processing as i32 {
                                answered = true;
                                break;
                            }
                        }
                        Some(m) => {
                            // anything else now is an answer the reads should have seen
                            let _ = self.account(&m, oracle);
                        }
                        None => break,
                    }
                }
                if answered || self.dead().is_some() {
                    break;
                }
            }
            if !answered {
                // fingerprint: a request was sent whose answer cannot fit the ceiling:
                // send_queue retries it for ever
                let over = !self.unanswerable.is_empty();
                let class = if over { "worker-wedged-after-over-ceiling-response" } else { "worker-wedged" };
                let w = silence_window();
                CONFIRMED.store(true, std::sync::atomic::Ordering::Relaxed);
                if std::env::var("CW_LOG").is_ok() {
                    let (mut inq, mut outq): (libc::c_int, libc::c_int) = (0, 0);
                    unsafe {
                        libc::ioctl(self.sock.as_raw_fd(), libc::FIONREAD, &mut inq);
                        libc::ioctl(self.sock.as_raw_fd(), libc::TIOCOUTQ, &mut outq);
                    }
                    if std::env::var("CW_HANG").is_ok() {
                        eprintln!("WEDGE-PID {}", std::process::id());
                        std::thread::sleep(Duration::from_secs(40));
                    }
                    eprintln!("WEDGE-DUMP harness rx buffered {} B, socket unread {} B, our unsent/unread-by-worker {} B", self.rx.len(), inq, outq);
                }
                oracle.push((class.into(), format!(
                    "the worker answered neither of two Status probes, each awaited for {w:?} ({} request(s) unanswered, oldest id {} B, ceiling {})",
                    self.outstanding.len(), self.outstanding.front().and_then(|s| self.idlen.get(s)).copied().unwrap_or(0), self.max)));
                verdict = "wedged";
            }
        }
        if !self.outstanding.is_empty() && verdict == "alive" {
            oracle.push((
                "worker-response-lost".into(),
                format!("{} request(s) never answered although the worker answers a later Status (first: {})", self.outstanding.len(), self.outstanding[0]),
            ));
        }
        let stop = WorkerRequest { id: "PROBE-stop".into(), content: Request { request_type: Some(RequestType::HardStop(HardStop {})) } };
        let _ = self.send(&stop);
        let t0 = Instant::now();
        let patience = if verdict == "alive" { Duration::from_secs(6) } else { Duration::from_millis(100) };
        while self.dead().is_none() && t0.elapsed() < patience {
            std::thread::sleep(Duration::from_millis(1));
        }
        if self.dead().is_some() {
            if let Some(t) = self.thread.take() {
                let _ = t.join();
            }
            unsafe {
                libc::close(self.scm_fds.0);
                libc::close(self.scm_fds.1);
            }
        } else {
            self.thread = None; // leaked (wedged)
        }
        format!("{verdict} left={}", self.outstanding.len())
    }
}

struct ChanWorker;

const CFGS: &[(u64, u64, i32)] = &[(4096, 16384, 1), (4096, 16384, 1), (1000, 2000, 1), (4096, 16384, 0), (16384, 65536, 1), (100, 1000, 1), (4096, 8192, 1)];

impl Area for ChanWorker {
    fn name(&self) -> &'static str {
        "chanworker"
    }
    fn rule(&self) -> String {
        "a real sozu Server thread on a command channel (buffer,max) in {(4096,16384),(1000,2000),(16384,65536),(100,1000),(4096,8192)} (+ (1e6,2e6) in thorough), minimal SO_SNDBUF on the worker's socket in 6 of 7 configs; QueryMaxConnectionsPerIp requests in bursts of 1..120 with id lengths from {8, small, around max/4, max/2, 60..95% of max, max-200} (frames always within the ceiling), the harness reading nothing, k answers, or everything between bursts; every case ends with a full read, a Status probe and HardStop; non-trivial = at least 10 answers and a response frame seen split across socket reads; distinct = distinct op sequence".into()
    }
    fn cases(&self, thorough: bool) -> u64 {
        if thorough {
            12000
        } else {
            1500
        }
    }
    fn corpus(&self) -> Vec<Vec<String>> {
        // the seeding demo: 300 requests with 9-15 kB ids, nothing read meanwhile, 4096/16384
        let mut demo = vec!["wstart 4096 16384 1".to_string()];
        for i in 0..300u64 {
            demo.push(format!("wreq {i} {}", 9000 + (i * 1237) % 6000));
        }
        demo.push("wread 100000".into());
        demo.push("wstop".into());
        // small ceiling, frames close to it
        let mut small = vec!["wstart 1000 2000 1".to_string()];
        for i in 0..120u64 {
            small.push(format!("wreq {i} {}", [1700u64, 900, 1800, 8, 1500, 1100][(i % 6) as usize]));
            if i % 50 == 49 {
                small.push("wread 7".into());
            }
        }
        small.push("wread 100000".into());
        small.push("wstop".into());
        // a request that fits the ceiling whose answer does not (id within ~20 bytes of max)
        let over = vec!["wstart 1000 2000 1".to_string(), "wreq 0 1980".into(), "wstop".into()];
        // the same with the worker left alone long enough to handle the request before the probe
        // arrives: the answer (and its failure notice) cannot fit and is dropped; the worker must
        // go back to polling instead of spinning on a WRITABLE interest with nothing to write
        let over_alone = vec!["wstart 1000 2000 1".to_string(), "wreq 0 1980".into(), "wpause 60".into(), "wstop".into()];
        {
            // graceful stop: idle worker, then with a backlog of unread answers behind a tiny SO_SNDBUF
            let soft_idle = vec!["wstart 4096 16384 1".to_string(), "wreq 0 100".into(), "wread 1".into(), "wsoft 1".into(), "wread 100000".into(), "wstop".into()];
            let mut soft_backlog = vec!["wstart 4096 16384 1".to_string()];
            for i in 0..40u64 {
                soft_backlog.push(format!("wreq {i} {}", 9000 + (i * 977) % 5000));
            }
            soft_backlog.push("wsoft 40".into());
            soft_backlog.push("wread 100000".into());
            soft_backlog.push("wstop".into());
            vec![demo, small, over, over_alone, soft_idle, soft_backlog]
        }
    }
    fn gen(&self, rng: &mut Rng, thorough: bool) -> Vec<String> {
        let (buf, max, snd) = if thorough && rng.chance(1, 25) { (1_000_000, 2_000_000, 1) } else { *rng.pick(CFGS) };
        let mut ops = vec![format!("wstart {buf} {max} {snd}")];
        let bursts = rng.range(1, 4);
        let mut seq = 0u64;
        let budget: u64 = if max >= 1_000_000 { 40_000_000 } else { 2_500_000 };
        let mut bytes = 0u64;
        for _ in 0..bursts {
            let n = rng.range(1, 120);
            let style = rng.below(4);
            for _ in 0..n {
                let hi = max - 200;
                let len = match style {
                    0 => rng.range(max * 6 / 10, max * 95 / 100),
                    1 => {
                        let (a, b) = (rng.range(8, 64), rng.range(max * 6 / 10, hi));
                        *rng.pick(&[8, a, max / 4, max / 2, b, hi])
                    }
                    2 => rng.range(8, 200),
                    _ => rng.range(8, hi),
                }
                .min(hi);
                if bytes + len > budget {
                    break;
                }
                bytes += len;
                ops.push(format!("wreq {seq} {len}"));
                seq += 1;
            }
            match rng.below(4) {
                0 => {}
                1 => ops.push(format!("wread {}", rng.range(1, 10))),
                2 => ops.push(format!("wread {}", rng.range(1, 200))),
                _ => ops.push("wread 100000".into()),
            }
        }
        ops.push("wread 100000".into());
        ops.push("wstop".into());
        ops
    }
    fn classify_mismatch(&self, ops: &[String], impl_out: &[String], _model_out: &[String]) -> String {
        // a wedged worker differs from the spec at `wstop`: same fingerprint as the oracle's
        let max = ops
            .first()
            .and_then(|o| {
                let w: Vec<&str> = o.split_whitespace().collect();
                Some(w.get(2)?.parse::<usize>().ok()?.max(w.get(1)?.parse::<usize>().ok()?))
            })
            .unwrap_or(0);
        let over = ops.iter().any(|o| {
            let w: Vec<&str> = o.split_whitespace().collect();
            w.first() == Some(&"wreq") && w.get(2).and_then(|l| l.parse::<usize>().ok()).is_some_and(|l| l + 32 > max)
        });
        if ops.iter().any(|o| o.starts_with("wsoft ")) && impl_out.iter().any(|l| l.starts_with("stopped")) {
            // the worker exited after a SoftStop with answers still unsent
            return "worker-softstop-drops-pending-responses".into();
        }
        // fewer answers than the spec demands although the worker is alive at the end
        let fewer = impl_out.iter().zip(_model_out.iter()).any(|(i, m)| {
            i.starts_with("got ") && m.starts_with("got ") && i != m && {
                let n = |l: &str| if l == "got -" { 0 } else { l.matches(',').count() + 1 };
                n(i) < n(m)
            }
        });
        if fewer && impl_out.iter().any(|l| l.starts_with("alive")) {
            return "worker-response-never-arrives".into();
        }
        if over && impl_out.iter().any(|l| l.starts_with("wedged")) {
            "worker-wedged-after-over-ceiling-response".into()
        } else {
            "model-mismatch".into()
        }
    }
    fn run_impl(&self, ops: &[String]) -> ImplRun {
        silence_worker_panics();
        let mut run = ImplRun::default();
        let mut w: Option<W> = None;
        let mut answers = 0usize;
        for op in ops {
            let ws: Vec<&str> = op.split_whitespace().collect();
            let line = match (ws.first().copied().unwrap_or(""), w.as_mut()) {
                ("wstart", _) if ws.len() == 4 => match (ws[1].parse::<u64>(), ws[2].parse::<u64>(), ws[3].parse::<i32>()) {
                    (Ok(b), Ok(m), Ok(s)) => match W::start(b, m, s) {
                        Ok(x) => {
                            w = Some(x);
                            run.tags.push(format!("cfg:{b}/{m}/snd{s}"));
                            "started".to_string()
                        }
                        Err(e) => {
                            run.oracle.push(("harness-worker-start".into(), e));
                            "start-failed".into()
                        }
                    },
                    _ => "bad-op".into(),
                },
                (_, None) => "bad-op".into(),
                ("wreq", Some(g)) if ws.len() == 3 => match (ws[1].parse::<u64>(), ws[2].parse::<usize>()) {
                    (Ok(seq), Ok(len)) => {
                        let id = make_id(seq, len);
                        let req = WorkerRequest { id: id.clone(), content: Request { request_type: Some(RequestType::QueryMaxConnectionsPerIp(QueryMaxConnectionsPerIp {})) } };
                        g.ids.insert(id, seq);
                        g.idlen.insert(seq, len);
                        if len + 32 <= g.max {
                            g.outstanding.push_back(seq);
                        } else {
                            // the answer cannot fit the channel's ceiling: no answer is demanded,
                            // but the worker must survive it
                            g.unanswerable.push(seq);
                            run.tags.push("request-with-unanswerable-id".into());
                        }
                        if !g.send(&req) {
                            run.oracle.push(("worker-not-reading".into(), format!("request {seq} could not be written within 10 s")));
                        }
                        "sent".into()
                    }
                    _ => "bad-op".into(),
                },
                ("wread", Some(g)) if ws.len() == 2 => match ws[1].parse::<usize>() {
                    Ok(k) => {
                        let got = g.read_finals(k, &mut run.oracle);
                        answers += got.len();
                        format!("got {}", if got.is_empty() { "-".into() } else { got.join(",") })
                    }
                    Err(_) => "bad-op".into(),
                },
                ("wsoft", Some(g)) if ws.len() == 2 => match ws[1].parse::<u64>() {
                    Ok(seq) => {
                        let id = format!("{seq}:soft");
                        let req = WorkerRequest { id: id.clone(), content: Request { request_type: Some(RequestType::SoftStop(SoftStop {})) } };
                        g.ids.insert(id, seq);
                        g.idlen.insert(seq, 8);
                        g.outstanding.push_back(seq);
                        g.soft = Some(seq);
                        let _ = g.send(&req);
                        "sent".into()
                    }
                    Err(_) => "bad-op".into(),
                },
                ("wpause", Some(_)) if ws.len() == 2 => {
                    std::thread::sleep(Duration::from_millis(ws[1].parse::<u64>().unwrap_or(0).min(1000)));
                    "paused".into()
                }
                ("wstop", Some(g)) if ws.len() == 1 => g.stop(&mut run.oracle),
                _ => "bad-op".into(),
            };
            run.tags.push(format!("op:{}", ws.first().copied().unwrap_or("")));
            run.out.push(line);
        }
        if let Some(g) = w.as_mut() {
            if g.thread.is_some() && g.dead().is_none() {
                // a shrunk case may lack `wstop`: never leave a worker running
                let mut ignore = vec![];
                let _ = g.stop(&mut ignore);
            }
            if g.partial_frames {
                run.tags.push("response-frame-split-across-reads".into());
            }
            run.nontrivial = answers >= 10 && g.partial_frames;
        }
        // answers that never arrive also show up as lost / overtaken: report the root class only
        if run.oracle.iter().any(|(c, _)| c == "worker-response-never-arrives") {
            run.oracle.retain(|(c, _)| !matches!(c.as_str(), "worker-response-lost" | "worker-responses-out-of-order" | "worker-response-stalled"));
        }
        // keep at most one hit per class per case
        let mut seen = HashSet::new();
        run.oracle.retain(|(c, _)| seen.insert(c.clone()));
        run
    }
}

fn main() {
    let args = parse_args();
    std::process::exit(run_area(&ChanWorker, &args));
}
