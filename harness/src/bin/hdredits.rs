//! C13, black-box: per-frontend request / response header edits and
//! `rewrite_host` / `rewrite_path` on a real sozu worker (rig). A raw HTTP/1.1
//! client sends requests carrying 0..3 copies (case variants, different
//! values) of every header the frontend's rules name and of the proxy-owned
//! headers; a recording backend's view of the request and the client's view of
//! the response are (a) judged by an independent reference of the documented
//! semantics and (b) compared with the Lean models `editRequest` +
//! `routerPass` / `editResponse` + `applyEdits` (driver ops `redit`).
use std::net::SocketAddr;
use std::time::Duration;

use sozu_command_lib::proto::command::{request::RequestType, Header, HeaderPosition};
use verif_harness::rig::*;
use verif_harness::*;

type Hdr = (Vec<u8>, Vec<u8>);
const T: Duration = Duration::from_millis(2500);

fn hl(l: &[Hdr]) -> String {
    if l.is_empty() {
        return "_".into();
    }
    l.iter().map(|(k, v)| format!("{}:{}", hex(k), hex(v))).collect::<Vec<_>>().join(",")
}
fn unhl(s: &str) -> Vec<Hdr> {
    if s == "_" {
        return vec![];
    }
    s.split(',')
        .map(|p| {
            let mut it = p.split(':');
            (unhex(it.next().unwrap_or("-")), unhex(it.next().unwrap_or("-")))
        })
        .collect()
}
fn opt(s: &str) -> Option<Vec<u8>> {
    if s == "~" {
        None
    } else {
        Some(unhex(s))
    }
}
fn eq_nc(a: &[u8], b: &[u8]) -> bool {
    a.eq_ignore_ascii_case(b)
}
fn lossy(b: &[u8]) -> String {
    String::from_utf8_lossy(b).into_owned()
}
fn show(l: &[Hdr]) -> String {
    l.iter().map(|(k, v)| format!("{}: {}", lossy(k), lossy(v))).collect::<Vec<_>>().join(" | ")
}
fn named<'a>(l: &'a [Hdr], n: &[u8]) -> Vec<&'a Hdr> {
    l.iter().filter(|(k, _)| eq_nc(k, n)).collect()
}
fn is_ulid(v: &[u8]) -> bool {
    v.len() == 26 && v.iter().all(|b| b.is_ascii_digit() || b.is_ascii_uppercase())
}

/// one op = one client request through one frontend configuration
struct Op {
    elide: bool,
    send: bool,
    sozu_id: Vec<u8>,
    rw_host: Option<Vec<u8>>,
    rw_path: Option<Vec<u8>>,
    req_edits: Vec<Hdr>,
    resp_edits: Vec<Hdr>,
    method: Vec<u8>,
    target: Vec<u8>,
    /// client header lines, in order (Host copies included)
    client: Vec<Hdr>,
    /// backend response header lines (a Content-Length: 0 is appended)
    resp: Vec<Hdr>,
}

impl Op {
    fn config_key(&self) -> String {
        format!("{} {} {} {:?} {:?} {} {}", self.elide, self.send, hex(&self.sozu_id), self.rw_host, self.rw_path, hl(&self.req_edits), hl(&self.resp_edits))
    }
    /// the protocol line: the context (with placeholders for the values only known at run time), the
    /// router configuration and the request / response as kawa's parser hands them to the editor
    fn line(&self) -> String {
        let o = |x: &Option<Vec<u8>>| x.as_ref().map(|v| hex(v)).unwrap_or_else(|| "~".into());
        let host = self.client.iter().find(|(k, _)| eq_nc(k, b"host")).map(|h| h.1.clone()).unwrap_or_default();
        let orig = if self.rw_host.is_some() { hex(host.split(|&b| b == b':').next().unwrap_or(&[])) } else { "~".into() };
        let fields: Vec<Hdr> = self.client.iter().filter(|(k, _)| !eq_nc(k, b"host")).cloned().collect();
        let ctx = format!(
            "0,{},{},0,{},{},0,{},{},{},{},{},{},~,~",
            hex(b"http"),
            hex(b"127.0.0.1"),
            hex(b"LPORT"),
            hex(b"127.0.0.1"),
            hex(b"PORT"),
            hex(b"SOZUBALANCEID"),
            hex(&self.sozu_id),
            hex(b"ID"),
            self.elide as u8,
            self.send as u8
        );
        format!(
            "redit {ctx} {} {orig} {} {} {} {} {} {} {} _ {}",
            o(&self.rw_host),
            o(&self.rw_path),
            hl(&self.req_edits),
            hl(&self.resp_edits),
            hex(&self.method),
            hex(&self.target),
            hex(&host),
            hl(&fields),
            hl(&self.resp)
        )
    }
    fn parse(w: &[&str]) -> Option<Op> {
        // redit ctx rwhost orig rwpath reqedits respedits method target host fields jar resp
        if w.len() != 13 {
            return None;
        }
        let c: Vec<&str> = w[1].split(',').collect();
        let host = unhex(w[9]);
        let mut client = vec![(b"Host".to_vec(), host)];
        client.extend(unhl(w[10]));
        Some(Op {
            elide: c.get(11) == Some(&"1"),
            send: c.get(12) == Some(&"1"),
            sozu_id: unhex(c.get(9)?),
            rw_host: opt(w[2]),
            rw_path: opt(w[4]),
            req_edits: unhl(w[5]),
            resp_edits: unhl(w[6]),
            method: unhex(w[7]),
            target: unhex(w[8]),
            client,
            resp: unhl(w[12]),
        })
    }
}

struct Rigged {
    key: String,
    worker: Worker,
    front: SocketAddr,
    backend: MockBackend,
}

fn setup(op: &Op) -> RigResult<Rigged> {
    let mut w = Worker::start(WorkerOpts::default())?;
    let (elide, send, sid) = (op.elide, op.send, lossy(&op.sozu_id));
    let front = w.add_http_listener_with(
        |_| {},
        move |c| {
            c.elide_x_real_ip = Some(elide);
            c.send_x_real_ip = Some(send);
            c.sozu_id_header = Some(sid);
        },
    )?;
    let backend = MockBackend::listen()?;
    w.add_cluster(cluster("c0"))?;
    let mut f = Worker::http_frontend(front, "localhost", "/", "c0");
    f.rewrite_host = op.rw_host.as_ref().map(|h| lossy(h));
    f.rewrite_path = op.rw_path.as_ref().map(|h| lossy(h));
    for (k, v) in &op.req_edits {
        f.headers.push(Header { position: HeaderPosition::Request as i32, key: lossy(k), val: lossy(v) });
    }
    for (k, v) in &op.resp_edits {
        f.headers.push(Header { position: HeaderPosition::Response as i32, key: lossy(k), val: lossy(v) });
    }
    w.request_ok(RequestType::AddHttpFrontend(f))?;
    w.add_backend("c0", "c0-0", backend.addr)?;
    Ok(Rigged { key: op.config_key(), worker: w, front, backend })
}

fn head_lines(bytes: &[u8]) -> Option<(Vec<u8>, Vec<Hdr>)> {
    let end = find(bytes, b"\r\n\r\n")?;
    let mut it = bytes[..end].split(|&b| b == b'\n').map(|l| l.strip_suffix(b"\r").unwrap_or(l));
    let first = it.next()?.to_vec();
    let mut out = vec![];
    for l in it {
        let i = l.iter().position(|&b| b == b':')?;
        let v = &l[i + 1..];
        let v = v.strip_prefix(b" ").unwrap_or(v);
        out.push((l[..i].to_vec(), v.to_vec()));
    }
    Some((first, out))
}

/// one request / response exchange: (request line + headers at the backend, headers at the client)
fn exchange(r: &mut Rigged, op: &Op) -> RigResult<(Vec<u8>, Vec<Hdr>, Vec<Hdr>)> {
    let mut c = RawConn::connect(r.front)?;
    let port = c.local_addr().map(|a| a.port()).unwrap_or(0);
    let mut req = [op.method.as_slice(), b" ", op.target.as_slice(), b" HTTP/1.1\r\n"].concat();
    for (k, v) in &op.client {
        req.extend_from_slice(&[k.as_slice(), b": ", v.as_slice(), b"\r\n"].concat());
    }
    req.extend_from_slice(b"\r\n");
    c.write_all(&req, T)?;
    let mut b = r.backend.accept(T)?;
    if b.read_until(b"\r\n\r\n", T) != ReadEnd::Done {
        return Err(RigError::Io("backend did not receive a request head".into()));
    }
    let (line, mut lines) = head_lines(&b.received).ok_or_else(|| RigError::Io("unreadable head at the backend".into()))?;
    let mut resp = b"HTTP/1.1 200 OK\r\n".to_vec();
    for (k, v) in &op.resp {
        resp.extend_from_slice(&[k.as_slice(), b": ", v.as_slice(), b"\r\n"].concat());
    }
    resp.extend_from_slice(b"Content-Length: 0\r\nConnection: close\r\n\r\n");
    b.write_all(&resp, T)?;
    if c.read_until(b"\r\n\r\n", T) != ReadEnd::Done {
        return Err(RigError::Io("client did not receive a response head".into()));
    }
    let (_, mut rlines) = head_lines(&c.received).ok_or_else(|| RigError::Io("unreadable head at the client".into()))?;
    b.close();
    c.close();
    // canonicalise the values only known at run time
    let lport = r.front.port().to_string().into_bytes();
    let pat = format!(":{port}\"").into_bytes();
    for (k, v) in lines.iter_mut() {
        if eq_nc(k, b"x-forwarded-port") && *v == lport {
            *v = b"LPORT".to_vec();
        }
        if (eq_nc(k, b"x-request-id") || eq_nc(k, &op.sozu_id)) && is_ulid(v) {
            *v = b"ID".to_vec();
        }
        if eq_nc(k, b"forwarded") {
            if let Some(i) = find(v, &pat) {
                let mut n = v[..i].to_vec();
                n.extend_from_slice(b":PORT\"");
                n.extend_from_slice(&v[i + pat.len()..]);
                *v = n;
            }
        }
    }
    for (k, v) in rlines.iter_mut() {
        if eq_nc(k, &op.sozu_id) && is_ulid(v) {
            *v = b"ID".to_vec();
        }
    }
    Ok((line, lines, rlines))
}

/// the documented semantics, judged on what the backend / the client really saw
fn reference(r: &mut ImplRun, op: &Op, line: &[u8], back: &[Hdr], client_resp: &[Hdr]) {
    let fail = |r: &mut ImplRun, c: &str, d: String| r.oracle.push((c.to_string(), d));
    let inserted: Vec<&Hdr> = op.req_edits.iter().filter(|(_, v)| !v.is_empty()).collect();
    // delete removes *all* copies; Append adds exactly one; (delete + set = replace)
    let mut names: Vec<Vec<u8>> = op.req_edits.iter().map(|(k, _)| k.to_ascii_lowercase()).collect();
    names.sort();
    names.dedup();
    for n in &names {
        if eq_nc(n, b"host") || eq_nc(n, b"x-forwarded-host") {
            continue; // judged with the rewrite below
        }
        let deleted = op.req_edits.iter().any(|(k, v)| eq_nc(k, n) && v.is_empty());
        let appended: Vec<Vec<u8>> = inserted.iter().filter(|(k, _)| eq_nc(k, n)).map(|h| h.1.clone()).collect();
        let got: Vec<Vec<u8>> = named(back, n).iter().map(|h| h.1.clone()).collect();
        if deleted {
            if got != appended {
                let class = if got.len() > appended.len() { "request-edit-leaves-duplicate" } else { "request-edit-wrong-values" };
                fail(r, class, format!("`{}` is deleted{} by the frontend but the backend saw {:?}", lossy(n), if appended.is_empty() { "" } else { " and set" }, got.iter().map(|v| lossy(v)).collect::<Vec<_>>()));
            }
        } else if !got.ends_with(&appended) {
            fail(r, "request-edit-append-missing", format!("`{}` appended values {:?} are not the last ones: {:?}", lossy(n), appended.iter().map(|v| lossy(v)).collect::<Vec<_>>(), got.iter().map(|v| lossy(v)).collect::<Vec<_>>()));
        }
    }
    // rewrite_host: exactly the rewritten Host, and only the proxy-generated X-Forwarded-Host
    let hosts: Vec<Vec<u8>> = named(back, b"host").iter().map(|h| h.1.clone()).collect();
    let client_host = op.client.iter().find(|(k, _)| eq_nc(k, b"host")).map(|h| h.1.clone()).unwrap_or_default();
    let op_host: Vec<Vec<u8>> = inserted.iter().filter(|(k, _)| eq_nc(k, b"host")).map(|h| h.1.clone()).collect();
    if let Some(rw) = &op.rw_host {
        let mut want = vec![rw.clone()];
        want.extend(op_host.clone());
        if hosts != want {
            let class = if hosts.iter().any(|h| h != rw && !op_host.contains(h)) {
                "rewrite-host-leaks-client-host"
            } else {
                "rewrite-host-duplicate-host-line"
            };
            fail(r, class, format!("rewrite_host={} but the backend saw Host lines {:?}", lossy(rw), hosts.iter().map(|v| lossy(v)).collect::<Vec<_>>()));
        }
        let orig = client_host.split(|&b| b == b':').next().unwrap_or(&[]).to_vec();
        let mut want = vec![orig];
        want.extend(inserted.iter().filter(|(k, _)| eq_nc(k, b"x-forwarded-host")).map(|h| h.1.clone()));
        let got: Vec<Vec<u8>> = named(back, b"x-forwarded-host").iter().map(|h| h.1.clone()).collect();
        if got != want {
            fail(r, "rewrite-host-leaks-client-forwarded-host", format!("the backend saw X-Forwarded-Host {:?}, expected {:?}", got.iter().map(|v| lossy(v)).collect::<Vec<_>>(), want.iter().map(|v| lossy(v)).collect::<Vec<_>>()));
        }
    } else if op_host.is_empty() && !op.req_edits.iter().any(|(k, _)| eq_nc(k, b"host")) && hosts != vec![client_host.clone()] {
        fail(r, "host-line-count", format!("the backend saw Host lines {:?}", hosts.iter().map(|v| lossy(v)).collect::<Vec<_>>()));
    }
    // rewrite_path
    let want_target = op.rw_path.clone().unwrap_or_else(|| op.target.clone());
    let want_line = [op.method.as_slice(), b" ", want_target.as_slice(), b" HTTP/1.1"].concat();
    if line != want_line.as_slice() {
        fail(r, "request-line", format!("backend request line `{}`, expected `{}`", lossy(line), lossy(&want_line)));
    }
    // a header no rule names is untouched (content and relative order)
    let ruled = |k: &[u8]| {
        names.iter().any(|n| eq_nc(n, k))
            || [&b"host"[..], b"x-forwarded-host", b"x-forwarded-for", b"forwarded", b"x-real-ip", b"x-forwarded-proto", b"x-forwarded-port", b"x-request-id", b"connection"].iter().any(|n| eq_nc(n, k))
            || eq_nc(k, &op.sozu_id)
    };
    let a: Vec<&Hdr> = op.client.iter().filter(|(k, _)| !ruled(k)).collect();
    let b: Vec<&Hdr> = back.iter().filter(|(k, _)| !ruled(k)).collect();
    if a != b {
        fail(r, "request-fidelity", format!("unnamed headers in {:?} out {:?}", a, b));
    }
    // exactly one request id and one correlation header, unless an operator edit names them
    for n in [&b"x-request-id"[..], &op.sozu_id[..]] {
        if !names.iter().any(|x| eq_nc(x, n)) && named(back, n).len() != 1 {
            fail(r, "ids-count", format!("{} `{}` fields reach the backend", named(back, n).len(), lossy(n)));
        }
    }
    // response side: Append adds one, an empty value deletes all copies, nothing else changes
    let deleted = |k: &[u8]| op.resp_edits.iter().any(|(ek, ev)| eq_nc(ek, k) && ev.is_empty());
    let mut want: Vec<Hdr> = op.resp.iter().filter(|(k, _)| !deleted(k)).cloned().collect();
    if !deleted(b"content-length") {
        want.push((b"Content-Length".to_vec(), b"0".to_vec()));
    }
    if !deleted(b"connection") {
        want.push((b"Connection".to_vec(), b"close".to_vec()));
    }
    if !deleted(&op.sozu_id) {
        want.push((op.sozu_id.clone(), b"ID".to_vec()));
    }
    want.extend(op.resp_edits.iter().filter(|(_, v)| !v.is_empty()).cloned());
    if client_resp != want.as_slice() {
        let class = if client_resp.len() > want.len() { "response-edit-leaves-duplicate" } else { "response-edit-differs" };
        fail(r, class, format!("client got {} expected {}", show(client_resp), show(&want)));
    }
}

struct HdrEdits;

const NAMES: [&str; 7] = ["X-Forwarded-Proto", "X-Op", "X-Forwarded-Host", "Authorization", "X-Internal", "Accept", "X-Forwarded-For"];

fn variant(rng: &mut Rng, n: &str) -> Vec<u8> {
    match rng.below(3) {
        0 => n.to_ascii_lowercase().into_bytes(),
        1 => n.to_ascii_uppercase().into_bytes(),
        _ => n.as_bytes().to_vec(),
    }
}

impl Area for HdrEdits {
    fn name(&self) -> &'static str {
        "hdredits"
    }
    fn rule(&self) -> String {
        "black-box (real worker, raw HTTP/1.1 client, recording backend): frontends with rewrite_host (1/2) / rewrite_path (1/4), 0..4 request-position edits and 0..3 response-position edits over 7 names (delete, append, delete+set), listener elide/send X-Real-IP and 2 correlation header names; 2..3 client requests per frontend carrying 0..3 copies (3 case variants, distinct values) of every header a rule names and of Host / X-Forwarded-* / Forwarded / X-Real-IP / correlation / request-id; backend responses with 0..3 copies of the response-edited names. non-trivial = the exchange completed; distinct = distinct op sequence".into()
    }
    fn cases(&self, thorough: bool) -> u64 {
        if thorough {
            20_000
        } else {
            2000
        }
    }
    fn corpus(&self) -> Vec<Vec<String>> {
        let h = |k: &str, v: &str| (k.as_bytes().to_vec(), v.as_bytes().to_vec());
        let base = |rw: Option<&str>, re: Vec<Hdr>, client: Vec<Hdr>| Op {
            elide: false,
            send: false,
            sozu_id: b"Sozu-Id".to_vec(),
            rw_host: rw.map(|x| x.as_bytes().to_vec()),
            rw_path: None,
            req_edits: re,
            resp_edits: vec![],
            method: b"GET".to_vec(),
            target: b"/".to_vec(),
            client,
            resp: vec![],
        };
        vec![
            // the lead's three demonstrations
            vec!["new".into(), base(Some("backend.local"), vec![], vec![h("Host", "localhost"), h("X-Forwarded-Host", "evil.example"), h("x-forwarded-host", "evil2.example"), h("Content-Length", "0")]).line()],
            vec!["new".into(), base(None, vec![h("X-Internal", "")], vec![h("Host", "localhost"), h("X-Internal", "forged-1"), h("x-internal", "forged-2"), h("Content-Length", "0")]).line()],
            vec!["new".into(), base(None, vec![h("X-Forwarded-Proto", ""), h("X-Forwarded-Proto", "https")], vec![h("Host", "localhost"), h("X-Forwarded-Proto", "http"), h("X-FORWARDED-PROTO", "http"), h("Content-Length", "0")]).line()],
        ]
    }
    fn gen(&self, rng: &mut Rng, _thorough: bool) -> Vec<String> {
        let mut req_edits: Vec<Hdr> = vec![];
        for _ in 0..rng.below(4) {
            let n = *rng.pick(&NAMES[..6]);
            let k = variant(rng, n);
            match rng.below(3) {
                0 => req_edits.push((k, vec![])),
                1 => req_edits.push((k, format!("op-{}", rng.below(3)).into_bytes())),
                _ => {
                    req_edits.push((k.clone(), vec![]));
                    req_edits.push((k, format!("set-{}", rng.below(3)).into_bytes()));
                }
            }
        }
        let mut resp_edits: Vec<Hdr> = vec![];
        for _ in 0..rng.below(3) {
            let nm: &str = *rng.pick(&["Server", "X-Powered-By", "X-Frame-Options"][..]);
            let k = variant(rng, nm);
            resp_edits.push((k, if rng.chance(1, 2) { vec![] } else { b"edited".to_vec() }));
        }
        let tmpl = Op {
            elide: rng.chance(1, 2),
            send: rng.chance(1, 2),
            sozu_id: rng.pick(&["Sozu-Id", "X-Corr-Id"]).as_bytes().to_vec(),
            rw_host: if rng.chance(1, 2) { Some(rng.pick(&["backend.local", "b.internal:8080"]).as_bytes().to_vec()) } else { None },
            rw_path: if rng.chance(1, 4) { Some(b"/rewritten".to_vec()) } else { None },
            req_edits,
            resp_edits,
            method: b"GET".to_vec(),
            target: b"/".to_vec(),
            client: vec![],
            resp: vec![],
        };
        let mut ops = vec!["new".to_string()];
        for _ in 0..rng.range(2, 3) {
            let mut client: Vec<Hdr> = vec![];
            // copies of every header a rule names, and of the proxy-owned ones
            let mut pool: Vec<String> = tmpl.req_edits.iter().map(|(k, _)| lossy(k)).collect();
            pool.extend(["X-Forwarded-Host", "X-Forwarded-Proto", "X-Forwarded-For", "Forwarded", "X-Real-IP", "X-Request-Id", "X-Forwarded-Port"].iter().map(|s| s.to_string()));
            pool.push(lossy(&tmpl.sozu_id));
            pool.push("Accept".into());
            pool.push("X-Other".into());
            pool.sort_by_key(|a| a.to_ascii_lowercase());
            pool.dedup_by_key(|a| a.to_ascii_lowercase());
            for n in &pool {
                for i in 0..rng.below(4) {
                    let v = match n.to_ascii_lowercase().as_str() {
                        "x-forwarded-for" | "x-real-ip" => format!("6.6.6.{i}"),
                        "forwarded" => format!("for=6.6.6.{i}"),
                        "x-forwarded-proto" => ["http", "https", "gopher"][i as usize % 3].to_string(),
                        "x-forwarded-port" => format!("{}", 1000 + i),
                        _ => format!("forged-{i}"),
                    };
                    client.push((variant(rng, n), v.into_bytes()));
                }
            }
            rng.shuffle(&mut client);
            client.insert(0, (b"Host".to_vec(), b"localhost".to_vec()));
            client.push((b"Content-Length".to_vec(), b"0".to_vec()));
            let mut resp: Vec<Hdr> = vec![];
            for n in ["Server", "X-Powered-By", "X-Frame-Options", "Cache-Control"] {
                for i in 0..rng.below(3) {
                    resp.push((variant(rng, n), format!("b{i}").into_bytes()));
                }
            }
            rng.shuffle(&mut resp);
            let op = Op {
                target: rng.pick(&["/", "/a/b?x=1"]).as_bytes().to_vec(),
                client,
                resp,
                elide: tmpl.elide,
                send: tmpl.send,
                sozu_id: tmpl.sozu_id.clone(),
                rw_host: tmpl.rw_host.clone(),
                rw_path: tmpl.rw_path.clone(),
                req_edits: tmpl.req_edits.clone(),
                resp_edits: tmpl.resp_edits.clone(),
                method: tmpl.method.clone(),
            };
            ops.push(op.line());
        }
        ops
    }
    fn run_impl(&self, ops: &[String]) -> ImplRun {
        let mut r = ImplRun::default();
        let mut rig: Option<Rigged> = None;
        for op in ops {
            let w: Vec<&str> = op.split_whitespace().collect();
            if w.first() == Some(&"new") {
                r.out.push("new".into());
                continue;
            }
            let Some(o) = Op::parse(&w) else {
                r.out.push("bad-op".into());
                continue;
            };
            if rig.as_ref().map(|g| g.key != o.config_key()).unwrap_or(true) {
                if let Some(mut old) = rig.take() {
                    old.worker.stop();
                }
                match setup(&o) {
                    Ok(g) => rig = Some(g),
                    Err(e) => {
                        r.tags.push("rig-error:setup".into());
                        r.out.push(format!("rig-error {e:?}"));
                        continue;
                    }
                }
            }
            let g = rig.as_mut().unwrap();
            match exchange(g, &o) {
                Ok((line, back, resp)) => {
                    r.tags.push("exchange".into());
                    if o.rw_host.is_some() {
                        r.tags.push("rewrite-host".into());
                    }
                    reference(&mut r, &o, &line, &back, &resp);
                    let target = line.split(|&b| b == b' ').nth(1).unwrap_or(&[]).to_vec();
                    r.out.push(format!("ok {} {} | {}", hex(&target), hl(&back), hl(&resp)));
                }
                Err(e) => {
                    r.tags.push("rig-error:exchange".into());
                    r.out.push(format!("rig-error {e:?}"));
                }
            }
        }
        if let Some(mut g) = rig.take() {
            g.worker.stop();
        }
        r.nontrivial = r.tags.iter().any(|t| t == "exchange");
        r
    }
    fn lines_agree(&self, impl_line: &str, model_line: &str) -> bool {
        // a rig hiccup (port exhaustion, scheduling) is not a statement about sozu
        impl_line.starts_with("rig-error") || impl_line == model_line
    }
    fn classify_mismatch(&self, _ops: &[String], _i: &[String], _m: &[String]) -> String {
        "model-mismatch:redit".into()
    }
}

fn main() {
    quiet_logs_silently();
    silence_worker_panics();
    let args = parse_args();
    std::process::exit(run_area(&HdrEdits, &args));
}
