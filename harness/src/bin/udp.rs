//! C19: real `sozu_lib::protocol::udp::UdpManager` (the sans-io flow core) vs
//! the Lean model `Sozu.Udp.Model`, plus the property's own oracles: a small
//! reference monitor that only looks at the inputs it fed and the outputs the
//! manager produced (who got which payload), never at the model.
use std::collections::{BTreeMap, HashMap};
use std::net::{IpAddr, Ipv4Addr, Ipv6Addr, SocketAddr};
use std::time::{Duration, Instant};

use sozu_lib::protocol::udp::flow::FlowPhase;
use sozu_lib::protocol::udp::{
    CloseReason, ClusterConfig, ConfigEvent, DropReason, ManagerInput, MetricEvent, Output, UdpManager,
};
use verif_harness::*;

struct Udp;

// ------------------------------------------------------------ line codec ---

fn addr_str(a: &SocketAddr) -> String {
    match a.ip() {
        IpAddr::V4(ip) => format!("4:{}:{}", hex(&ip.octets()), a.port()),
        IpAddr::V6(ip) => format!("6:{}:{}", hex(&ip.octets()), a.port()),
    }
}

fn parse_addr(w: &str) -> Option<SocketAddr> {
    let p: Vec<&str> = w.split(':').collect();
    if p.len() != 3 {
        return None;
    }
    let port: u16 = p[2].parse().ok()?;
    let bs = unhex(p[1]);
    match (p[0], bs.len()) {
        ("4", 4) => Some(SocketAddr::new(IpAddr::V4(Ipv4Addr::new(bs[0], bs[1], bs[2], bs[3])), port)),
        ("6", 16) => {
            let mut o = [0u8; 16];
            o.copy_from_slice(&bs);
            Some(SocketAddr::new(IpAddr::V6(Ipv6Addr::from(o)), port))
        }
        _ => None,
    }
}

#[derive(Clone, Debug, PartialEq)]
struct Cfg {
    cluster: String,
    wp: bool,
    responses: u32,
    requests: u32,
    fto: u64,
    bto: u64,
    pp: bool,
    every: bool,
}

impl Cfg {
    fn words(&self) -> String {
        format!(
            "{} {} {} {} {} {} {} {}",
            if self.cluster.is_empty() { "-" } else { &self.cluster },
            self.wp as u8,
            self.responses,
            self.requests,
            self.fto,
            self.bto,
            self.pp as u8,
            self.every as u8
        )
    }
    fn parse(w: &[&str]) -> Option<Cfg> {
        if w.len() != 8 {
            return None;
        }
        let b = |s: &str| match s {
            "1" => Some(true),
            "0" => Some(false),
            _ => None,
        };
        Some(Cfg {
            cluster: if w[0] == "-" { String::new() } else { w[0].to_string() },
            wp: b(w[1])?,
            responses: w[2].parse().ok()?,
            requests: w[3].parse().ok()?,
            fto: w[4].parse().ok()?,
            bto: w[5].parse().ok()?,
            pp: b(w[6])?,
            every: b(w[7])?,
        })
    }
    fn real(&self) -> ClusterConfig {
        ClusterConfig {
            cluster: self.cluster.clone(),
            affinity_with_port: self.wp,
            responses: self.responses,
            requests: self.requests,
            front_timeout: Duration::from_millis(self.fto),
            back_timeout: Duration::from_millis(self.bto),
            send_proxy_protocol: self.pp,
            proxy_protocol_every_datagram: self.every,
        }
    }
}

fn real_cfg_str(c: &ClusterConfig) -> String {
    format!(
        "{},{},{},{},{},{},{},{}",
        if c.cluster.is_empty() { "-" } else { &c.cluster },
        c.affinity_with_port as u8,
        c.responses,
        c.requests,
        c.front_timeout.as_millis(),
        c.back_timeout.as_millis(),
        c.send_proxy_protocol as u8,
        c.proxy_protocol_every_datagram as u8
    )
}

fn reason_str(r: DropReason) -> &'static str {
    match r {
        DropReason::Invalid => "invalid",
        DropReason::Truncated => "truncated",
        DropReason::NoBackend => "nobackend",
        DropReason::Shed => "shed",
        DropReason::UnknownFlow => "unknown",
    }
}

#[derive(Clone, Debug)]
enum OpL {
    New(usize, usize, Cfg),
    Client(SocketAddr, Vec<u8>, u64),
    Backend(usize, Vec<u8>, u64),
    Resolved(usize, String, SocketAddr, u64),
    SetCluster(Cfg),
    MaxFlows(usize),
    MaxRx(usize),
    Drain,
    Timeout(u64),
    Abort(usize),
    CloseAll,
    Dump,
    Bad,
}

fn is_hex(s: &str) -> bool {
    s == "-" || (s.len() % 2 == 0 && !s.is_empty() && s.bytes().all(|b| b.is_ascii_hexdigit()))
}

fn parse_op(line: &str) -> OpL {
    let w: Vec<&str> = line.split_whitespace().collect();
    let r = (|| -> Option<OpL> {
        Some(match *w.first()? {
            "new" if w.len() == 11 => OpL::New(w[1].parse().ok()?, w[2].parse().ok()?, Cfg::parse(&w[3..])?),
            "c" if w.len() == 4 && is_hex(w[2]) => OpL::Client(parse_addr(w[1])?, unhex(w[2]), w[3].parse().ok()?),
            "b" if w.len() == 4 && is_hex(w[2]) => OpL::Backend(w[1].parse().ok()?, unhex(w[2]), w[3].parse().ok()?),
            "r" if w.len() == 5 => OpL::Resolved(w[1].parse().ok()?, w[2].to_string(), parse_addr(w[3])?, w[4].parse().ok()?),
            "cfg" if w.len() == 9 => OpL::SetCluster(Cfg::parse(&w[1..])?),
            "maxflows" if w.len() == 2 => OpL::MaxFlows(w[1].parse().ok()?),
            "maxrx" if w.len() == 2 => OpL::MaxRx(w[1].parse().ok()?),
            "drain" if w.len() == 1 => OpL::Drain,
            "to" if w.len() == 2 => OpL::Timeout(w[1].parse().ok()?),
            "abort" if w.len() == 2 => OpL::Abort(w[1].parse().ok()?),
            "closeall" if w.len() == 1 => OpL::CloseAll,
            "dump" if w.len() == 1 => OpL::Dump,
            _ => return None,
        })
    })();
    r.unwrap_or(OpL::Bad)
}

// ------------------------------------------------- driving the real code ---

struct Real {
    mgr: UdpManager,
    base: Instant,
    hash_idx: HashMap<u64, usize>,
}

impl Real {
    fn new(mf: usize, mr: usize, cfg: &Cfg) -> Real {
        Real { mgr: UdpManager::new(cfg.real(), mf, mr, 0x5EED_C19), base: Instant::now(), hash_idx: HashMap::new() }
    }
    fn at(&self, ms: u64) -> Instant {
        self.base + Duration::from_millis(ms)
    }
    fn ms(&self, t: Instant) -> u128 {
        t.duration_since(self.base).as_millis()
    }
    fn drain(&mut self) -> Vec<Output> {
        let mut v = vec![];
        while let Some(o) = self.mgr.poll_output() {
            v.push(o);
        }
        v
    }
    fn apply(&mut self, op: &OpL) -> Vec<Output> {
        match op {
            OpL::Client(src, p, now) => {
                let t = self.at(*now);
                self.mgr.handle_input(ManagerInput::ClientDatagram { src: *src, payload: p }, t)
            }
            OpL::Backend(f, p, now) => {
                let t = self.at(*now);
                self.mgr.handle_input(ManagerInput::BackendDatagram { flow: *f, payload: p }, t)
            }
            OpL::Resolved(f, bid, a, now) => {
                let t = self.at(*now);
                self.mgr.handle_input(ManagerInput::BackendResolved { flow: *f, backend: bid.clone(), addr: *a }, t)
            }
            OpL::SetCluster(c) => self.mgr.handle_input(ManagerInput::Config(ConfigEvent::SetCluster(c.real())), self.base),
            OpL::MaxFlows(n) => self.mgr.handle_input(ManagerInput::Config(ConfigEvent::SetMaxFlows(*n)), self.base),
            OpL::MaxRx(n) => self.mgr.handle_input(ManagerInput::Config(ConfigEvent::SetMaxRxDatagramSize(*n)), self.base),
            OpL::Drain => self.mgr.handle_input(ManagerInput::Config(ConfigEvent::Drain), self.base),
            OpL::Timeout(now) => {
                let t = self.at(*now);
                self.mgr.handle_timeout(t)
            }
            OpL::Abort(f) => self.mgr.abort_flow(*f, self.base, CloseReason::Aborted),
            OpL::CloseAll => self.mgr.close_all(self.base),
            OpL::New(..) | OpL::Dump | OpL::Bad => {}
        }
        self.drain()
    }
    fn out_str(&mut self, o: &Output) -> String {
        match o {
            Output::SelectBackend { flow, cluster, key } => {
                let n = self.hash_idx.len();
                let i = *self.hash_idx.entry(*key).or_insert(n);
                format!("sel {} {} k{}", flow, if cluster.is_empty() { "-" } else { cluster }, i)
            }
            Output::OpenUpstream { flow, backend } => format!("open {} {}", flow, addr_str(backend)),
            Output::SendToBackend(t) => format!("tob {} {}", addr_str(&t.dst), hex(&t.payload)),
            Output::SendToClient(t) => format!("toc {} {}", addr_str(&t.dst), hex(&t.payload)),
            Output::ArmTimer(d) => format!("arm {}", self.ms(*d)),
            Output::Metric(m) => match m {
                MetricEvent::FlowCreated => "m:created".into(),
                MetricEvent::FlowEvicted => "m:evicted".into(),
                MetricEvent::FlowShed => "m:shed".into(),
                MetricEvent::DatagramIn(n) => format!("m:in:{n}"),
                MetricEvent::DatagramOut(n) => format!("m:out:{n}"),
                MetricEvent::DatagramDropped(r) => format!("m:drop:{}", reason_str(*r)),
            },
            Output::CloseFlow(f) => format!("close {f}"),
            Output::Drop(r) => format!("drop {}", reason_str(*r)),
        }
    }
    fn summary(&self) -> String {
        let t = match self.mgr.poll_timeout() {
            Some(d) => self.ms(d).to_string(),
            None => "-".into(),
        };
        format!(
            "n={} mf={} dr={} wp={} t={}",
            self.mgr.flow_count(),
            self.mgr.max_flows(),
            self.mgr.is_draining() as u8,
            self.mgr.affinity_with_port() as u8,
            t
        )
    }
    fn dump(&self) -> String {
        let mut v = vec![];
        for id in 0..MAX_ID_SCAN {
            if let Some(f) = self.mgr.flow(id) {
                let ph = match f.phase {
                    FlowPhase::AwaitingBackend => "A",
                    FlowPhase::Established => "E",
                    FlowPhase::Closing => "C",
                };
                v.push(format!(
                    "{}/{}/{}/{}/{}/{}/{}/{}/{}/{}/{}",
                    id,
                    addr_str(&f.client),
                    f.backend_id.clone().unwrap_or_else(|| "-".into()),
                    f.backend_addr.map(|a| addr_str(&a)).unwrap_or_else(|| "-".into()),
                    ph,
                    f.requests_seen,
                    f.responses_seen,
                    self.ms(f.idle_deadline),
                    f.first_upstream_pending as u8,
                    f.pending_payload.as_ref().map(|p| format!("P{}", hex(p))).unwrap_or_else(|| "N".into()),
                    real_cfg_str(&f.config)
                ));
            }
        }
        format!("dump [{}] | {}", v.join(" "), self.summary())
    }
}

const MAX_ID_SCAN: usize = 256;

// ------------------------------------ reference monitor (property oracle) ---

/// PROXY v2 DGRAM header written from the specification, not from sozu.
fn pp2(client: &SocketAddr, backend: &SocketAddr) -> Vec<u8> {
    let mut h = vec![0x0D, 0x0A, 0x0D, 0x0A, 0x00, 0x0D, 0x0A, 0x51, 0x55, 0x49, 0x54, 0x0A, 0x21];
    match (client, backend) {
        (SocketAddr::V4(c), SocketAddr::V4(b)) => {
            h.push(0x12);
            h.extend_from_slice(&[0, 12]);
            h.extend_from_slice(&c.ip().octets());
            h.extend_from_slice(&b.ip().octets());
            h.extend_from_slice(&c.port().to_be_bytes());
            h.extend_from_slice(&b.port().to_be_bytes());
        }
        (SocketAddr::V6(c), SocketAddr::V6(b)) => {
            h.push(0x22);
            h.extend_from_slice(&[0, 36]);
            h.extend_from_slice(&c.ip().octets());
            h.extend_from_slice(&b.ip().octets());
            h.extend_from_slice(&c.port().to_be_bytes());
            h.extend_from_slice(&b.port().to_be_bytes());
        }
        _ => {
            h.push(0x00);
            h.extend_from_slice(&[0, 0]);
        }
    }
    h
}

type AKey = (IpAddr, Option<u16>);
fn akey(src: &SocketAddr, wp: bool) -> AKey {
    (src.ip(), if wp { Some(src.port()) } else { None })
}

struct MFlow {
    client: SocketAddr,
    key: AKey,
    cfg: Cfg,
    backend: Option<SocketAddr>,
    buf: Option<Vec<u8>>,
    nsent: u32,
    nrecv: u32,
    deadline: u64,
}

struct Mon {
    flows: BTreeMap<usize, MFlow>,
    cluster: Cfg,
    max_flows: usize,
    cap_high: usize,
    max_rx: usize,
    draining: bool,
    created: u64,
    closed: u64,
    fails: Vec<(String, String)>,
    /// set once the port-0 FlowKey alias was hit: the manager's notion of flow
    /// ownership has left the specification's, later verdicts would be follow-ons
    poisoned: bool,
}

impl Mon {
    fn fail(&mut self, class: &str, detail: String) {
        if self.poisoned {
            return;
        }
        if class == "port0-flowkey-alias" {
            self.poisoned = true;
        }
        if self.fails.len() < 8 {
            self.fails.push((class.to_string(), detail));
        }
    }

    /// does the (prefix?, payload) shape of `sent` match the flow's PROXY policy?
    fn check_payload(&mut self, id: usize, sent: &[u8], orig: &[u8], backend: &SocketAddr) {
        let f = &self.flows[&id];
        let want_pp = f.cfg.pp && (f.cfg.every || f.nsent == 0);
        let mut expect = if want_pp { pp2(&f.client, backend) } else { vec![] };
        expect.extend_from_slice(orig);
        if sent != &expect[..] {
            let class = if sent.len() != expect.len() {
                if want_pp { "payload-proxy-header-missing-or-wrong-length" } else { "payload-length-changed" }
            } else {
                "payload-bytes-altered"
            };
            self.fail(class, format!("flow {id}: sent {} expected {}", hex(sent), hex(&expect)));
        }
    }

    fn step(&mut self, op: &OpL, outs: &[Output], flow_count: usize, armed: Option<u64>) {
        if self.poisoned {
            return;
        }
        let mut sels = vec![];
        let mut opens = vec![];
        let mut tobs = vec![];
        let mut tocs = vec![];
        let mut closes = vec![];
        let (mut created, mut evicted, mut sheds) = (0u64, 0u64, 0u64);
        for o in outs {
            match o {
                Output::SelectBackend { flow, .. } => sels.push(*flow),
                Output::OpenUpstream { flow, backend } => opens.push((*flow, *backend)),
                Output::SendToBackend(t) => tobs.push(t.clone()),
                Output::SendToClient(t) => tocs.push(t.clone()),
                Output::CloseFlow(f) => closes.push(*f),
                Output::Metric(MetricEvent::FlowCreated) => created += 1,
                Output::Metric(MetricEvent::FlowEvicted) => evicted += 1,
                Output::Drop(DropReason::Shed) => sheds += 1,
                _ => {}
            }
        }
        let live_before = self.flows.len();
        // which closes are *required* by the property (caps, idle, abort, teardown)
        let mut must_close: Vec<usize> = vec![];
        let mut may_close: Vec<usize> = vec![];
        let mut allow_sel = false;
        let mut allow_open = false;
        let mut allow_tob = false;
        let mut allow_toc = false;

        match op {
            OpL::Client(src, p, now) => {
                let valid = p.len() <= self.max_rx && !self.cluster.cluster.is_empty() && !p.is_empty();
                if valid {
                    let k = akey(src, self.cluster.wp);
                    let owners: Vec<usize> = self.flows.iter().filter(|(_, f)| f.key == k).map(|(i, _)| *i).collect();
                    if owners.len() > 1 {
                        self.fail("sticky-two-live-flows-one-key", format!("key {:?} owned by {:?}", k, owners));
                    }
                    if let Some(&id) = owners.first() {
                        // STICKY: a live flow owns this source key
                        if !sels.is_empty() {
                            self.fail("sticky-second-flow-for-live-key", format!("src {} already on flow {id}, new flow {:?}", addr_str(src), sels));
                        }
                        let backend = self.flows[&id].backend;
                        match backend {
                            Some(b) => {
                                allow_tob = true;
                                if tobs.len() != 1 {
                                    let class = if tobs.is_empty() { "established-flow-not-forwarding" } else { "datagram-duplicated" };
                                    self.fail(class, format!("flow {id}: {} SendToBackend for one datagram (live {} cap {} draining {})", tobs.len(), live_before, self.max_flows, self.draining));
                                } else {
                                    if tobs[0].dst != b {
                                        self.fail("sticky-backend-changed", format!("flow {id} fixed to {} but datagram sent to {}", addr_str(&b), addr_str(&tobs[0].dst)));
                                    }
                                    self.check_payload(id, &tobs[0].payload, p, &b);
                                    let f = self.flows.get_mut(&id).unwrap();
                                    f.nsent += 1;
                                    f.deadline = now + f.cfg.fto;
                                    if f.cfg.requests != 0 && f.nsent >= f.cfg.requests {
                                        must_close.push(id);
                                    }
                                }
                            }
                            None => {
                                if !tobs.is_empty() {
                                    self.fail("send-before-resolution", format!("flow {id} has no backend yet"));
                                }
                                let f = self.flows.get_mut(&id).unwrap();
                                f.buf = Some(p.clone());
                                f.deadline = now + f.cfg.fto;
                            }
                        }
                    } else {
                        // no live flow owns this key: nothing may be forwarded; admission rules
                        if !tobs.is_empty() {
                            let alias = src.port() == 0 || self.flows.values().any(|f| f.client.port() == 0 && f.client.ip() == src.ip());
                            let class = if alias { "port0-flowkey-alias" } else { "forward-without-owning-flow" };
                            self.fail(class, format!("src {} owns no flow under the current affinity mode but a datagram was sent to {}", addr_str(src), addr_str(&tobs[0].dst)));
                            allow_tob = true;
                        }
                        if sels.len() > 1 {
                            self.fail("two-flows-for-one-datagram", format!("{:?}", sels));
                        }
                        if let Some(&id) = sels.first() {
                            allow_sel = true;
                            if self.draining {
                                self.fail("admission-while-draining", format!("flow {id} created while draining"));
                            }
                            if live_before >= self.max_flows {
                                self.fail("admission-over-cap", format!("flow {id} created with {} live flows, cap {}", live_before, self.max_flows));
                            }
                            if self.flows.contains_key(&id) {
                                self.fail("flow-id-reused-while-live", format!("flow {id}"));
                            }
                            self.flows.insert(id, MFlow {
                                client: *src,
                                key: k,
                                cfg: self.cluster.clone(),
                                backend: None,
                                buf: Some(p.clone()),
                                nsent: 0,
                                nrecv: 0,
                                deadline: now + self.cluster.fto,
                            });
                            self.created += 1;
                        } else if tobs.is_empty() && sheds == 0 {
                            // a valid datagram of a source that owns no flow must be admitted or shed
                            // (the port-0 FlowKey alias lands here: it is silently buffered on a foreign flow)
                            let alias = src.port() == 0 || self.flows.values().any(|f| f.client.port() == 0 && f.client.ip() == src.ip());
                            let class = if alias { "port0-flowkey-alias" } else { "new-source-neither-admitted-nor-shed" };
                            self.fail(class, format!("src {}", addr_str(src)));
                        }
                    }
                }
            }
            OpL::Backend(id, p, now) => {
                let ok = p.len() <= self.max_rx && self.flows.get(id).map(|f| f.backend.is_some()).unwrap_or(false);
                if ok {
                    allow_toc = true;
                    if tocs.len() != 1 {
                        let class = if tocs.is_empty() { "reply-not-returned" } else { "reply-duplicated" };
                        self.fail(class, format!("flow {id}: {} SendToClient", tocs.len()));
                    } else {
                        let client = self.flows[id].client;
                        if tocs[0].dst != client {
                            self.fail("isolation-reply-to-wrong-client", format!("flow {id} belongs to {} but reply went to {}", addr_str(&client), addr_str(&tocs[0].dst)));
                        }
                        if tocs[0].payload != *p {
                            self.fail("reply-bytes-altered", format!("flow {id}"));
                        }
                        let f = self.flows.get_mut(id).unwrap();
                        f.nrecv += 1;
                        f.deadline = now + f.cfg.bto;
                        if f.cfg.responses != 0 && f.nrecv >= f.cfg.responses {
                            must_close.push(*id);
                        }
                    }
                }
            }
            OpL::Resolved(id, _bid, addr, now) => {
                let awaiting = self.flows.get(id).map(|f| f.backend.is_none()).unwrap_or(false);
                if awaiting {
                    allow_open = true;
                    allow_tob = true;
                    if opens.len() != 1 || opens[0] != (*id, *addr) {
                        self.fail("resolution-not-opened", format!("flow {id}: opens {:?}", opens));
                    }
                    let buf = self.flows[id].buf.clone();
                    self.flows.get_mut(id).unwrap().backend = Some(*addr);
                    match buf {
                        Some(b) => {
                            if tobs.len() != 1 {
                                let class = if tobs.is_empty() { "buffered-datagram-lost" } else { "datagram-duplicated" };
                                self.fail(class, format!("flow {id}: {} SendToBackend on resolution", tobs.len()));
                            } else {
                                if tobs[0].dst != *addr {
                                    self.fail("sticky-backend-changed", format!("flow {id} resolved to {} but first datagram sent to {}", addr_str(addr), addr_str(&tobs[0].dst)));
                                }
                                self.check_payload(*id, &tobs[0].payload, &b, addr);
                                let f = self.flows.get_mut(id).unwrap();
                                f.nsent += 1;
                                f.buf = None;
                                f.deadline = now + f.cfg.fto;
                                if f.cfg.requests != 0 && f.nsent >= f.cfg.requests {
                                    must_close.push(*id);
                                }
                            }
                        }
                        None => {
                            if !tobs.is_empty() {
                                self.fail("datagram-from-nowhere", format!("flow {id}"));
                            }
                        }
                    }
                }
            }
            OpL::SetCluster(c) => self.cluster = c.clone(),
            OpL::MaxFlows(n) => {
                self.max_flows = *n;
                self.cap_high = self.cap_high.max(*n);
            }
            OpL::MaxRx(n) => self.max_rx = *n,
            OpL::Drain => self.draining = true,
            OpL::Timeout(now) => {
                for (id, f) in self.flows.iter() {
                    if f.deadline <= *now {
                        must_close.push(*id);
                    }
                }
            }
            OpL::Abort(id) => {
                if self.flows.contains_key(id) {
                    must_close.push(*id);
                }
            }
            OpL::CloseAll => must_close = self.flows.keys().copied().collect(),
            OpL::New(..) | OpL::Dump | OpL::Bad => {}
        }
        may_close.extend(must_close.iter().copied());

        // outputs that no input of this kind may ever cause
        if !allow_sel && !sels.is_empty() {
            self.fail("unexpected-select-backend", format!("{:?}", sels));
        }
        if !allow_open && !opens.is_empty() {
            self.fail("stale-resolution-accepted", format!("{:?}", opens));
        }
        if !allow_tob && !tobs.is_empty() {
            self.fail("unexpected-send-to-backend", format!("{} datagram(s)", tobs.len()));
        }
        if !allow_toc && !tocs.is_empty() {
            self.fail("unexpected-send-to-client", format!("{} datagram(s) to {}", tocs.len(), addr_str(&tocs[0].dst)));
        }
        // CLOSE ONCE: each close hits a live incarnation, exactly the required ones, once
        for id in &closes {
            if self.flows.remove(id).is_none() {
                self.fail("close-of-dead-or-already-closed-flow", format!("flow {id}"));
            } else {
                self.closed += 1;
                if !may_close.contains(id) {
                    let class = if matches!(op, OpL::Timeout(_)) { "idle-close-before-deadline" } else { "unjustified-close" };
                    self.fail(class, format!("flow {id}"));
                }
            }
        }
        for id in &must_close {
            if !closes.contains(id) {
                let class = match op {
                    OpL::Timeout(_) => "idle-flow-not-reclaimed",
                    OpL::CloseAll => "close-all-left-a-flow",
                    OpL::Abort(_) => "abort-not-closed",
                    _ => "exhausted-flow-not-closed",
                };
                self.fail(class, format!("flow {id}"));
                self.flows.remove(id);
            }
        }
        if created as usize != sels.len() || evicted as usize != closes.len() {
            self.fail("metric-imbalance", format!("created {created} vs {} selects, evicted {evicted} vs {} closes", sels.len(), closes.len()));
        }
        let _ = sheds;
        // BOUNDED
        if flow_count != self.flows.len() {
            self.fail("live-count-mismatch", format!("manager reports {flow_count}, monitor {}", self.flows.len()));
        }
        if self.flows.len() > self.cap_high {
            self.fail("live-over-highest-cap", format!("{} > {}", self.flows.len(), self.cap_high));
        }
        if self.flows.len() > live_before && live_before >= self.max_flows {
            self.fail("admission-over-cap", format!("{} -> {} with cap {}", live_before, self.flows.len(), self.max_flows));
        }
        // timer: the armed deadline is the earliest idle deadline of a live flow
        let want = self.flows.values().map(|f| f.deadline).min();
        if !matches!(op, OpL::New(..) | OpL::Dump | OpL::Bad) && armed != want {
            self.fail("timer-not-earliest-deadline", format!("armed {:?} expected {:?}", armed, want));
        }
    }
}

// ------------------------------------------------------------ generator ---

fn client_pool(rng: &mut Rng) -> Vec<SocketAddr> {
    let mut v = vec![];
    let nip = rng.range(1, 4);
    let nport = rng.range(1, 3);
    let port0 = rng.chance(1, 12);
    for i in 0..nip {
        for p in 0..nport {
            let port = if port0 && p == 0 { 0 } else { 9000 + p as u16 };
            v.push(SocketAddr::new(IpAddr::V4(Ipv4Addr::new(10, 0, 0, 1 + i as u8)), port));
        }
    }
    if rng.chance(1, 4) {
        v.push(SocketAddr::new(IpAddr::V6(Ipv6Addr::new(0xfd00, 0, 0, 0, 0, 0, 0, 1)), 9100));
        v.push(SocketAddr::new(IpAddr::V6(Ipv6Addr::new(0xfd00, 0, 0, 0, 0, 0, 0, 1)), 9101));
    }
    v
}

fn backend_pool() -> Vec<(String, SocketAddr)> {
    vec![
        ("b0".into(), SocketAddr::new(IpAddr::V4(Ipv4Addr::new(127, 0, 0, 1)), 5300)),
        ("b1".into(), SocketAddr::new(IpAddr::V4(Ipv4Addr::new(127, 0, 0, 1)), 5301)),
        ("b2".into(), SocketAddr::new(IpAddr::V4(Ipv4Addr::new(192, 168, 7, 9)), 514)),
        ("b3".into(), SocketAddr::new(IpAddr::V6(Ipv6Addr::new(0xfd00, 0, 0, 0, 0, 0, 0, 0xb)), 5300)),
    ]
}

fn gen_cfg(rng: &mut Rng, wp: Option<bool>) -> Cfg {
    let tos = [0u64, 5, 50, 50, 400, 400, 30000];
    Cfg {
        cluster: if rng.chance(1, 25) { String::new() } else { (*rng.pick(&["dns", "dns", "syslog"])).to_string() },
        wp: wp.unwrap_or_else(|| rng.chance(1, 2)),
        responses: *rng.pick(&[0u32, 0, 0, 1, 2, 3]),
        requests: *rng.pick(&[0u32, 0, 0, 1, 2, 4]),
        fto: *rng.pick(&tos),
        bto: *rng.pick(&tos),
        pp: rng.chance(2, 5),
        every: rng.chance(1, 3),
    }
}

fn payload(rng: &mut Rng, counter: &mut u32) -> Vec<u8> {
    // distinct, recognisable payloads so duplication / reordering / merging is visible
    *counter += 1;
    let n = match rng.below(20) {
        0 => 0,
        1 => rng.range(20, 40) as usize,
        _ => rng.range(1, 6) as usize,
    };
    let mut p = vec![(*counter & 0xff) as u8; n.min(1)];
    while p.len() < n {
        p.push(rng.next() as u8);
    }
    p
}

impl Area for Udp {
    fn name(&self) -> &'static str {
        "udp"
    }
    fn rule(&self) -> String {
        "op sequences over the real UdpManager (generated while driving a private instance so flow ids are mostly live): 1-4 client IPs x 1-3 ports (+IPv6 pair, source port 0 in 1/12 of cases), 4 backends (one IPv6), caps in {0..4,8}, max_rx in {4,16,64}, timeouts in {0,5,50,400,30000} ms, both affinity modes with mid-run SetCluster (affinity/PROXY/caps/timeouts change), stale and duplicate BackendResolved, replies on dead flows, SetMaxFlows below the live count, Drain, abort, close_all, clock advances across deadlines (sometimes backwards), empty / oversized datagrams; every case ends with a far-future timeout and close_all. non-trivial = >=2 flows created and >=1 datagram forwarded and >=1 flow closed; distinct = distinct op sequence".into()
    }
    fn cases(&self, thorough: bool) -> u64 {
        if thorough {
            300_000
        } else {
            20_000
        }
    }
    fn corpus(&self) -> Vec<Vec<String>> {
        let s = |v: &[&str]| v.iter().map(|x| x.to_string()).collect::<Vec<_>>();
        vec![
            // first-datagram buffering, newest wins, PROXY header once, reply, idle reclaim
            s(&["new 2 100 dns 1 0 0 30000 30000 1 0", "c 4:0a000001:9000 6869 0", "c 4:0a000001:9000 6870 5",
                "r 0 b1 4:7f000001:5300 10", "c 4:0a000001:9000 6871 20", "b 0 aa 30", "dump", "to 30029", "to 30030", "dump"]),
            // cap shrink below live count: existing flows keep forwarding, new ones shed
            s(&["new 3 100 dns 1 0 0 400 400 0 0", "c 4:0a000001:9000 01 0", "c 4:0a000002:9000 02 0", "r 0 b0 4:7f000001:5300 1",
                "r 1 b1 4:7f000001:5301 1", "maxflows 1", "c 4:0a000001:9000 03 2", "c 4:0a000003:9000 04 2", "b 1 05 3", "closeall", "dump"]),
            // slab id reuse (LIFO) + stale resolution / stale reply / double abort
            s(&["new 4 100 dns 1 0 0 50 50 0 0", "c 4:0a000001:9000 01 0", "c 4:0a000002:9000 02 0", "c 4:0a000003:9000 03 0",
                "abort 0", "abort 1", "abort 1", "c 4:0a000004:9000 04 1", "c 4:0a000001:9001 05 1", "r 0 b0 4:7f000001:5300 2",
                "r 0 b1 4:7f000001:5301 2", "r 7 b1 4:7f000001:5301 2", "b 7 aa 2", "b 1 aa 2", "dump", "to 100", "dump"]),
            // affinity mode switch with a live flow, then close under the other mode
            s(&["new 4 100 dns 0 0 0 400 400 1 1", "c 4:0a000001:9000 01 0", "r 0 b0 4:7f000001:5300 0", "cfg dns 1 0 0 400 400 0 0",
                "c 4:0a000001:9000 02 1", "c 4:0a000001:9001 03 1", "r 1 b1 4:7f000001:5301 1", "cfg dns 0 1 1 5 5 0 0",
                "c 4:0a000001:9001 04 2", "dump", "abort 0", "c 4:0a000001:9001 05 3", "dump", "closeall"]),
            // requests / responses caps close the flow right after the last datagram; drain sheds
            s(&["new 4 100 dns 1 1 2 400 400 0 0", "c 4:0a000001:9000 01 0", "r 0 b0 4:7f000001:5300 0", "c 4:0a000001:9000 02 1",
                "c 4:0a000001:9000 03 2", "r 0 b0 4:7f000001:5300 2", "b 0 aa 3", "drain", "c 4:0a000002:9000 04 4", "dump"]),
            // mixed address families: UNSPEC header; IPv6 both ways
            s(&["new 4 100 dns 1 0 0 400 400 1 1", "c 6:fd000000000000000000000000000001:9100 01 0", "r 0 b0 4:7f000001:5300 0",
                "c 4:0a000001:9000 02 0", "r 1 b3 6:fd00000000000000000000000000000b:5300 0", "c 6:fd000000000000000000000000000001:9101 03 0",
                "r 2 b3 6:fd00000000000000000000000000000b:5300 0", "dump"]),
            // regression for finding F25 (port0-flowkey-alias, repaired by FlowKey.ip_only): a flow admitted in
            // source-ip mode for 10.0.0.1:9000 was filed under 10.0.0.1:0, and after a switch to 4-tuple mode the
            // distinct 4-tuple 10.0.0.1:0 was forwarded on it; it must now get a flow of its own
            s(&["new 4 64 dns 0 0 0 400 400 0 0", "c 4:0a000001:9000 01 0", "r 0 b0 4:7f000001:5300 0", "cfg dns 1 0 0 400 400 0 0",
                "c 4:0a000001:0 02 1", "b 0 aa 2"]),
            // no cluster / empty / oversized
            s(&["new 4 4 - 1 0 0 400 400 0 0", "c 4:0a000001:9000 01 0", "cfg dns 1 0 0 400 400 0 0", "c 4:0a000001:9000 - 0",
                "c 4:0a000001:9000 0102030405 0", "c 4:0a000001:9000 01020304 0", "r 0 b0 4:7f000001:5300 0", "b 0 0102030405 0", "maxrx 5", "b 0 0102030405 0"]),
        ]
    }

    fn gen(&self, rng: &mut Rng, thorough: bool) -> Vec<String> {
        let clients = client_pool(rng);
        let backends = backend_pool();
        let cap = *rng.pick(&[0usize, 1, 2, 2, 3, 3, 4, 8]);
        let max_rx = *rng.pick(&[4usize, 16, 64, 64]);
        let cfg0 = gen_cfg(rng, None);
        let mut ops = vec![format!("new {} {} {}", cap, max_rx, cfg0.words())];
        // a private real manager tells the generator which flow ids are live
        let mut real = Real::new(cap, max_rx, &cfg0);
        let mut awaiting: Vec<usize> = vec![];
        let mut established: Vec<usize> = vec![];
        let mut ever: Vec<usize> = vec![];
        let mut now: u64 = rng.below(50);
        let mut cur = cfg0.clone();
        let mut counter = 0u32;
        let len = rng.range(6, if thorough { 90 } else { 45 });
        let eager_resolve = rng.chance(3, 5);
        for step in 0..len {
            // clock
            match rng.below(10) {
                0..=3 => {}
                4..=6 => now += rng.below(8),
                7 => now += *rng.pick(&[5u64, 50, 400]) / 2 + rng.below(4),
                8 => now += *rng.pick(&[5u64, 50, 400, 30000]) + rng.below(3),
                _ => {
                    if rng.chance(1, 4) {
                        now = now.saturating_sub(rng.below(20))
                    }
                }
            }
            let any_id = |rng: &mut Rng, ever: &Vec<usize>| -> usize {
                if !ever.is_empty() && rng.chance(3, 4) { *rng.pick(ever) } else { rng.below(6) as usize }
            };
            let r = rng.below(100);
            let line = if r < 38 {
                let src = *rng.pick(&clients);
                let mut p = payload(rng, &mut counter);
                if rng.chance(1, 25) {
                    p = vec![7u8; max_rx + rng.range(0, 2) as usize];
                }
                format!("c {} {} {}", addr_str(&src), hex(&p), now)
            } else if r < 55 {
                let id = if !awaiting.is_empty() && rng.chance(5, 6) { *rng.pick(&awaiting) } else { any_id(rng, &ever) };
                let (bid, a) = rng.pick(&backends).clone();
                format!("r {} {} {} {}", id, bid, addr_str(&a), now)
            } else if r < 70 {
                let id = if !established.is_empty() && rng.chance(5, 6) { *rng.pick(&established) } else { any_id(rng, &ever) };
                let p = payload(rng, &mut counter);
                format!("b {} {} {}", id, hex(&p), now)
            } else if r < 78 {
                format!("to {}", now)
            } else if r < 83 {
                let keep_mode = rng.chance(1, 2);
                cur = gen_cfg(rng, if keep_mode { Some(cur.wp) } else { None });
                format!("cfg {}", cur.words())
            } else if r < 88 {
                let live = real.mgr.flow_count();
                let n = if live > 0 && rng.chance(1, 2) { rng.below(live as u64) as usize } else { rng.below(6) as usize };
                format!("maxflows {}", n)
            } else if r < 90 {
                format!("maxrx {}", rng.pick(&[0usize, 3, 8, 64]))
            } else if r < 94 {
                format!("abort {}", any_id(rng, &ever))
            } else if r < 96 {
                if step * 3 > len * 2 { "drain".to_string() } else { format!("to {}", now) }
            } else if r < 98 {
                "closeall".to_string()
            } else {
                "dump".to_string()
            };
            // follow on the private instance
            let op = parse_op(&line);
            let outs = real.apply(&op);
            ops.push(line);
            for o in &outs {
                match o {
                    Output::SelectBackend { flow, .. } => {
                        awaiting.push(*flow);
                        if !ever.contains(flow) {
                            ever.push(*flow);
                        }
                        if eager_resolve && rng.chance(4, 5) {
                            // the shell resolves synchronously; most flows follow that pattern
                            let (bid, a) = rng.pick(&backends).clone();
                            let l = format!("r {} {} {} {}", flow, bid, addr_str(&a), now);
                            let o2 = real.apply(&parse_op(&l));
                            ops.push(l);
                            if o2.iter().any(|x| matches!(x, Output::OpenUpstream { .. })) {
                                awaiting.retain(|x| x != flow);
                                established.push(*flow);
                            }
                            for x in &o2 {
                                if let Output::CloseFlow(f) = x {
                                    established.retain(|y| y != f);
                                }
                            }
                        }
                    }
                    Output::OpenUpstream { flow, .. } => {
                        awaiting.retain(|x| x != flow);
                        established.push(*flow);
                    }
                    Output::CloseFlow(f) => {
                        awaiting.retain(|x| x != f);
                        established.retain(|x| x != f);
                    }
                    _ => {}
                }
            }
        }
        if rng.chance(1, 3) {
            ops.push("dump".into());
        }
        // every case ends by letting the clock run out, then mass teardown
        ops.push(format!("to {}", now + 30000 + rng.below(3) * 30000));
        ops.push("closeall".into());
        if rng.chance(1, 2) {
            ops.push("dump".into());
        }
        ops
    }

    fn run_impl(&self, ops: &[String]) -> ImplRun {
        let mut r = ImplRun::default();
        let empty = Cfg { cluster: String::new(), wp: false, responses: 0, requests: 0, fto: 0, bto: 0, pp: false, every: false };
        let new_mon = |cfg: &Cfg, mf: usize, mr: usize| Mon {
            flows: BTreeMap::new(),
            cluster: cfg.clone(),
            max_flows: mf,
            cap_high: mf,
            max_rx: mr,
            draining: false,
            created: 0,
            closed: 0,
            fails: vec![],
            poisoned: false,
        };
        // like the driver, start from an empty manager (cap 0) until the first `new`
        let mut re = Real::new(0, 0, &empty);
        let mut mo = new_mon(&empty, 0, 0);
        let mut carried: Vec<(String, String)> = vec![];
        let (mut n_created, mut n_tob, mut n_closed) = (0u32, 0u32, 0u32);
        let mut tags: std::collections::BTreeSet<String> = Default::default();
        for line in ops {
            let op = parse_op(line);
            match &op {
                OpL::Bad => {
                    r.out.push("bad-op".into());
                    continue;
                }
                OpL::New(mf, mr, cfg) => {
                    re = Real::new(*mf, *mr, cfg);
                    r.out.push(format!("new | {}", re.summary()));
                    carried.append(&mut mo.fails);
                    mo = new_mon(cfg, *mf, *mr);
                    continue;
                }
                _ => {}
            }
            if let OpL::Dump = op {
                r.out.push(re.dump());
                continue;
            }
            // tags describing the situation before the op
            let live = re.mgr.flow_count();
            match &op {
                OpL::MaxFlows(n) if *n < live => {
                    tags.insert("cap-shrunk-below-live".into());
                }
                OpL::SetCluster(c) if c.wp != mo.cluster.wp && live > 0 => {
                    tags.insert("affinity-mode-switch-with-live-flows".into());
                }
                OpL::Resolved(id, ..) if !mo.flows.get(id).map(|f| f.backend.is_none()).unwrap_or(false) => {
                    tags.insert("stale-or-duplicate-resolution".into());
                }
                OpL::Backend(id, ..) if !mo.flows.contains_key(id) => {
                    tags.insert("reply-on-dead-flow".into());
                }
                OpL::Drain => {
                    tags.insert("drain".into());
                }
                OpL::CloseAll if live > 1 => {
                    tags.insert("mass-teardown".into());
                }
                _ => {}
            }
            let outs = re.apply(&op);
            let mut strs = vec![];
            for o in &outs {
                let s = re.out_str(o);
                let kind = s.split(' ').next().unwrap_or("").to_string();
                if kind.starts_with("m:") {
                    if kind.starts_with("m:drop:") || kind == "m:shed" {
                        tags.insert(kind);
                    }
                } else {
                    tags.insert(format!("out:{kind}"));
                }
                match o {
                    Output::SelectBackend { .. } => n_created += 1,
                    Output::SendToBackend(t) => {
                        n_tob += 1;
                        if t.payload.starts_with(&[0x0D, 0x0A, 0x0D, 0x0A, 0x00]) {
                            tags.insert("proxy-header-sent".into());
                        }
                    }
                    Output::CloseFlow(_) => {
                        n_closed += 1;
                        if matches!(op, OpL::Timeout(_)) {
                            tags.insert("idle-reclaim".into());
                        }
                        if matches!(op, OpL::Client(..) | OpL::Backend(..) | OpL::Resolved(..)) {
                            tags.insert("cap-exhausted-close".into());
                        }
                    }
                    _ => {}
                }
                strs.push(s);
            }
            let body = if strs.is_empty() { "-".to_string() } else { strs.join(";") };
            r.out.push(format!("{} | {}", body, re.summary()));
            // property oracles
            let armed = re.mgr.poll_timeout().map(|d| re.ms(d) as u64);
            mo.step(&op, &outs, re.mgr.flow_count(), armed);
            if let OpL::Timeout(now) = op {
                // idle reclaim, read off the manager's own public flow view
                for id in 0..MAX_ID_SCAN {
                    if let Some(f) = re.mgr.flow(id) {
                        if re.ms(f.idle_deadline) as u64 <= now {
                            mo.poisoned = false; // a flow left due is a violation whatever happened before
                            mo.fail("idle-flow-not-reclaimed", format!("flow {id} still due after handle_timeout"));
                        }
                    }
                }
            }
            if let OpL::CloseAll = op {
                if re.mgr.flow_count() != 0 || re.mgr.poll_timeout().is_some() {
                    mo.fail("close-all-left-a-flow", format!("flow_count {}", re.mgr.flow_count()));
                }
            }
        }
        if !mo.poisoned && mo.created - mo.closed != mo.flows.len() as u64 {
            r.oracle.push(("close-once-accounting".into(), format!("created {} closed {} live {}", mo.created, mo.closed, mo.flows.len())));
        }
        r.oracle.extend(carried);
        r.oracle.extend(mo.fails);
        r.nontrivial = n_created >= 2 && n_tob >= 1 && n_closed >= 1;
        r.tags = tags.into_iter().collect();
        r
    }
}

fn main() {
    std::panic::set_hook(Box::new(|_| {}));
    let args = parse_args();
    std::process::exit(run_area(&Udp, &args));
}
