//! C16 (timer wheel): real `sozu_lib::timer::Timer` (through the cfg(sozu_verif)
//! forwarders to `set_timeout_at` / `poll_to` / `next_tick`) vs the Lean model
//! `Sozu.Timer.Model`, plus the property's own oracles: every timeout fires
//! exactly once, not before its tick, not after the first drained poll that
//! reaches it; a cancelled one never fires; `next_tick` wakes the loop in time.
use std::collections::BTreeMap;
use std::time::Duration;

use sozu_lib::timer::{Timeout, Timer};
use verif_harness::*;

struct Wheel;

fn nt(x: Option<u64>) -> String {
    match x {
        None | Some(u64::MAX) => "max".into(),
        Some(n) => n.to_string(),
    }
}

impl Area for Wheel {
    fn name(&self) -> &'static str {
        "timerwheel"
    }
    fn rule(&self) -> String {
        "op sequences over one Timer: new(tick_ms in {1,7,10,100}, slots in {1..16, 8, 16 mostly}); a virtual clock that moves by 0..3 revolutions; set (delay 0 .. 4 revolutions, half-tick boundaries included), cancel / reset of live, fired, cancelled and forged handles, poll_to single or drained (repeated until None), polls with a target in the past, gaps of several revolutions without a poll; non-trivial = at least one timeout armed more than one revolution ahead fired or was skipped on an early visit of its slot; distinct = distinct op sequence".into()
    }
    fn cases(&self, thorough: bool) -> u64 {
        if thorough { 200_000 } else { 12_000 }
    }
    fn corpus(&self) -> Vec<Vec<String>> {
        let v = |xs: &[&str]| xs.iter().map(|s| s.to_string()).collect::<Vec<_>>();
        vec![
            // more than one revolution ahead: the slot is visited early
            v(&["new 10 8", "set 250 1", "poll 8", "poll 8", "poll 16", "poll 16", "poll 24", "poll 25", "poll 25", "poll 26"]),
            // a timeout armed after an unpolled gap of several revolutions
            v(&["new 10 8", "poll 0", "poll 30", "poll 30", "set 330 2", "poll 32", "poll 33", "poll 33", "poll 34"]),
            // re-polling the same tick fires the next tick's timeouts (one tick early)
            v(&["new 100 8", "set 1000 3", "poll 9", "poll 9", "poll 9"]),
            // cancel the only entry of a slot, then the wheel passes it
            v(&["new 10 8", "set 50 4", "cancel 0 5", "poll 4", "poll 5", "poll 6", "set 130 5", "poll 13", "poll 13"]),
            // mid-drain: the head of a slot fired, the entry behind it is due but not
            // announced by next_tick (C16_timer_next_poll_date_counterexample), then the drain goes on
            v(&["new 10 8", "set 50 1", "set 50 2", "poll 5", "poll 5", "poll 5"]),
            // a cancelled timeout's tick stays announced until the wheel passes it
            v(&["new 10 8", "set 50 1", "cancel 0 5", "poll 3", "poll 5", "poll 5"]),
            // two in one slot, different revolutions; reset the near one
            v(&["new 10 4", "set 20 6", "set 60 7", "reset 0 2 100", "poll 2", "poll 2", "poll 6", "poll 6", "poll 10", "poll 10", "poll 11"]),
        ]
    }
    fn gen(&self, rng: &mut Rng, _thorough: bool) -> Vec<String> {
        let tick_ms = *rng.pick(&[1u64, 7, 10, 10, 100]);
        let slots = *rng.pick(&[1u64, 2, 3, 4, 6, 8, 8, 8, 16, 16]);
        let pow2 = slots.next_power_of_two();
        let mut ops = vec![format!("new {tick_ms} {slots}")];
        let mut now: u64 = 0; // ms
        // The sequence is played on a real wheel while it is generated, only to
        // learn the handles `set` returns (cancel/reset of live handles would be
        // rare otherwise); the case itself is the plain op list.
        let mut shadow: Timer<usize> = Timer::verif_new(tick_ms, slots as usize, 64);
        let mut handles: Vec<(usize, u64)> = vec![];
        let mut next_st = 1usize;
        let n = rng.range(4, 40);
        let span = pow2 * tick_ms;
        for _ in 0..n {
            match rng.below(100) {
                0..=34 => {
                    let delay = match rng.below(6) {
                        0 => 0,
                        1 => rng.below(tick_ms * 2 + 1),
                        2 => rng.below(span + 1),
                        3 => span + rng.below(span * 3 + 1),
                        4 => ((rng.below(4 * pow2) + 1) * tick_ms).saturating_sub(tick_ms / 2 + rng.below(2)),
                        _ => rng.below(span * 2 + 1),
                    };
                    ops.push(format!("set {} {next_st}", now + delay));
                    let h = shadow.verif_set_timeout_at(Duration::from_millis(now + delay), next_st);
                    handles.push(h.verif_parts());
                    next_st += 1;
                }
                35..=49 => {
                    let (k, t) = if handles.is_empty() || rng.chance(1, 6) {
                        (rng.below(6) as usize, rng.below(40))
                    } else {
                        // mostly recent handles: live ones, fired ones, cancelled ones
                        let i = handles.len() - 1 - (rng.below(handles.len().min(6) as u64) as usize);
                        handles[i]
                    };
                    if rng.chance(2, 3) {
                        ops.push(format!("cancel {k} {t}"));
                        let _ = shadow.cancel_timeout(&Timeout::verif_from_parts(k, t));
                    } else {
                        let at = now + rng.below(span * 2 + 1);
                        ops.push(format!("reset {k} {t} {at}"));
                        if let Some(st) = shadow.cancel_timeout(&Timeout::verif_from_parts(k, t)) {
                            let h = shadow.verif_set_timeout_at(Duration::from_millis(at), st);
                            handles.push(h.verif_parts());
                        }
                    }
                }
                50..=64 => {
                    // time passes: a little, a tick, up to three revolutions
                    now += match rng.below(5) {
                        0 => rng.below(tick_ms + 1),
                        1 => tick_ms,
                        2 => rng.below(span + 1),
                        3 => span * rng.range(1, 3) + rng.below(tick_ms + 1),
                        _ => rng.below(3 * tick_ms + 1),
                    };
                    ops.push(format!("pollms {now}"));
                    let _ = shadow.verif_poll_to((now + tick_ms / 2) / tick_ms);
                }
                65..=89 => {
                    // the event loop: poll until None (or stop short of it)
                    let target = (now + tick_ms / 2) / tick_ms;
                    for _ in 0..rng.range(1, 4) {
                        ops.push(format!("poll {target}"));
                        let _ = shadow.verif_poll_to(target);
                    }
                }
                _ => {
                    let target = ((now + tick_ms / 2) / tick_ms).saturating_sub(rng.below(3));
                    ops.push(format!("poll {target}"));
                    let _ = shadow.verif_poll_to(target);
                }
            }
        }
        // drain at the end, far enough for everything
        let end = (now + tick_ms / 2) / tick_ms + 5 * pow2 + 45;
        for _ in 0..(next_st + 1) {
            ops.push(format!("poll {end}"));
        }
        ops
    }
    fn keep_prefix(&self) -> usize {
        1
    }
    fn run_impl(&self, ops: &[String]) -> ImplRun {
        let mut run = ImplRun::default();
        let mut timer: Option<Timer<usize>> = None;
        let mut tick_ms = 1u64;
        let mut slots = 1u64;
        // reference: live timeouts by token
        let mut live: BTreeMap<usize, (u64, usize)> = BTreeMap::new();
        let mut fired: BTreeMap<usize, u32> = BTreeMap::new();
        let mut cancelled: Vec<usize> = vec![];
        // the last poll returned None and only set/cancel/reset happened since
        let mut settled = true;
        let mut far = false;
        let mut alarm = |run: &mut ImplRun, class: &str, detail: String| {
            if !run.oracle.iter().any(|(c, _)| c == class) {
                run.oracle.push((class.to_string(), detail));
            }
        };
        for (i, op) in ops.iter().enumerate() {
            let f: Vec<&str> = op.split_whitespace().collect();
            let num = |j: usize| f.get(j).and_then(|s| s.parse::<u64>().ok());
            let mut line = match (f.first().copied(), timer.as_mut()) {
                (Some("new"), _) => match (num(1), num(2)) {
                    (Some(a), Some(b)) if a > 0 && f.len() == 3 => {
                        tick_ms = a;
                        slots = (b as usize).next_power_of_two() as u64;
                        timer = Some(Timer::verif_new(a, b as usize, 64));
                        live.clear();
                        fired.clear();
                        cancelled.clear();
                        settled = true;
                        format!("new slots={slots}")
                    }
                    _ => "bad-op".into(),
                },
                (Some("set"), Some(t)) if f.len() == 3 && num(1).is_some() && num(2).is_some() => {
                    let st = num(2).unwrap() as usize;
                    let h: Timeout = t.verif_set_timeout_at(Duration::from_millis(num(1).unwrap()), st);
                    let (k, tick) = h.verif_parts();
                    run.tags.push("set".into());
                    if tick <= t.verif_tick() {
                        alarm(&mut run, "timer-armed-in-the-past", format!("op {i} `{op}`: armed at tick {tick} with the wheel at {}", t.verif_tick()));
                    }
                    if tick >= t.verif_tick() + slots {
                        far = true;
                        run.tags.push("set:beyond-one-revolution".into());
                    }
                    if live.insert(k, (tick, st)).is_some() {
                        alarm(&mut run, "timer-token-reused-while-live", format!("op {i} `{op}`: token {k}"));
                    }
                    format!("tok={k} tick={tick}")
                }
                (Some("cancel"), Some(t)) if f.len() == 3 && num(1).is_some() && num(2).is_some() => {
                    let (k, tick) = (num(1).unwrap() as usize, num(2).unwrap());
                    let r = t.cancel_timeout(&Timeout::verif_from_parts(k, tick));
                    let expect = live.get(&k).filter(|(tk, _)| *tk == tick).map(|(_, st)| *st);
                    if r != expect {
                        alarm(&mut run, "timer-cancel-wrong", format!("op {i} `{op}`: returned {r:?}, the live timeout with that handle is {expect:?}"));
                    }
                    if let Some(st) = r {
                        live.remove(&k);
                        cancelled.push(st);
                        run.tags.push("cancel:live".into());
                    } else {
                        run.tags.push("cancel:stale".into());
                    }
                    match r {
                        Some(s) => format!("some {s}"),
                        None => "none".into(),
                    }
                }
                (Some("reset"), Some(t)) if f.len() == 4 && num(1).is_some() && num(2).is_some() && num(3).is_some() => {
                    // `reset_timeout` = cancel, then set with the same state (its
                    // `set_timeout` reads the wall clock: composed here on the virtual one)
                    let (k, tick) = (num(1).unwrap() as usize, num(2).unwrap());
                    match t.cancel_timeout(&Timeout::verif_from_parts(k, tick)) {
                        None => {
                            run.tags.push("reset:stale".into());
                            "none".into()
                        }
                        Some(st) => {
                            live.remove(&k);
                            let h = t.verif_set_timeout_at(Duration::from_millis(num(3).unwrap()), st);
                            let (k2, tick2) = h.verif_parts();
                            live.insert(k2, (tick2, st));
                            run.tags.push("reset:live".into());
                            format!("tok={k2} tick={tick2}")
                        }
                    }
                }
                (Some(w @ ("poll" | "pollms")), Some(t)) if f.len() == 2 && num(1).is_some() => {
                    let target = if w == "poll" {
                        num(1).unwrap()
                    } else {
                        Timer::<usize>::verif_duration_to_tick(Duration::from_millis(num(1).unwrap()), tick_ms)
                    };
                    let before = t.verif_tick();
                    let eff = target.max(before);
                    let r = t.verif_poll_to(target);
                    match r {
                        Some(st) => {
                            settled = false;
                            run.tags.push("poll:some".into());
                            *fired.entry(st).or_insert(0) += 1;
                            let entry = live.iter().find(|(_, (_, s))| *s == st).map(|(k, v)| (*k, *v));
                            match entry {
                                None => alarm(&mut run, "timer-fired-unknown-or-twice", format!("op {i} `{op}`: state {st} fired but is not pending (fired {} time(s), cancelled: {})", fired[&st], cancelled.contains(&st))),
                                Some((k, (tick, _))) => {
                                    if tick > eff {
                                        alarm(&mut run, "timer-fired-early", format!("op {i} `{op}`: state {st} due at tick {tick} fired by a poll to {eff}"));
                                    }
                                    if tick >= before + slots {
                                        run.tags.push("fired:armed-beyond-one-revolution".into());
                                    }
                                    live.remove(&k);
                                }
                            }
                            format!("some {st}")
                        }
                        None => {
                            settled = true;
                            run.tags.push("poll:none".into());
                            if let Some((k, (tick, st))) = live.iter().find(|(_, (tick, _))| *tick <= eff) {
                                alarm(&mut run, "timer-missed-deadline", format!("op {i} `{op}`: poll to tick {eff} returned None although timeout token {k} state {st} is due at tick {tick}"));
                            }
                            if t.verif_tick() != eff + 1 {
                                alarm(&mut run, "timer-tick-not-advanced", format!("op {i} `{op}`: wheel tick {} after a drained poll to {eff}", t.verif_tick()));
                            }
                            "none".into()
                        }
                    }
                }
                _ => "bad-op".into(),
            };
            if let Some(t) = timer.as_ref() {
                if line != "bad-op" {
                    let nxt = t.verif_next_tick();
                    // the event loop sleeps until next_tick: it must not be later than
                    // the earliest pending deadline (judged when the wheel is drained)
                    if settled {
                        if let Some((k, (tick, _))) = live.iter().min_by_key(|(_, (tick, _))| *tick) {
                            let late = match nxt {
                                None | Some(u64::MAX) => true,
                                Some(n) => n > *tick,
                            };
                            if late {
                                alarm(&mut run, "timer-next-poll-late", format!("op {i} `{op}`: next_tick = {} but timeout token {k} is due at tick {tick}", nt(nxt)));
                            }
                        }
                    }
                    line.push_str(&format!(" | tick={} nt={}", t.verif_tick(), nt(nxt)));
                }
            }
            run.out.push(line);
        }
        // everything armed and not cancelled must have fired exactly once by the final drain
        if let Some((k, (tick, st))) = live.iter().next() {
            alarm(&mut run, "timer-never-fired", format!("timeout token {k} state {st} due at tick {tick} never fired although the case ends with polls far beyond it"));
        }
        if let Some((st, n)) = fired.iter().find(|(_, n)| **n > 1) {
            alarm(&mut run, "timer-fired-unknown-or-twice", format!("state {st} fired {n} times"));
        }
        run.nontrivial = far;
        run
    }
}

fn main() {
    let args = parse_args();
    std::process::exit(run_area(&Wheel, &args));
}
