//! C15 (stateful half, black box): a real sozu worker (rig) with an HTTPS
//! listener, a scripted HTTP/2 client over TLS (rustls) sending generated and
//! abusive frame sequences, an H1 mock backend. Observed: GOAWAY / RST_STREAM
//! codes, connection release, worker liveness (`Worker::alive`), a concurrent
//! well-behaved connection and fresh probe connections still served.
//!
//! Expectations come from (a) the Lean model through the `h2wire_driver`
//! (`decode` verdict of a single frame, flood trip counts, the first-SETTINGS
//! rule) and (b) RFC 9113 rules written here (zero increment, window overflow,
//! concurrent-stream limit). Never panics: every case is judged, the worker is
//! restarted when it died.
use std::io::{Read, Write};
use std::net::SocketAddr;
use std::sync::atomic::{AtomicBool, Ordering};
use std::sync::Arc;
use std::time::{Duration, Instant};

use serde_json::{json, Value};
use verif_harness::rig::*;
use verif_harness::*;

const PREFACE: &[u8] = b"PRI * HTTP/2.0\r\n\r\nSM\r\n\r\n";
const IO_TIMEOUT: Duration = Duration::from_millis(40);
const CASE_DEADLINE: Duration = Duration::from_millis(1500);

#[derive(Clone, Debug)]
struct Fr {
    ty: u8,
    flags: u8,
    sid: u32,
    payload: Vec<u8>,
}

fn frame(ty: u8, flags: u8, sid: u32, payload: &[u8]) -> Vec<u8> {
    let l = payload.len() as u32;
    let mut v = vec![(l >> 16) as u8, (l >> 8) as u8, l as u8, ty, flags];
    v.extend_from_slice(&sid.to_be_bytes());
    v.extend_from_slice(payload);
    v
}

/// GET (or POST) https://localhost<path> as an HPACK block of static-table
/// references and one literal authority
fn request_block(post: bool, path: &str) -> Vec<u8> {
    let mut b = vec![if post { 0x83 } else { 0x82 }, 0x87];
    if path == "/" {
        b.push(0x84);
    } else {
        b.push(0x44); // literal with incremental indexing, name = :path (4)
        b.push(path.len() as u8);
        b.extend_from_slice(path.as_bytes());
    }
    b.push(0x41); // name = :authority (1)
    b.push(9);
    b.extend_from_slice(b"localhost");
    b
}

#[derive(Debug, PartialEq, Clone, Copy)]
enum End {
    Closed,
    Quiet,
    Matched,
}

struct Client {
    tls: TlsStream,
    buf: Vec<u8>,
    frames: Vec<Fr>,
}

impl Client {
    fn connect(front: SocketAddr) -> Result<Client, String> {
        // generous timeout for the handshake (a loaded machine), short read timeout afterwards
        let mut last = String::new();
        let mut tls = None;
        for _ in 0..3 {
            match tls_connect(front, "localhost", &["h2"], Duration::from_secs(2)) {
                Ok(t) => {
                    tls = Some(t);
                    break;
                }
                Err(e) => last = e.to_string(),
            }
        }
        let tls = tls.ok_or(last)?;
        let _ = tls.sock.set_read_timeout(Some(IO_TIMEOUT));
        if tls.conn.alpn_protocol() != Some(b"h2") {
            return Err("ALPN h2 not negotiated".into());
        }
        Ok(Client { tls, buf: vec![], frames: vec![] })
    }
    fn send(&mut self, data: &[u8]) -> bool {
        // the peer may close while we are still writing a flood: not an error
        self.tls.write_all(data).and_then(|_| self.tls.flush()).is_ok()
    }
    /// read frames until `done(frames)` holds, the peer closes, or the deadline passes
    fn read_until(&mut self, deadline: Duration, mut done: impl FnMut(&[Fr]) -> bool) -> End {
        let t0 = Instant::now();
        let mut tmp = [0u8; 16384];
        loop {
            self.parse();
            if done(&self.frames) {
                return End::Matched;
            }
            if t0.elapsed() > deadline {
                return End::Quiet;
            }
            match self.tls.read(&mut tmp) {
                Ok(0) => return End::Closed,
                Ok(n) => self.buf.extend_from_slice(&tmp[..n]),
                Err(e) if matches!(e.kind(), std::io::ErrorKind::WouldBlock | std::io::ErrorKind::TimedOut) => {}
                Err(e) if e.kind() == std::io::ErrorKind::Interrupted => {}
                Err(_) => {
                    self.parse();
                    return End::Closed;
                }
            }
        }
    }
    fn parse(&mut self) {
        loop {
            if self.buf.len() < 9 {
                return;
            }
            let l = ((self.buf[0] as usize) << 16) | ((self.buf[1] as usize) << 8) | self.buf[2] as usize;
            if self.buf.len() < 9 + l {
                return;
            }
            let f = Fr {
                ty: self.buf[3],
                flags: self.buf[4],
                sid: u32::from_be_bytes([self.buf[5], self.buf[6], self.buf[7], self.buf[8]]) & 0x7fff_ffff,
                payload: self.buf[9..9 + l].to_vec(),
            };
            self.buf.drain(..9 + l);
            self.frames.push(f);
        }
    }
    /// preface + empty SETTINGS, wait for the server SETTINGS, acknowledge it
    fn handshake(&mut self) -> Result<(), String> {
        let mut hello = PREFACE.to_vec();
        hello.extend(frame(4, 0, 0, &[]));
        if !self.send(&hello) {
            return Err("cannot send the preface".into());
        }
        let end = self.read_until(CASE_DEADLINE, |fs| fs.iter().any(|f| f.ty == 4 && f.flags & 1 == 0));
        if end != End::Matched {
            return Err(format!("no server SETTINGS ({end:?})"));
        }
        self.send(&frame(4, 1, 0, &[]));
        Ok(())
    }
    fn goaway(&self) -> Option<u32> {
        self.frames.iter().find(|f| f.ty == 7 && f.payload.len() >= 8).map(|f| u32::from_be_bytes([f.payload[4], f.payload[5], f.payload[6], f.payload[7]]))
    }
    fn rst_codes(&self) -> Vec<(u32, u32)> {
        self.frames.iter().filter(|f| f.ty == 3 && f.payload.len() == 4).map(|f| (f.sid, u32::from_be_bytes([f.payload[0], f.payload[1], f.payload[2], f.payload[3]]))).collect()
    }
    fn count(&self, ty: u8, ack: bool) -> usize {
        self.frames.iter().filter(|f| f.ty == ty && (f.flags & 1 != 0) == ack).count()
    }
    /// a response HEADERS frame on `sid` whose block starts with the static-table `:status 200`
    fn got_200(&self, sid: u32) -> bool {
        self.frames.iter().any(|f| {
            if f.ty != 1 || f.sid != sid {
                return false;
            }
            // skip HPACK dynamic-table-size updates (001xxxxx, RFC 7541 6.3) in front of the block
            let p = &f.payload;
            let mut i = 0;
            while i < p.len() && p[i] & 0xE0 == 0x20 {
                if p[i] & 0x1f == 0x1f {
                    i += 1;
                    while i < p.len() && p[i] & 0x80 != 0 {
                        i += 1;
                    }
                }
                i += 1;
            }
            p.get(i) == Some(&0x88)
        })
    }
}

// ------------------------------------------------------------------ set-up ----

struct Bed {
    worker: Worker,
    front: SocketAddr,
    /// same route on a listener with `h2_max_concurrent_streams = 2`
    front_limit2: SocketAddr,
    stop_backend: Arc<AtomicBool>,
    /// scripted HTTP/2 (prior knowledge, clear text) backend behind `/h2b` on `front`; accepted by the case itself
    h2_backend: MockBackend,
}

/// H1 backend: answers every request with 200, except paths starting with
/// `/hold`, which are never answered (the streams stay open)
fn spawn_backend(be: MockBackend, stop: Arc<AtomicBool>) {
    std::thread::spawn(move || {
        while !stop.load(Ordering::Relaxed) {
            if let Ok(mut c) = be.accept(Duration::from_millis(100)) {
                let stop = stop.clone();
                std::thread::spawn(move || {
                    // once a `/hold` request was seen the connection is never answered again:
                    // the end of a chunked request body ("0\r\n\r\n") arriving in a later read
                    // must not be mistaken for a second, answerable request
                    let mut holding = false;
                    while !stop.load(Ordering::Relaxed) {
                        match c.read_until(b"\r\n\r\n", Duration::from_millis(200)) {
                            ReadEnd::Closed | ReadEnd::Reset => return,
                            ReadEnd::Timeout => continue,
                            _ => {}
                        }
                        let req = c.take_received();
                        if holding || find(&req, b" /hold").is_some() {
                            holding = true;
                            continue;
                        }
                        // `/echo/<token>`: the body is the token, so a response can be matched to its request
                        let body: Vec<u8> = match find(&req, b" /echo/") {
                            Some(p) => req[p + 7..].iter().take_while(|b| **b != b' ').copied().collect(),
                            None => b"ok".to_vec(),
                        };
                        let mut resp = format!("HTTP/1.1 200 OK\r\nContent-Length: {}\r\n\r\n", body.len()).into_bytes();
                        resp.extend(body);
                        if c.write_all(&resp, Duration::from_millis(500)).is_err() {
                            return;
                        }
                    }
                });
            }
        }
    });
}

fn start_bed() -> Result<Bed, String> {
    start_bed_with(None)
}

fn start_bed_with(front_timeout: Option<u32>) -> Result<Bed, String> {
    let mut worker = Worker::start(WorkerOpts { log_level: "off".into(), front_timeout, request_timeout: front_timeout, ..WorkerOpts::default() }).map_err(|e| e.to_string())?;
    let front = worker.add_https_listener().map_err(|e| e.to_string())?;
    let be = MockBackend::listen().map_err(|e| e.to_string())?;
    let addr = be.addr;
    let stop = Arc::new(AtomicBool::new(false));
    spawn_backend(be, stop.clone());
    worker.add_https_route(front, "localhost", "/", "c0", addr, false).map_err(|e| e.to_string())?;
    let front_limit2 = worker
        .add_https_listener_with(|b| b.h2_max_concurrent_streams = Some(2), |_| {})
        .map_err(|e| e.to_string())?;
    worker.add_https_route(front_limit2, "localhost", "/", "c1", addr, false).map_err(|e| e.to_string())?;
    let h2_backend = MockBackend::listen().map_err(|e| e.to_string())?;
    let mut c2 = cluster("c2");
    c2.http2 = Some(true);
    worker.add_cluster(c2).map_err(|e| e.to_string())?;
    worker.add_https_frontend(front, "localhost", "/h2b", "c2").map_err(|e| e.to_string())?;
    worker.add_backend("c2", "c2-0", h2_backend.addr).map_err(|e| e.to_string())?;
    Ok(Bed { worker, front, front_limit2, stop_backend: stop, h2_backend })
}

fn good_request(c: &mut Client, sid: u32) -> Result<(), String> {
    if !c.send(&frame(1, 0x5, sid, &request_block(false, "/"))) {
        return Err("write failed".into());
    }
    match c.read_until(CASE_DEADLINE, |fs| fs.iter().any(|f| f.ty == 1 && f.sid == sid)) {
        End::Matched if c.got_200(sid) => Ok(()),
        End::Matched => Err("response is not 200".into()),
        e => Err(format!("no response ({e:?}), goaway {:?}", c.goaway())),
    }
}

// ------------------------------------------------------------------- cases ----

#[derive(Clone, Debug)]
struct Case {
    name: String,
    /// bytes sent after the handshake (or instead of the first SETTINGS when `raw_hello`)
    send: Vec<u8>,
    raw_hello: bool,
    /// model op whose answer defines the expectation (empty: fixed expectation)
    model_ops: Vec<String>,
    expect: Expect,
}

#[derive(Clone, Debug, PartialEq)]
enum Expect {
    /// per the model's `decode` line: `err c` => GOAWAY(c) [exact when `exact`], `ok` => answered, not wedged
    Decode { exact: bool },
    /// GOAWAY with exactly this code, then release
    GoAway(u32),
    /// GOAWAY(ENHANCE_YOUR_CALM) after exactly the number of acknowledged frames the model predicts
    Flood { ack_type: Option<u8> },
    /// GOAWAY(11) at some point, connection released
    FloodSoft,
    /// RST_STREAM with this code on some stream, connection stays usable
    Rst(u32),
    /// first SETTINGS payload: per the model's `first_settings` line
    FirstSettings,
    /// at least `n` RST_STREAM(REFUSED_STREAM), never more than `max` streams answered/open
    StreamLimit,
}

fn be24(v: u32) -> [u8; 3] {
    [(v >> 16) as u8, (v >> 8) as u8, v as u8]
}

fn gen_single(rng: &mut Rng) -> Vec<u8> {
    // a complete frame: random type/flags/stream id/len with matching payload, biased to the interesting corners
    let ty = *rng.pick(&[0u8, 1, 2, 3, 4, 5, 6, 7, 8, 9, 0x10, 0x11, 0x42]);
    let len = match rng.below(5) {
        0 => *rng.pick(&[0u32, 4, 5, 6, 8]),
        1 => rng.below(13) as u32,
        _ => rng.below(40) as u32,
    };
    let flags = if rng.chance(1, 2) { *rng.pick(&[0u8, 1, 4, 5, 8, 0x20, 0x28, 0x2d]) } else { rng.next() as u8 };
    let sid = match rng.below(6) {
        0 => 0,
        1 => 1,
        2 => 2,
        3 => 0x8000_0000,
        _ => 1 + 2 * rng.below(50) as u32,
    };
    let mut payload = rng.bytes(len as usize);
    if len > 0 && rng.chance(1, 2) {
        payload[0] = (len as i64 + rng.range(0, 3) as i64 - 2).clamp(0, 255) as u8;
    }
    let mut f = frame(ty, flags, sid, &payload);
    if rng.chance(1, 12) {
        // declared length above SETTINGS_MAX_FRAME_SIZE (payload not needed: refused on the header)
        f[..3].copy_from_slice(&be24(*rng.pick(&[16385u32, 65536, 0xff_ffff])));
        f.truncate(9);
    }
    f
}

fn build_cases(seed: u64, thorough: bool) -> Vec<Case> {
    let mut cases = vec![];
    let ping = frame(6, 0, 0, &[1, 2, 3, 4, 5, 6, 7, 8]);
    // --- single frames after the handshake, judged by the model's decoder
    let n = if thorough { 12000 } else { 700 };
    for i in 0..n {
        let mut rng = Rng::for_case(seed, i);
        let f = gen_single(&mut rng);
        let sid = u32::from_be_bytes([f[5], f[6], f[7], f[8]]) & 0x7fff_ffff;
        let l = ((f[0] as u32) << 16) | ((f[1] as u32) << 8) | f[2] as u32;
        // exact code expected when no stream state is consulted before the parser speaks:
        // header-level errors, and every frame on stream 0
        let exact = sid == 0 || l > 16384;
        let mut send = f.clone();
        send.extend(&ping);
        cases.push(Case {
            name: format!("single:{}", hex(&f)),
            send,
            raw_hello: false,
            model_ops: vec![format!("decode 16384 {}", hex(&f))],
            expect: Expect::Decode { exact },
        });
    }
    // --- floods, trip points from the model
    let rep = |f: &[u8], n: usize| -> Vec<u8> { (0..n).flat_map(|_| f.to_vec()).collect() };
    cases.push(Case {
        name: "flood:ping".into(),
        send: rep(&ping, 140),
        raw_hello: false,
        model_ops: std::iter::once("fnew 100 100 50 100 100 20 100 10000 50 500 65536".to_string()).chain(std::iter::once("f settings 0".into())).chain((0..140).map(|_| "f ping".to_string())).collect(),
        expect: Expect::Flood { ack_type: Some(6) },
    });
    cases.push(Case {
        name: "flood:settings".into(),
        send: rep(&frame(4, 0, 0, &[]), 80),
        raw_hello: false,
        model_ops: std::iter::once("fnew 100 100 50 100 100 20 100 10000 50 500 65536".to_string()).chain(std::iter::once("f settings 0".into())).chain((0..80).map(|_| "f settings 0".to_string())).collect(),
        expect: Expect::Flood { ack_type: Some(4) },
    });
    cases.push(Case {
        name: "flood:window_update_stream0".into(),
        send: rep(&frame(8, 0, 0, &[0, 0, 0, 1]), 140),
        raw_hello: false,
        model_ops: std::iter::once("fnew 100 100 50 100 100 20 100 10000 50 500 65536".to_string()).chain(std::iter::once("f settings 0".into())).chain((0..140).map(|_| "f wu0".to_string())).collect(),
        expect: Expect::Flood { ack_type: None },
    });
    {
        let block = request_block(false, "/");
        let mut send = frame(1, 0x1, 1, &block[..2]); // HEADERS, END_STREAM, no END_HEADERS
        for _ in 0..40 {
            send.extend(frame(9, 0, 1, &[]));
        }
        cases.push(Case {
            name: "flood:continuation".into(),
            send,
            raw_hello: false,
            model_ops: std::iter::once("fnew 100 100 50 100 100 20 100 10000 50 500 65536".to_string()).chain(["f settings 0".to_string(), "f headers_start 2".to_string()]).chain((0..40).map(|_| "f continuation 0".to_string())).collect(),
            expect: Expect::Flood { ack_type: None },
        });
    }
    {
        let mut send = frame(1, 0x4, 1, &request_block(true, "/hold/empty")); // POST, stream stays open
        for _ in 0..140 {
            send.extend(frame(0, 0, 1, &[]));
        }
        cases.push(Case { name: "flood:empty_data".into(), send, raw_hello: false, model_ops: vec![], expect: Expect::FloodSoft });
    }
    {
        let mut send = vec![];
        for i in 0..130u32 {
            send.extend(frame(1, 0x5, 1 + 2 * i, &request_block(false, "/hold/rr")));
            send.extend(frame(3, 0, 1 + 2 * i, &8u32.to_be_bytes()));
        }
        cases.push(Case { name: "flood:rapid_reset".into(), send, raw_hello: false, model_ops: vec![], expect: Expect::FloodSoft });
    }
    // --- RFC 9113 §6.9 / §6.9.1
    cases.push(Case { name: "rfc:zero_increment_stream0".into(), send: frame(8, 0, 0, &[0, 0, 0, 0]), raw_hello: false, model_ops: vec![], expect: Expect::GoAway(1) });
    {
        let mut send = frame(1, 0x4, 1, &request_block(true, "/hold/zi"));
        send.extend(frame(8, 0, 1, &[0, 0, 0, 0]));
        cases.push(Case { name: "rfc:zero_increment_stream".into(), send, raw_hello: false, model_ops: vec![], expect: Expect::Rst(1) });
    }
    {
        let mut send = frame(8, 0, 0, &[0x7f, 0xff, 0xff, 0xff]);
        send.extend(frame(8, 0, 0, &[0x7f, 0xff, 0xff, 0xff]));
        cases.push(Case { name: "rfc:window_overflow_stream0".into(), send, raw_hello: false, model_ops: vec![], expect: Expect::GoAway(3) });
    }
    cases.push(Case { name: "rfc:continuation_without_headers".into(), send: frame(9, 4, 1, &[]), raw_hello: false, model_ops: vec![], expect: Expect::GoAway(1) });
    {
        // 120 requests that are never answered: the advertised limit (100) must hold
        let mut send = vec![];
        for i in 0..120u32 {
            send.extend(frame(1, 0x5, 1 + 2 * i, &request_block(false, "/hold/limit")));
        }
        cases.push(Case { name: "limit:concurrent_streams".into(), send, raw_hello: false, model_ops: vec![], expect: Expect::StreamLimit });
    }
    // --- the first SETTINGS of the connection
    for payload in [vec![], vec![0, 3, 0, 0, 0, 100], vec![0, 3, 0, 0, 0, 100, 0], vec![1, 2, 3], vec![0u8; 65 * 6], vec![0u8; 64 * 6]] {
        let mut send = PREFACE.to_vec();
        send.extend(frame(4, 0, 0, &payload));
        cases.push(Case {
            name: format!("first_settings:{}", payload.len()),
            send,
            raw_hello: true,
            model_ops: vec![format!("first_settings {}", hex(&payload))],
            expect: Expect::FirstSettings,
        });
    }
    cases
}

// ------------------------------------------------- stream-state family ----

#[derive(Clone, Copy, PartialEq, Debug)]
enum Scene {
    IdleAbove,
    ClosedBelow,
    ClosedEndStreamLast,
    ClosedEndStreamBelow,
    ClosedPeerRst,
    RefusedLimit,
    RefusedDraining,
    HalfClosedRemote,
    Open,
}

#[derive(Clone, Copy, PartialEq, Debug)]
enum Fk {
    Data,
    Headers,
    WindowUpdate,
    RstStream,
    Priority,
    Continuation,
}

#[derive(Clone, PartialEq, Debug)]
enum Out {
    Handled,
    SErr(u32),
    CErr(u32),
    Silent,
}

const SCENES: [Scene; 9] = [
    Scene::IdleAbove,
    Scene::ClosedBelow,
    Scene::ClosedEndStreamLast,
    Scene::ClosedEndStreamBelow,
    Scene::ClosedPeerRst,
    Scene::RefusedLimit,
    Scene::RefusedDraining,
    Scene::HalfClosedRemote,
    Scene::Open,
];
const KINDS: [Fk; 6] = [Fk::Data, Fk::Headers, Fk::WindowUpdate, Fk::RstStream, Fk::Priority, Fk::Continuation];

impl Scene {
    fn name(self) -> &'static str {
        match self {
            Scene::IdleAbove => "idle_above",
            Scene::ClosedBelow => "closed_below",
            Scene::ClosedEndStreamLast => "closed_end_stream_last",
            Scene::ClosedEndStreamBelow => "closed_end_stream_below",
            Scene::ClosedPeerRst => "closed_peer_rst",
            Scene::RefusedLimit => "refused_limit",
            Scene::RefusedDraining => "refused_draining",
            Scene::HalfClosedRemote => "half_closed_remote",
            Scene::Open => "open",
        }
    }
    /// the state name of the Lean table
    fn model_state(self) -> &'static str {
        match self {
            Scene::ClosedEndStreamLast | Scene::ClosedEndStreamBelow => "closed_end_stream",
            Scene::RefusedLimit | Scene::RefusedDraining => "refused",
            o => o.name(),
        }
    }
    fn refused(self) -> bool {
        matches!(self, Scene::RefusedLimit | Scene::RefusedDraining)
    }
}

impl Fk {
    fn name(self) -> &'static str {
        match self {
            Fk::Data => "data",
            Fk::Headers => "headers",
            Fk::WindowUpdate => "window_update",
            Fk::RstStream => "rst_stream",
            Fk::Priority => "priority",
            Fk::Continuation => "continuation",
        }
    }
    fn bytes(self, sid: u32) -> Vec<u8> {
        match self {
            Fk::Data => frame(0, 0, sid, b"xyz"),
            Fk::Headers => frame(1, 0x5, sid, &request_block(false, "/")),
            Fk::WindowUpdate => frame(8, 0, sid, &[0, 0, 0, 1]),
            Fk::RstStream => frame(3, 0, sid, &8u32.to_be_bytes()),
            Fk::Priority => frame(2, 0, sid, &[0, 0, 0, 0, 16]),
            Fk::Continuation => frame(9, 4, sid, &[]),
        }
    }
}

/// RFC 9113 §5.1 (stream states), §5.1.1 (identifiers), §6.4 (RST_STREAM on
/// idle), §6.10 (CONTINUATION), written from the RFC text: the answers a
/// conforming server may give. Where the RFC leaves a choice (or RFC 7540
/// allowed the connection error) every choice is listed.
fn rfc_stream_allowed(scene: Scene, fk: Fk) -> Vec<Out> {
    use Out::*;
    const PE: u32 = 1;
    const SC: u32 = 5;
    match fk {
        // a CONTINUATION not preceded by HEADERS without END_HEADERS: connection error (§6.10)
        Fk::Continuation => return vec![CErr(PE)],
        // PRIORITY can be sent and received in any stream state (§5.1, §6.3)
        Fk::Priority => return vec![Handled],
        _ => {}
    }
    match scene {
        // idle: anything other than HEADERS or PRIORITY is a connection error PROTOCOL_ERROR
        Scene::IdleAbove => {
            if fk == Fk::Headers {
                vec![Handled]
            } else {
                vec![CErr(PE)]
            }
        }
        // an unused id below a used one is implicitly closed (§5.1.1); re-opening it is PROTOCOL_ERROR
        Scene::ClosedBelow => match fk {
            Fk::Headers => vec![CErr(PE), CErr(SC)],
            Fk::Data => vec![SErr(SC), CErr(SC), CErr(PE)],
            _ => vec![Handled, SErr(SC)],
        },
        // closed after END_STREAM: connection error STREAM_CLOSED, WINDOW_UPDATE / RST_STREAM tolerated
        Scene::ClosedEndStreamLast | Scene::ClosedEndStreamBelow => match fk {
            Fk::Headers | Fk::Data => vec![CErr(SC), SErr(SC)],
            _ => vec![Handled, SErr(SC)],
        },
        // closed by the peer's RST_STREAM: stream error STREAM_CLOSED
        Scene::ClosedPeerRst => match fk {
            Fk::Headers => vec![SErr(SC), CErr(SC)],
            Fk::Data => vec![SErr(SC)],
            _ => vec![Handled, SErr(SC)],
        },
        // closed by *our* RST_STREAM: frames in flight MUST be ignored (never a connection error)
        Scene::RefusedLimit | Scene::RefusedDraining => match fk {
            Fk::Data => vec![Handled, SErr(SC)],
            _ => vec![Handled],
        },
        // half-closed (remote): only WINDOW_UPDATE, PRIORITY, RST_STREAM; otherwise STREAM_CLOSED
        Scene::HalfClosedRemote => match fk {
            Fk::Headers | Fk::Data => vec![SErr(SC), CErr(SC)],
            _ => vec![Handled],
        },
        Scene::Open => vec![Handled],
    }
}

struct StreamCase {
    scene: Scene,
    fk: Fk,
    batch: bool,
    ids: [u32; 3],
}

impl StreamCase {
    fn name(&self) -> String {
        format!("stream:{}:{}:{}:{}:{}:{}", self.scene.name(), self.fk.name(), if self.batch { "batch" } else { "seq" }, self.ids[0], self.ids[1], self.ids[2])
    }
    fn parse(n: &str) -> Option<StreamCase> {
        let w: Vec<&str> = n.split(':').collect();
        if w.len() != 7 || w[0] != "stream" {
            return None;
        }
        Some(StreamCase {
            scene: *SCENES.iter().find(|s| s.name() == w[1])?,
            fk: *KINDS.iter().find(|k| k.name() == w[2])?,
            batch: w[3] == "batch",
            ids: [w[4].parse().ok()?, w[5].parse().ok()?, w[6].parse().ok()?],
        })
    }
}

fn build_stream_cases(seed: u64, thorough: bool) -> Vec<StreamCase> {
    let mut out = vec![];
    let rounds = if thorough { 12 } else { 2 };
    for round in 0..rounds {
        let mut rng = Rng::for_case(seed ^ 0x5712_ea11, round);
        for scene in SCENES {
            for fk in KINDS {
                // re-using a refused id / a second HEADERS on an open stream are other questions
                if fk == Fk::Headers && (scene.refused() || scene == Scene::Open) {
                    continue;
                }
                let s1 = if round == 0 { 1 } else { 1 + 2 * rng.below(30) as u32 };
                let s2 = s1 + 2 * (1 + if round == 0 { 0 } else { rng.below(5) as u32 });
                let s3 = s2 + 2 * (1 + if round == 0 { 0 } else { rng.below(5) as u32 });
                for batch in [false, true] {
                    let needs_answer_first = matches!(scene, Scene::ClosedEndStreamLast | Scene::ClosedEndStreamBelow | Scene::RefusedDraining);
                    if batch && needs_answer_first {
                        continue;
                    }
                    // the draining scene costs a worker of its own (start + SoftStop + stop): a few rounds are enough
                    if scene == Scene::RefusedDraining && round >= 3 {
                        continue;
                    }
                    out.push(StreamCase { scene, fk, batch, ids: [s1, s2, s3] });
                }
            }
        }
    }
    out
}

const MARK: [u8; 8] = [0xA1; 8];
const DONE: [u8; 8] = [0xD0; 8];

fn ping_acked(fs: &[Fr], payload: &[u8; 8]) -> bool {
    fs.iter().any(|f| f.ty == 6 && f.flags & 1 != 0 && f.payload == payload)
}
fn stream_ended(fs: &[Fr], sid: u32) -> bool {
    fs.iter().any(|f| f.sid == sid && (f.ty == 0 || f.ty == 1) && f.flags & 1 != 0)
}

/// Runs one stream-state case. `bed` is the shared worker except for the
/// draining scene, which needs a worker of its own (SoftStop is one-shot).
fn run_stream_case(shared: &mut Bed, case: &StreamCase, model: &str) -> Verdict {
    let mut v = Verdict { fails: vec![], known: vec![], tags: vec![], observed: String::new() };
    let name = case.name();
    let fail = |v: &mut Verdict, class: &str, detail: String| v.fails.push((class.to_string(), format!("{name}: {detail}")));
    let [s1, s2, s3] = case.ids;
    let mut own: Option<Bed> = None;
    let front = if case.scene == Scene::RefusedDraining {
        match start_bed() {
            Ok(b) => {
                let f = b.front;
                own = Some(b);
                f
            }
            Err(e) => {
                fail(&mut v, "rig-setup-failed", e);
                return v;
            }
        }
    } else {
        shared.front_limit2
    };
    let mut c = match Client::connect(front).and_then(|mut c| c.handshake().map(|_| c)) {
        Ok(c) => c,
        Err(e) => {
            fail(&mut v, "handshake-failed", e);
            return v;
        }
    };
    let get = |sid: u32, path: &str| frame(1, 0x5, sid, &request_block(false, path));
    let ping = |p: &[u8; 8]| frame(6, 0, 0, p);
    // ---- the scene: (bytes, target id, streams still held open, "scene is set" test)
    let mut setup: Vec<u8> = vec![];
    let target;
    let mut held: Vec<u32> = vec![];
    let mut top = s3;
    type Cond = Box<dyn Fn(&[Fr]) -> bool>;
    let ready: Cond;
    match case.scene {
        Scene::IdleAbove => {
            setup.extend(get(s1, "/"));
            target = s3;
            ready = Box::new(move |fs| stream_ended(fs, s1));
        }
        Scene::ClosedBelow => {
            setup.extend(get(s2, "/"));
            target = s1;
            ready = Box::new(move |fs| stream_ended(fs, s2));
        }
        Scene::ClosedEndStreamLast => {
            setup.extend(get(s1, "/"));
            target = s1;
            ready = Box::new(move |fs| stream_ended(fs, s1));
        }
        Scene::ClosedEndStreamBelow => {
            setup.extend(get(s1, "/"));
            setup.extend(get(s2, "/"));
            target = s1;
            ready = Box::new(move |fs| stream_ended(fs, s1) && stream_ended(fs, s2));
        }
        Scene::ClosedPeerRst => {
            setup.extend(get(s1, "/hold/rst"));
            setup.extend(frame(3, 0, s1, &8u32.to_be_bytes()));
            setup.extend(ping(&MARK));
            target = s1;
            ready = Box::new(|fs| ping_acked(fs, &MARK));
        }
        Scene::RefusedLimit => {
            setup.extend(get(s1, "/hold/a"));
            setup.extend(get(s2, "/hold/b"));
            setup.extend(get(s3, "/"));
            held = vec![s1, s2];
            target = s3;
            ready = Box::new(move |fs| fs.iter().any(|f| f.ty == 3 && f.sid == s3));
        }
        Scene::RefusedDraining => {
            setup.extend(get(s1, "/hold/drain"));
            setup.extend(ping(&MARK));
            held = vec![s1];
            target = s2;
            top = s2;
            ready = Box::new(|fs| ping_acked(fs, &MARK));
        }
        Scene::HalfClosedRemote => {
            setup.extend(get(s1, "/hold/half"));
            setup.extend(ping(&MARK));
            held = vec![s1];
            target = s1;
            ready = Box::new(|fs| ping_acked(fs, &MARK));
        }
        Scene::Open => {
            setup.extend(frame(1, 0x4, s1, &request_block(true, "/hold/open")));
            setup.extend(ping(&MARK));
            held = vec![s1];
            target = s1;
            ready = Box::new(|fs| ping_acked(fs, &MARK));
        }
    }
    let mut probe_frames = case.fk.bytes(target);
    probe_frames.extend(ping(&DONE));
    if case.batch {
        setup.extend(&probe_frames);
        c.send(&setup);
    } else {
        c.send(&setup);
        if c.read_until(CASE_DEADLINE, |fs| ready(fs) || fs.iter().any(|f| f.ty == 7)) != End::Matched || c.goaway().is_some() {
            fail(&mut v, "stream-scene-not-established", format!("goaway {:?}, {} frames", c.goaway(), c.frames.len()));
            return v;
        }
        if case.scene == Scene::RefusedDraining {
            // start the drain: SoftStop -> GOAWAY(NO_ERROR); then a new stream, which must be refused
            let b = own.as_mut().unwrap();
            let _ = b.worker.send(sozu_command_lib::proto::command::request::RequestType::SoftStop(sozu_command_lib::proto::command::SoftStop {}));
            if c.read_until(CASE_DEADLINE, |fs| fs.iter().any(|f| f.ty == 7)) != End::Matched || c.goaway() != Some(0) {
                v.tags.push("stream:draining-scene-unavailable".into());
                b.stop_backend.store(true, Ordering::Relaxed);
                drop(c);
                b.worker.stop();
                return v;
            }
            c.send(&get(s2, "/"));
            if c.read_until(CASE_DEADLINE, |fs| fs.iter().any(|f| f.ty == 3 && f.sid == s2)) != End::Matched {
                v.tags.push("stream:draining-new-stream-not-refused".into());
                fail(&mut v, "draining-new-stream-not-refused", format!("rst {:?}", c.rst_codes()));
            }
        }
        c.send(&probe_frames);
    }
    let draining = case.scene == Scene::RefusedDraining;
    let hard_goaway = |fs: &[Fr]| fs.iter().any(|f| f.ty == 7 && f.payload.len() >= 8 && (!draining || f.payload[4..8] != [0, 0, 0, 0]));
    let end = c.read_until(CASE_DEADLINE, |fs| ping_acked(fs, &DONE) || hard_goaway(fs));
    // ---- what was the answer to the probe frame
    let goaway_code = c.frames.iter().filter(|f| f.ty == 7 && f.payload.len() >= 8).map(|f| u32::from_be_bytes([f.payload[4], f.payload[5], f.payload[6], f.payload[7]])).find(|c| !draining || *c != 0);
    let mut rsts: Vec<u32> = c.rst_codes().iter().filter(|(sid, _)| *sid == target).map(|(_, c)| *c).collect();
    if case.scene.refused() {
        // the refusal itself
        if let Some(p) = rsts.iter().position(|c| *c == 7) {
            rsts.remove(p);
        }
    }
    let observed = if let Some(g) = goaway_code {
        Out::CErr(g)
    } else if let Some(r) = rsts.first() {
        Out::SErr(*r)
    } else if ping_acked(&c.frames, &DONE) {
        Out::Handled
    } else {
        Out::Silent
    };
    v.observed = format!("{observed:?} (end {end:?}, rst on target {rsts:?})");
    v.tags.push(format!("stream:{}:{}={:?}", case.scene.name(), case.fk.name(), observed));
    let allowed = rfc_stream_allowed(case.scene, case.fk);
    if draining && observed == Out::Silent && end == End::Closed {
        // a draining worker may finish the connection at any moment after its GOAWAY(NO_ERROR):
        // released, and not with a connection error - nothing to judge
        v.tags.push("stream:draining-connection-closed-by-the-drain".into());
        drop(c);
        if let Some(mut b) = own {
            b.stop_backend.store(true, Ordering::Relaxed);
            b.worker.stop();
        }
        return v;
    }
    if observed == Out::Silent {
        {
            let o = v.observed.clone();
            fail(&mut v, "stream-state-frame-unanswered", o);
        }
    } else if !allowed.contains(&observed) {
        let class = if case.scene.refused() && matches!(observed, Out::CErr(_)) {
            "refused-stream-frame-kills-connection"
        } else if case.scene == Scene::IdleAbove && allowed == vec![Out::CErr(1)] {
            "idle-stream-frame-not-connection-error"
        } else if case.scene == Scene::Open || (case.scene == Scene::IdleAbove) {
            "stream-state-wrong-answer"
        } else {
            "closed-stream-frame-wrong-error"
        };
        fail(&mut v, class, format!("observed {:?}, RFC 9113 5.1 allows {allowed:?}", observed));
    }
    let model_out = match model.split(' ').collect::<Vec<_>>()[..] {
        ["handled"] => Some(Out::Handled),
        ["serr", c] => c.parse().ok().map(Out::SErr),
        ["cerr", c] => c.parse().ok().map(Out::CErr),
        _ => None,
    };
    if model_out.as_ref() != Some(&observed) && observed != Out::Silent {
        fail(&mut v, "stream-state-differs-from-model", format!("model `{model}`, observed {observed:?}"));
    }
    // ---- the rest of the connection must go on: free a slot, open a new stream, get its answer
    if !matches!(observed, Out::CErr(_) | Out::Silent) && !draining {
        let mut more = vec![];
        if case.scene == Scene::RefusedLimit {
            more.extend(frame(3, 0, held[0], &8u32.to_be_bytes()));
        }
        if case.scene == Scene::IdleAbove && case.fk == Fk::Headers && !c.read_until(CASE_DEADLINE, |fs| stream_ended(fs, target)).eq(&End::Matched) {
            fail(&mut v, "healthy-stream-not-served-after-stream-state-frame", format!("the new stream {target} got no response"));
        }
        let n = top + 2 + 2 * (case.fk as u32);
        more.extend(get(n, "/"));
        c.send(&more);
        let e = c.read_until(CASE_DEADLINE, |fs| stream_ended(fs, n) || fs.iter().any(|f| f.ty == 7));
        if e != End::Matched || !c.got_200(n) {
            fail(&mut v, "healthy-stream-not-served-after-stream-state-frame", format!("new stream {n}: {e:?}, goaway {:?}, rst {:?}", c.goaway(), c.rst_codes()));
        } else {
            v.tags.push("stream:healthy-stream-served-afterwards".into());
        }
    }
    drop(c);
    if let Some(mut b) = own {
        b.stop_backend.store(true, Ordering::Relaxed);
        b.worker.stop();
    }
    v
}

// ------------------------------------------------ flood-variant family ----

/// One flood kind in one wire-level variant. The trip point is asked from the
/// Lean model (`fframe`: decoded frame -> flood events -> detector); the live
/// connection is then driven once to one frame *below* it (must be served: PING
/// ACK, no GOAWAY) and once exactly *to* it (must get GOAWAY(ENHANCE_YOUR_CALM)).
struct FloodVariant {
    name: String,
    /// frames sent before the flood (fed to the model as well, context 0)
    prelude: Vec<Vec<u8>>,
    /// wait for the end of the response on this stream before flooding (closed-stream floods)
    wait_end_of: Option<u32>,
    /// context of the flood frames for the model: 0 normal, 1 closed stream, 2 inside a header block
    ctx: u8,
    /// the flood: frame i is `unit[i % unit.len()]`
    unit: Vec<Vec<u8>>,
    /// sent after the flood in the "below" run (ends an open header block); counted frames in it
    terminator: Vec<u8>,
    terminator_counted: usize,
    /// only the run to the trip point (no servable "below" run exists)
    skip_below: bool,
    /// in the "below" run the request of the flood itself may be refused (stream error); the connection must go on
    below_may_refuse: bool,
}

fn flood_variants() -> Vec<FloodVariant> {
    let mut v = vec![];
    let post_open = frame(1, 0x4, 1, &request_block(true, "/hold/flood"));
    let mk = |name: &str, prelude: Vec<Vec<u8>>, ctx: u8, unit: Vec<Vec<u8>>| FloodVariant {
        name: name.to_string(),
        prelude,
        wait_end_of: None,
        ctx,
        unit,
        terminator: vec![],
        terminator_counted: 0,
        skip_below: false,
        below_may_refuse: false,
    };
    // --- empty DATA (CVE-2019-9518): zero content, whatever the wire length
    let d_plain = frame(0, 0, 1, &[]);
    let d_pad0 = frame(0, 0x8, 1, &[0]);
    let d_padn = frame(0, 0x8, 1, &[5, 0, 0, 0, 0, 0]);
    let d_pad255 = {
        let mut p = vec![255u8];
        p.extend(vec![0u8; 255]);
        frame(0, 0x8, 1, &p)
    };
    v.push(mk("empty_data:unpadded", vec![post_open.clone()], 0, vec![d_plain.clone()]));
    v.push(mk("empty_data:padded_pad0", vec![post_open.clone()], 0, vec![d_pad0.clone()]));
    v.push(mk("empty_data:padded_pad5", vec![post_open.clone()], 0, vec![d_padn.clone()]));
    v.push(mk("empty_data:padded_pad255", vec![post_open.clone()], 0, vec![d_pad255.clone()]));
    v.push(mk("empty_data:mixed", vec![post_open.clone()], 0, vec![d_plain, d_padn, d_pad0, d_pad255]));
    // content-bearing DATA is not an empty frame: never trips
    v.push(mk("data:one_byte_padded", vec![post_open.clone()], 0, vec![frame(0, 0x8, 1, &[1, b'x', 0])]));
    // --- PING
    let ping = frame(6, 0, 0, &[7; 8]);
    let ping_ack = frame(6, 1, 0, &[7; 8]);
    v.push(mk("ping:plain", vec![], 0, vec![ping.clone()]));
    v.push(mk("ping:odd_flags", vec![], 0, vec![frame(6, 0xfe, 0, &[7; 8])]));
    v.push(mk("ping:ack_flag", vec![], 0, vec![ping_ack.clone()]));
    v.push(mk("ping:mixed_ack", vec![], 0, vec![ping, ping_ack]));
    // --- SETTINGS
    let set_empty = frame(4, 0, 0, &[]);
    let set_known = frame(4, 0, 0, &[0, 3, 0, 0, 0, 100, 0, 4, 0, 0, 0xff, 0xff]);
    let set_unknown = {
        let mut p = vec![];
        for id in 100u16..107 {
            p.extend(id.to_be_bytes());
            p.extend(1u32.to_be_bytes());
        }
        frame(4, 0, 0, &p)
    };
    v.push(mk("settings:empty", vec![], 0, vec![set_empty.clone()]));
    v.push(mk("settings:known_entries", vec![], 0, vec![set_known.clone()]));
    v.push(mk("settings:unknown_ids", vec![], 0, vec![set_unknown.clone()]));
    v.push(mk("settings:ack", vec![], 0, vec![frame(4, 1, 0, &[])]));
    v.push(mk("settings:mixed", vec![], 0, vec![set_empty, set_known, set_unknown]));
    // --- WINDOW_UPDATE on stream 0
    v.push(mk("window_update0:inc1", vec![], 0, vec![frame(8, 0, 0, &[0, 0, 0, 1])]));
    v.push(mk("window_update0:small_incs", vec![], 0, vec![frame(8, 0, 0, &[0, 0, 0, 1]), frame(8, 0, 0, &[0x80, 0, 0, 2]), frame(8, 0xff, 0, &[0, 0, 0, 7])]));
    // --- CONTINUATION (per header block)
    let block = request_block(false, "/");
    for (name, first) in [("continuation:empty_headers_fragment", 0usize), ("continuation:two_byte_headers_fragment", 2)] {
        let mut fv = mk(name, vec![frame(1, 0x1, 1, &block[..first])], 2, vec![frame(9, 0, 1, &[])]);
        fv.terminator = frame(9, 0x4, 1, &block[first..]);
        fv.terminator_counted = 1;
        v.push(fv);
    }
    // --- oversized header block: the fragments accumulate in the connection buffer (16 393 bytes);
    //     the CONTINUATION that does not fit any more is GOAWAY(ENHANCE_YOUR_CALM)
    {
        // a valid block of exactly 16 000 bytes: the request plus one field with a long value
        let mut big = request_block(false, "/");
        big.extend([0x00, 0x01, b'x', 0x7f]);
        let vlen = 16000 - big.len() - 2;
        let mut r = vlen - 127;
        while r >= 128 {
            big.push((r % 128) as u8 | 0x80);
            r /= 128;
        }
        big.push(r as u8);
        big.extend(vec![b'v'; 16000 - big.len()]);
        let mut unit: Vec<Vec<u8>> = (0..5).map(|i| frame(9, 0, 1, &big[10000 + 1000 * i..11000 + 1000 * i])).collect();
        unit.push(frame(9, 0, 1, &vec![b'v'; 1000]));
        unit.push(frame(9, 0, 1, &vec![b'v'; 1000]));
        let mut fv = mk("continuation:header_block_vs_buffer", vec![frame(1, 0x1, 1, &big[..10000])], 2, unit);
        fv.terminator = frame(9, 0x4, 1, &big[15000..16000]);
        fv.terminator_counted = 1;
        fv.below_may_refuse = true; // a 16 KB header cannot be forwarded; refusing that stream is fine
        v.push(fv);
    }
    // --- glitch counter: frames on a closed stream
    let get1 = frame(1, 0x5, 1, &request_block(false, "/"));
    for (name, unit) in [
        ("glitch:window_update_on_closed_stream", vec![frame(8, 0, 1, &[0, 0, 0, 1])]),
        ("glitch:rst_stream_on_closed_stream", vec![frame(3, 0, 1, &8u32.to_be_bytes())]),
        ("glitch:data_on_closed_stream", vec![frame(0, 0, 1, b"x")]),
        ("glitch:empty_padded_data_on_closed_stream", vec![frame(0, 0x8, 1, &[0])]),
    ] {
        let mut fv = mk(name, vec![get1.clone()], 1, unit);
        fv.wait_end_of = Some(1);
        v.push(fv);
    }
    // --- frames no counter looks at (the model says so; the connection must simply go on)
    v.push(mk("uncounted:priority", vec![], 0, vec![frame(2, 0, 3, &[0, 0, 0, 0, 16])]));
    v.push(mk("uncounted:priority_update", vec![], 0, vec![frame(0x10, 0, 0, &[0, 0, 0, 3, b'u', b'=', b'3'])]));
    v.push(mk("uncounted:unknown_type", vec![], 0, vec![frame(0x42, 0xff, 0, &[1, 2, 3]), frame(0x0b, 0, 5, &[])]));
    v
}

const FLOOD_PROBE: usize = 320;

/// model: (index of the tripping flood frame, 1-based) or None within FLOOD_PROBE frames
fn flood_trip_points(driver: &str, variants: &[FloodVariant]) -> Vec<Result<Option<usize>, String>> {
    let mut input = String::new();
    for (i, fv) in variants.iter().enumerate() {
        input.push_str(&format!("#case {i}\nnew\nfnew 100 100 50 100 100 20 100 10000 50 500 65536\nf settings 0\n"));
        for p in &fv.prelude {
            input.push_str(&format!("fframe 0 {}\n", hex(p)));
        }
        input.push_str("#flood\n");
        for k in 0..FLOOD_PROBE {
            input.push_str(&format!("fframe {} {}\n", fv.ctx, hex(&fv.unit[k % fv.unit.len()])));
        }
    }
    let mut out: Vec<Result<Option<usize>, String>> = vec![];
    let mut in_flood = false;
    let mut k = 0usize;
    for l in run_model(driver, &input) {
        if l.starts_with("#case ") {
            out.push(Ok(None));
            in_flood = false;
            continue;
        }
        if l == "#flood" {
            in_flood = true;
            k = 0;
            continue;
        }
        let Some(cur) = out.last_mut() else { continue };
        if !in_flood {
            if l.starts_with("viol") || l.starts_with("err") || l == "bad-op" || l == "incomplete" {
                *cur = Err(format!("model on the prelude: {l}"));
            }
            continue;
        }
        k += 1;
        if matches!(cur, Ok(None)) {
            if l.starts_with("viol 11") {
                *cur = Ok(Some(k));
            } else if !l.starts_with("none") && l != "dead" {
                *cur = Err(format!("model on flood frame {k}: {l}"));
            }
        }
    }
    out
}

fn run_flood_variant(bed: &Bed, fv: &FloodVariant, trip: Option<usize>, at_threshold: bool) -> Verdict {
    let mut v = Verdict { fails: vec![], known: vec![], tags: vec![], observed: String::new() };
    let which = if at_threshold { "at" } else { "below" };
    let name = format!("floodvar:{}:{which}", fv.name);
    let fail = |v: &mut Verdict, class: &str, detail: String| v.fails.push((class.to_string(), format!("{name}: {detail}")));
    let mut c = match Client::connect(bed.front).and_then(|mut c| c.handshake().map(|_| c)) {
        Ok(c) => c,
        Err(e) => {
            fail(&mut v, "handshake-failed", e);
            return v;
        }
    };
    let mut bytes: Vec<u8> = fv.prelude.iter().flatten().copied().collect();
    if let Some(sid) = fv.wait_end_of {
        c.send(&bytes);
        bytes.clear();
        if c.read_until(CASE_DEADLINE, |fs| stream_ended(fs, sid)) != End::Matched {
            fail(&mut v, "flood-scene-not-established", format!("no response on stream {sid}"));
            return v;
        }
    }
    // number of flood frames: to the trip point, one short of it, or a long burst when nothing trips
    let n = match (trip, at_threshold) {
        (Some(t), true) => t,
        (Some(t), false) => t.saturating_sub(1 + fv.terminator_counted),
        (None, _) => 300,
    };
    for k in 0..n {
        bytes.extend(&fv.unit[k % fv.unit.len()]);
    }
    if !(at_threshold && trip.is_some()) {
        bytes.extend(&fv.terminator);
    }
    // the probe behind the flood is a request on a fresh stream (HEADERS is not a counted frame and
    // runs no flood check, unlike a PING): it must be answered 200 unless the flood tripped
    const PROBE_SID: u32 = 101;
    bytes.extend(frame(1, 0x5, PROBE_SID, &request_block(false, "/")));
    c.send(&bytes);
    let end = c.read_until(CASE_DEADLINE, |fs| stream_ended(fs, PROBE_SID) || fs.iter().any(|f| f.ty == 7));
    let goaway = c.goaway();
    let acked = c.got_200(PROBE_SID);
    v.observed = format!("sent {n} flood frames, model trip {trip:?}: end {end:?}, goaway {goaway:?}, request behind the flood served {acked}, window_updates {}", c.frames.iter().filter(|f| f.ty == 8).count());
    let obs = v.observed.clone();
    v.tags.push(format!("floodvar:{}:{which}:{}", fv.name, match goaway { Some(g) => format!("goaway{g}"), None => if acked { "served".into() } else { "silent".to_string() } }));
    let expect_trip = at_threshold && trip.is_some();
    if expect_trip {
        if goaway != Some(11) {
            // the flood went through: the frame the model counts is not counted by the connection
            fail(&mut v, "flood-variant-not-answered-with-enhance-your-calm", obs);
        } else if c.read_until(CASE_DEADLINE, |_| false) != End::Closed {
            fail(&mut v, "connection-not-released-after-goaway", obs);
        }
    } else if let Some(g) = goaway {
        let class = if g == 11 { "flood-variant-trips-below-model-threshold" } else { "flood-variant-unexpected-goaway" };
        fail(&mut v, class, obs);
    } else if !acked {
        fail(&mut v, "flood-variant-connection-wedged", obs);
    }
    v
}

// ------------------------------------------------------ history family ----

/// One connection on the limit-2 listener, a sequence of frames on several
/// stream ids (requests are never answered by the backend, so streams leave
/// the map only through the peer's RST_STREAM); after every frame a PING
/// synchronises, and the answer to that frame (nothing / RST_STREAM(code) on its
/// stream / GOAWAY(code)) is compared with the Lean history model `connStep`.
struct History {
    name: String,
    /// (stream id, kind, END_STREAM)
    frames: Vec<(u32, Fk, bool)>,
}

fn history_frame(sid: u32, fk: Fk, es: bool) -> Vec<u8> {
    match fk {
        // a request the backend never answers; without END_STREAM it is a POST
        Fk::Headers => frame(1, if es { 0x5 } else { 0x4 }, sid, &request_block(!es, "/hold/history")),
        Fk::Data => frame(0, es as u8, sid, b"d"),
        o => o.bytes(sid),
    }
}

fn build_histories(seed: u64, thorough: bool) -> Vec<History> {
    let fixed: Vec<(&str, Vec<(u32, Fk, bool)>)> = vec![
        // the lead's witness for the refused-stream watermark
        ("refused_then_frames", vec![(1, Fk::Headers, true), (3, Fk::Headers, true), (5, Fk::Headers, true), (5, Fk::Data, false), (5, Fk::WindowUpdate, false), (1, Fk::WindowUpdate, false)]),
        // a refused id is re-used once a slot is free (C15_stream_state_history_counterexample)
        ("refused_id_reused", vec![(1, Fk::Headers, true), (3, Fk::Headers, true), (5, Fk::Headers, true), (1, Fk::RstStream, false), (5, Fk::Headers, true), (5, Fk::WindowUpdate, false)]),
        ("open_then_end_stream", vec![(1, Fk::Headers, false), (1, Fk::Data, false), (1, Fk::Data, true), (1, Fk::WindowUpdate, false), (1, Fk::Data, false)]),
        ("closed_by_peer_rst", vec![(3, Fk::Headers, true), (3, Fk::RstStream, false), (3, Fk::WindowUpdate, false), (3, Fk::Data, false), (3, Fk::Data, false), (1, Fk::Data, false), (3, Fk::Headers, true)]),
    ];
    let mut out: Vec<History> = fixed.into_iter().map(|(n, f)| History { name: format!("history:{n}"), frames: f }).collect();
    let n = if thorough { 150 } else { 16 };
    for i in 0..n {
        let mut rng = Rng::for_case(seed ^ 0x4157_0000, i);
        let len = rng.range(5, 14);
        let mut frames = vec![];
        let mut next_new = 1u32;
        for _ in 0..len {
            let kind = rng.below(10);
            if kind < 4 {
                // a new request (sometimes skipping ids, sometimes without END_STREAM)
                next_new += 2 * rng.below(2) as u32;
                frames.push((next_new, Fk::Headers, rng.chance(2, 3)));
                next_new += 2;
            } else {
                let sid = if rng.chance(4, 5) && next_new > 1 { 1 + 2 * rng.below((next_new as u64) / 2) as u32 } else { next_new + 2 * rng.below(3) as u32 };
                let mut fk = *rng.pick(&[Fk::Data, Fk::Data, Fk::WindowUpdate, Fk::RstStream, Fk::RstStream, Fk::Priority, Fk::Headers]);
                // a second HEADERS on a stream opened without END_STREAM is a trailer block (HPACK / pkawa
                // validation, property C03): outside this model
                if fk == Fk::Headers && frames.iter().any(|(s0, k0, e0)| *s0 == sid && *k0 == Fk::Headers && !*e0) {
                    fk = Fk::WindowUpdate;
                }
                frames.push((sid, fk, fk == Fk::Data && rng.chance(1, 3) || fk == Fk::Headers));
            }
        }
        out.push(History { name: format!("history:random:{i}"), frames });
    }
    out
}

/// The history model's premise is that sozu never ends a stream on its own (the
/// backend holds every request). A response HEADERS frame from sozu (a 503/504
/// default answer under load, say) breaks the premise: the case is re-run, and
/// left undecided (tag `history:premise-broken`) when it keeps happening.
fn run_history(bed: &Bed, h: &History, model: &[String]) -> Verdict {
    let mut last = None;
    for _ in 0..3 {
        let (v, premise_broken) = run_history_once(bed, h, model);
        if !premise_broken || v.fails.is_empty() {
            return v;
        }
        last = Some(v);
    }
    let mut v = last.unwrap();
    v.fails.clear();
    v.tags.push("history:premise-broken".into());
    v
}

fn run_history_once(bed: &Bed, h: &History, model: &[String]) -> (Verdict, bool) {
    let mut v = Verdict { fails: vec![], known: vec![], tags: vec![], observed: String::new() };
    let fail = |v: &mut Verdict, class: &str, detail: String| v.fails.push((class.to_string(), format!("{}: {detail}", h.name)));
    let mut c = match Client::connect(bed.front_limit2).and_then(|mut c| c.handshake().map(|_| c)) {
        Ok(c) => c,
        Err(e) => {
            fail(&mut v, "handshake-failed", e);
            return (v, false);
        }
    };
    let mut seen = vec![];
    // streams known to be in sozu's map with END_STREAM not yet received (HEADERS on those would be trailers: not modelled)
    for (k, (sid, fk, es)) in h.frames.iter().enumerate() {
        let mark = c.frames.len();
        let sync = [0xC0, k as u8, 1, 2, 3, 4, 5, 6];
        let mut bytes = history_frame(*sid, *fk, *es);
        bytes.extend(frame(6, 0, 0, &sync));
        c.send(&bytes);
        c.read_until(CASE_DEADLINE, |fs| ping_acked(fs, &sync) || fs.iter().any(|f| f.ty == 7));
        let new = &c.frames[mark..];
        let observed = if let Some(g) = new.iter().find(|f| f.ty == 7 && f.payload.len() >= 8) {
            format!("cerr {}", u32::from_be_bytes([g.payload[4], g.payload[5], g.payload[6], g.payload[7]]))
        } else if let Some(r) = new.iter().find(|f| f.ty == 3 && f.sid == *sid && f.payload.len() == 4) {
            format!("serr {}", u32::from_be_bytes([r.payload[0], r.payload[1], r.payload[2], r.payload[3]]))
        } else if ping_acked(new, &sync) {
            "handled".to_string()
        } else {
            "silent".to_string()
        };
        let m = model.get(k).cloned().unwrap_or_default();
        seen.push(format!("{sid}:{}:{}={observed}", fk.name(), *es as u8));
        v.tags.push(format!("history:{}={}", fk.name(), observed.split(' ').next().unwrap_or("")));
        if observed != m {
            let class = if observed == "silent" { "history-frame-unanswered" } else { "stream-history-differs-from-model" };
            fail(&mut v, class, format!("frame {k} ({sid} {} es={es}): model `{m}`, observed `{observed}`; so far {seen:?}", fk.name()));
            break;
        }
        if observed.starts_with("cerr") {
            // absorbing: the connection must now be released
            if c.read_until(CASE_DEADLINE, |_| false) != End::Closed {
                fail(&mut v, "connection-not-released-after-goaway", format!("{seen:?}"));
            }
            break;
        }
        // the advertised limit: never more than 2 of our requests are open (refusals beyond that)
    }
    if h.name == "history:refused_id_reused" {
        let reused = seen.get(4).map(|s| s.ends_with("=handled")).unwrap_or(false);
        v.known.push(("refused-stream-id-reuse-accepted".into(), reused));
        v.tags.push(format!("history:refused-id-reuse-{}", if reused { "accepted" } else { "refused" }));
    }
    v.observed = seen.join(" ");
    let premise_broken = c.frames.iter().any(|f| f.ty == 1);
    (v, premise_broken)
}

// ---------------------------------------------- receive-limits family ----

/// "Peer SETTINGS must not change sozu's receive limits": after a SETTINGS frame
/// from the peer (its own MAX_FRAME_SIZE, INITIAL_WINDOW_SIZE, MAX_CONCURRENT_STREAMS,
/// HEADER_TABLE_SIZE, MAX_HEADER_LIST_SIZE, ENABLE_PUSH ...), frames at and just
/// above the limits sozu *advertises* get the verdict the Lean models give for
/// the advertised values (`psettings` / `cdecode` / `cframe`).
fn settings_variants() -> Vec<(String, Vec<(u16, u32)>)> {
    let v = |n: &str, e: &[(u16, u32)]| (n.to_string(), e.to_vec());
    vec![
        v("none", &[]),
        v("max_frame_size_16384", &[(5, 16384)]),
        v("max_frame_size_65536", &[(5, 65536)]),
        v("max_frame_size_max", &[(5, (1 << 24) - 1)]),
        v("initial_window_1", &[(4, 1)]),
        v("initial_window_max", &[(4, 0x7fff_ffff)]),
        v("max_concurrent_streams_1", &[(3, 1)]),
        v("max_concurrent_streams_1000", &[(3, 1000)]),
        v("header_table_size_0", &[(1, 0)]),
        v("header_table_size_1m", &[(1, 1 << 20)]),
        v("max_header_list_size_10", &[(6, 10)]),
        v("max_header_list_size_max", &[(6, u32::MAX)]),
        v("enable_push_0", &[(2, 0)]),
        v("enable_push_1", &[(2, 1)]),
        v("everything", &[(5, (1 << 24) - 1), (4, 1), (3, 1), (6, 10), (1, 0), (2, 0), (77, 5)]),
        // invalid values: the SETTINGS frame itself is a connection error
        v("invalid_max_frame_size_16383", &[(5, 16383)]),
        v("invalid_max_frame_size_2p24", &[(5, 1 << 24)]),
        v("invalid_enable_push_2", &[(2, 2)]),
        v("invalid_initial_window_2p31", &[(4, 0x8000_0000)]),
    ]
}

fn settings_payload(e: &[(u16, u32)]) -> Vec<u8> {
    let mut p = vec![];
    for (id, v) in e {
        p.extend(id.to_be_bytes());
        p.extend(v.to_be_bytes());
    }
    p
}

#[derive(Clone, Copy, PartialEq, Debug)]
enum Probe {
    UnknownAtLimit,
    UnknownAboveLimit,
    UnknownFarAbove,
    DataAtLimit,
    DataAboveLimit,
    DataFarAbove,
    ThreeFullData,
    StreamLimit,
    PlainRequest,
}

const PROBES: [Probe; 9] = [
    Probe::UnknownAtLimit,
    Probe::UnknownAboveLimit,
    Probe::UnknownFarAbove,
    Probe::DataAtLimit,
    Probe::DataAboveLimit,
    Probe::DataFarAbove,
    Probe::ThreeFullData,
    Probe::StreamLimit,
    Probe::PlainRequest,
];

impl Probe {
    /// the frame whose verdict the Lean decoder gives (None: judged otherwise)
    fn frame(self) -> Option<Vec<u8>> {
        let big = |ty: u8, sid: u32, n: usize| frame(ty, 0, sid, &vec![0x61u8; n]);
        match self {
            Probe::UnknownAtLimit => Some(big(0x42, 0, 16384)),
            Probe::UnknownAboveLimit => Some(big(0x42, 0, 16385)),
            Probe::UnknownFarAbove => Some(big(0x42, 0, 70000)),
            Probe::DataAtLimit => Some(big(0, 1, 16384)),
            Probe::DataAboveLimit => Some(big(0, 1, 16385)),
            Probe::DataFarAbove => Some(big(0, 1, 70000)),
            _ => None,
        }
    }
    fn needs_open_stream(self) -> bool {
        matches!(self, Probe::DataAtLimit | Probe::DataAboveLimit | Probe::DataFarAbove | Probe::ThreeFullData)
    }
}

fn run_limits_case(bed: &Bed, vname: &str, entries: &[(u16, u32)], probe: Probe, model_settings: &str, model_probe: &[String]) -> Verdict {
    let mut v = Verdict { fails: vec![], known: vec![], tags: vec![], observed: String::new() };
    let name = format!("limits:{vname}:{probe:?}");
    let fail = |v: &mut Verdict, class: &str, detail: String| v.fails.push((class.to_string(), format!("{name}: {detail}")));
    let front = if probe == Probe::StreamLimit { bed.front_limit2 } else { bed.front };
    let mut c = match Client::connect(front).and_then(|mut c| c.handshake().map(|_| c)) {
        Ok(c) => c,
        Err(e) => {
            fail(&mut v, "handshake-failed", e);
            return v;
        }
    };
    // ---- the peer's SETTINGS
    if !entries.is_empty() {
        let acks_before = c.count(4, true);
        c.send(&frame(4, 0, 0, &settings_payload(entries)));
        let end = c.read_until(CASE_DEADLINE, |fs| fs.iter().filter(|f| f.ty == 4 && f.flags & 1 != 0).count() > acks_before || fs.iter().any(|f| f.ty == 7));
        let observed = match c.goaway() {
            Some(g) => format!("cerr {g}"),
            None if end == End::Matched => "ack".to_string(),
            None => "silent".to_string(),
        };
        let m = model_settings.split(' ').take(if model_settings.starts_with("ack") { 1 } else { 2 }).collect::<Vec<_>>().join(" ");
        v.tags.push(format!("limits:settings:{vname}={observed}"));
        if observed != m {
            fail(&mut v, "peer-settings-verdict-differs-from-model", format!("model `{model_settings}`, observed `{observed}`"));
            return v;
        }
        if observed != "ack" {
            if vname == "invalid_initial_window_2p31" {
                // RFC 9113 6.5.2: values above 2^31-1 MUST be FLOW_CONTROL_ERROR (3)
                v.known.push(("initial-window-size-overflow-not-flow-control-error".into(), observed != "cerr 3"));
            }
            return v;
        }
    }
    // ---- the probe
    let sync = [0xE0, 1, 2, 3, 4, 5, 6, 7];
    let mut bytes = vec![];
    if probe.needs_open_stream() {
        bytes.extend(frame(1, 0x4, 1, &request_block(true, "/hold/limits")));
    }
    match probe {
        Probe::ThreeFullData => {
            for _ in 0..3 {
                bytes.extend(frame(0, 0, 1, &vec![0x62u8; 16384]));
            }
        }
        Probe::StreamLimit => {
            for sid in [1u32, 3, 5] {
                bytes.extend(frame(1, 0x5, sid, &request_block(false, "/hold/limits")));
            }
        }
        Probe::PlainRequest => bytes.extend(frame(1, 0x5, 1, &request_block(false, "/"))),
        p => bytes.extend(p.frame().unwrap()),
    }
    bytes.extend(frame(6, 0, 0, &sync));
    c.send(&bytes);
    let end = c.read_until(CASE_DEADLINE, |fs| (ping_acked(fs, &sync) && (probe != Probe::PlainRequest || fs.iter().any(|f| f.ty == 1 && f.sid == 1))) || fs.iter().any(|f| f.ty == 7));
    let goaway = c.goaway();
    let acked = ping_acked(&c.frames, &sync);
    v.observed = format!("end {end:?}, goaway {goaway:?}, ping acked {acked}, rst {:?}", c.rst_codes());
    let obs = v.observed.clone();
    let changed = if entries.is_empty() { "receive-limit-wrong" } else { "receive-limit-changed-by-peer-settings" };
    match probe {
        Probe::StreamLimit => {
            // model: cframe 1, 3, 5 on a limit-2 connection
            let refused: Vec<u32> = c.rst_codes().iter().filter(|(_, code)| *code == 7).map(|(s, _)| *s).collect();
            let want: Vec<u32> = [1u32, 3, 5].iter().zip(model_probe).filter(|(_, m)| m.as_str() == "serr 7").map(|(s, _)| *s).collect();
            v.tags.push(format!("limits:stream_limit:refused={refused:?}"));
            if goaway.is_some() || !acked || refused != want {
                fail(&mut v, changed, format!("model refuses {want:?}, observed refused {refused:?}; {obs}"));
            }
        }
        Probe::PlainRequest => {
            if goaway.is_some() || !c.got_200(1) {
                fail(&mut v, changed, format!("a plain request is not served; {obs}"));
            }
        }
        Probe::ThreeFullData => {
            if goaway.is_some() || !acked || !c.rst_codes().is_empty() {
                fail(&mut v, changed, format!("48 KiB of DATA inside the advertised 65535-byte window refused; {obs}"));
            }
        }
        _ => {
            let m = model_probe.first().cloned().unwrap_or_default();
            v.tags.push(format!("limits:{probe:?}:model-{}={}", m.split(' ').take(2).collect::<Vec<_>>().join("_").replace("ok_66", "ok").replace("ok_0", "ok"), match goaway { Some(g) => format!("goaway{g}"), None => if acked { "served".into() } else { "silent".to_string() } }));
            if let Some(code) = m.strip_prefix("err ") {
                let code: u32 = code.parse().unwrap_or(99);
                if goaway.is_none() && !acked && end == End::Closed {
                    // sozu answered and closed while the rest of the oversize frame was still being
                    // written: the kernel resets the connection and the GOAWAY can be lost with it.
                    // Released, not wedged; the code is checked by the runs where it arrives.
                    v.tags.push("limits:closed-before-goaway-was-read".into());
                } else if goaway.is_none() && !acked {
                    fail(&mut v, "connection-wedged-after-oversize-frame", format!("model `{m}`; {obs}"));
                } else if goaway != Some(code) {
                    fail(&mut v, "oversize-frame-not-frame-size-error", format!("model `{m}`; {obs}"));
                } else if c.read_until(CASE_DEADLINE, |_| false) != End::Closed {
                    fail(&mut v, "connection-not-released-after-goaway", obs);
                }
            } else if m.starts_with("ok ") {
                if goaway.is_some() || !acked {
                    fail(&mut v, changed, format!("model `{}`; {obs}", &m[..m.len().min(40)]));
                }
            } else {
                fail(&mut v, "model-gave-no-verdict", m);
            }
        }
    }
    v
}

// ------------------------------------------------ request-level family ----

/// Decisions of handle_headers_frame / handle_data_frame / handle_priority_frame
/// that are about one request: the header-list budget (pkawa.rs
/// decode_headers_with_budget), content-length vs DATA (RFC 9113 8.1.1), PRIORITY
/// self-dependency (5.3.1), PRIORITY_UPDATE for stream 0 (RFC 9218 7.1), frames
/// interleaved into a header block (6.2 / 6.10). Verdicts: the Lean functions
/// headerBudget / contentLengthRun / priorityVerdict through the driver, or the
/// RFC sentence quoted at the case.
struct ReqCase {
    name: String,
    /// frames sent in one write (after the handshake), before the sync PING
    send: Vec<u8>,
    /// the stream whose answer is judged
    target: u32,
    /// model op (empty: `rfc` holds the expected line)
    model_op: String,
    rfc: &'static str,
    /// when the verdict is `handled`: must the request on `target` be answered 200?
    expect_200: bool,
}

fn literal_field(name: &[u8], value: &[u8]) -> Vec<u8> {
    // literal header field without indexing, new name (RFC 7541 6.2.2)
    fn int(prefix_bits: u8, first: u8, v: usize, out: &mut Vec<u8>) {
        let max = (1usize << prefix_bits) - 1;
        if v < max {
            out.push(first | v as u8);
        } else {
            out.push(first | max as u8);
            let mut r = v - max;
            while r >= 128 {
                out.push((r % 128) as u8 | 0x80);
                r /= 128;
            }
            out.push(r as u8);
        }
    }
    let mut b = vec![0x00];
    int(7, 0, name.len(), &mut b);
    b.extend_from_slice(name);
    int(7, 0, value.len(), &mut b);
    b.extend_from_slice(value);
    b
}

fn request_cases() -> Vec<ReqCase> {
    let mut v = vec![];
    // the four pseudo-header fields of request_block(GET "/"): (name length, value length)
    let pseudo = "7:3,7:5,5:1,10:9";
    // ---- header budget: field count
    for n in [123usize, 124, 125, 200] {
        let mut block = request_block(false, "/");
        for _ in 0..n {
            block.extend(literal_field(b"a", b"b"));
        }
        let fields = format!("{pseudo}{}", ",1:1".repeat(n));
        v.push(ReqCase { name: format!("req:header_fields:{}", 4 + n), send: frame(1, 0x5, 1, &block), target: 1, model_op: format!("hbudget 65536 128 {fields}"), rfc: "", expect_200: true });
    }
    // ---- header budget: decoded size through HPACK indexed references (a 4033-byte table entry)
    for k in [15usize, 17, 20] {
        let mut block = request_block(false, "/");
        // literal with incremental indexing, new name "x", value 4000 x 'y'
        block.extend([0x40, 0x01, b'x', 0x7f, 0xa1, 0x1e]);
        block.extend(vec![b'y'; 4000]);
        block.extend(vec![0xbe; k - 1]); // indexed field, dynamic table index 62
        let fields = format!("{pseudo}{}", ",1:4000".repeat(k));
        // within the budget the request is far larger than a buffer: only "answered, no crash" is required there
        v.push(ReqCase { name: format!("req:header_list_bytes:{k}x4033"), send: frame(1, 0x5, 1, &block), target: 1, model_op: format!("hbudget 65536 128 {fields}"), rfc: "", expect_200: false });
    }
    // ---- content-length vs DATA
    let post = |cl: Option<&str>| {
        let mut b = request_block(true, "/hold/cl");
        if let Some(cl) = cl {
            b.extend([0x0f, 0x0d, cl.len() as u8]); // literal without indexing, name = content-length (static 28)
            b.extend_from_slice(cl.as_bytes());
        }
        frame(1, 0x4, 1, &b)
    };
    let bodies: Vec<(&str, Option<&str>, Vec<(usize, bool, usize)>)> = vec![
        ("exact_one_frame", Some("5"), vec![(5, true, 0)]),
        ("exact_two_frames", Some("5"), vec![(2, false, 0), (3, true, 0)]),
        ("exact_padded", Some("5"), vec![(5, true, 3)]),
        ("too_much_first_frame", Some("5"), vec![(6, false, 0)]),
        ("too_much_second_frame", Some("5"), vec![(2, false, 0), (4, false, 0)]),
        ("too_little_at_end", Some("5"), vec![(2, false, 0), (2, true, 0)]),
        ("empty_end_with_declared_5", Some("5"), vec![(0, true, 0)]),
        ("declared_0_empty_end", Some("0"), vec![(0, true, 0)]),
        ("declared_0_one_byte", Some("0"), vec![(1, false, 0)]),
        ("no_content_length", None, vec![(3, false, 0), (4, true, 0)]),
    ];
    for (n, cl, frames) in bodies {
        let mut send = post(cl);
        for (len, es, pad) in &frames {
            if *pad > 0 {
                let mut p = vec![*pad as u8];
                p.extend(vec![b'd'; *len]);
                p.extend(vec![0u8; *pad]);
                send.extend(frame(0, 0x8 | *es as u8, 1, &p));
            } else {
                send.extend(frame(0, *es as u8, 1, &vec![b'd'; *len]));
            }
        }
        let fs = frames.iter().map(|(l, e, _)| format!("{l}:{}", *e as u8)).collect::<Vec<_>>().join(",");
        v.push(ReqCase { name: format!("req:content_length:{n}"), send, target: 1, model_op: format!("clen {} {fs}", cl.unwrap_or("-")), rfc: "", expect_200: false });
    }
    // trailers end the stream: the DATA total must match as well
    for (n, data, model) in [("trailers_after_3_of_5", 3usize, "clen 5 3:0,0:1"), ("trailers_after_5_of_5", 5, "clen 5 5:0,0:1")] {
        let mut send = post(Some("5"));
        send.extend(frame(0, 0, 1, &vec![b'd'; data]));
        send.extend(frame(1, 0x5, 1, &literal_field(b"t", b"v")));
        v.push(ReqCase { name: format!("req:content_length:{n}"), send, target: 1, model_op: model.into(), rfc: "", expect_200: false });
    }
    // ---- PRIORITY (deprecated scheme, still parsed): self-dependency
    let hold1 = frame(1, 0x5, 1, &request_block(false, "/hold/prio"));
    let prio = |sid: u32, dep: u32| frame(2, 0, sid, &[(dep >> 24) as u8, (dep >> 16) as u8, (dep >> 8) as u8, dep as u8, 16]);
    for (n, pre, sid, dep, known, la) in [
        ("known_self", hold1.clone(), 1u32, 1u32, 1, 0),
        ("known_other", hold1.clone(), 1, 3, 1, 0),
        ("idle_lookahead_self", hold1.clone(), 5, 5, 0, 1),
        ("idle_lookahead_other", hold1.clone(), 5, 1, 0, 1),
        ("idle_far_self", hold1.clone(), 201, 201, 0, 0),
        ("closed_self", [hold1.clone(), frame(3, 0, 1, &8u32.to_be_bytes())].concat(), 1, 1, 0, 0),
    ] {
        let mut send = pre;
        send.extend(prio(sid, dep));
        v.push(ReqCase { name: format!("req:priority:{n}"), send, target: sid, model_op: format!("prio {known} {la} {sid} {dep}"), rfc: "", expect_200: false });
    }
    {
        // HEADERS carrying the PRIORITY flag with a dependency on itself: the stream is known at that point
        let mut p = vec![0, 0, 0, 3, 16];
        p.extend(request_block(false, "/hold/prio"));
        v.push(ReqCase { name: "req:priority:headers_flag_self".into(), send: frame(1, 0x25, 3, &p), target: 3, model_op: "prio 1 0 3 3".into(), rfc: "", expect_200: false });
        let mut p = vec![0, 0, 0, 0, 16];
        p.extend(request_block(false, "/"));
        v.push(ReqCase { name: "req:priority:headers_flag_other".into(), send: frame(1, 0x25, 3, &p), target: 3, model_op: "prio 1 0 3 0".into(), rfc: "", expect_200: true });
    }
    // ---- RFC 9218 7.1: "If a server receives a PRIORITY_UPDATE with a Prioritized Stream ID of 0x00, it MUST
    //      respond with a connection error of type PROTOCOL_ERROR"
    v.push(ReqCase { name: "req:priority_update:stream0".into(), send: frame(0x10, 0, 0, &[0, 0, 0, 0, b'u', b'=', b'1']), target: 0, model_op: String::new(), rfc: "cerr 1", expect_200: false });
    v.push(ReqCase { name: "req:priority_update:stream1".into(), send: [hold1.clone(), frame(0x10, 0, 0, &[0, 0, 0, 1, b'u', b'=', b'1'])].concat(), target: 1, model_op: String::new(), rfc: "handled", expect_200: false });
    // ---- RFC 9113 6.2: "A HEADERS frame without the END_HEADERS flag set MUST be followed by a CONTINUATION frame
    //      for the same stream. A receiver MUST treat the receipt of any other type of frame or a frame on a
    //      different stream as a connection error of type PROTOCOL_ERROR."
    let open_block = frame(1, 0x1, 1, &request_block(false, "/")[..2]);
    for (n, f) in [
        ("data_same_stream", frame(0, 0, 1, b"x")),
        ("ping", frame(6, 0, 0, &[0; 8])),
        ("headers_other_stream", frame(1, 0x5, 3, &request_block(false, "/"))),
        ("continuation_other_stream", frame(9, 0x4, 3, &[])),
        ("window_update_stream0", frame(8, 0, 0, &[0, 0, 0, 1])),
        ("unknown_type", frame(0x42, 0, 0, &[])),
    ] {
        v.push(ReqCase { name: format!("req:inside_header_block:{n}"), send: [open_block.clone(), f].concat(), target: 1, model_op: String::new(), rfc: "cerr 1", expect_200: false });
    }
    // HPACK garbage is a connection error COMPRESSION_ERROR (RFC 9113 4.3)
    v.push(ReqCase { name: "req:hpack_garbage".into(), send: frame(1, 0x5, 1, &[0xff, 0xff, 0xff, 0xff, 0xff, 0xff]), target: 1, model_op: String::new(), rfc: "cerr 9", expect_200: false });
    v
}

fn run_request_case(bed: &Bed, case: &ReqCase, model: &str) -> Verdict {
    let mut v = Verdict { fails: vec![], known: vec![], tags: vec![], observed: String::new() };
    let fail = |v: &mut Verdict, class: &str, detail: String| v.fails.push((class.to_string(), format!("{}: {detail}", case.name)));
    let mut c = match Client::connect(bed.front).and_then(|mut c| c.handshake().map(|_| c)) {
        Ok(c) => c,
        Err(e) => {
            fail(&mut v, "handshake-failed", e);
            return v;
        }
    };
    let sync = [0xF0, 1, 2, 3, 4, 5, 6, 7];
    let expected = if case.model_op.is_empty() { case.rfc.to_string() } else { model.to_string() };
    let mut bytes = case.send.clone();
    // inside an open header block a PING is itself the offending frame: no sync behind those
    let inside_block = case.name.starts_with("req:inside_header_block");
    if !inside_block {
        bytes.extend(frame(6, 0, 0, &sync));
    }
    c.send(&bytes);
    let end = c.read_until(CASE_DEADLINE, |fs| ping_acked(fs, &sync) || fs.iter().any(|f| f.ty == 7));
    if expected == "handled" && case.expect_200 {
        c.read_until(CASE_DEADLINE, |fs| stream_ended(fs, case.target) || fs.iter().any(|f| f.ty == 7 || (f.ty == 3 && f.sid == case.target)));
    }
    let observed = if let Some(g) = c.goaway() {
        format!("cerr {g}")
    } else if let Some((_, code)) = c.rst_codes().iter().find(|(sid, _)| *sid == case.target && case.target != 0) {
        format!("serr {code}")
    } else if ping_acked(&c.frames, &sync) {
        "handled".to_string()
    } else {
        format!("silent({end:?})")
    };
    v.observed = observed.clone();
    v.tags.push(format!("{}={observed}", case.name.rsplitn(2, ':').last().unwrap_or("")));
    if observed != expected {
        // a request within the header budget but far larger than a buffer may still be refused
        // later on (it cannot be forwarded); that is another property's business - but it must be answered
        // (and above the budget, the 16 KiB request buffer overflows first: `invalid_headers` pre-empts
        // the byte accounting of decode_headers_with_budget, so the stream error carries PROTOCOL_ERROR;
        // the budget branch itself needs buffers larger than 64 KiB)
        let lenient = case.name.starts_with("req:header_list_bytes") && observed.starts_with("serr") && (expected == "handled" || expected.starts_with("serr"));
        if !lenient {
            let class = if observed.starts_with("silent") {
                "request-frame-unanswered"
            } else if case.name.starts_with("req:header_") {
                "header-budget-verdict-differs-from-model"
            } else if case.name.starts_with("req:content_length") {
                "content-length-verdict-differs-from-model"
            } else if case.name.starts_with("req:priority:") {
                "priority-verdict-differs-from-model"
            } else {
                "request-level-wrong-answer"
            };
            fail(&mut v, class, format!("expected `{expected}`, observed `{observed}`"));
        }
    } else if observed == "handled" && case.expect_200 && !c.got_200(case.target) {
        fail(&mut v, "admitted-request-not-served", format!("verdict handled but no 200 on stream {}; rst {:?}", case.target, c.rst_codes()));
    }
    if observed.starts_with("cerr") && c.read_until(CASE_DEADLINE, |_| false) != End::Closed {
        fail(&mut v, "connection-not-released-after-goaway", observed.clone());
    }
    // a stream error must leave the connection usable
    if observed.starts_with("serr") {
        let n = 91;
        c.send(&frame(1, 0x5, n, &request_block(false, "/")));
        if c.read_until(CASE_DEADLINE, |fs| stream_ended(fs, n) || fs.iter().any(|f| f.ty == 7)) != End::Matched || !c.got_200(n) {
            fail(&mut v, "healthy-stream-not-served-after-stream-error", format!("goaway {:?} rst {:?}", c.goaway(), c.rst_codes()));
        }
    }
    v
}

// ------------------------------------------------ backend-peer family ----

/// sozu as HTTP/2 *client*: a cluster with `http2 = true` whose backend is
/// scripted here (prior-knowledge h2c). A front request makes sozu open the
/// backend connection; the backend then misbehaves. Judged: what sozu sends to
/// the backend (GOAWAY code per the Lean decoder / flood model / RFC 9113 5.1),
/// that the front request is answered (never left hanging), that the worker
/// and the front connection go on.
struct BackendCase {
    name: String,
    /// frames the backend sends after it has seen sozu's request HEADERS (stream id patched in: 0xFFFF_FFF1 = the request's stream)
    send: Vec<u8>,
    /// `decode 16384 <hex>` / `fframe` ops for the model; empty: `rfc`
    model_ops: Vec<String>,
    rfc: &'static str,
}

fn parse_frames(buf: &[u8]) -> Vec<Fr> {
    let mut out = vec![];
    let mut i = 0;
    while buf.len() >= i + 9 {
        let l = ((buf[i] as usize) << 16) | ((buf[i + 1] as usize) << 8) | buf[i + 2] as usize;
        if buf.len() < i + 9 + l {
            break;
        }
        out.push(Fr { ty: buf[i + 3], flags: buf[i + 4], sid: u32::from_be_bytes([buf[i + 5], buf[i + 6], buf[i + 7], buf[i + 8]]) & 0x7fff_ffff, payload: buf[i + 9..i + 9 + l].to_vec() });
        i += 9 + l;
    }
    out
}

fn backend_cases() -> Vec<BackendCase> {
    let mut v = vec![];
    let wire = |name: &str, f: Vec<u8>| BackendCase { name: format!("backend:{name}"), model_ops: vec![format!("decode 16384 {}", hex(&f[..f.len().min(64)]))], send: f, rfc: "" };
    // wire-level: the decoder's verdict is the GOAWAY code
    v.push(wire("oversize_frame_header", { let mut f = frame(0x42, 0, 0, &[]); f[..3].copy_from_slice(&[0, 0x40, 1]); f }));
    v.push(wire("settings_len_5", frame(4, 0, 0, &[0, 3, 0, 0, 0])));
    v.push(wire("ping_len_7", frame(6, 0, 0, &[0; 7])));
    v.push(wire("window_update_len_3", frame(8, 0, 0, &[0, 0, 1])));
    v.push(wire("push_promise", frame(5, 0x4, 1, &[0, 0, 0, 2, 0x88])));
    v.push(wire("data_on_stream_0", frame(0, 0, 0, b"x")));
    v.push(wire("rst_stream_len_5", frame(3, 0, 1, &[0, 0, 0, 8, 0])));
    v.push(wire("goaway_len_4", frame(7, 0, 0, &[0, 0, 0, 0])));
    // stream states, client position (RFC 9113 5.1: frames on idle streams are PROTOCOL_ERROR)
    v.push(BackendCase { name: "backend:data_on_idle_stream".into(), send: frame(0, 0, 99, b"x"), model_ops: vec![], rfc: "cerr 1" });
    v.push(BackendCase { name: "backend:window_update_on_idle_stream".into(), send: frame(8, 0, 99, &[0, 0, 0, 1]), model_ops: vec![], rfc: "cerr 1" });
    v.push(BackendCase { name: "backend:rst_stream_on_idle_stream".into(), send: frame(3, 0, 99, &8u32.to_be_bytes()), model_ops: vec![], rfc: "cerr 1" });
    v.push(BackendCase { name: "backend:zero_increment_stream0".into(), send: frame(8, 0, 0, &[0, 0, 0, 0]), model_ops: vec![], rfc: "cerr 1" });
    v.push(BackendCase { name: "backend:window_overflow_stream0".into(), send: [frame(8, 0, 0, &[0x7f, 0xff, 0xff, 0xff]), frame(8, 0, 0, &[0x7f, 0xff, 0xff, 0xff])].concat(), model_ops: vec![], rfc: "cerr 3" });
    v.push(BackendCase { name: "backend:stray_continuation".into(), send: frame(9, 4, 1, &[]), model_ops: vec![], rfc: "cerr 1" });
    // floods: trip point from the flood model (the backend's SETTINGS is the first counted frame)
    let ping = frame(6, 0, 0, &[3; 8]);
    v.push(BackendCase { name: "backend:ping_flood".into(), send: (0..130).flat_map(|_| ping.clone()).collect(), model_ops: (0..130).map(|_| format!("fframe 0 {}", hex(&ping))).collect(), rfc: "" });
    let set = frame(4, 0, 0, &[]);
    v.push(BackendCase { name: "backend:settings_flood".into(), send: (0..70).flat_map(|_| set.clone()).collect(), model_ops: (0..70).map(|_| format!("fframe 0 {}", hex(&set))).collect(), rfc: "" });
    // well-behaved answers (premise of the family) and a graceful GOAWAY that refuses the request
    v.push(BackendCase { name: "backend:answers_200".into(), send: frame(1, 0x5, 0xFFFF_FFF1, &[0x88]), model_ops: vec![], rfc: "handled" });
    v.push(BackendCase { name: "backend:goaway_refusing_the_request".into(), send: frame(7, 0, 0, &[0, 0, 0, 0, 0, 0, 0, 0]), model_ops: vec![], rfc: "handled" });
    v
}

fn run_backend_case(bed: &Bed, case: &BackendCase, model: &[String]) -> Verdict {
    let mut v = Verdict { fails: vec![], known: vec![], tags: vec![], observed: String::new() };
    let fail = |v: &mut Verdict, class: &str, detail: String| v.fails.push((class.to_string(), format!("{}: {detail}", case.name)));
    let t = Duration::from_millis(1500);
    // drop connections left over from an earlier case
    while bed.h2_backend.try_accept().is_some() {}
    let mut c = match Client::connect(bed.front).and_then(|mut c| c.handshake().map(|_| c)) {
        Ok(c) => c,
        Err(e) => {
            fail(&mut v, "handshake-failed", e);
            return v;
        }
    };
    c.send(&frame(1, 0x5, 1, &request_block(false, "/h2b/x")));
    let mut b = match bed.h2_backend.accept(t) {
        Ok(b) => b,
        Err(e) => {
            // set-up, not a verdict
            v.tags.push(format!("backend:inconclusive-no-backend-connection:{e}"));
            return v;
        }
    };
    // sozu's preface and SETTINGS, our SETTINGS, then its request HEADERS
    let _ = b.write_all(&frame(4, 0, 0, &[]), t);
    let t0 = Instant::now();
    let mut req_sid = None;
    while t0.elapsed() < t && req_sid.is_none() {
        b.read_some(Duration::from_millis(50));
        if b.received.len() >= 24 {
            req_sid = parse_frames(&b.received[24..]).iter().find(|f| f.ty == 1).map(|f| f.sid);
        }
    }
    let Some(req_sid) = req_sid else {
        v.tags.push("backend:inconclusive-no-request-from-sozu".into());
        return v;
    };
    if !b.received.starts_with(PREFACE) {
        fail(&mut v, "backend-connection-without-preface", hex(&b.received[..b.received.len().min(24)]));
    }
    let before = parse_frames(&b.received[24..]).len();
    let _ = b.write_all(&frame(4, 1, 0, &[]), t); // acknowledge sozu's SETTINGS
    // the misbehaviour, then a PING
    let mut send = case.send.clone();
    for i in 0..send.len().saturating_sub(8) {
        if send[i + 5..i + 9] == [0xff, 0xff, 0xff, 0xf1] {
            send[i + 5..i + 9].copy_from_slice(&req_sid.to_be_bytes());
        }
    }
    let sync = [0xB0, 1, 2, 3, 4, 5, 6, 7];
    let flood_trip = model.iter().position(|l| l.starts_with("viol 11")).map(|p| p + 1);
    if case.name.ends_with("_flood") {
        // exactly to the model's trip point and nothing behind it: bytes left unread when sozu
        // closes would turn the close into a reset and the GOAWAY could be lost with it
        if let Some(tp) = flood_trip {
            let unit = case.send.len() / case.model_ops.len().max(1);
            send.truncate(unit * tp);
        }
    } else {
        send.extend(frame(6, 0, 0, &sync));
    }
    let _ = b.write_all(&send, t);
    let t0 = Instant::now();
    let mut closed = false;
    loop {
        let fs = parse_frames(&b.received[24..]);
        if fs[before.min(fs.len())..].iter().any(|f| f.ty == 7 || (f.ty == 6 && f.flags & 1 != 0 && f.payload == sync)) || t0.elapsed() > t {
            break;
        }
        if matches!(b.read_some(Duration::from_millis(50)), ReadEnd::Closed | ReadEnd::Reset) {
            closed = true;
            break;
        }
    }
    let fs = parse_frames(&b.received[24..]);
    let new = &fs[before.min(fs.len())..];
    let goaway = new.iter().find(|f| f.ty == 7 && f.payload.len() >= 8).map(|f| u32::from_be_bytes([f.payload[4], f.payload[5], f.payload[6], f.payload[7]]));
    let ping_acks = new.iter().filter(|f| f.ty == 6 && f.flags & 1 != 0).count();
    let observed = match goaway {
        Some(g) => format!("cerr {g}"),
        None if new.iter().any(|f| f.ty == 6 && f.flags & 1 != 0 && f.payload == sync) => "handled".to_string(),
        None if closed => "closed".to_string(),
        None => "silent".to_string(),
    };
    // expectation
    let expected = if !case.rfc.is_empty() {
        case.rfc.to_string()
    } else if case.name.ends_with("_flood") {
        if model.iter().any(|l| l.starts_with("viol 11")) { "cerr 11".to_string() } else { "handled".to_string() }
    } else {
        model.first().map(|m| if let Some(c) = m.strip_prefix("err ") { format!("cerr {c}") } else { "handled".to_string() }).unwrap_or_default()
    };
    v.observed = format!("to the backend: {observed} ({ping_acks} ping acks)");
    v.tags.push(format!("{}={observed}", case.name));
    if case.name == "backend:goaway_refusing_the_request" {
        // sozu may simply close after a GOAWAY from its peer
        if goaway.is_some_and(|g| g != 0) {
            fail(&mut v, "backend-peer-wrong-answer", format!("a graceful GOAWAY from the backend was answered with {observed}"));
        }
    } else if observed != expected {
        let class = if observed == "silent" { "backend-connection-wedged" } else { "backend-peer-wrong-answer" };
        fail(&mut v, class, format!("expected `{expected}`, observed `{observed}`"));
    } else if case.name.ends_with("_flood") {
        // acknowledged frames before the trip, as the model counts them (the backend's SETTINGS came first)
        let trip = model.iter().position(|l| l.starts_with("viol 11")).map(|p| p + 1);
        if let (Some(t), true) = (trip, case.name.contains("ping")) {
            if ping_acks != t - 1 {
                fail(&mut v, "flood-trip-point-differs-from-model", format!("model trips at frame {t}, observed {ping_acks} acks"));
            }
        }
    }
    if goaway.is_some() {
        // released
        let t0 = Instant::now();
        while !closed && t0.elapsed() < t {
            closed = matches!(b.read_some(Duration::from_millis(50)), ReadEnd::Closed | ReadEnd::Reset);
        }
        if !closed {
            fail(&mut v, "connection-not-released-after-goaway", "backend connection still open".into());
        }
    }
    drop(b);
    // a second backend connection (retry) is answered properly, so that a retried request can complete
    if let Ok(mut b2) = bed.h2_backend.accept(Duration::from_millis(if case.name == "backend:answers_200" { 1 } else { 300 })) {
        let _ = b2.write_all(&frame(4, 0, 0, &[]), t);
        let t0 = Instant::now();
        while t0.elapsed() < t {
            b2.read_some(Duration::from_millis(50));
            if b2.received.len() >= 24 {
                if let Some(f) = parse_frames(&b2.received[24..]).iter().find(|f| f.ty == 1) {
                    let _ = b2.write_all(&[frame(4, 1, 0, &[]), frame(1, 0x5, f.sid, &[0x88])].concat(), t);
                    break;
                }
            }
        }
        v.tags.push("backend:request-retried-on-a-new-connection".into());
        std::thread::sleep(Duration::from_millis(30));
    }
    // ---- the front side: the request must be answered, one way or the other
    let end = c.read_until(Duration::from_millis(2500), |fs| fs.iter().any(|f| f.sid == 1 && (f.ty == 1 || f.ty == 3)) || fs.iter().any(|f| f.ty == 7));
    // a GOAWAY(NO_ERROR) next to the answer is a graceful close of the front connection: allowed
    if c.goaway() == Some(0) && !c.frames.iter().any(|f| f.sid == 1 && (f.ty == 1 || f.ty == 3)) {
        c.read_until(Duration::from_millis(500), |fs| fs.iter().any(|f| f.sid == 1 && (f.ty == 1 || f.ty == 3)));
    }
    let graceful = c.goaway() == Some(0);
    let front = if c.goaway().is_some_and(|g| g != 0) {
        format!("goaway {:?}", c.goaway())
    } else if let Some((_, code)) = c.rst_codes().iter().find(|(s, _)| *s == 1) {
        format!("rst {code}")
    } else if c.frames.iter().any(|f| f.ty == 1 && f.sid == 1) {
        if c.got_200(1) { "200".to_string() } else { "error-response".to_string() }
    } else {
        format!("unanswered({end:?})")
    };
    v.tags.push(format!("backend:front={front}{}", if graceful { "+goaway0" } else { "" }));
    v.observed.push_str(&format!("; front: {front}"));
    if front.starts_with("unanswered") || front.starts_with("goaway") {
        fail(&mut v, "front-request-not-answered-after-backend-misbehaviour", front.clone());
    }
    if case.name == "backend:answers_200" && front != "200" {
        fail(&mut v, "backend-peer-wrong-answer", format!("a correct backend response was not relayed: {front}"));
    }
    // the front connection and another cluster keep working
    if graceful {
        // the front connection is being closed gracefully: new work goes to a new connection
        match Client::connect(bed.front).and_then(|mut c2| c2.handshake().map(|_| c2)).and_then(|mut c2| good_request(&mut c2, 1)) {
            Ok(()) => {}
            Err(e) => fail(&mut v, "healthy-stream-not-served-after-backend-misbehaviour", format!("new connection: {e}")),
        }
    } else if !front.starts_with("goaway") {
        c.send(&frame(1, 0x5, 3, &request_block(false, "/")));
        if c.read_until(CASE_DEADLINE, |fs| stream_ended(fs, 3) || fs.iter().any(|f| f.ty == 7)) != End::Matched || !c.got_200(3) {
            fail(&mut v, "healthy-stream-not-served-after-backend-misbehaviour", format!("goaway {:?} rst {:?}", c.goaway(), c.rst_codes()));
        }
    }
    v
}

// ------------------------------------------------- slot-recycle family ----

/// Waves of concurrent requests on one connection, each answered with a body
/// that names the request (`/echo/<token>`), some streams reset in between:
/// stream slots are recycled and the slot vector shrinks
/// (`Context::create_stream` / `shrink_trailing_recycle`, `remove_dead_stream`).
/// Every response must arrive on the stream that asked for it.
fn run_recycle_case(bed: &Bed, name: &str, waves: &[(usize, usize)]) -> Verdict {
    let mut v = Verdict { fails: vec![], known: vec![], tags: vec![], observed: String::new() };
    let fail = |v: &mut Verdict, class: &str, detail: String| v.fails.push((class.to_string(), format!("{name}: {detail}")));
    let mut c = match Client::connect(bed.front).and_then(|mut c| c.handshake().map(|_| c)) {
        Ok(c) => c,
        Err(e) => {
            fail(&mut v, "handshake-failed", e);
            return v;
        }
    };
    let mut next = 1u32;
    let mut served = 0usize;
    for (w, (n_echo, n_reset)) in waves.iter().enumerate() {
        // `n_reset` held requests that are reset right away, `n_echo` answered ones, interleaved, one write
        let mut bytes = vec![];
        let mut want: Vec<(u32, String)> = vec![];
        for i in 0..(*n_echo).max(*n_reset) {
            if i < *n_reset {
                bytes.extend(frame(1, 0x5, next, &request_block(false, "/hold/recycle")));
                bytes.extend(frame(3, 0, next, &8u32.to_be_bytes()));
                next += 2;
            }
            if i < *n_echo {
                let token = format!("w{w}s{next}");
                bytes.extend(frame(1, 0x5, next, &request_block(false, &format!("/echo/{token}"))));
                want.push((next, token));
                next += 2;
            }
        }
        c.send(&bytes);
        let ids: Vec<u32> = want.iter().map(|(s, _)| *s).collect();
        let end = c.read_until(Duration::from_millis(2500), |fs| ids.iter().all(|s| stream_ended(fs, *s)) || fs.iter().any(|f| f.ty == 7));
        if end != End::Matched || c.goaway().is_some() {
            fail(&mut v, "concurrent-requests-not-all-served", format!("wave {w}: {end:?}, goaway {:?}, rst {:?}", c.goaway(), c.rst_codes()));
            return v;
        }
        for (sid, token) in &want {
            let body: Vec<u8> = c.frames.iter().filter(|f| f.ty == 0 && f.sid == *sid).flat_map(|f| f.payload.clone()).collect();
            if body != token.as_bytes() || !c.got_200(*sid) {
                fail(&mut v, "response-delivered-to-wrong-stream", format!("wave {w}: stream {sid} asked for `{token}`, got `{}`", String::from_utf8_lossy(&body)));
            } else {
                served += 1;
            }
        }
    }
    v.observed = format!("{served} responses matched over {} waves", waves.len());
    v.tags.push("recycle:responses-matched".into());
    v
}

// ----------------------------------------------------- timeout family ----

/// The backstop against wedged connections: with `front_timeout = request_timeout = 1 s`
/// (the latter governs a connection that has not completed a request yet) a
/// connection that goes silent - idle after the settings exchange, in the middle
/// of a frame header, in the middle of a declared payload, with a request the
/// backend never answers - must be released by sozu (closed, with or without
/// GOAWAY / an error response) within a few seconds, and the worker goes on.
/// Runs on a worker of its own, in a thread, next to the other families.
fn timeout_family() -> Vec<(String, String)> {
    let mut fails = vec![];
    let mut bed = match start_bed_with(Some(1)) {
        Ok(b) => b,
        Err(_) => return fails, // set-up, not a verdict
    };
    let scenarios: Vec<(&str, Vec<u8>)> = vec![
        ("idle_after_settings", vec![]),
        ("partial_frame_header", vec![0, 0, 8, 6, 0]),
        ("partial_payload", { let mut f = frame(0x42, 0, 0, &[7; 100]); f.truncate(9 + 10); f }),
        ("partial_data_payload_on_open_stream", { let mut b = frame(1, 0x4, 1, &request_block(true, "/hold/timeout")); let mut d = frame(0, 0, 1, &[7; 100]); d.truncate(9 + 10); b.extend(d); b }),
        ("open_header_block", frame(1, 0x1, 1, &request_block(false, "/")[..2])),
    ];
    let mut clients = vec![];
    for (name, bytes) in &scenarios {
        match Client::connect(bed.front).and_then(|mut c| c.handshake().map(|_| c)) {
            Ok(mut c) => {
                c.send(bytes);
                clients.push((name.to_string(), c));
            }
            Err(_) => {} // set-up
        }
    }
    let t0 = Instant::now();
    for (name, c) in clients.iter_mut() {
        // all scenarios wait in parallel: the deadline is shared
        let total = std::env::var("H2CONN_TIMEOUT_WAIT").ok().and_then(|x| x.parse().ok()).unwrap_or(6u64);
        let left = Duration::from_secs(total).saturating_sub(t0.elapsed()).max(Duration::from_millis(200));
        let end = c.read_until(left, |_| false);
        if end != End::Closed {
            fails.push(("silent-connection-not-released-by-front-timeout".to_string(), format!("timeout:{name}: still open {:.1} s after going silent (front_timeout 1 s); goaway {:?}", t0.elapsed().as_secs_f64(), c.goaway())));
        }
    }
    if !bed.worker.alive().is_alive() {
        fails.push(("worker-died-or-wedged".to_string(), "after the timeout family".to_string()));
    }
    bed.stop_backend.store(true, Ordering::Relaxed);
    drop(clients);
    bed.worker.stop();
    fails
}

// -------------------------------------------------------------------- main ----

struct Verdict {
    fails: Vec<(String, String)>,
    known: Vec<(String, bool)>,
    tags: Vec<String>,
    observed: String,
}

fn run_case(bed: &Bed, case: &Case, model: &[String]) -> Verdict {
    let mut v = Verdict { fails: vec![], known: vec![], tags: vec![], observed: String::new() };
    let fail = |v: &mut Verdict, class: &str, detail: String| v.fails.push((class.to_string(), format!("{}: {detail}", case.name)));
    let mut c = match Client::connect(bed.front) {
        Ok(c) => c,
        Err(e) => {
            fail(&mut v, "cannot-connect", e);
            return v;
        }
    };
    if case.raw_hello {
        c.send(&case.send);
    } else {
        if let Err(e) = c.handshake() {
            fail(&mut v, "handshake-failed", e);
            return v;
        }
        c.send(&case.send);
    }
    let end = match &case.expect {
        Expect::Decode { .. } => c.read_until(CASE_DEADLINE, |fs| fs.iter().any(|f| f.ty == 7 || (f.ty == 6 && f.flags & 1 != 0))),
        Expect::Rst(_) => c.read_until(CASE_DEADLINE, |fs| fs.iter().any(|f| f.ty == 7 || f.ty == 3)),
        Expect::StreamLimit => c.read_until(CASE_DEADLINE, |fs| fs.iter().filter(|f| f.ty == 3).count() >= 20 || fs.iter().any(|f| f.ty == 7)),
        Expect::FirstSettings => c.read_until(CASE_DEADLINE, |fs| fs.iter().any(|f| f.ty == 7) || fs.iter().any(|f| f.ty == 4 && f.flags & 1 != 0)),
        _ => c.read_until(CASE_DEADLINE, |fs| fs.iter().any(|f| f.ty == 7)),
    };
    let goaway = c.goaway();
    // after a GOAWAY the connection has to be released
    let mut released = end == End::Closed;
    if goaway.is_some() && !released {
        released = c.read_until(CASE_DEADLINE, |_| false) == End::Closed;
    }
    v.observed = format!("end={end:?} goaway={goaway:?} rst={:?} ping_acks={} settings_acks={}", c.rst_codes().iter().take(3).collect::<Vec<_>>(), c.count(6, true), c.count(4, true));
    let obs = v.observed.clone();
    if goaway.is_some() && !released {
        fail(&mut v, "connection-not-released-after-goaway", obs.clone());
    }
    if let Some(code) = goaway {
        if code > 13 {
            fail(&mut v, "goaway-unknown-code", obs.clone());
        }
        if code == 2 {
            // INTERNAL_ERROR is sozu admitting a bug of its own
            fail(&mut v, "goaway-internal-error", obs.clone());
        }
        v.tags.push(format!("goaway:{code}"));
    }
    match &case.expect {
        Expect::Decode { exact } => {
            let m = model.first().cloned().unwrap_or_default();
            v.tags.push(format!("single:model-{}", m.split(' ').next().unwrap_or("")));
            if let Some(code) = m.strip_prefix("err ") {
                let code: u32 = code.parse().unwrap_or(99);
                match goaway {
                    Some(g) if g == code => {}
                    Some(g) if !*exact && matches!(g, 1 | 5 | 6) => v.tags.push("single:stateful-code".into()),
                    None if !*exact && !c.rst_codes().is_empty() => v.tags.push("single:stream-error".into()),
                    _ => fail(&mut v, "malformed-frame-wrong-answer", format!("model `{m}`, observed {}", obs)),
                }
            } else if m.starts_with("ok ") {
                // handled, ignored, or refused by the connection state: but answered, never silence
                if goaway.is_none() && c.count(6, true) == 0 && end != End::Closed {
                    fail(&mut v, "no-answer-after-wellformed-frame", obs.clone());
                }
            } else {
                fail(&mut v, "model-gave-no-verdict", m);
            }
        }
        Expect::GoAway(code) => {
            if goaway != Some(*code) {
                fail(&mut v, "wrong-goaway-code", format!("expected {code}, observed {}", obs));
            }
        }
        Expect::Flood { ack_type } => {
            // model: index of the first `viol` line among the flood events
            let first_ev = model.iter().position(|l| l.starts_with("none") || l.starts_with("viol")).unwrap_or(0);
            let events: Vec<&String> = model[first_ev..].iter().collect();
            let trip = events.iter().position(|l| l.starts_with("viol 11"));
            if goaway != Some(11) {
                fail(&mut v, "flood-not-answered-with-enhance-your-calm", obs.clone());
            }
            match (trip, ack_type) {
                (None, _) => fail(&mut v, "model-predicts-no-trip", case.name.clone()),
                (Some(t), Some(ty)) => {
                    // events[0] is the handshake SETTINGS; frames before the tripping one were acknowledged
                    let expected_acks = if *ty == 4 { t } else { t - 1 };
                    let got = c.count(*ty, true);
                    v.tags.push(format!("flood:acks={got}"));
                    if got != expected_acks {
                        fail(&mut v, "flood-trip-point-differs-from-model", format!("model trips at event {t} ({expected_acks} acks), observed {got} acks; {}", obs));
                    }
                }
                _ => {}
            }
        }
        Expect::FloodSoft => {
            if goaway != Some(11) {
                fail(&mut v, "flood-not-answered-with-enhance-your-calm", obs.clone());
            }
        }
        Expect::Rst(code) => {
            if !c.rst_codes().iter().any(|(_, c)| c == code) || goaway.is_some() {
                fail(&mut v, "wrong-stream-error", format!("expected RST_STREAM({code}), observed {}", obs));
            }
        }
        Expect::StreamLimit => {
            let refused = c.rst_codes().iter().filter(|(_, c)| *c == 7).count();
            v.tags.push(format!("limit:refused={refused}"));
            if goaway.is_none() && refused < 20 {
                fail(&mut v, "concurrent-stream-limit-exceeded", format!("120 open requests, advertised limit 100, only {refused} refused; {}", obs));
            }
        }
        Expect::FirstSettings => {
            let m = model.first().cloned().unwrap_or_default();
            let accepted = goaway.is_none() && c.count(4, false) > 0;
            let len = case.send.len() - PREFACE.len() - 9;
            v.tags.push(format!("first_settings:{}", if accepted { "accepted" } else { "refused" }));
            if m.starts_with("ok ") != accepted {
                fail(&mut v, "first-settings-differs-from-model", format!("model `{m}`, observed {}", obs));
            }
            if len % 6 != 0 {
                // RFC 9113 §6.5; the witness of F24 is replayed on every run
                v.known.push(("first-settings-length-not-multiple-of-6-accepted".into(), accepted));
                if accepted {
                    fail(&mut v, "first-settings-length-not-multiple-of-6-accepted", format!("first SETTINGS of {len} bytes accepted; {}", obs));
                }
            }
        }
    }
    v
}

fn main() {
    silence_worker_panics();
    let args = parse_args();
    let t0 = Instant::now();
    let thorough = args.thorough();
    let mut failures: Vec<Value> = vec![];
    let mut known: Vec<Value> = vec![];
    let mut dist: std::collections::BTreeMap<String, u64> = Default::default();
    let mut samples: Vec<Value> = vec![];
    let mut push_fail = |failures: &mut Vec<Value>, class: &str, detail: &str, ops: Vec<String>| {
        if failures.iter().filter(|f| f["class"] == class).count() < 3 {
            failures.push(json!({"kind": "oracle", "class": class, "detail": detail, "case": -1, "ops": ops, "impl_out": [], "model_out": []}));
        }
    };

    // The timeout family (silent connections must be reclaimed within the configured timeouts) is
    // property C16's business: it runs only under `--prop C16` (or `--family timeout`), alone.
    if args.prop == "C16" || args.extra.get("family").map(|f| f == "timeout").unwrap_or(false) {
        let fs = timeout_family();
        for (class, detail) in &fs {
            push_fail(&mut failures, class, detail, vec!["h2conn timeout".to_string()]);
        }
        dist.insert("kind:timeout".into(), 5);
        samples.push(json!({"case": "timeout family: 5 silent connections on a worker with front_timeout = request_timeout = 1 s", "failures": fs.len()}));
        let rc = finish_with_rule(&args, 5, 5, &failures, &known, &dist, &samples, t0, "black box, own worker with front_timeout = request_timeout = 1 s: five TLS+h2 connections go silent after the settings exchange - idle, inside a frame header (5 of 9 bytes), inside a declared stream-0 payload (10 of 100 bytes), inside a DATA payload of an open stream, inside a header block (HEADERS without END_HEADERS) - and must be closed by sozu within 6 s (H2CONN_TIMEOUT_WAIT overrides); the worker must stay alive");
        std::process::exit(rc);
    }
    let mut cases = build_cases(args.seed, thorough);
    let mut stream_cases = build_stream_cases(args.seed, thorough);
    let mut replay_names: Vec<String> = vec![];
    if let Some(path) = &args.replay {
        // replay: only the named case(s) of a `h2conn <name> …` replay file; a replay file of
        // the in-process binary (h2wire) holds nothing for this one
        let names: Vec<String> = read_replay_ops(path)
            .iter()
            .filter_map(|o| o.strip_prefix("h2conn ").map(|r| r.split(' ').next().unwrap_or("").to_string()))
            .collect();
        let ping = frame(6, 0, 0, &[1, 2, 3, 4, 5, 6, 7, 8]);
        replay_names = names.clone();
        stream_cases = names.iter().filter_map(|n| StreamCase::parse(n)).collect();
        cases = names
            .iter()
            .filter_map(|n| {
                if let Some(h) = n.strip_prefix("single:") {
                    let f = unhex(h);
                    if f.len() < 9 {
                        return None;
                    }
                    let sid = u32::from_be_bytes([f[5], f[6], f[7], f[8]]) & 0x7fff_ffff;
                    let l = ((f[0] as u32) << 16) | ((f[1] as u32) << 8) | f[2] as u32;
                    let mut send = f.clone();
                    send.extend(&ping);
                    Some(Case {
                        name: n.clone(),
                        send,
                        raw_hello: false,
                        model_ops: vec![format!("decode 16384 {}", hex(&f))],
                        expect: Expect::Decode { exact: sid == 0 || l > 16384 },
                    })
                } else {
                    build_cases(args.seed, false).into_iter().find(|c| &c.name == n)
                }
            })
            .collect();
    }
    // model verdicts, one driver run
    let mut input = String::new();
    for (i, c) in cases.iter().enumerate() {
        input.push_str(&format!("#case {i}\nnew\n"));
        for o in &c.model_ops {
            input.push_str(o);
            input.push('\n');
        }
    }
    let mut model: Vec<Vec<String>> = vec![];
    for l in run_model(&args.driver, &input) {
        if l.starts_with("#case ") {
            model.push(vec![]);
        } else if let Some(last) = model.last_mut() {
            if l != "new" {
                last.push(l);
            }
        }
    }
    let mut bed = match start_bed() {
        Ok(b) => b,
        Err(e) => {
            push_fail(&mut failures, "rig-setup-failed", &e, vec![]);
            finish(&args, 0, 0, &failures, &known, &dist, &samples, t0);
            std::process::exit(1);
        }
    };
    // the concurrent well-behaved connection
    let mut good = Client::connect(bed.front).ok().and_then(|mut c| c.handshake().ok().map(|_| c));
    let mut good_sid = 1u32;
    let mut evaluations = 0u64;
    let mut nontrivial = 0u64;
    for (i, case) in cases.iter().enumerate() {
        let m = model.get(i).cloned().unwrap_or_default();
        let v = run_case(&bed, case, &m);
        evaluations += 1;
        if !v.tags.is_empty() {
            nontrivial += 1;
        }
        for t in &v.tags {
            *dist.entry(t.clone()).or_insert(0) += 1;
        }
        *dist.entry(format!("kind:{}", case.name.split(':').next().unwrap_or(""))).or_insert(0) += 1;
        if samples.len() < 4 && (i % 57 == 0 || case.name.starts_with("flood")) {
            samples.push(json!({"case": case.name, "model": m.iter().take(2).collect::<Vec<_>>(), "observed": v.observed}));
        }
        let ops: Vec<String> = vec![format!("h2conn {} send={}", case.name, hex(&case.send[..case.send.len().min(64)]))];
        for (class, detail) in &v.fails {
            push_fail(&mut failures, class, detail, ops.clone());
        }
        for (class, reproduced) in &v.known {
            known.push(json!({"class": class, "reproduced": reproduced, "detail": case.name}));
        }
        // liveness: the worker, the long-lived good connection, and (now and then) a fresh probe
        let check_now = i % 20 == 19 || !case.name.starts_with("single") || !v.fails.is_empty();
        if check_now {
            match bed.worker.alive() {
                Health::Alive(_) => {}
                h => {
                    push_fail(&mut failures, "worker-died-or-wedged", &format!("after {}: {h:?}", case.name), ops.clone());
                    bed.stop_backend.store(true, Ordering::Relaxed);
                    match start_bed() {
                        Ok(b) => bed = b,
                        Err(e) => {
                            push_fail(&mut failures, "rig-setup-failed", &e, vec![]);
                            break;
                        }
                    }
                    good = Client::connect(bed.front).ok().and_then(|mut c| c.handshake().ok().map(|_| c));
                    good_sid = 1;
                    continue;
                }
            }
            match good.as_mut() {
                Some(g) => {
                    if let Err(e) = good_request(g, good_sid) {
                        push_fail(&mut failures, "concurrent-good-connection-not-served", &format!("after {}: {e}", case.name), ops.clone());
                        good = Client::connect(bed.front).ok().and_then(|mut c| c.handshake().ok().map(|_| c));
                        good_sid = 1;
                    } else {
                        good_sid += 2;
                        *dist.entry("good-connection-request-served".into()).or_insert(0) += 1;
                    }
                }
                None => push_fail(&mut failures, "concurrent-good-connection-not-served", "could not open it", ops.clone()),
            }
            let mut p = Client::connect(bed.front).and_then(|mut c| c.handshake().map(|_| c));
            match p.as_mut().map_err(|e| e.clone()).and_then(|c| good_request(c, 1)) {
                Ok(()) => *dist.entry("probe-connection-served".into()).or_insert(0) += 1,
                Err(e) => push_fail(&mut failures, "new-connection-not-served", &format!("after {}: {e}", case.name), ops.clone()),
            }
        }
    }
    // ---- flood-variant family: every flood kind in its wire-level variants, trip points from the model
    let replaying = args.replay.is_some();
    let variants: Vec<FloodVariant> = flood_variants()
        .into_iter()
        .filter(|fv| !replaying || replay_names.iter().any(|n| n.starts_with(&format!("floodvar:{}:", fv.name))))
        .collect();
    let trips = flood_trip_points(&args.driver, &variants);
    for (fv, trip) in variants.iter().zip(trips) {
        let trip = match trip {
            Ok(t) => t,
            Err(e) => {
                push_fail(&mut failures, "flood-variant-model-gave-no-verdict", &format!("{}: {e}", fv.name), vec![format!("h2conn floodvar:{}:at", fv.name)]);
                continue;
            }
        };
        for at in [false, true] {
            if (at && trip.is_none()) || (!at && fv.skip_below) {
                continue;
            }
            let v = run_flood_variant(&bed, fv, trip, at);
            evaluations += 1;
            nontrivial += 1;
            for t in &v.tags {
                *dist.entry(t.clone()).or_insert(0) += 1;
            }
            *dist.entry("kind:floodvar".into()).or_insert(0) += 1;
            if samples.len() < 12 && fv.name.starts_with("empty_data:padded") {
                samples.push(json!({"case": format!("floodvar:{}:{}", fv.name, if at { "at" } else { "below" }), "model_trip": trip, "observed": v.observed}));
            }
            let ops = vec![format!("h2conn floodvar:{}:{}", fv.name, if at { "at" } else { "below" })];
            for (class, detail) in &v.fails {
                push_fail(&mut failures, class, detail, ops.clone());
            }
        }
        if !bed.worker.alive().is_alive() {
            push_fail(&mut failures, "worker-died-or-wedged", &format!("after floodvar:{}", fv.name), vec![format!("h2conn floodvar:{}:at", fv.name)]);
            break;
        }
        if let Some(g) = good.as_mut() {
            if let Err(e) = good_request(g, good_sid) {
                push_fail(&mut failures, "concurrent-good-connection-not-served", &format!("after floodvar:{}: {e}", fv.name), vec![format!("h2conn floodvar:{}:at", fv.name)]);
                good = Client::connect(bed.front).ok().and_then(|mut c| c.handshake().ok().map(|_| c));
                good_sid = 1;
            } else {
                good_sid += 2;
            }
        }
    }
    // ---- slot-recycle family: waves of concurrent requests, responses matched to their streams
    {
        let mut plans: Vec<(String, Vec<(usize, usize)>)> = vec![
            ("recycle:grow_then_one".into(), vec![(8, 0), (1, 0), (5, 0), (1, 0), (1, 0)]),
            ("recycle:resets_between".into(), vec![(6, 6), (1, 0), (3, 5), (2, 0), (10, 0), (1, 3)]),
        ];
        let extra = if thorough { 40 } else { 4 };
        for i in 0..extra {
            let mut rng = Rng::for_case(args.seed ^ 0x7ec7_c1e0, i);
            let waves = (0..rng.range(3, 7)).map(|_| (rng.range(1, 12) as usize, rng.below(8) as usize)).collect();
            plans.push((format!("recycle:random:{i}"), waves));
        }
        for (name, waves) in plans.iter().filter(|(n, _)| !replaying || replay_names.iter().any(|x| x == n)) {
            let v = run_recycle_case(&bed, name, waves);
            evaluations += 1;
            nontrivial += 1;
            for t in &v.tags {
                *dist.entry(t.clone()).or_insert(0) += 1;
            }
            *dist.entry("kind:recycle".into()).or_insert(0) += 1;
            for (class, detail) in &v.fails {
                push_fail(&mut failures, class, detail, vec![format!("h2conn {name}")]);
            }
        }
        if !bed.worker.alive().is_alive() {
            push_fail(&mut failures, "worker-died-or-wedged", "after the slot-recycle family", vec![]);
        }
    }
    // ---- backend-peer family: sozu as the HTTP/2 client of a misbehaving backend
    {
        let bcases: Vec<BackendCase> = backend_cases().into_iter().filter(|c| !replaying || replay_names.iter().any(|n| *n == c.name)).collect();
        let mut binput = String::new();
        for (i, c) in bcases.iter().enumerate() {
            binput.push_str(&format!("#case {i}\nnew\nfnew 100 100 50 100 100 20 100 10000 50 500 65536\nf settings 0\n"));
            for o in &c.model_ops {
                binput.push_str(o);
                binput.push('\n');
            }
        }
        let mut bmodel: Vec<Vec<String>> = vec![];
        let mut skip = 0;
        for l in run_model(&args.driver, &binput) {
            if l.starts_with("#case ") {
                bmodel.push(vec![]);
                skip = 3;
            } else if skip > 0 {
                skip -= 1;
            } else if let Some(last) = bmodel.last_mut() {
                last.push(l);
            }
        }
        for (i, c) in bcases.iter().enumerate() {
            let v = run_backend_case(&bed, c, bmodel.get(i).map(|x| x.as_slice()).unwrap_or(&[]));
            evaluations += 1;
            nontrivial += 1;
            for t in &v.tags {
                *dist.entry(t.clone()).or_insert(0) += 1;
            }
            *dist.entry("kind:backend".into()).or_insert(0) += 1;
            if i < 2 {
                samples.push(json!({"case": c.name, "observed": v.observed}));
            }
            for (class, detail) in &v.fails {
                push_fail(&mut failures, class, detail, vec![format!("h2conn {}", c.name)]);
            }
        }
        if !bed.worker.alive().is_alive() {
            push_fail(&mut failures, "worker-died-or-wedged", "after the backend-peer family", vec![]);
        }
    }
    // ---- request-level family: header budget, content-length, PRIORITY, header-block interleaving
    {
        let rcases: Vec<ReqCase> = request_cases().into_iter().filter(|c| !replaying || replay_names.iter().any(|n| *n == c.name)).collect();
        let mut rinput = String::from("new\n");
        for c in &rcases {
            rinput.push_str(if c.model_op.is_empty() { "stream open priority" } else { &c.model_op });
            rinput.push('\n');
        }
        let rmodel: Vec<String> = run_model(&args.driver, &rinput).into_iter().skip(1).collect();
        for (i, c) in rcases.iter().enumerate() {
            let v = run_request_case(&bed, c, rmodel.get(i).map(|x| x.as_str()).unwrap_or(""));
            evaluations += 1;
            nontrivial += 1;
            for t in &v.tags {
                *dist.entry(t.clone()).or_insert(0) += 1;
            }
            *dist.entry("kind:request".into()).or_insert(0) += 1;
            for (class, detail) in &v.fails {
                push_fail(&mut failures, class, detail, vec![format!("h2conn {}", c.name)]);
            }
        }
        if !bed.worker.alive().is_alive() {
            push_fail(&mut failures, "worker-died-or-wedged", "after the request-level family", vec![]);
        }
    }
    // ---- receive-limits family: peer SETTINGS vs the limits sozu advertises
    {
        let variants = settings_variants();
        let mut jobs: Vec<(usize, Probe)> = vec![];
        for (vi, (vname, entries)) in variants.iter().enumerate() {
            let invalid = vname.starts_with("invalid");
            for p in PROBES {
                if invalid && p != Probe::PlainRequest {
                    continue;
                }
                let _ = entries;
                let n = format!("limits:{vname}:{p:?}");
                if replaying && !replay_names.iter().any(|x| *x == n) {
                    continue;
                }
                jobs.push((vi, p));
            }
        }
        let mut linput = String::new();
        for (k, (vi, p)) in jobs.iter().enumerate() {
            linput.push_str(&format!("#case {k}\nnew\npsettings {}\n", hex(&settings_payload(&variants[*vi].1))));
            match p.frame() {
                Some(f) => linput.push_str(&format!("cdecode {}\n", hex(&f))),
                None if *p == Probe::StreamLimit => linput.push_str("cnew 2\ncframe 1 headers 1\ncframe 3 headers 1\ncframe 5 headers 1\n"),
                None => {}
            }
        }
        let mut lmodel: Vec<Vec<String>> = vec![];
        for l in run_model(&args.driver, &linput) {
            if l.starts_with("#case ") {
                lmodel.push(vec![]);
            } else if let Some(last) = lmodel.last_mut() {
                if l != "new" && l != "cnew" {
                    last.push(l);
                }
            }
        }
        for (k, (vi, p)) in jobs.iter().enumerate() {
            let m = lmodel.get(k).cloned().unwrap_or_default();
            let (vname, entries) = &variants[*vi];
            let v = run_limits_case(&bed, vname, entries, *p, m.first().map(|x| x.as_str()).unwrap_or(""), if m.len() > 1 { &m[1..] } else { &[] });
            evaluations += 1;
            nontrivial += 1;
            for t in &v.tags {
                *dist.entry(t.clone()).or_insert(0) += 1;
            }
            *dist.entry("kind:limits".into()).or_insert(0) += 1;
            for (class, detail) in &v.fails {
                push_fail(&mut failures, class, detail, vec![format!("h2conn limits:{vname}:{p:?}")]);
            }
            for (class, reproduced) in &v.known {
                known.push(json!({"class": class, "reproduced": reproduced, "detail": format!("limits:{vname}")}));
            }
        }
        if !bed.worker.alive().is_alive() {
            push_fail(&mut failures, "worker-died-or-wedged", "after the receive-limits family", vec![]);
        }
    }
    // ---- history family: frame sequences on one connection vs the Lean history model
    let histories: Vec<History> = build_histories(args.seed, thorough)
        .into_iter()
        .filter(|h| !replaying || replay_names.iter().any(|n| *n == h.name))
        .collect();
    let mut hinput = String::new();
    for (i, h) in histories.iter().enumerate() {
        hinput.push_str(&format!("#case {i}\nnew\ncnew 2\n"));
        for (sid, fk, es) in &h.frames {
            hinput.push_str(&format!("cframe {sid} {} {}\n", fk.name(), *es as u8));
        }
    }
    let mut hmodel: Vec<Vec<String>> = vec![];
    for l in run_model(&args.driver, &hinput) {
        if l.starts_with("#case ") {
            hmodel.push(vec![]);
        } else if let Some(last) = hmodel.last_mut() {
            if l != "new" && l != "cnew" {
                last.push(l);
            }
        }
    }
    for (i, h) in histories.iter().enumerate() {
        let v = run_history(&bed, h, hmodel.get(i).map(|x| x.as_slice()).unwrap_or(&[]));
        evaluations += 1;
        nontrivial += 1;
        for t in &v.tags {
            *dist.entry(t.clone()).or_insert(0) += 1;
        }
        *dist.entry("kind:history".into()).or_insert(0) += 1;
        if i < 2 {
            samples.push(json!({"case": h.name, "model": hmodel.get(i), "observed": v.observed}));
        }
        for (class, detail) in &v.fails {
            push_fail(&mut failures, class, detail, vec![format!("h2conn {}", h.name)]);
        }
        for (class, reproduced) in &v.known {
            known.push(json!({"class": class, "reproduced": reproduced, "detail": h.name}));
        }
    }
    if !bed.worker.alive().is_alive() {
        push_fail(&mut failures, "worker-died-or-wedged", "after the history family", vec![]);
    }
    // ---- stream-state family (verdicts of the Lean table in one driver run)
    let sinput: String = std::iter::once("new".to_string()).chain(stream_cases.iter().map(|c| format!("stream {} {}", c.scene.model_state(), c.fk.name()))).collect::<Vec<_>>().join("\n") + "\n";
    let smodel: Vec<String> = run_model(&args.driver, &sinput).into_iter().skip(1).collect();
    for (i, sc) in stream_cases.iter().enumerate() {
        let m = smodel.get(i).cloned().unwrap_or_default();
        let v = run_stream_case(&mut bed, sc, &m);
        evaluations += 1;
        nontrivial += 1;
        for t in &v.tags {
            *dist.entry(t.clone()).or_insert(0) += 1;
        }
        *dist.entry("kind:stream".into()).or_insert(0) += 1;
        if i % 31 == 0 && samples.len() < 8 {
            samples.push(json!({"case": sc.name(), "model": m, "observed": v.observed}));
        }
        let ops = vec![format!("h2conn {}", sc.name())];
        for (class, detail) in &v.fails {
            push_fail(&mut failures, class, detail, ops.clone());
        }
        if !v.fails.is_empty() || i % 25 == 24 {
            if !bed.worker.alive().is_alive() {
                push_fail(&mut failures, "worker-died-or-wedged", &format!("after {}", sc.name()), ops.clone());
                break;
            }
            if let Some(g) = good.as_mut() {
                if let Err(e) = good_request(g, good_sid) {
                    push_fail(&mut failures, "concurrent-good-connection-not-served", &format!("after {}: {e}", sc.name()), ops.clone());
                    good = None;
                } else {
                    good_sid += 2;
                }
            }
        }
    }
    bed.stop_backend.store(true, Ordering::Relaxed);
    drop(good);
    let rep = bed.worker.stop();
    if !matches!(rep.outcome, StopOutcome::Clean) {
        push_fail(&mut failures, "worker-did-not-stop-cleanly", &format!("{:?}", rep.outcome), vec![]);
    }
    let rc = finish(&args, evaluations, nontrivial, &failures, &known, &dist, &samples, t0);
    std::process::exit(rc);
}

const H2CONN_RULE: &str = "black box: one real worker (HTTPS listener, H1 backend), one TLS+h2 client connection per case: a complete random/corner frame after the settings exchange followed by a PING (verdict: the Lean decoder's: err c => GOAWAY(c), exact on stream 0 and for oversize, any of PROTOCOL/STREAM_CLOSED/FRAME_SIZE or a stream error when stream state is consulted first; ok => answered, never silence), PING/SETTINGS/WINDOW_UPDATE/CONTINUATION floods with the trip point predicted by the Lean flood model (acknowledged-frame count compared), empty-DATA and rapid-reset floods, zero increment, window overflow, stray CONTINUATION, 120 unanswered requests vs the advertised 100-stream limit, first-SETTINGS payloads vs the model's first_settings; flood-variant family: every flood kind in its wire-level variants (empty DATA unpadded / PADDED pad 0 / pad 5 / pad 255 / mixed, on an open and on a closed stream; PING plain / odd flags / ACK / mixed; SETTINGS empty / known entries / unknown ids / ACK / mixed; WINDOW_UPDATE stream 0 with small increments, reserved bit, flags; CONTINUATION with empty fragments after an empty or 2-byte HEADERS fragment; WINDOW_UPDATE / RST_STREAM / DATA floods on a closed stream (glitch counter); PRIORITY / PRIORITY_UPDATE / unknown-type floods, which no counter looks at) - the trip point is computed by the Lean model (decoded frame -> frameEvents -> detector) and the connection is driven once to one frame below it (must be served) and once exactly to it (must get GOAWAY(ENHANCE_YOUR_CALM) and be closed); slot-recycle family: waves of up to 12 concurrent requests on one connection whose responses name the request (/echo/<token>), with held requests reset in between, so that stream slots are recycled and the slot vector shrinks; every response must arrive on the stream that asked for it; backend-peer family (sozu as HTTP/2 client of a cluster with http2=true, scripted prior-knowledge backend): after sozu's request HEADERS the backend sends a malformed frame (oversize, SETTINGS/PING/WINDOW_UPDATE/RST_STREAM/GOAWAY of a wrong length, PUSH_PROMISE, DATA on stream 0: GOAWAY code of the Lean decoder), frames on an idle stream, zero increment, window overflow, stray CONTINUATION (RFC), PING and SETTINGS floods (trip point of the Lean flood model), a correct 200, a graceful GOAWAY refusing the request; the front request must be answered (never hang), the front connection and another cluster keep being served; request-level family: header-field count at 127/128/129/204 fields and decoded header-list size through HPACK indexed references (15/17/20 x 4033 bytes) vs the Lean headerBudget; content-length 5/0/absent against DATA bodies (exact, padded, too much in the first/second frame, too little at END_STREAM, empty END_STREAM, trailers) vs the Lean contentLengthRun; PRIORITY with self-dependency on a known / look-ahead idle / far idle / closed stream and in a HEADERS frame vs priorityVerdict; PRIORITY_UPDATE for stream 0; DATA / PING / HEADERS / CONTINUATION on another stream / WINDOW_UPDATE / unknown type inside an open header block (RFC 9113 6.2: PROTOCOL_ERROR); HPACK garbage (COMPRESSION_ERROR); after a stream error a new request on the same connection must be served; receive-limits family: after peer SETTINGS (its MAX_FRAME_SIZE 16384 / 65536 / 2^24-1, INITIAL_WINDOW_SIZE 1 / 2^31-1, MAX_CONCURRENT_STREAMS 1 / 1000, HEADER_TABLE_SIZE, MAX_HEADER_LIST_SIZE, ENABLE_PUSH, all together with an unknown id; invalid values judged by the Lean handleSettings) frames at and above the limits sozu advertises - unknown-type and DATA frames of 16384 / 16385 / 70000 bytes sent in full, 3 full DATA frames inside the advertised window, 3 requests on the limit-2 listener, a plain request - must get the verdict of the Lean decoder (cdecode with the local bound) / history model, then a PING ACK or the GOAWAY; history family: frame sequences (new requests that the backend never answers, DATA with/without END_STREAM, WINDOW_UPDATE, RST_STREAM, PRIORITY, HEADERS on used/refused ids) on one connection of the limit-2 listener, a PING after every frame, the answer to each frame compared with the Lean history model connStep; stream-state family on a listener with h2_max_concurrent_streams=2: DATA/HEADERS/WINDOW_UPDATE/RST_STREAM/PRIORITY/CONTINUATION on a stream id that is idle (above every used id), implicitly closed (below), closed by END_STREAM (equal to / below the last id), closed by the peer's RST_STREAM, refused by the stream limit, refused while draining after SoftStop's GOAWAY (own worker), half-closed (remote), open - sent after the scene is established and in one batch with it, random odd ids in thorough; judged by an RFC 9113 5.1 table written here and compared exactly with the Lean table `headerVerdict`; afterwards a slot is freed and a new stream on the same connection must be answered 200; after a GOAWAY the connection must be closed; worker.alive(), a long-lived good connection and a fresh probe connection must keep being served";

#[allow(clippy::too_many_arguments)]
fn finish(args: &Args, evaluations: u64, nontrivial: u64, failures: &[Value], known: &[Value], dist: &std::collections::BTreeMap<String, u64>, samples: &[Value], t0: Instant) -> i32 {
    finish_with_rule(args, evaluations, nontrivial, failures, known, dist, samples, t0, H2CONN_RULE)
}

#[allow(clippy::too_many_arguments)]
fn finish_with_rule(args: &Args, evaluations: u64, nontrivial: u64, failures: &[Value], known: &[Value], dist: &std::collections::BTreeMap<String, u64>, samples: &[Value], t0: Instant, rule: &str) -> i32 {
    let res = json!({
        "area": "h2conn",
        "property": args.prop,
        "tier": args.tier,
        "seed": args.seed,
        "evaluations": evaluations,
        "distinct_nontrivial": nontrivial,
        "rule": rule,
        "samples": samples,
        "traces_validated_against_impl": evaluations - failures.len() as u64,
        "disagreements_checked": evaluations,
        "distribution": dist,
        "failures": failures,
        "known_witnesses": known,
        "wall_s": t0.elapsed().as_secs_f64(),
    });
    if !args.out.is_empty() {
        let _ = std::fs::write(&args.out, serde_json::to_string_pretty(&res).unwrap());
    }
    println!("h2conn: {} cases, {} failure(s)", evaluations, failures.len());
    for f in failures {
        println!("FAIL oracle {} {}", f["class"].as_str().unwrap_or(""), f["detail"].as_str().unwrap_or(""));
    }
    if failures.is_empty() {
        0
    } else {
        1
    }
}
