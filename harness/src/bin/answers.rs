//! C02 (in-process half): the real `end_stream_decision` (through the
//! `sozu_verif` hook) on real `Stream`s whose response buffer was filled by the
//! real kawa parser + `HttpContext` callbacks, and the real default-answer
//! templates, against the Lean model `Sozu.Answers.Model`.
use std::cell::RefCell;
use std::collections::BTreeMap;
use std::rc::Rc;

use kawa::{AsBuffer, Kawa, OutBlock, ParsingPhase};
use sozu_lib::pool::Pool;
use sozu_lib::protocol::kawa_h1::answers::HttpAnswers;
use sozu_lib::protocol::kawa_h1::editor::HttpContext;
use sozu_lib::protocol::kawa_h1::DefaultAnswer;
use sozu_lib::protocol::mux::verif::end_stream_decision;
use sozu_lib::protocol::mux::Stream;
use sozu_lib::Protocol;
use verif_harness::*;

struct Answers;

const BUF: usize = 16_384;
const BODY: &[u8] = b"abcdefghijklmnopqrstuvwxyz";

fn new_stream() -> (Rc<RefCell<Pool>>, Stream) {
    let pool = Rc::new(RefCell::new(Pool::with_capacity(2, 4, BUF)));
    let ctx = HttpContext::new(
        "01ARZ3NDEKTSV4RRFFQ69G5FAV".parse().unwrap(),
        "01ARZ3NDEKTSV4RRFFQ69G5FAW".parse().unwrap(),
        Protocol::HTTP,
        "127.0.0.1:8080".parse().unwrap(),
        Some("127.0.0.1:50000".parse().unwrap()),
        "SOZUBALANCEID".to_string(),
        "Sozu-Id".to_string(),
        false,
        false,
    );
    let stream = Stream::new(Rc::downgrade(&pool), ctx, 65_535).expect("pool checkout");
    (pool, stream)
}

fn feed<T: AsBuffer>(k: &mut Kawa<T>, bytes: &[u8]) -> usize {
    let space = k.storage.space();
    let n = bytes.len().min(space.len());
    space[..n].copy_from_slice(&bytes[..n]);
    k.storage.fill(n);
    n
}

fn out_bytes<T: AsBuffer>(k: &Kawa<T>) -> Vec<u8> {
    let mut v = vec![];
    for b in k.out.iter() {
        if let OutBlock::Store(s) = b {
            v.extend_from_slice(s.data(k.storage.buffer()));
        }
    }
    v
}

fn phase_name(p: &ParsingPhase) -> &'static str {
    match p {
        ParsingPhase::StatusLine | ParsingPhase::Headers | ParsingPhase::Cookies { .. } => "initial",
        ParsingPhase::Body | ParsingPhase::Chunks { .. } | ParsingPhase::Trailers => "body",
        ParsingPhase::Terminated => "terminated",
        ParsingPhase::Error { .. } => "error",
    }
}

fn bs_name(b: &kawa::BodySize) -> &'static str {
    match b {
        kawa::BodySize::Empty => "empty",
        kawa::BodySize::Length(_) => "length",
        kawa::BodySize::Chunked => "chunked",
    }
}

fn kvm(ws: &[&str]) -> BTreeMap<String, String> {
    ws.iter().filter_map(|w| w.split_once('=').map(|(k, v)| (k.to_string(), v.to_string()))).collect()
}

/// the response text of a `resp` line: (bytes up to the cut)
fn response_prefix(m: &BTreeMap<String, String>) -> Option<(Vec<u8>, bool)> {
    let shape = m.get("shape")?.as_str();
    let conn = m.get("conn")?.as_str();
    let cut = m.get("cut")?.as_str();
    let style: u64 = m.get("style").and_then(|s| s.parse().ok()).unwrap_or(0);
    let ver = if m.get("ver").map(|s| s == "10").unwrap_or(false) { "HTTP/1.0" } else { "HTTP/1.1" };
    let mut head = format!("{ver} 200 OK\r\nServer: mock\r\n").into_bytes();
    if conn == "close" {
        head.extend_from_slice(match style % 3 {
            0 => b"Connection: close\r\n".as_slice(),
            1 => b"connection: Close\r\n".as_slice(),
            _ => b"CONNECTION: CLOSE\r\n".as_slice(),
        });
    } else if style % 2 == 1 {
        head.extend_from_slice(b"Connection: keep-alive\r\n");
    }
    let mut body = vec![];
    let has_cl = match shape {
        "cl" => {
            head.extend_from_slice(format!("Content-Length: {}\r\n", BODY.len()).as_bytes());
            body.extend_from_slice(BODY);
            true
        }
        "chunked" => {
            head.extend_from_slice(b"Transfer-Encoding: chunked\r\n");
            body.extend_from_slice(b"a\r\nabcdefghij\r\n10\r\nklmnopqrstuvwxyz\r\n0\r\n\r\n");
            false
        }
        "uc" => {
            body.extend_from_slice(BODY);
            false
        }
        _ => return None,
    };
    head.extend_from_slice(b"\r\n");
    let hl = head.len();
    let mut full = head;
    full.extend_from_slice(&body);
    let n = match cut {
        "none" => 0,
        "status" => 9,
        "headers" => hl - 5,
        "hdrend" => hl,
        "body" => hl + body.len() / 2,
        "chunkline" => hl + 1,
        "beforelast" => full.len() - 5,
        "full" => full.len(),
        _ => return None,
    };
    Some((full[..n].to_vec(), has_cl))
}

fn code_answer(code: u16) -> Option<DefaultAnswer> {
    use kawa::ParsingPhaseMarker as M;
    let s = || "null".to_string();
    Some(match code {
        301 => DefaultAnswer::Answer301 { location: "https://x.test/".into() },
        302 => DefaultAnswer::Answer302 { location: "https://x.test/".into() },
        308 => DefaultAnswer::Answer308 { location: "https://x.test/".into() },
        400 => DefaultAnswer::Answer400 { message: String::new(), phase: M::Error, successfully_parsed: s(), partially_parsed: s(), invalid: s() },
        401 => DefaultAnswer::Answer401 { www_authenticate: None },
        404 => DefaultAnswer::Answer404 {},
        408 => DefaultAnswer::Answer408 { duration: String::new() },
        413 => DefaultAnswer::Answer413 { message: String::new(), phase: M::Error, capacity: 0 },
        421 => DefaultAnswer::Answer421 {},
        429 => DefaultAnswer::Answer429 { retry_after: Some(7) },
        502 => DefaultAnswer::Answer502 { message: String::new(), phase: M::Error, successfully_parsed: s(), partially_parsed: s(), invalid: s() },
        503 => DefaultAnswer::Answer503 { message: String::new() },
        504 => DefaultAnswer::Answer504 { duration: String::new() },
        507 => DefaultAnswer::Answer507 { phase: M::Error, message: String::new(), capacity: 0 },
        _ => return None,
    })
}

const CODES: &[u16] = &[301, 302, 308, 400, 401, 404, 408, 413, 421, 429, 502, 503, 504, 507];
const PHASES: &[&str] = &["StatusLine", "Headers", "Cookies", "Body", "Chunks", "Trailers", "Terminated", "Error"];

impl Area for Answers {
    fn name(&self) -> &'static str {
        "answers"
    }
    fn rule(&self) -> String {
        "in-process: (a) `esdp`: a real Stream with stream.back.parsing_phase set to each kawa phase, keep_alive_backend and front.consumed set, decision read through the hook; (b) `resp`: a fixed response (content-length / chunked / close-delimited; keep-alive, Connection: close in three spellings; HTTP/1.1 or 1.0) cut at a byte-offset class, fed in 1-3 pieces to the real kawa h1 parser with the real HttpContext callbacks on stream.back, request optionally forwarded (real prepare+consume on stream.front), then the hook; (c) `tmpl`: every bundled default answer rendered by HttpAnswers::get and serialised by kawa; non-trivial = a resp line whose cut is inside the response or a Connection: close response; distinct = distinct op sequence".into()
    }
    fn cases(&self, thorough: bool) -> u64 {
        if thorough {
            40_000
        } else {
            3_000
        }
    }
    fn corpus(&self) -> Vec<Vec<String>> {
        let mut all = vec!["new".to_string()];
        for p in PHASES {
            for ka in 0..2 {
                for c in 0..2 {
                    all.push(format!("esdp phase={p} ka={ka} consumed={c}"));
                }
            }
        }
        for c in CODES {
            all.push(format!("tmpl {c}"));
        }
        let mut resp = vec!["new".to_string()];
        for shape in ["cl", "chunked", "uc"] {
            for conn in ["ka", "close"] {
                for cut in ["none", "status", "headers", "hdrend", "body", "chunkline", "beforelast", "full"] {
                    if (cut == "chunkline" || cut == "beforelast") && shape != "chunked" {
                        continue;
                    }
                    for fwd in 0..2 {
                        resp.push(format!("resp shape={shape} conn={conn} cut={cut} fwd={fwd} style=0 ver=11 split=1"));
                    }
                }
            }
        }
        vec![all, resp]
    }
    fn gen(&self, rng: &mut Rng, _thorough: bool) -> Vec<String> {
        let mut ops = vec!["new".to_string()];
        for _ in 0..rng.range(3, 12) {
            let r = rng.below(100);
            if r < 25 {
                ops.push(format!("esdp phase={} ka={} consumed={}", rng.pick(PHASES), rng.below(2), rng.below(2)));
            } else if r < 32 {
                ops.push(format!("tmpl {}", rng.pick(CODES)));
            } else {
                let shape = *rng.pick(&["cl", "chunked", "uc"]);
                let cuts: &[&str] = if shape == "chunked" {
                    &["none", "status", "headers", "hdrend", "body", "chunkline", "beforelast", "full"]
                } else {
                    &["none", "status", "headers", "hdrend", "body", "full"]
                };
                ops.push(format!(
                    "resp shape={shape} conn={} cut={} fwd={} style={} ver={} split={}",
                    rng.pick(&["ka", "close"]),
                    rng.pick(cuts),
                    rng.below(2),
                    rng.below(6),
                    rng.pick(&["11", "11", "10"]),
                    rng.range(1, 3)
                ));
            }
        }
        ops
    }
    fn run_impl(&self, ops: &[String]) -> ImplRun {
        let mut run = ImplRun::default();
        let answers = HttpAnswers::new(&BTreeMap::new()).expect("bundled templates");
        for op in ops {
            let w: Vec<&str> = op.split_whitespace().collect();
            match w.first().copied() {
                Some("new") => run.out.push("ok".into()),
                Some("esdp") => {
                    let m = kvm(&w[1..]);
                    let (_pool, mut stream) = new_stream();
                    let phase = match m.get("phase").map(|s| s.as_str()) {
                        Some("StatusLine") => ParsingPhase::StatusLine,
                        Some("Headers") => ParsingPhase::Headers,
                        Some("Cookies") => ParsingPhase::Cookies { first: true },
                        Some("Body") => ParsingPhase::Body,
                        Some("Chunks") => ParsingPhase::Chunks { first: false },
                        Some("Trailers") => ParsingPhase::Trailers,
                        Some("Terminated") => ParsingPhase::Terminated,
                        Some("Error") => {
                            let mut p = ParsingPhase::Body;
                            p.error(kawa::ParsingErrorKind::Processing { message: "x" });
                            p
                        }
                        _ => {
                            run.out.push("bad-op".into());
                            continue;
                        }
                    };
                    let ka = m.get("ka").map(|s| s == "1").unwrap_or(true);
                    let consumed = m.get("consumed").map(|s| s == "1").unwrap_or(false);
                    stream.back.parsing_phase = phase;
                    stream.context.keep_alive_backend = ka;
                    stream.front.consumed = consumed;
                    let d = end_stream_decision(&stream);
                    run.tags.push(format!("decision:{d}"));
                    // the property's reading of the table
                    let main = stream.back.is_main_phase();
                    if d == "close-delimited" && (ka || !main || stream.back.is_terminated()) {
                        run.oracle.push(("close-delimited-outside-its-domain".into(), op.clone()));
                    }
                    if d == "reconnect" && (consumed || main) {
                        run.oracle.push(("retry-after-request-consumed".into(), op.clone()));
                    }
                    if d.starts_with("send-default:") && d != "send-default:502" {
                        run.oracle.push(("backend-closed-early-not-502".into(), format!("{op} -> {d}")));
                    }
                    if !main && consumed && !d.starts_with("send-default:") {
                        run.oracle.push(("no-answer-for-consumed-request".into(), format!("{op} -> {d}")));
                    }
                    run.out.push(d);
                }
                Some("tmpl") => {
                    let Some(code) = w.get(1).and_then(|s| s.parse::<u16>().ok()) else {
                        run.out.push("bad-op".into());
                        continue;
                    };
                    let Some(ans) = code_answer(code) else {
                        run.out.push("bad-op".into());
                        continue;
                    };
                    let (status, keep_alive, mut rendered) =
                        answers.get(ans, "REQID123".into(), Some("cl"), Some("be"), "route".into());
                    rendered.prepare(&mut kawa::h1::BlockConverter);
                    let bytes = out_bytes(&rendered);
                    let text = String::from_utf8_lossy(&bytes).into_owned();
                    let head_end = text.find("\r\n\r\n");
                    let head = head_end.map(|i| &text[..i]).unwrap_or("");
                    let lower = head.to_ascii_lowercase();
                    let mut bad = vec![];
                    if !head.starts_with(&format!("HTTP/1.1 {code} ")) {
                        bad.push(format!("status line {:?}", head.lines().next()));
                    }
                    if head_end.is_none() {
                        bad.push("no end of headers".into());
                    }
                    if !lower.contains("\r\nsozu-id: reqid123") {
                        bad.push("no Sozu-Id".into());
                    }
                    let has_cl = lower.contains("\r\ncontent-length:");
                    let has_close = lower.contains("\r\nconnection: close");
                    // without a length the end of the connection is the only delimiter
                    if !has_cl && (!has_close || keep_alive) {
                        bad.push("neither Content-Length nor Connection: close".into());
                    }
                    if has_close == keep_alive {
                        bad.push(format!("keep_alive={keep_alive} but Connection: close present={has_close}"));
                    }
                    if text.contains('%') && !text.contains("%;") {
                        // an unreplaced template variable
                        if let Some(i) = text.find('%') {
                            let tail: String = text[i..].chars().take(16).collect();
                            if tail[1..].chars().next().map(|c| c.is_ascii_uppercase()).unwrap_or(false) {
                                bad.push(format!("unreplaced variable {tail:?}"));
                            }
                        }
                    }
                    if !bad.is_empty() {
                        run.oracle.push((format!("default-answer-template-malformed:{code}"), bad.join("; ")));
                    }
                    run.tags.push("tmpl".into());
                    run.out.push(format!("status={status} keepalive={}", keep_alive as u8));
                }
                Some("resp") => {
                    let m = kvm(&w[1..]);
                    let Some((bytes, has_cl)) = response_prefix(&m) else {
                        run.out.push("bad-op".into());
                        continue;
                    };
                    let fwd = m.get("fwd").map(|s| s == "1").unwrap_or(false);
                    let split: usize = m.get("split").and_then(|s| s.parse().ok()).unwrap_or(1).max(1);
                    let (_pool, mut stream) = new_stream();
                    // the request, parsed by the real parser; forwarded = prepared and consumed
                    let req = b"GET /x HTTP/1.1\r\nHost: flt.test\r\n\r\n";
                    feed(&mut stream.front, req);
                    kawa::h1::parse(&mut stream.front, &mut stream.context);
                    if fwd {
                        stream.front.prepare(&mut kawa::h1::BlockConverter);
                        let n = out_bytes(&stream.front).len();
                        stream.front.consume(n);
                    }
                    // the response prefix, in `split` pieces, parse after each (as `readable` does)
                    let piece = bytes.len().div_ceil(split).max(1);
                    for chunk in bytes.chunks(piece) {
                        feed(&mut stream.back, chunk);
                        kawa::h1::parse(&mut stream.back, &mut stream.context);
                    }
                    let d = end_stream_decision(&stream);
                    let cut = m.get("cut").map(|s| s.as_str()).unwrap_or("");
                    if cut != "full" || m.get("conn").map(|s| s == "close").unwrap_or(false) {
                        run.nontrivial = true;
                    }
                    run.tags.push(format!("resp:{}:{}:{}", m.get("shape").cloned().unwrap_or_default(), m.get("conn").cloned().unwrap_or_default(), cut));
                    run.tags.push(format!("decision:{d}"));
                    // property: the end of the connection completes a message only when it has no
                    // Content-Length (and is not keep-alive)
                    if d == "close-delimited" && (has_cl || stream.context.keep_alive_backend) {
                        let class = if has_cl && !stream.context.keep_alive_backend {
                            "eof-completes-short-length-body-then-408".to_string()
                        } else {
                            "close-delimited-outside-its-domain".to_string()
                        };
                        run.oracle.push((class, format!("{op}: decision close-delimited for a response with Content-Length={has_cl}, keep_alive_backend={}", stream.context.keep_alive_backend)));
                    }
                    if d == "forward-terminated" && cut != "full" {
                        run.oracle.push(("incomplete-response-taken-as-terminated".into(), op.clone()));
                    }
                    if d == "reconnect" && fwd {
                        run.oracle.push(("retry-after-request-consumed".into(), op.clone()));
                    }
                    run.out.push(format!(
                        "phase={} bs={} ka={} fc={} decision={d}",
                        phase_name(&stream.back.parsing_phase),
                        bs_name(&stream.back.body_size),
                        stream.context.keep_alive_backend as u8,
                        stream.front.consumed as u8
                    ));
                }
                _ => run.out.push("bad-op".into()),
            }
        }
        run
    }
}

fn main() {
    std::panic::set_hook(Box::new(|_| {}));
    let args = parse_args();
    // a replay file of the black-box half (`faults`) is not ours to judge
    if let Some(path) = &args.replay {
        if read_replay_ops(path).iter().any(|l| l.starts_with("req ")) {
            if !args.out.is_empty() {
                let _ = std::fs::write(&args.out, r#"{"area":"answers","evaluations":0,"failures":[],"note":"replay belongs to the faults run"}"#);
            }
            std::process::exit(0);
        }
    }
    std::process::exit(run_area(&Answers, &args));
}
