// Generators of the Headers area (included by src/bin/headers.rs).
// All randomness comes from the given `Rng`.

fn rule_text(prop: &str) -> String {
    if prop == "C13" {
        "C13: (a) HTTP/2 requests = valid pseudo-headers + 0..8 regular headers from a name/value pool (duplicates, obs-text, leading/trailing OWS, empty values) + with prob. 0.7 spoofing headers (X-Forwarded-For x0..2, Forwarded, X-Real-IP, X-Forwarded-Proto/Port, X-Request-Id x0..2, the listener's correlation header name in 3 case variants, Connection-nominated names), cookies incl. the sticky cookie, optional DATA + trailers (incl. the four spoof names); (b) the same header lists through an HTTP/1.1 frontend (real kawa parser) toward H1 and H2 backends; (c) responses with 0..6 headers incl. Connection / Set-Cookie / the correlation name; (d) per-frontend response edits (0..4 Append / SetIfAbsent / Set / empty-value delete over 8 names in 3 case variants) through the real apply_response_header_edits; (e') response header blocks of an HTTP/2 backend through the response arm of handle_header (status forms, pseudo-header order / duplicate / unknown, connection-specific, content-length forms, END_STREAM with a length, body-exempt status codes, budgets); (e) HSTS configuration histories on the real Router (add_http_front_with_hsts_origin driven like https.rs does: frontends with no / enabled / explicitly disabled hsts block, with or without other policy, in pre / tree / post position, clusterless ones; listener default absent / disabled / enabled at add time; 3..9 further adds, listener patches enable / change / disable, removals, re-adds; every live frontend looked up and its response edits applied to a backend response with 0..2 STS headers); contexts: peer v4/v6/none, public v4/v6, http/https, closing, elide/send X-Real-IP, 3 sticky names, 3 correlation header names. non-trivial = the request reached the editor; distinct = distinct op sequence".into()
    } else {
        "C03: (a) HTTP/2 header lists: valid requests (4 methods + custom tokens, origin/asterisk paths, authority with/without port, 0..6 regular headers, cookies, Content-Length consistent with END_STREAM) and with prob. 0.6 one to three mutations out of 40 shapes (uppercase / non-token name bytes, CR LF NUL CTL DEL in values and cookie crumbs, pseudo-header order / duplicate / missing / unknown / empty / HTAB, method and scheme and path forms incl. SP and '#', connection-specific names, te values, Content-Length sign/space/empty/leading zero/duplicate equal/duplicate differing/overflow, literal host equal/port/mismatch/duplicate, END_STREAM with length, tiny field/byte budgets), followed by DATA frames and optional trailers; (b) HTTP/1.1 byte strings: 1..3 pipelined valid requests (CL / chunked with trailers / no body, origin / absolute / asterisk targets) and with prob. 0.65 a published smuggling shape (CL.TE, TE.CL, TE.TE obfuscations, duplicate CL, signed CL, bare LF, bare CR, obs-fold, NUL/CTL, space before colon, chunk-size tricks, no-length pipeline) or 1..3 random byte edits, cut at random segment boundaries; (c) cross-check of the harness's strict reader against the Lean one on the same strings. non-trivial = the real validator / parser ran; distinct = distinct op sequence".into()
    }
}

fn s(v: &[&str]) -> Vec<String> {
    v.iter().map(|x| x.to_string()).collect()
}
fn h<A: AsRef<str>, B: AsRef<str>>(k: A, v: B) -> Hdr {
    (k.as_ref().as_bytes().to_vec(), v.as_ref().as_bytes().to_vec())
}
fn base_req(method: &str, path: &str, authority: &str) -> Vec<Hdr> {
    vec![h(":method", method), h(":scheme", "https"), h(":path", path), h(":authority", authority)]
}
fn op_h2(ml: u32, mf: u32, es: bool, scheme: &str, cx: Option<&Cx>, hs: &[Hdr]) -> String {
    format!("h2 {ml} {mf} {} {} {} {}", es as u8, hex(scheme.as_bytes()), cx.map(|c| c.word()).unwrap_or_else(|| "-".into()), hl(hs))
}
fn op_h2_buf(ml: u32, mf: u32, es: bool, scheme: &str, cx: Option<&Cx>, hs: &[Hdr], buf: Option<usize>) -> String {
    match buf {
        Some(b) => format!("{} {b}", op_h2(ml, mf, es, scheme, cx, hs)),
        None => op_h2(ml, mf, es, scheme, cx, hs),
    }
}
fn op_body(chunks: &[Vec<u8>], trailers: Option<&[Hdr]>) -> String {
    format!("body {} {}", bl(chunks), trailers.map(hl).unwrap_or_else(|| "~".into()))
}
fn op_h1(input: &[u8], cuts: &[usize]) -> String {
    format!("h1 {} {}", hex(input), if cuts.is_empty() { "_".into() } else { cuts.iter().map(|c| c.to_string()).collect::<Vec<_>>().join(",") })
}

fn corpus(prop: &str) -> Vec<Vec<String>> {
    let cx = default_cx();
    let mut v = vec![];
    if prop != "C13" {
        // witnesses of the shapes found while building (kept as regression cases)
        let mut sp = base_req("GET", "/a b", "a.example");
        v.push(vec!["new".into(), op_h2(65536, 100, true, "https", None, &sp)]);
        sp = base_req("POST", "/", "a.example");
        sp.push(h("content-length", "5"));
        sp.push(h("content-length", "5"));
        v.push(vec!["new".into(), op_h2(65536, 100, false, "https", None, &sp), op_body(&[b"hello".to_vec()], None)]);
        v.push(vec!["new".into(), op_h2(65536, 100, false, "https", None, &base_req("POST", "/", "a.example")), op_body(&[b"hello".to_vec()], Some(&[h("x-t", "v")]))]);
        v.push(vec!["new".into(), op_h2(65536, 100, false, "https", None, &base_req("POST", "/", "a.example")), op_body(&[b"hello".to_vec(), vec![], b"ab".to_vec()], None)]);
        for raw in [
            &b"GET / HTTP/1.1\r\nHost: a\r\n\r\nGET /2 HTTP/1.1\r\nHost: a\r\n\r\n"[..],
            b"POST / HTTP/1.1\r\nHost: a\r\nContent-Length: +5\r\n\r\nhello",
            b"POST / HTTP/1.1\r\nHost: a\r\nTransfer-Encoding: xchunked\r\n\r\n0\r\n\r\n",
            b"POST / HTTP/1.1\r\nHost: a\r\nTransfer-Encoding: chunked\r\nTransfer-Encoding: identity\r\n\r\n0\r\n\r\n",
            b"POST / HTTP/1.1\r\nHost: a\r\nTransfer-Encoding: identity\r\nContent-Length: 3\r\n\r\nabc",
            b"POST / HTTP/1.1\r\nHost: a\r\nTransfer-Encoding: chunked \r\n\r\n0\r\n\r\nGET /x HTTP/1.1\r\nHost: a\r\n\r\n",
            b"POST / HTTP/1.1\r\nHost: a\r\nContent-Length: 5\r\nTransfer-Encoding: chunked\r\n\r\n0\r\n\r\n",
            b"POST / HTTP/1.1\r\nHost: a\r\nContent-Length: 5\r\n\r\nhelloGET / HTTP/1.1\r\nHost: a\r\nContent-Length: 0\r\n\r\n",
        ] {
            v.push(vec!["new".into(), op_h1(raw, &[])]);
        }
    }
    if prop != "C03" {
        let mut f15 = base_req("GET", "/", "a.example");
        f15.push(h("x-request-id", "r1"));
        f15.push(h("x-request-id", "r2"));
        v.push(vec!["new".into(), op_h2(65536, 100, true, "https", Some(&cx), &f15)]);
        let mut f15b = base_req("GET", "/", "a.example");
        f15b.push(h("sozu-id", "spoof"));
        v.push(vec!["new".into(), op_h2(65536, 100, true, "https", Some(&cx), &f15b)]);
        let mut tr = base_req("POST", "/", "a.example");
        tr.push(h("x-forwarded-for", "1.1.1.1"));
        v.push(vec!["new".into(), op_h2(65536, 100, false, "https", Some(&cx), &tr), op_body(&[b"abc".to_vec()], Some(&[h("x-real-ip", "6.6.6.6"), h("x-t", "v")]))]);
    }
    v
}

// ------------------------------------------------------------- contexts --

fn gen_ip(rng: &mut Rng) -> IpAddr {
    if rng.chance(1, 2) {
        IpAddr::V4(Ipv4Addr::new(rng.range(1, 223) as u8, rng.below(256) as u8, rng.below(256) as u8, rng.range(1, 254) as u8))
    } else {
        let r = rng.below(4);
        let a = rng.next();
        let b = rng.next();
        IpAddr::V6(match r {
            0 => Ipv6Addr::new(0x2001, 0xdb8, 0, 0, 0, 0, 0, (a & 0xffff) as u16),
            1 => Ipv6Addr::new(0, 0, 0, 0, 0, 0, 0, 1),
            2 => Ipv6Addr::new(0, 0, 0, 0, 0, 0xffff, (a & 0xffff) as u16, (b & 0xffff) as u16),
            _ => Ipv6Addr::new((a >> 48) as u16 | 0x2000, (a >> 32) as u16, (a >> 16) as u16, a as u16, (b >> 48) as u16, (b >> 32) as u16, (b >> 16) as u16, b as u16),
        })
    }
}

fn gen_ulid(rng: &mut Rng) -> String {
    const A: &[u8] = b"0123456789ABCDEFGHJKMNPQRSTVWXYZ";
    let mut v = vec![A[rng.below(8) as usize]];
    for _ in 0..25 {
        v.push(*rng.pick(A));
    }
    String::from_utf8(v).unwrap()
}

fn gen_cx(rng: &mut Rng) -> Cx {
    let sticky_session = if rng.chance(1, 2) { Some(format!("srv-{}", rng.below(4))) } else { None };
    let sticky_found = match rng.below(3) {
        0 => None,
        1 => sticky_session.clone(),
        _ => Some(format!("srv-{}", rng.below(4))),
    };
    Cx {
        closing: rng.chance(1, 6),
        https: rng.chance(1, 2),
        public: SocketAddr::new(gen_ip(rng), *rng.pick(&[80u16, 443, 8080, 8443, 1])),
        peer: if rng.chance(1, 12) { None } else { Some(SocketAddr::new(gen_ip(rng), rng.range(1, 65535) as u16)) },
        sticky: rng.pick(&["SOZUBALANCEID", "sid", "S"]).to_string(),
        sozu_id: rng.pick(&["Sozu-Id", "X-Corr-Id", "x-trace"]).to_string(),
        req_id: gen_ulid(rng),
        elide: rng.chance(1, 2),
        send: rng.chance(1, 2),
        sticky_session,
        sticky_found,
    }
}

// ----------------------------------------------------- header material --

const NAMES: [&str; 12] = ["accept", "user-agent", "x-a", "x-b", "accept-encoding", "referer", "x-custom-1", "authorization", "if-none-match", "x-forwarded-host", "via", "priority"];
const VALUES: [&str; 12] = ["1", "*/*", "curl/8", "gzip, br", "", "a b", " lead", "trail ", "u=3, i", "W/\"x\"", "x\ty", "k=v; q=0.5"];

fn gen_value(rng: &mut Rng) -> Vec<u8> {
    let mut v = rng.pick(&VALUES).as_bytes().to_vec();
    if rng.chance(1, 12) {
        v.push(0x80 + rng.below(0x80) as u8);
    }
    v
}

fn gen_regular(rng: &mut Rng, n_max: u64) -> Vec<Hdr> {
    let n = rng.below(n_max + 1);
    (0..n).map(|_| (rng.pick(&NAMES).as_bytes().to_vec(), gen_value(rng))).collect()
}

fn case_variant(rng: &mut Rng, name: &str, allow_upper: bool) -> Vec<u8> {
    if !allow_upper {
        return name.to_ascii_lowercase().into_bytes();
    }
    match rng.below(3) {
        0 => name.to_ascii_lowercase().into_bytes(),
        1 => name.to_ascii_uppercase().into_bytes(),
        _ => name.as_bytes().to_vec(),
    }
}

/// spoofing material for C13; `upper` = H1 frontend (mixed-case names allowed)
fn gen_spoof(rng: &mut Rng, cx: &Cx, upper: bool) -> Vec<Hdr> {
    let mut v = vec![];
    let ips = ["1.1.1.1", "10.9.8.7, 172.16.0.1", "unknown", "::1", "6.6.6.6 "];
    for _ in 0..rng.below(3) {
        if rng.chance(1, 2) {
            v.push((case_variant(rng, "X-Forwarded-For", upper), rng.pick(&ips).as_bytes().to_vec()));
        }
    }
    if rng.chance(1, 3) {
        v.push((case_variant(rng, "Forwarded", upper), rng.pick(&["for=1.2.3.4", "for=\"[::1]:80\";proto=https, for=9.9.9.9", "by=me"]).as_bytes().to_vec()));
        if rng.chance(1, 4) {
            v.push((case_variant(rng, "Forwarded", upper), b"for=8.8.8.8".to_vec()));
        }
    }
    if rng.chance(1, 3) {
        v.push((case_variant(rng, "X-Real-IP", upper), rng.pick(&ips).as_bytes().to_vec()));
    }
    if rng.chance(1, 4) {
        v.push((case_variant(rng, "X-Forwarded-Proto", upper), rng.pick(&["https", "http", "gopher"]).as_bytes().to_vec()));
    }
    if rng.chance(1, 4) {
        v.push((case_variant(rng, "X-Forwarded-Port", upper), rng.pick(&["443", "80", "1", "99999"]).as_bytes().to_vec()));
    }
    for _ in 0..2 {
        if rng.chance(1, 4) {
            v.push((case_variant(rng, "X-Request-Id", upper), rng.pick(&["r1", "r2", "01ARZ3NDEKTSV4RRFFQ69G5FAV"]).as_bytes().to_vec()));
        }
    }
    if rng.chance(1, 5) {
        let name = cx.sozu_id.clone();
        v.push((case_variant(rng, &name, upper), b"spoofed-id".to_vec()));
    }
    v
}

fn gen_cookies(rng: &mut Rng, cx: &Cx) -> Vec<Hdr> {
    let mut crumbs = vec![];
    for _ in 0..rng.below(4) {
        let k = rng.pick(&["a", "b", "session", "x_y"]).to_string();
        let v = rng.pick(&["1", "", "v=w", "a b"]).to_string();
        crumbs.push((k.into_bytes(), v.into_bytes()));
    }
    if rng.chance(1, 2) {
        let at = rng.below(crumbs.len() as u64 + 1) as usize;
        crumbs.insert(at, (cx.sticky.as_bytes().to_vec(), format!("srv-{}", rng.below(4)).into_bytes()));
    }
    crumbs
}

fn join_crumbs(c: &[Hdr]) -> Vec<u8> {
    c.iter().map(|(k, v)| [k.as_slice(), b"=", v.as_slice()].concat()).collect::<Vec<_>>().join(&b"; "[..])
}

fn shuffle_in(rng: &mut Rng, base: &mut Vec<Hdr>, extra: Vec<Hdr>) {
    for e in extra {
        let at = rng.below(base.len() as u64 + 1) as usize;
        base.insert(at, e);
    }
}

// ------------------------------------------------------------ C03 / H2 --

struct H2Case {
    hs: Vec<Hdr>,
    es: bool,
    ml: u32,
    mf: u32,
    /// declared content-length, when the generator put a consistent one
    cl: Option<usize>,
    /// stream buffer size (pool buffer_size); None = large
    buf: Option<usize>,
}

fn gen_h2_valid(rng: &mut Rng) -> H2Case {
    let method = rng.pick(&["GET", "POST", "OPTIONS", "PUT", "QUERY", "a-b.c"]).to_string();
    let path = if method == "OPTIONS" && rng.chance(1, 3) { "*".to_string() } else { rng.pick(&["/", "/a/b?x=1", "/%20x", "/a;b=c", "//double"]).to_string() };
    let authority = rng.pick(&["a.example", "a.example:443", "[::1]:8080", "A.Example", "10.0.0.1"]).to_string();
    let mut hs = base_req(&method, &path, &authority);
    if rng.chance(1, 2) {
        hs[1].1 = b"http".to_vec();
    }
    // pseudo-header order is free
    let mut pseudo: Vec<Hdr> = hs.drain(..).collect();
    if rng.chance(1, 2) {
        rng.shuffle(&mut pseudo);
    }
    let mut regular = gen_regular(rng, 6);
    if rng.chance(1, 3) {
        let cx = default_cx();
        let crumbs = gen_cookies(rng, &cx);
        if !crumbs.is_empty() {
            let cut = rng.below(crumbs.len() as u64 + 1) as usize;
            let (a, b) = crumbs.split_at(cut);
            let mut extra = vec![];
            if !a.is_empty() {
                extra.push((b"cookie".to_vec(), join_crumbs(a)));
            }
            if !b.is_empty() {
                extra.push((b"cookie".to_vec(), join_crumbs(b)));
            }
            shuffle_in(rng, &mut regular, extra);
        }
    }
    if rng.chance(1, 6) {
        regular.push(h("te", "trailers"));
    }
    let es = rng.chance(1, 2);
    let mut cl = None;
    if rng.chance(1, 3) {
        let n = if es { 0 } else { rng.below(12) as usize };
        cl = Some(n);
        let at = rng.below(regular.len() as u64 + 1) as usize;
        regular.insert(at, (b"content-length".to_vec(), n.to_string().into_bytes()));
    }
    pseudo.extend(regular);
    H2Case { hs: pseudo, es, ml: 65536, mf: 200, cl, buf: None }
}

fn bad_byte(rng: &mut Rng) -> u8 {
    *rng.pick(&[0u8, 13, 10, 1, 8, 11, 12, 27, 31, 127])
}

fn mutate_h2(rng: &mut Rng, c: &mut H2Case) -> &'static str {
    let n = c.hs.len();
    let ridx = |rng: &mut Rng| rng.below(n as u64) as usize;
    let find = |c: &H2Case, name: &[u8]| c.hs.iter().position(|(k, _)| k == name);
    match rng.below(42) {
        0 => {
            let i = ridx(rng);
            if let Some(b) = c.hs[i].0.iter_mut().find(|b| b.is_ascii_lowercase()) {
                *b = b.to_ascii_uppercase();
            }
            "name-uppercase"
        }
        1 => {
            let i = ridx(rng);
            let at = rng.below(c.hs[i].0.len() as u64 + 1) as usize;
            c.hs[i].0.insert(at, *rng.pick(&[b' ', b':', b'(', b',', b'\r', b'\n', 0, 0x80, b'@', b'"', b'/']));
            "name-bad-byte"
        }
        2 => {
            let i = ridx(rng);
            let at = rng.below(c.hs[i].1.len() as u64 + 1) as usize;
            let b = bad_byte(rng);
            c.hs[i].1.insert(at, b);
            "value-ctl"
        }
        3 => {
            let i = ridx(rng);
            c.hs[i].1.extend_from_slice(b"\r\nx-injected: 1");
            "value-crlf-injection"
        }
        4 => {
            // pseudo after regular
            if let Some(i) = c.hs.iter().position(|(k, _)| k.starts_with(b":")) {
                let p = c.hs.remove(i);
                c.hs.push(h("x-first", "1"));
                c.hs.push(p);
            }
            "pseudo-after-regular"
        }
        5 => {
            if let Some(i) = c.hs.iter().position(|(k, _)| k.starts_with(b":")) {
                let p = c.hs[i].clone();
                c.hs.insert(i + 1, p);
            }
            "pseudo-duplicate"
        }
        6 => {
            if let Some(i) = c.hs.iter().position(|(k, _)| k.starts_with(b":")) {
                c.hs.remove(i);
            }
            "pseudo-missing"
        }
        7 => {
            c.hs.insert(0, h(rng.pick(&[":protocol", ":status", ":", ":x"]), "v"));
            "pseudo-unknown"
        }
        8 => {
            if let Some(i) = c.hs.iter().position(|(k, _)| k.starts_with(b":")) {
                c.hs[i].1.clear();
            }
            "pseudo-empty"
        }
        9 => {
            if let Some(i) = c.hs.iter().position(|(k, _)| k.starts_with(b":")) {
                let at = rng.below(c.hs[i].1.len() as u64 + 1) as usize;
                c.hs[i].1.insert(at, *rng.pick(&[9u8, 0, 13, 10, 127, 1]));
            }
            "pseudo-ctl"
        }
        10 => {
            if let Some(i) = find(c, b":method") {
                c.hs[i].1 = rng.pick(&["GET /x", "G\tT", "", "GET\r\n", "g(t", "get"]).as_bytes().to_vec();
            }
            "method-form"
        }
        11 => {
            if let Some(i) = find(c, b":scheme") {
                c.hs[i].1 = rng.pick(&["ftp", "HTTP", "https ", "", "http:"]).as_bytes().to_vec();
            }
            "scheme-form"
        }
        12 => {
            if let Some(i) = find(c, b":path") {
                c.hs[i].1 = rng.pick(&["a", "*", "/a#b", "http://x/", "?q", " /"]).as_bytes().to_vec();
            }
            "path-form"
        }
        13 => {
            if let Some(i) = find(c, b":path") {
                c.hs[i].1 = rng.pick(&["/a b", "/a HTTP/1.1", "/ ", "/a  b", "/x y z"]).as_bytes().to_vec();
            }
            "path-space"
        }
        14 => {
            if let Some(i) = find(c, b":path") {
                c.hs[i].1 = vec![b'/', 0x80 + rng.below(0x80) as u8, b'x'];
            }
            "path-obs-text"
        }
        15 => {
            if let Some(i) = find(c, b":authority") {
                c.hs[i].1 = rng.pick(&["a b", "a\tb", "a,b", "a.example:", "a.example:x", "@", "a/b"]).as_bytes().to_vec();
            }
            "authority-form"
        }
        16 => {
            let name = rng.pick(&["connection", "proxy-connection", "transfer-encoding", "upgrade", "keep-alive"]).to_string();
            let val = rng.pick(&["close", "chunked", "h2c", "timeout=5", "x-a"]).to_string();
            c.hs.push(h(&name, &val));
            "connection-specific"
        }
        17 => {
            c.hs.push(h("te", rng.pick(&["gzip", "trailers, gzip", "", "Trailers", "TRAILERS", " trailers"])));
            "te-value"
        }
        18 => {
            c.hs.push(h("transfer-encoding", "chunked"));
            c.hs.push(h("content-length", "3"));
            c.es = false;
            "cl-and-te"
        }
        19 => {
            c.hs.retain(|(k, _)| k != b"content-length");
            c.hs.push(h("content-length", rng.pick(&["+5", "-1", " 5", "5 ", "", "0x5", "5,5", "5.0", "٥"])));
            c.es = false;
            c.cl = None;
            "cl-not-digits"
        }
        20 => {
            c.hs.retain(|(k, _)| k != b"content-length");
            let n = rng.below(9) as usize;
            c.hs.push(h("content-length", &n.to_string()));
            c.hs.push(h("content-length", &n.to_string()));
            c.es = n == 0 && rng.chance(1, 2);
            c.cl = Some(n);
            "cl-duplicate-equal"
        }
        21 => {
            c.hs.retain(|(k, _)| k != b"content-length");
            let n = rng.below(9) as usize;
            c.hs.push(h("content-length", &n.to_string()));
            c.hs.push(h("content-length", &format!("0{n}")));
            c.es = false;
            c.cl = Some(n);
            "cl-duplicate-leading-zero"
        }
        22 => {
            c.hs.retain(|(k, _)| k != b"content-length");
            c.hs.push(h("content-length", "3"));
            c.hs.push(h("content-length", "4"));
            c.es = false;
            c.cl = None;
            "cl-duplicate-differing"
        }
        23 => {
            c.hs.retain(|(k, _)| k != b"content-length");
            c.hs.push(h("content-length", rng.pick(&["18446744073709551615", "18446744073709551616", "99999999999999999999999999", "000000000000000000000000000007"])));
            c.es = false;
            c.cl = None;
            "cl-huge"
        }
        24 => {
            c.hs.retain(|(k, _)| k != b"content-length");
            c.hs.push(h("content-length", "7"));
            c.es = true;
            c.cl = None;
            "end-stream-with-length"
        }
        25 => {
            let auth = find(c, b":authority").map(|i| c.hs[i].1.clone()).unwrap_or_default();
            let v = match rng.below(5) {
                0 => auth,
                1 => auth.to_ascii_uppercase(),
                2 => [auth.as_slice(), b":443"].concat(),
                3 => b"other.example".to_vec(),
                _ => [auth.as_slice(), b" "].concat(),
            };
            c.hs.push((b"host".to_vec(), v));
            "host-literal"
        }
        26 => {
            let auth = find(c, b":authority").map(|i| c.hs[i].1.clone()).unwrap_or_default();
            c.hs.push((b"host".to_vec(), auth.clone()));
            c.hs.push((b"host".to_vec(), if rng.chance(1, 2) { auth } else { b"evil.example".to_vec() }));
            "host-duplicate"
        }
        27 => {
            c.mf = rng.range(1, 6) as u32;
            "field-budget"
        }
        28 => {
            c.ml = rng.range(40, 300) as u32;
            "byte-budget"
        }
        29 => {
            c.hs.push((b"cookie".to_vec(), [&b"a=1; b="[..], &[bad_byte(rng)], b"; c=3"].concat()));
            "cookie-ctl"
        }
        30 => {
            c.hs.push(h("cookie", rng.pick(&[";;", "", " ; ", "novalue", "=onlyvalue", "a=1;b=2;;c", "a==", "a=1; a=1"])));
            "cookie-shapes"
        }
        31 => {
            c.mf = 6;
            c.hs.push(h("cookie", "a=1; b=2; c=3; d=4; e=5; f=6; g=7"));
            "cookie-crumb-budget"
        }
        32 => {
            c.hs.push((vec![], b"v".to_vec()));
            "name-empty"
        }
        33 => {
            let i = ridx(rng);
            c.hs[i].1 = vec![b'v', 0x80 + rng.below(0x80) as u8, 0xff];
            "value-obs-text"
        }
        34 => {
            if let Some(i) = c.hs.iter().position(|(k, _)| k.starts_with(b":")) {
                c.hs[i].0 = c.hs[i].0.to_ascii_uppercase();
            }
            "pseudo-uppercase"
        }
        35 => {
            c.hs.push(h("content-length", "0"));
            c.hs.retain(|(k, v)| !(k == b"content-length" && v != b"0"));
            c.cl = Some(0);
            "cl-zero"
        }
        36 => {
            if let Some(i) = find(c, b":method") {
                c.hs[i].1 = b"OPTIONS".to_vec();
            }
            if let Some(i) = find(c, b":path") {
                c.hs[i].1 = b"*".to_vec();
            }
            "options-asterisk"
        }
        37 => {
            if let Some(i) = find(c, b":method") {
                c.hs[i].1 = b"CONNECT".to_vec();
            }
            c.hs.retain(|(k, _)| k != b":path" && k != b":scheme");
            "connect"
        }
        38 => {
            c.hs.push(h("x-long", &"v".repeat(rng.range(100, 3000) as usize)));
            "long-value"
        }
        39 => {
            // the stream buffer is smaller than what the header list needs (or just enough)
            let need: usize = c.hs.iter().map(|(k, v)| k.len() + v.len()).sum();
            c.buf = Some(match rng.below(4) {
                0 => need,
                1 => need.saturating_sub(rng.range(1, 12) as usize).max(1),
                2 => rng.range(8, 64) as usize,
                _ => need / 2 + 1,
            });
            // the pool rounds a buffer up to a multiple of 8: ask for what will really be there
            c.buf = c.buf.map(|b| b.div_ceil(8) * 8);
            if rng.chance(1, 2) {
                c.hs.push(h("cookie", "a=1; bb=22; ccc=333; dddd=4444"));
            }
            "small-buffer"
        }
        40 => {
            // a header block that needs CONTINUATION frames toward an HTTP/2 backend
            for i in 0..rng.range(3, 5) {
                c.hs.push(h(format!("x-big-{i}"), "w".repeat(rng.range(5000, 7000) as usize)));
            }
            "continuation-sized"
        }
        _ => {
            let i = ridx(rng);
            c.hs.swap(i, n - 1);
            "reorder"
        }
    }
}

fn gen_trailers(rng: &mut Rng, spoof: bool) -> Vec<Hdr> {
    let mut t = vec![];
    for _ in 0..rng.below(4) {
        t.push(h(rng.pick(&["x-t", "grpc-status", "x-checksum", "5", "a"]), rng.pick(&["0", "v", "", "dead beef"])));
    }
    if spoof || rng.chance(1, 3) {
        let n = rng.pick(&["x-real-ip", "x-forwarded-for", "forwarded", "x-request-id"]).to_string();
        let at = rng.below(t.len() as u64 + 1) as usize;
        t.insert(at, h(&n, "6.6.6.6"));
    }
    if rng.chance(1, 8) {
        let k: Hdr = match rng.below(6) {
            0 => h(":path", "/x"),
            1 => h("X-Upper", "v"),
            2 => h("connection", "close"),
            3 => h("x-t", "a\r\nb"),
            4 => h("te", "gzip"),
            _ => h("content-length", "3"),
        };
        t.push(k);
    }
    t
}

fn gen_chunks(rng: &mut Rng, total: Option<usize>) -> Vec<Vec<u8>> {
    match total {
        Some(n) => {
            let mut left = n;
            let mut v = vec![];
            while left > 0 {
                let k = rng.range(1, left as u64) as usize;
                v.push((0..k).map(|_| *rng.pick(b"abc\r\n0;:")).collect());
                left -= k;
            }
            if v.is_empty() || rng.chance(1, 4) {
                let at = rng.below(v.len() as u64 + 1) as usize;
                v.insert(at, vec![]);
            }
            v
        }
        None => (0..rng.range(1, 4)).map(|_| if rng.chance(1, 5) { vec![] } else { (0..rng.range(1, 40)).map(|_| *rng.pick(b"abc\r\n0;: xyz")).collect() }).collect(),
    }
}

fn gen_h2_case(rng: &mut Rng, cx: Option<&Cx>, c13: bool) -> Vec<String> {
    let mut c = gen_h2_valid(rng);
    let mut tags = vec![];
    if c13 {
        if let Some(cx) = cx {
            // replace the cookie material by cookies around this context's sticky name, add spoofing headers
            c.hs.retain(|(k, _)| k != b"cookie");
            let mut extra = vec![];
            if rng.chance(7, 10) {
                extra.extend(gen_spoof(rng, cx, false));
            }
            let crumbs = gen_cookies(rng, cx);
            if !crumbs.is_empty() {
                let cut = rng.below(crumbs.len() as u64 + 1) as usize;
                let (a, b) = crumbs.split_at(cut);
                for part in [a, b] {
                    if !part.is_empty() {
                        extra.push((b"cookie".to_vec(), join_crumbs(part)));
                    }
                }
            }
            let np = c.hs.iter().filter(|(k, _)| k.starts_with(b":")).count();
            let mut regular: Vec<Hdr> = c.hs.split_off(np);
            shuffle_in(rng, &mut regular, extra);
            c.hs.extend(regular);
        }
        if rng.chance(1, 10) {
            tags.push(mutate_h2(rng, &mut c));
        }
    } else if rng.chance(6, 10) {
        for _ in 0..rng.range(1, 3) {
            tags.push(mutate_h2(rng, &mut c));
        }
    }
    let scheme = if rng.chance(1, 2) { "https" } else { "http" };
    let mut ops = vec!["new".to_string(), op_h2_buf(c.ml, c.mf, c.es, scheme, cx, &c.hs, c.buf)];
    // a declared length the generator cannot honour (h2.rs resets such a stream at END_STREAM; that
    // reconciliation is not callable in-process): no DATA is sent
    let unknown_cl = c.cl.is_none() && c.hs.iter().any(|(k, _)| k == b"content-length");
    if !c.es && !unknown_cl {
        let chunks = gen_chunks(rng, c.cl);
        let trailers = if rng.chance(if c13 { 1 } else { 1 }, 3) { Some(gen_trailers(rng, c13)) } else { None };
        ops.push(op_body(&chunks, trailers.as_deref()));
    }
    let _ = tags;
    ops
}

// ------------------------------------------------------------ C03 / H1 --

fn h1_valid_request(rng: &mut Rng, out: &mut Vec<u8>) {
    let method = rng.pick(&["GET", "POST", "OPTIONS", "PUT", "DELETE", "PATCH"]).to_string();
    let host = rng.pick(&["a.example", "a.example:8080", "b", "[::1]"]).to_string();
    let target = match rng.below(8) {
        0 if method == "OPTIONS" => "*".to_string(),
        1 => format!("http://{host}/abs?x=1"),
        2 => "/a/b?x=1".to_string(),
        3 => "/%20x".to_string(),
        _ => "/".to_string(),
    };
    out.extend_from_slice(format!("{method} {target} HTTP/1.1\r\n").as_bytes());
    let mut lines: Vec<Vec<u8>> = vec![format!("Host: {host}").into_bytes()];
    for (k, v) in gen_regular(rng, 4) {
        let sep = *rng.pick(&[": ", ":", ":  ", ":\t"]);
        lines.push([k.as_slice(), sep.as_bytes(), trim_ows(&v)].concat());
    }
    if rng.chance(1, 4) {
        lines.push(b"Cookie: a=1; b=2".to_vec());
    }
    let body_kind = rng.below(4);
    let payload: Vec<u8> = (0..rng.below(20)).map(|_| *rng.pick(b"abc\r\n0 :;")).collect();
    match body_kind {
        0 => {}
        1 | 2 => lines.push(format!("{}: {}", rng.pick(&["Content-Length", "content-length", "CONTENT-LENGTH"]), payload.len()).into_bytes()),
        _ => lines.push(format!("{}: {}", rng.pick(&["Transfer-Encoding", "transfer-encoding"]), rng.pick(&["chunked", "Chunked", "CHUNKED"])).into_bytes()),
    }
    // Host is not necessarily first
    if rng.chance(1, 3) {
        let hl = lines.remove(0);
        let at = rng.below(lines.len() as u64 + 1) as usize;
        lines.insert(at, hl);
    }
    for l in lines {
        out.extend_from_slice(&l);
        out.extend_from_slice(b"\r\n");
    }
    out.extend_from_slice(b"\r\n");
    match body_kind {
        0 => {}
        1 | 2 => out.extend_from_slice(&payload),
        _ => {
            let mut left = &payload[..];
            while !left.is_empty() {
                let k = rng.range(1, left.len() as u64) as usize;
                out.extend_from_slice(format!("{:x}\r\n", k).as_bytes());
                out.extend_from_slice(&left[..k]);
                out.extend_from_slice(b"\r\n");
                left = &left[k..];
            }
            out.extend_from_slice(b"0\r\n");
            if rng.chance(1, 3) {
                out.extend_from_slice(format!("{}: {}\r\n", rng.pick(&["X-T", "x-real-ip", "Content-Length"]), rng.pick(&["1", "6.6.6.6"])).as_bytes());
            }
            out.extend_from_slice(b"\r\n");
        }
    }
}

const SMUGGLE: [&[u8]; 40] = [
    b"POST / HTTP/1.1\r\nHost: a\r\nContent-Length: 6\r\nTransfer-Encoding: chunked\r\n\r\n0\r\n\r\nG",
    b"POST / HTTP/1.1\r\nHost: a\r\nTransfer-Encoding: chunked\r\nContent-Length: 4\r\n\r\n1\r\nZ\r\n0\r\n\r\n",
    b"POST / HTTP/1.1\r\nHost: a\r\nContent-Length: 3\r\nContent-Length: 3\r\n\r\nabc",
    b"POST / HTTP/1.1\r\nHost: a\r\nContent-Length: 3\r\nContent-Length: 4\r\n\r\nabcd",
    b"POST / HTTP/1.1\r\nHost: a\r\nContent-Length: 3, 3\r\n\r\nabc",
    b"POST / HTTP/1.1\r\nHost: a\r\nContent-Length: +3\r\n\r\nabc",
    b"POST / HTTP/1.1\r\nHost: a\r\nContent-Length: -3\r\n\r\nabc",
    b"POST / HTTP/1.1\r\nHost: a\r\nContent-Length: 03\r\n\r\nabc",
    b"POST / HTTP/1.1\r\nHost: a\r\nContent-Length: 0x3\r\n\r\nabc",
    b"POST / HTTP/1.1\r\nHost: a\r\nContent-Length : 3\r\n\r\nabc",
    b"POST / HTTP/1.1\r\nHost: a\r\nContent-Length:\t3\r\n\r\nabc",
    b"POST / HTTP/1.1\r\nHost: a\r\nContent-Length: 3 \r\n\r\nabc",
    b"POST / HTTP/1.1\r\nHost: a\r\nContent_Length: 3\r\n\r\nabc",
    b"POST / HTTP/1.1\r\nHost: a\r\nTransfer-Encoding: xchunked\r\n\r\n0\r\n\r\n",
    b"POST / HTTP/1.1\r\nHost: a\r\nTransfer-Encoding: chunked, identity\r\n\r\n0\r\n\r\n",
    b"POST / HTTP/1.1\r\nHost: a\r\nTransfer-Encoding: identity, chunked\r\n\r\n0\r\n\r\n",
    b"POST / HTTP/1.1\r\nHost: a\r\nTransfer-Encoding: chunked\r\nTransfer-Encoding: identity\r\n\r\n0\r\n\r\n",
    b"POST / HTTP/1.1\r\nHost: a\r\nTransfer-Encoding: identity\r\nTransfer-Encoding: chunked\r\n\r\n0\r\n\r\n",
    b"POST / HTTP/1.1\r\nHost: a\r\nTransfer-Encoding : chunked\r\n\r\n0\r\n\r\n",
    b"POST / HTTP/1.1\r\nHost: a\r\nTransfer-Encoding:\x0bchunked\r\n\r\n0\r\n\r\n",
    b"POST / HTTP/1.1\r\nHost: a\r\nTransfer-Encoding: chunked \r\n\r\n0\r\n\r\nGET /x HTTP/1.1\r\nHost: a\r\n\r\n",
    b"POST / HTTP/1.1\r\nHost: a\r\nTransfer-Encoding:\r\n chunked\r\n\r\n0\r\n\r\n",
    b"POST / HTTP/1.1\r\nHost: a\r\n Transfer-Encoding: chunked\r\n\r\n0\r\n\r\n",
    b"POST / HTTP/1.1\r\nHost: a\r\nX: y\nTransfer-Encoding: chunked\r\n\r\n0\r\n\r\n",
    b"POST / HTTP/1.1\r\nHost: a\r\nX: y\rTransfer-Encoding: chunked\r\n\r\n0\r\n\r\n",
    b"POST / HTTP/1.1\r\nHost: a\r\nTransfer-Encoding: \"chunked\"\r\n\r\n0\r\n\r\n",
    b"POST / HTTP/1.1\r\nHost: a\r\nTransfer-Encoding: identity\r\nContent-Length: 3\r\n\r\nabc",
    b"POST / HTTP/1.1\r\nHost: a\r\nTransfer-Encoding: chunked\r\n\r\n3;x=y\r\nabc\r\n0\r\n\r\n",
    b"POST / HTTP/1.1\r\nHost: a\r\nTransfer-Encoding: chunked\r\n\r\n3\nabc\n0\n\n",
    b"POST / HTTP/1.1\r\nHost: a\r\nTransfer-Encoding: chunked\r\n\r\n0x3\r\nabc\r\n0\r\n\r\n",
    b"POST / HTTP/1.1\r\nHost: a\r\nTransfer-Encoding: chunked\r\n\r\n+3\r\nabc\r\n0\r\n\r\n",
    b"POST / HTTP/1.1\r\nHost: a\r\nTransfer-Encoding: chunked\r\n\r\n 3\r\nabc\r\n0\r\n\r\n",
    b"POST / HTTP/1.1\r\nHost: a\r\nTransfer-Encoding: chunked\r\n\r\n3\r\nabcX\r\n0\r\n\r\n",
    b"POST / HTTP/1.1\r\nHost: a\r\nTransfer-Encoding: chunked\r\n\r\nffffffffffffffffff\r\nabc\r\n0\r\n\r\n",
    b"GET / HTTP/1.1\r\nHost: a\r\n\r\nGET /2 HTTP/1.1\r\nHost: a\r\n\r\n",
    b"GET / HTTP/1.1\r\nHost: a\r\nHost: b\r\n\r\n",
    b"GET http://c/x HTTP/1.1\r\nHost: a\r\nContent-Length: 0\r\n\r\n",
    b"GET /a b HTTP/1.1\r\nHost: a\r\nContent-Length: 0\r\n\r\n",
    b"GET / HTTP/1.1\r\nHost: a\x00b\r\nContent-Length: 0\r\n\r\n",
    b"GET /  HTTP/1.1\r\nHost: a\r\nContent-Length: 0\r\n\r\n",
];

fn gen_h1_bytes(rng: &mut Rng) -> Vec<u8> {
    let mut out = vec![];
    let r = rng.below(100);
    if r < 35 {
        for _ in 0..rng.range(1, 3) {
            h1_valid_request(rng, &mut out);
        }
    } else if r < 65 {
        if rng.chance(1, 3) {
            h1_valid_request(rng, &mut out);
        }
        { let sm: &&[u8] = rng.pick(&SMUGGLE[..]); out.extend_from_slice(sm); }
        if rng.chance(1, 3) {
            h1_valid_request(rng, &mut out);
        }
    } else {
        for _ in 0..rng.range(1, 2) {
            h1_valid_request(rng, &mut out);
        }
        if rng.chance(1, 3) {
            let s: &[u8] = { let sm: &&[u8] = rng.pick(&SMUGGLE[..]); sm };
            out.extend_from_slice(s);
        }
        for _ in 0..rng.range(1, 3) {
            if out.is_empty() {
                break;
            }
            let at = rng.below(out.len() as u64) as usize;
            let b = *rng.pick(&[b' ', b'\t', b'\r', b'\n', 0u8, b':', b';', b',', 0x80, 0x7f, b'0', b'9', b'+', b'-', b'a', b'\x0b', b'H']);
            match rng.below(3) {
                0 => out.insert(at, b),
                1 => {
                    out.remove(at);
                }
                _ => out[at] = b,
            }
        }
    }
    out
}

fn gen_cuts(rng: &mut Rng, len: usize) -> Vec<usize> {
    if len < 2 || rng.chance(1, 3) {
        return vec![];
    }
    if rng.chance(1, 6) {
        return (1..len).collect(); // byte by byte
    }
    let mut v: Vec<usize> = (0..rng.range(1, 5)).map(|_| rng.range(1, len as u64 - 1) as usize).collect();
    v.sort();
    v.dedup();
    v
}

// ----------------------------------------------------------------- C13 --

fn gen_edit_case(rng: &mut Rng) -> Vec<String> {
    let cx = gen_cx(rng);
    let mut regular: Vec<Hdr> = gen_regular(rng, 6)
        .into_iter()
        .map(|(k, v)| (case_variant(rng, std::str::from_utf8(&k).unwrap(), true), trim_ows(&v).iter().copied().filter(|b| *b < 0x80).collect::<Vec<u8>>()))
        .map(|(k, v)| (k, trim_ows(&v).to_vec()))
        .collect();
    let mut extra: Vec<Hdr> = vec![];
    if rng.chance(7, 10) {
        extra.extend(gen_spoof(rng, &cx, true).into_iter().map(|(k, v)| (k, trim_ows(&v).to_vec())));
    }
    if rng.chance(1, 4) {
        extra.push((case_variant(rng, "Connection", true), rng.pick(&["close", "keep-alive", "x-a", "x-a, x-b", "Keep-Alive, X-Custom-1", "upgrade"]).as_bytes().to_vec()));
    }
    if rng.chance(1, 8) {
        extra.push((b"Upgrade".to_vec(), b"websocket".to_vec()));
    }
    if rng.chance(1, 8) {
        extra.push((b"Keep-Alive".to_vec(), b"timeout=5".to_vec()));
    }
    if rng.chance(1, 8) {
        extra.push((b"TE".to_vec(), rng.pick(&["trailers", "gzip"]).as_bytes().to_vec()));
    }
    shuffle_in(rng, &mut regular, extra);
    let crumbs: Vec<Hdr> = gen_cookies(rng, &cx).into_iter().filter(|(_, v)| !v.contains(&b' ')).collect();
    let mut fields: Vec<String> = regular.iter().map(|(k, v)| format!("{}:{}", hex(k), hex(v))).collect();
    if !crumbs.is_empty() {
        let at = rng.below(fields.len() as u64 + 1) as usize;
        fields.insert(at, "C".into());
    }
    let scheme = if rng.chance(1, 2) { "https" } else { "http" };
    vec![
        "new".into(),
        format!(
            "edit {} {} {} {} {} {} {}",
            hex(scheme.as_bytes()),
            cx.word(),
            hex(rng.pick(&["GET", "HEAD", "DELETE"]).as_bytes()),
            hex(rng.pick(&["/", "/a?b=c"]).as_bytes()),
            hex(rng.pick(&["a.example", "b.example:8080"]).as_bytes()),
            if fields.is_empty() { "_".into() } else { fields.join(",") },
            hl(&crumbs)
        ),
    ]
}

fn gen_resp_case(rng: &mut Rng) -> Vec<String> {
    let cx = gen_cx(rng);
    let mut hs: Vec<Hdr> = vec![];
    for _ in 0..rng.below(7) {
        let k = rng.pick(&["Server", "Content-Type", "Set-Cookie", "Connection", "Strict-Transport-Security", "X-B", "Cache-Control", "Via"]).to_string();
        let v = match k.as_str() {
            "Connection" => rng.pick(&["close", "keep-alive", "Close"]).to_string(),
            "Set-Cookie" => format!("{}=1; Path=/", rng.pick(&["a", "SOZUBALANCEID", "sid"])),
            _ => rng.pick(&["x", "text/html", "max-age=1", "1.1 b"]).to_string(),
        };
        hs.push(h(&k, &v));
    }
    if rng.chance(1, 6) {
        let name = cx.sozu_id.clone();
        hs.push(h(&name, "backend-supplied"));
    }
    vec!["new".into(), format!("resp {} {}", cx.word(), hl(&hs))]
}

fn gen_respedits_case(rng: &mut Rng) -> Vec<String> {
    let names = ["Server", "Content-Type", "Strict-Transport-Security", "X-B", "Cache-Control", "Via", "X-Frame-Options", "Set-Cookie"];
    let mut hs: Vec<Hdr> = vec![];
    for _ in 0..rng.below(7) {
        let nm: &str = { let x: &&str = rng.pick(&names[..]); x };
        let k = case_variant(rng, nm, true);
        hs.push((k, rng.pick(&["x", "text/html", "max-age=1", "1.1 b", "DENY"]).as_bytes().to_vec()));
    }
    let mut edits = vec![];
    for _ in 0..rng.below(5) {
        let nm: &str = { let x: &&str = rng.pick(&names[..]); x };
        let k = case_variant(rng, nm, true);
        let v = if rng.chance(1, 4) { "".to_string() } else { rng.pick(&["edited", "max-age=31536000", "SAMEORIGIN"]).to_string() };
        let m = *rng.pick(&['a', 'i', 's']);
        edits.push(format!("{}:{}:{}", hex(&k), hex(v.as_bytes()), m));
    }
    vec!["new".into(), format!("respedits {} {}", if edits.is_empty() { "_".into() } else { edits.join(",") }, hl(&hs))]
}

fn gen_hsts_cfg(rng: &mut Rng, enabled: Option<bool>) -> String {
    let e = match enabled {
        Some(true) => "t",
        Some(false) => "f",
        None => "n",
    };
    let m = if enabled == Some(true) || rng.chance(1, 2) { rng.pick(&["31536000", "63072000", "0", "300"]).to_string() } else { "n".to_string() };
    format!("{e},{m},{},{},{}", rng.below(2), rng.below(2), rng.chance(1, 4) as u8)
}

/// a configuration history of one HTTPS listener: frontends of every shape added, the listener's
/// HSTS default patched (enable / change / disable), frontends removed and re-added, every frontend looked up
fn gen_hsts_case(rng: &mut Rng) -> Vec<String> {
    let mut ops = vec!["new".to_string()];
    let def = match rng.below(4) {
        0 => "~".to_string(),
        1 => gen_hsts_cfg(rng, Some(false)),
        _ => gen_hsts_cfg(rng, Some(true)),
    };
    ops.push(format!("hdef {def}"));
    let mut live: Vec<u64> = vec![];
    let mut next = 0u64;
    let lookups = |rng: &mut Rng, live: &[u64], ops: &mut Vec<String>| {
        for id in live {
            let mut resp: Vec<Hdr> = vec![h("Server", "b")];
            for _ in 0..rng.below(3) {
                if rng.chance(1, 3) {
                    resp.push((case_variant(rng, "Strict-Transport-Security", true), b"max-age=1".to_vec()));
                }
            }
            ops.push(format!("hlook {id} {}", hl(&resp)));
        }
    };
    for _ in 0..rng.range(3, 9) {
        let r = rng.below(100);
        if r < 45 || live.is_empty() {
            let id = next;
            next += 1;
            let block = match rng.below(4) {
                0 | 1 => "~".to_string(),
                2 => gen_hsts_cfg(rng, Some(false)),
                _ => gen_hsts_cfg(rng, Some(true)),
            };
            let policy = rng.chance(1, 4);
            let other = if rng.chance(1, 4) { format!("{}:{}:a", hex(b"X-Op"), hex(format!("v{id}").as_bytes())) } else { "_".to_string() };
            ops.push(format!("hadd {id} {} {} {other} {block}", rng.chance(1, 6) as u8, policy as u8));
            live.push(id);
        } else if r < 80 {
            let en = rng.chance(2, 3);
            let c = gen_hsts_cfg(rng, Some(en));
            ops.push(format!("hpatch {c}"));
            if rng.chance(1, 2) {
                lookups(rng, &live, &mut ops);
            }
        } else if r < 85 {
            ops.push("hunset".into());
        } else if r < 95 {
            let i = rng.below(live.len() as u64) as usize;
            let id = live.remove(i);
            ops.push(format!("hdel {id}"));
            if rng.chance(1, 2) {
                // the same frontend comes back, possibly with another HSTS block
                let block = match rng.below(3) {
                    0 => "~".to_string(),
                    1 => gen_hsts_cfg(rng, Some(false)),
                    _ => gen_hsts_cfg(rng, Some(true)),
                };
                ops.push(format!("hadd {id} 0 0 _ {block}"));
                live.push(id);
            }
        } else {
            // adding an existing rule is refused
            let id = *rng.pick(&live);
            ops.push(format!("hadd {id} 0 0 _ ~"));
        }
    }
    lookups(rng, &live, &mut ops);
    ops
}

/// a response header block of an HTTP/2 backend: valid ones and the shapes the response arm must refuse
fn gen_h2resp_case(rng: &mut Rng, with_ctx: bool) -> Vec<String> {
    let status = rng.pick(&["200", "204", "304", "100", "103", "404", "500", "301", "999"]).to_string();
    let mut hs: Vec<Hdr> = vec![h(":status", &status)];
    for _ in 0..rng.below(6) {
        let k = rng.pick(&["server", "content-type", "set-cookie", "cache-control", "x-b", "via", "strict-transport-security", "vary"]).to_string();
        hs.push((k.into_bytes(), gen_value(rng)));
    }
    let mut es = rng.chance(1, 2);
    if rng.chance(1, 3) {
        let n = if es && rng.chance(2, 3) { 0 } else { rng.below(9) };
        let at = rng.range(1, hs.len() as u64) as usize;
        hs.insert(at, h("content-length", n.to_string()));
        if rng.chance(1, 6) {
            hs.push(h("content-length", if rng.chance(1, 2) { n.to_string() } else { (n + 1).to_string() }));
        }
    }
    let (mut ml, mut mf) = (65536u32, 200u32);
    if rng.chance(1, 2) {
        match rng.below(16) {
            0 => hs[0].1 = rng.pick(&["20", "2000", "+20", " 20", "2 0", "abc", "", "00200"]).as_bytes().to_vec(),
            1 => {
                hs.remove(0);
            }
            2 => hs.push(h(":status", "200")),
            3 => {
                let st = hs.remove(0);
                hs.push(st);
            }
            4 => hs.insert(0, h(rng.pick(&[":path", ":method", ":x", ":"]), "v")),
            5 => {
                let i = rng.below(hs.len() as u64) as usize;
                let b = bad_byte(rng);
                hs[i].1.push(b);
            }
            6 => hs.push(h(rng.pick(&["connection", "keep-alive", "transfer-encoding", "upgrade", "proxy-connection"]), "x")),
            7 => hs.push(h("Server", "upper")),
            8 => hs.push(h("content-length", rng.pick(&["+1", "", "1 ", "x"]))),
            9 => {
                hs.retain(|(k, _)| k != b"content-length");
                hs.push(h("content-length", "5"));
                es = true;
            }
            10 => mf = rng.range(1, 4) as u32,
            11 => ml = rng.range(40, 200) as u32,
            12 => hs[0].0 = b":STATUS".to_vec(),
            13 => hs.push(h("te", rng.pick(&["trailers", "gzip"]))),
            14 => hs.push((b"x y".to_vec(), b"v".to_vec())),
            _ => hs.push(h("x-long", "v".repeat(rng.range(100, 2000) as usize))),
        }
    }
    let cx = if with_ctx { gen_cx(rng).word() } else { "-".to_string() };
    vec!["new".into(), format!("h2resp {ml} {mf} {} {cx} {}", es as u8, hl(&hs))]
}

fn gen_case(prop: &str, rng: &mut Rng, _thorough: bool) -> Vec<String> {
    let r = rng.below(100);
    if prop == "C13" {
        if r < 50 {
            let cx = gen_cx(rng);
            gen_h2_case(rng, Some(&cx), true)
        } else if r < 80 {
            gen_edit_case(rng)
        } else if r < 86 {
            // HTTP/1.1 requests (some chunked with trailers) through the real parser
            let mut b = vec![];
            for _ in 0..rng.range(1, 2) {
                h1_valid_request(rng, &mut b);
            }
            let cuts = gen_cuts(rng, b.len());
            vec!["new".into(), op_h1(&b, &cuts)]
        } else if r < 91 {
            gen_resp_case(rng)
        } else if r < 93 {
            gen_respedits_case(rng)
        } else if r < 96 {
            gen_h2resp_case(rng, true)
        } else {
            gen_hsts_case(rng)
        }
    } else if r < 50 {
        // a third of the H2 cases go through the real editor too (what is forwarded includes its additions)
        let cx = if rng.chance(1, 3) { Some(gen_cx(rng)) } else { None };
        gen_h2_case(rng, cx.as_ref(), false)
    } else if r < 54 {
        gen_h2resp_case(rng, false)
    } else if r < 60 {
        let b = gen_h1_bytes(rng);
        vec!["new".into(), format!("strict {}", hex(&b))]
    } else {
        let b = gen_h1_bytes(rng);
        let cuts = gen_cuts(rng, b.len());
        vec!["new".into(), op_h1(&b, &cuts)]
    }
}
