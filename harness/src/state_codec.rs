//! Token <-> real-type codec of the State area (C05/C06/C07): turns protocol
//! op lines into `sozu_command_lib` requests and back, and prints the canonical
//! dump of a `ConfigState`. The same syntax is implemented by
//! `lean/Drivers/StateMain.lean`.
#![allow(dead_code)]
use std::collections::BTreeMap;
use std::net::{IpAddr, Ipv4Addr, Ipv6Addr, SocketAddr};

use sozu_command_lib::certificate::{
    calculate_fingerprint, get_cn_and_san_attributes, parse_pem, parse_x509,
};
use sozu_command_lib::proto::command::{
    request::RequestType, ActivateListener, AddBackend, AddCertificate, AlpnProtocols,
    CertificateAndKey, Cluster, CustomHttpAnswers, DeactivateListener, HealthCheckConfig,
    HstsConfig, HttpListenerConfig, HttpsListenerConfig, IpAddress, LoadBalancingParams, PathRule,
    RemoveBackend, RemoveCertificate, RemoveListener, ReplaceCertificate, Request,
    RequestHttpFrontend, RequestTcpFrontend, RequestUdpFrontend, SetHealthCheck, SocketAddress,
    Status, TcpListenerConfig, UdpListenerConfig, UpdateHttpListenerConfig,
    UpdateHttpsListenerConfig, UpdateTcpListenerConfig, UpdateUdpListenerConfig,
};
use sozu_command_lib::response::{Backend, HttpFrontend, TcpFrontend, UdpFrontend};
use sozu_command_lib::state::ConfigState;

pub const ADDR_MOD: u64 = 16;
pub const NKNOBS: usize = 18;

/// the 16 socket addresses, ascending in `SocketAddr` order (= `socketaddr_cmp` order)
pub fn addr_table() -> Vec<SocketAddr> {
    let v4 = |a, b, c, d, p| SocketAddr::new(IpAddr::V4(Ipv4Addr::new(a, b, c, d)), p);
    let v6 = |s: &str, p| SocketAddr::new(IpAddr::V6(s.parse::<Ipv6Addr>().unwrap()), p);
    vec![
        v4(0, 0, 0, 0, 80),
        v4(0, 0, 0, 0, 8080),
        v4(10, 0, 0, 1, 80),
        v4(10, 0, 0, 1, 443),
        v4(127, 0, 0, 1, 1000),
        v4(127, 0, 0, 1, 2000),
        v4(127, 0, 0, 1, 8080),
        v4(192, 168, 1, 9, 443),
        v4(192, 168, 1, 9, 65535),
        v6("::", 80),
        v6("::1", 80),
        v6("::1", 8443),
        v6("2001:db8::1", 443),
        v6("2001:db8::abcd", 8080),
        v6("fe80::1", 80),
        v6("fe80::1:2", 65535),
    ]
}

/// raw address token -> `SocketAddress` (raw >= 16: same ip, port + 65536 * wraps)
pub fn sa(raw: u64) -> SocketAddress {
    let t = addr_table();
    let base = t[(raw % ADDR_MOD) as usize];
    let mut s = SocketAddress::from(base);
    s.port += 65536 * (raw / ADDR_MOD) as u32;
    s
}

pub fn sa_tok(s: &SocketAddress) -> u64 {
    let mut c = *s;
    let wraps = (c.port / 65536) as u64;
    c.port %= 65536;
    let a = SocketAddr::from(c);
    if c.ip == (IpAddress { inner: None }) {
        return 9999;
    }
    match addr_tok_opt(&a) {
        Some(i) => i + ADDR_MOD * wraps,
        None => 9999,
    }
}

pub fn addr_tok_opt(a: &SocketAddr) -> Option<u64> {
    addr_table().iter().position(|x| x == a).map(|i| i as u64)
}
pub fn addr_tok(a: &SocketAddr) -> u64 {
    addr_tok_opt(a).unwrap_or(9999)
}

// ---------------------------------------------------------- string tokens --

pub fn s_tok(prefix: &str, n: u64) -> String {
    format!("{prefix}{n:03}")
}
pub fn tok_of(prefix: &str, s: &str) -> u64 {
    s.strip_prefix(prefix)
        .and_then(|r| if r.len() == 3 { r.parse().ok() } else { None })
        .unwrap_or(9999)
}
/// token tables. Where the code orders the strings (cluster ids, backend ids, sticky ids) the
/// table is ascending in byte order, so token order = string order. Every table holds case
/// variants of one value, so that a transformation applied to the stored value but not to the
/// key (or the other way round) changes the token.
pub const CIDS: [&str; 5] = ["C000", "c000", "c001", "c002", "c00\u{e9}"];
pub const BIDS: [&str; 4] = ["B000", "b000", "b001", "b002"];
pub const HOSTS: [&str; 4] = ["h000.example", "h001.example", "H000.Example", "WWW.h000.EXAMPLE"];
pub const PATHS: [&str; 6] = ["/p000", "/p001", "/P000", "/p000/", "", "/p(("];
pub const METHODS: [&str; 6] = ["GET", "get", "Post", "POST", "M004", "pUrGe"];
pub const STICKY_NAMES: [&str; 3] = ["SOZUBALANCEID", "sozubalanceid", "s001"];
pub const STICKY_IDS: [&str; 3] = ["K000", "k000", "k001"];

fn tab(t: &[&str], prefix: &str, n: u64) -> String {
    t.get(n as usize).map(|x| x.to_string()).unwrap_or_else(|| format!("{prefix}{n:03}"))
}
fn untab(t: &[&str], prefix: &str, s: &str) -> u64 {
    match t.iter().position(|x| *x == s) {
        Some(i) => i as u64,
        None => match s.strip_prefix(prefix).and_then(|r| if r.len() == 3 { r.parse::<u64>().ok() } else { None }) {
            Some(n) if n as usize >= t.len() => n,
            _ => 9999,
        },
    }
}
pub fn cid(n: u64) -> String { tab(&CIDS, "c", n) }
pub fn cid_tok(s: &str) -> u64 { untab(&CIDS, "c", s) }
pub fn bid(n: u64) -> String { tab(&BIDS, "b", n) }
pub fn bid_tok(s: &str) -> u64 { untab(&BIDS, "b", s) }
pub fn host(n: u64) -> String { tab(&HOSTS, "h", n) }
pub fn host_tok(s: &str) -> u64 { untab(&HOSTS, "h", s) }
pub fn path(n: u64) -> String { tab(&PATHS, "/p", n) }
pub fn path_tok(s: &str) -> u64 { untab(&PATHS, "/p", s) }
pub fn method(n: u64) -> String { tab(&METHODS, "M", n) }
pub fn method_tok(s: &str) -> u64 { untab(&METHODS, "M", s) }
pub fn sname(n: u64) -> String { tab(&STICKY_NAMES, "s", n) }
pub fn sname_tok(s: &str) -> u64 { untab(&STICKY_NAMES, "s", s) }
pub fn sticky_id(n: u64) -> String { tab(&STICKY_IDS, "k", n) }
pub fn sticky_id_tok(s: &str) -> u64 { untab(&STICKY_IDS, "k", s) }
pub fn tags(n: u64) -> BTreeMap<String, String> {
    let mut m = BTreeMap::new();
    match n {
        0 => {}
        1 => {
            m.insert("tag".to_string(), "t001".to_string());
        }
        2 => {
            m.insert("tag".to_string(), "T001".to_string());
            m.insert("owner".to_string(), "verif".to_string());
        }
        3 => {
            m.insert("Tag".to_string(), "t001".to_string());
        }
        _ => {
            m.insert("tag".to_string(), s_tok("t", n));
        }
    }
    m
}
pub fn tags_tok(m: &BTreeMap<String, String>) -> u64 {
    for n in 0..6 {
        if &tags(n) == m {
            return n;
        }
    }
    9999
}

// ------------------------------------------------------------ certificates --

pub struct Pems {
    pub pem: Vec<String>,
    /// fingerprint token (= index of the first pem with the same fingerprint), hex
    pub fp: Vec<Option<(u64, String)>>,
    /// certificate names as tokens (None: not X.509)
    pub cn: Vec<Option<Vec<u64>>>,
    pub names: Vec<String>,
    pub key: String,
    pub chain: String,
}

fn real_names(pem: &str) -> Option<Vec<String>> {
    let p = parse_pem(pem.as_bytes()).ok()?;
    let x = parse_x509(&p.contents).ok()?;
    Some(get_cn_and_san_attributes(&x))
}

pub fn load_pems(repo: &str) -> Pems {
    let rd = |p: &str| std::fs::read_to_string(format!("{repo}/{p}")).unwrap_or_default();
    let mut pem = vec![
        rd("lib/assets/certificate.pem"),
        rd("lib/assets/cert_test.pem"),
        rd("lib/assets/certificate-dominum.pem"),
        rd("lib/assets/certificate-dominum2.pem"),
        rd("lib/assets/certificate_chain.pem"),
        rd("lib/assets/cn-ne-san-cert.pem"),
        rd("lib/assets/multi-sni-cert.pem"),
        rd("lib/assets/local-certificate.pem"),
        rd("command/assets/certificate.pem"),
        rd("lib/assets/services.crt"),
        rd("lib/assets/key.pem"), // 10: PEM, not a certificate
        "this is not a pem".to_string(), // 11
        String::new(),            // 12
    ];
    // 13: certificate 0 with different surrounding whitespace: same DER, same fingerprint
    pem.push(format!("\n{}\n\n", pem[0].trim_end()));
    let mut hexes: Vec<Option<String>> = vec![];
    for p in &pem {
        hexes.push(calculate_fingerprint(p.as_bytes()).ok().map(|b| verif_hex(&b)));
    }
    let mut fp = vec![];
    for (i, h) in hexes.iter().enumerate() {
        fp.push(h.as_ref().map(|h| {
            let first = hexes.iter().position(|x| x.as_ref() == Some(h)).unwrap_or(i);
            (first as u64, h.clone())
        }));
    }
    let mut names: Vec<String> = vec![
        "override1.example".into(),
        "override2.example".into(),
        "*.override3.example".into(),
    ];
    let reals: Vec<Option<Vec<String>>> = pem.iter().map(|p| real_names(p)).collect();
    for r in reals.iter().flatten() {
        for n in r {
            if !names.contains(n) {
                names.push(n.clone());
            }
        }
    }
    let cn = reals
        .iter()
        .map(|r| r.as_ref().map(|v| v.iter().map(|n| names.iter().position(|x| x == n).unwrap() as u64).collect()))
        .collect();
    Pems { pem, fp, cn, names, key: rd("lib/assets/key.pem"), chain: rd("lib/assets/certificate_chain.pem") }
}

pub fn verif_hex(b: &[u8]) -> String {
    b.iter().map(|x| format!("{x:02x}")).collect()
}

impl Pems {
    pub fn pem_tok(&self, s: &str) -> u64 {
        self.pem.iter().position(|p| p == s).map(|i| i as u64).unwrap_or(9999)
    }
    pub fn name(&self, n: u64) -> String {
        self.names.get(n as usize).cloned().unwrap_or_else(|| format!("unknown{n}.example"))
    }
    pub fn name_tok(&self, s: &str) -> u64 {
        self.names.iter().position(|p| p == s).map(|i| i as u64).unwrap_or(9999)
    }
    /// fingerprint token -> hex string sent in Remove/ReplaceCertificate
    pub fn fp_hex(&self, t: u64) -> String {
        if t == 900 {
            return "00ff".into();
        }
        match self.fp.get(t as usize) {
            Some(Some((_, h))) => h.clone(),
            _ => "abcd".into(),
        }
    }
    pub fn fp_tok(&self, hex: &str) -> u64 {
        let h = hex.to_lowercase();
        if h == "00ff" {
            return 900;
        }
        for f in self.fp.iter().flatten() {
            if f.1 == h {
                return f.0;
            }
        }
        9999
    }
    pub fn cert(&self, pem: u64, names: &[u64], rest: u64) -> CertificateAndKey {
        let mut c = CertificateAndKey {
            certificate: self.pem.get(pem as usize).cloned().unwrap_or_else(|| format!("nopem{pem}")),
            certificate_chain: vec![],
            key: self.key.clone(),
            versions: vec![],
            names: names.iter().map(|n| self.name(*n)).collect(),
        };
        match rest {
            0 => {}
            1 => {
                c.certificate_chain = vec![self.chain.clone()];
                c.versions = vec![4];
                c.key = "Another Key".into();
            }
            2 => {
                c.certificate_chain = vec![self.chain.clone(), self.pem[1].clone()];
                c.key = "another key".into();
                c.versions = vec![4, 5];
            }
            _ => c.key = format!("key{rest}"),
        }
        c
    }
    pub fn cert_rest(&self, c: &CertificateAndKey) -> u64 {
        let pem = self.pem_tok(&c.certificate);
        let names: Vec<u64> = c.names.iter().map(|n| self.name_tok(n)).collect();
        for r in 0..4 {
            if &self.cert(pem, &names, r) == c {
                return r;
            }
        }
        9999
    }
    /// `<pem> <names> <rest> <fp> <cn>`
    pub fn cert_words(&self, c: &CertificateAndKey) -> Vec<String> {
        let pem = self.pem_tok(&c.certificate);
        let fp = match self.fp.get(pem as usize) {
            Some(Some((t, _))) => t.to_string(),
            _ => "x".into(),
        };
        let cn = match self.cn.get(pem as usize) {
            Some(Some(v)) => dotted(v),
            _ => "!".into(),
        };
        vec![
            pem.to_string(),
            dotted(&c.names.iter().map(|n| self.name_tok(n)).collect::<Vec<_>>()),
            self.cert_rest(c).to_string(),
            fp,
            cn,
        ]
    }
}

pub fn dotted(v: &[u64]) -> String {
    if v.is_empty() {
        "-".into()
    } else {
        v.iter().map(|x| x.to_string()).collect::<Vec<_>>().join(".")
    }
}

// ------------------------------------------------------ health checks etc. --

pub fn hc(tok: u64, valid: bool) -> HealthCheckConfig {
    let mk = |uri: &str, i, t, h, u, e| HealthCheckConfig {
        uri: uri.into(),
        interval: i,
        timeout: t,
        healthy_threshold: h,
        unhealthy_threshold: u,
        expected_status: e,
    };
    if valid {
        match tok {
            0 => mk("/health", 10, 5, 3, 3, 0),
            1 => mk("/h1", 1, 1, 1, 1, 200),
            _ => mk("/tab\tok", 2, 2, 2, 2, 204),
        }
    } else {
        match tok {
            0 => mk("/health", 0, 5, 3, 3, 0),
            1 => mk("nohealth", 10, 5, 3, 3, 0),
            2 => mk("/a\r\nX: y", 10, 5, 3, 3, 0),
            _ => mk("/health", 10, 5, 3, 0, 0),
        }
    }
}
/// `v<tok>` / `i<tok>`
pub fn hc_word(h: &HealthCheckConfig) -> String {
    for t in 0..4 {
        if &hc(t, true) == h {
            return format!("v{t}");
        }
    }
    for t in 0..4 {
        if &hc(t, false) == h {
            return format!("i{t}");
        }
    }
    "v9999".into()
}
pub fn parse_hc(w: &str) -> Option<Option<HealthCheckConfig>> {
    if w == "-" {
        return Some(None);
    }
    let t: u64 = w.get(1..)?.parse().ok()?;
    match &w[..1] {
        "v" => Some(Some(hc(t, true))),
        "i" => Some(Some(hc(t, false))),
        _ => None,
    }
}

/// `rest` tokens: 0 = every unmodelled field at its default; 1 and 2 set two disjoint halves of the
/// fields; 3 sets all of them to second values; 4 an unknown enum value. Every stored field thus
/// takes at least two distinct non-default values.
pub fn cluster(id: u64, h: Option<HealthCheckConfig>, rest: u64) -> Cluster {
    use sozu_command_lib::proto::command::{UdpClusterConfig, UdpHealthConfig};
    let mut c = Cluster { cluster_id: cid(id), health_check: h, ..Default::default() };
    let udp = |k: u32| UdpClusterConfig {
        affinity_key: Some(if k == 2 { 1 } else { 7 }),
        responses: Some(k),
        requests: Some(k + 1),
        send_proxy_protocol: Some(k % 2 == 1),
        proxy_protocol_every_datagram: Some(k % 2 == 0),
        health: Some(UdpHealthConfig {
            mode: Some(k as i32 - 1),
            tcp_port: Some(8000 + k),
            rise: Some(k),
            fall: Some(k + 2),
            fail_open: Some(k % 2 == 1),
            udp_probe_payload: Some(vec![k as u8, 0, 255]),
            probe_interval_seconds: Some(k + 5),
            probe_timeout_seconds: Some(k + 1),
        }),
    };
    if rest == 1 || rest == 3 {
        c.sticky_session = true;
        c.load_balancing = if rest == 1 { 1 } else { 3 };
        c.answer_503 = Some(if rest == 1 { "a503-1".into() } else { "Gone".into() });
        c.http2 = Some(rest == 1);
        c.answers.insert("503".into(), format!("x{rest}"));
        c.authorized_hashes = if rest == 1 { vec!["abc".into()] } else { vec!["ABC".into(), "def".into()] };
        c.max_connections_per_ip = Some(if rest == 1 { 7 } else { 1 });
    }
    if rest == 2 || rest == 3 {
        c.https_redirect = true;
        c.proxy_protocol = Some(if rest == 2 { 1 } else { 2 });
        c.load_metric = Some(if rest == 2 { 1 } else { 2 });
        c.https_redirect_port = Some(if rest == 2 { 8443 } else { 443 });
        c.www_authenticate = Some(if rest == 2 { "Basic".into() } else { "bearer realm=\"x\"".into() });
        c.retry_after = Some(if rest == 2 { 3 } else { 30 });
        c.udp = Some(udp(rest as u32));
        if rest == 2 {
            c.load_balancing = 5;
        }
    }
    if rest >= 4 {
        c.load_balancing = 77;
        c.answers.insert("404".into(), format!("r{rest}"));
    }
    c
}
pub fn cluster_rest(c: &Cluster) -> u64 {
    let id = cid_tok(&c.cluster_id);
    for r in 0..5 {
        if &cluster(id, c.health_check.clone(), r) == c {
            return r;
        }
    }
    9999
}

// ---------------------------------------------------------------- answers --

pub fn ans(n: u64) -> String { s_tok("ans", n) }

macro_rules! answers_fields {
    ($m:ident) => {
        $m!(answer_301, answer_400, answer_401, answer_404, answer_408, answer_413, answer_421,
            answer_502, answer_503, answer_504, answer_507, answer_429)
    };
}

pub fn answers_from(slots: &[Option<u64>]) -> CustomHttpAnswers {
    let mut a = CustomHttpAnswers::default();
    let mut i = 0;
    macro_rules! set { ($($f:ident),*) => { $( a.$f = slots.get(i).cloned().flatten().map(ans); i += 1; )* } }
    answers_fields!(set);
    let _ = i;
    a
}
pub fn answers_slots(a: &CustomHttpAnswers) -> Vec<Option<u64>> {
    let mut v = vec![];
    macro_rules! get { ($($f:ident),*) => { $( v.push(a.$f.as_ref().map(|s| tok_of("ans", s))); )* } }
    answers_fields!(get);
    v
}

pub fn slots_word(v: &[Option<u64>]) -> String {
    if v.is_empty() {
        return "-".into();
    }
    v.iter().map(|x| x.map(|n| n.to_string()).unwrap_or_else(|| "-".into())).collect::<Vec<_>>().join(",")
}
pub fn parse_slots(w: &str) -> Option<Vec<Option<u64>>> {
    if w == "-" {
        return Some(vec![]);
    }
    w.split(',').map(|x| if x == "-" { Some(None) } else { x.parse().ok().map(Some) }).collect()
}
pub fn answers_word(a: &Option<CustomHttpAnswers>) -> String {
    match a {
        None => "-".into(),
        Some(a) => slots_word(&answers_slots(a)),
    }
}
pub fn parse_answers(w: &str) -> Option<Option<CustomHttpAnswers>> {
    if w == "-" {
        return Some(None);
    }
    parse_slots(w).map(|s| Some(answers_from(&s)))
}

pub fn alpn_str(n: u64) -> String {
    match n {
        0 => "h2".into(),
        1 => "http/1.1".into(),
        _ => format!("bogus{n}"),
    }
}
pub fn alpn_tok(s: &str) -> u64 {
    match s {
        "h2" => 0,
        "http/1.1" => 1,
        _ => s.strip_prefix("bogus").and_then(|r| r.parse().ok()).unwrap_or(9999),
    }
}
pub fn nat_list_word(v: &[u64]) -> String {
    if v.is_empty() {
        "-".into()
    } else {
        v.iter().map(|x| x.to_string()).collect::<Vec<_>>().join(",")
    }
}
pub fn parse_nat_list(w: &str) -> Option<Vec<u64>> {
    if w == "-" {
        return Some(vec![]);
    }
    w.split(',').map(|x| x.parse().ok()).collect()
}

pub fn sid_word(s: &Option<String>) -> String {
    match s {
        None => "-".into(),
        Some(s) => format!("x{}", verif_hex(s.as_bytes())),
    }
}
pub fn parse_sid(w: &str) -> Option<Option<String>> {
    if w == "-" {
        return Some(None);
    }
    let h = w.strip_prefix('x')?;
    let bytes: Option<Vec<u8>> =
        (0..h.len() / 2).map(|i| u8::from_str_radix(h.get(2 * i..2 * i + 2)?, 16).ok()).collect();
    String::from_utf8(bytes?).ok().map(Some)
}

pub fn opt_word<T: ToString>(o: &Option<T>) -> String {
    o.as_ref().map(|x| x.to_string()).unwrap_or_else(|| "-".into())
}
pub fn b01(b: bool) -> String { (b as u8).to_string() }
pub fn optb_word(o: &Option<bool>) -> String {
    o.map(b01).unwrap_or_else(|| "-".into())
}
pub fn parse_opt_u64(w: &str) -> Option<Option<u64>> {
    if w == "-" { Some(None) } else { w.parse().ok().map(Some) }
}
pub fn parse_b(w: &str) -> Option<bool> {
    match w { "0" => Some(false), "1" => Some(true), _ => None }
}
pub fn parse_opt_b(w: &str) -> Option<Option<bool>> {
    if w == "-" { Some(None) } else { parse_b(w).map(Some) }
}

// ------------------------------------------------------------------ knobs --

/// the 18 h2 knobs in the order the patch functions write them
pub trait Knobs {
    fn kget(&self) -> Vec<Option<u64>>;
    fn kset(&mut self, k: &[Option<u64>]);
}
macro_rules! impl_knobs {
    ($($t:ty),*) => { $(
    impl Knobs for $t {
        fn kget(&self) -> Vec<Option<u64>> {
            vec![
                self.h2_max_rst_stream_per_window.map(|x| x as u64),
                self.h2_max_ping_per_window.map(|x| x as u64),
                self.h2_max_settings_per_window.map(|x| x as u64),
                self.h2_max_empty_data_per_window.map(|x| x as u64),
                self.h2_max_continuation_frames.map(|x| x as u64),
                self.h2_max_glitch_count.map(|x| x as u64),
                self.h2_initial_connection_window.map(|x| x as u64),
                self.h2_max_concurrent_streams.map(|x| x as u64),
                self.h2_stream_shrink_ratio.map(|x| x as u64),
                self.h2_max_rst_stream_lifetime.map(|x| x as u64),
                self.h2_max_rst_stream_abusive_lifetime.map(|x| x as u64),
                self.h2_max_rst_stream_emitted_lifetime.map(|x| x as u64),
                self.h2_max_header_list_size.map(|x| x as u64),
                self.h2_max_header_table_size.map(|x| x as u64),
                self.h2_max_header_fields.map(|x| x as u64),
                self.h2_stream_idle_timeout_seconds.map(|x| x as u64),
                self.h2_graceful_shutdown_deadline_seconds.map(|x| x as u64),
                self.h2_max_window_update_stream0_per_window.map(|x| x as u64),
            ]
        }
        fn kset(&mut self, k: &[Option<u64>]) {
            let g = |i: usize| k.get(i).cloned().flatten();
            self.h2_max_rst_stream_per_window = g(0).map(|x| x as _);
            self.h2_max_ping_per_window = g(1).map(|x| x as _);
            self.h2_max_settings_per_window = g(2).map(|x| x as _);
            self.h2_max_empty_data_per_window = g(3).map(|x| x as _);
            self.h2_max_continuation_frames = g(4).map(|x| x as _);
            self.h2_max_glitch_count = g(5).map(|x| x as _);
            self.h2_initial_connection_window = g(6).map(|x| x as _);
            self.h2_max_concurrent_streams = g(7).map(|x| x as _);
            self.h2_stream_shrink_ratio = g(8).map(|x| x as _);
            self.h2_max_rst_stream_lifetime = g(9).map(|x| x as _);
            self.h2_max_rst_stream_abusive_lifetime = g(10).map(|x| x as _);
            self.h2_max_rst_stream_emitted_lifetime = g(11).map(|x| x as _);
            self.h2_max_header_list_size = g(12).map(|x| x as _);
            self.h2_max_header_table_size = g(13).map(|x| x as _);
            self.h2_max_header_fields = g(14).map(|x| x as _);
            self.h2_stream_idle_timeout_seconds = g(15).map(|x| x as _);
            self.h2_graceful_shutdown_deadline_seconds = g(16).map(|x| x as _);
            self.h2_max_window_update_stream0_per_window = g(17).map(|x| x as _);
        }
    }
    )* };
}
impl_knobs!(HttpListenerConfig, HttpsListenerConfig, UpdateHttpListenerConfig, UpdateHttpsListenerConfig);
macro_rules! knobs_get { ($l:expr) => { $l.kget() }; }
macro_rules! knobs_set { ($l:expr, $k:expr) => { $l.kset(&$k) }; }

// -------------------------------------------------------------- listeners --

/// modelled fields of an http/https listener
#[derive(Clone, Debug, PartialEq)]
pub struct HL {
    pub addr: u64,
    pub public: Option<u64>,
    pub expect_proxy: bool,
    pub sticky: u64,
    pub ft: u32,
    pub bt: u32,
    pub ct: u32,
    pub rt: u32,
    pub active: bool,
    pub answers: Option<CustomHttpAnswers>,
    pub alpn: Vec<u64>,
    pub sni: Option<bool>,
    pub d11: Option<bool>,
    pub knobs: Vec<Option<u64>>,
    pub sid: Option<String>,
    pub rest: u64,
}

pub fn parse_hl(w: &[&str]) -> Option<HL> {
    if w.len() != 16 {
        return None;
    }
    Some(HL {
        addr: w[0].parse().ok()?,
        public: parse_opt_u64(w[1])?,
        expect_proxy: parse_b(w[2])?,
        sticky: w[3].parse().ok()?,
        ft: w[4].parse().ok()?,
        bt: w[5].parse().ok()?,
        ct: w[6].parse().ok()?,
        rt: w[7].parse().ok()?,
        active: parse_b(w[8])?,
        answers: parse_answers(w[9])?,
        alpn: parse_nat_list(w[10])?,
        sni: parse_opt_b(w[11])?,
        d11: parse_opt_b(w[12])?,
        knobs: parse_slots(w[13])?,
        sid: parse_sid(w[14])?,
        rest: w[15].parse().ok()?,
    })
}
pub fn hl_words(l: &HL) -> Vec<String> {
    vec![
        l.addr.to_string(),
        opt_word(&l.public),
        b01(l.expect_proxy),
        l.sticky.to_string(),
        l.ft.to_string(),
        l.bt.to_string(),
        l.ct.to_string(),
        l.rt.to_string(),
        b01(l.active),
        answers_word(&l.answers),
        nat_list_word(&l.alpn),
        optb_word(&l.sni),
        optb_word(&l.d11),
        slots_word(&l.knobs),
        sid_word(&l.sid),
        l.rest.to_string(),
    ]
}

pub fn http_listener(l: &HL) -> HttpListenerConfig {
    let mut c = HttpListenerConfig {
        address: sa(l.addr),
        public_address: l.public.map(sa),
        expect_proxy: l.expect_proxy,
        sticky_name: sname(l.sticky),
        front_timeout: l.ft,
        back_timeout: l.bt,
        connect_timeout: l.ct,
        request_timeout: l.rt,
        active: l.active,
        http_answers: l.answers.clone(),
        sozu_id_header: l.sid.clone(),
        ..Default::default()
    };
    knobs_set!(c, l.knobs);
    match l.rest {
        0 => {}
        1 => {
            c.answers.insert("404".into(), "nf".into());
            c.send_x_real_ip = Some(true);
            c.elide_x_real_ip = Some(true);
        }
        2 => {
            c.answers.insert("404".into(), "NF".into());
            c.answers.insert("503".into(), "r2".into());
            c.send_x_real_ip = Some(false);
            c.elide_x_real_ip = Some(false);
        }
        _ => {
            c.answers.insert("503".into(), format!("r{}", l.rest));
        }
    }
    c
}
pub fn hl_of_http(c: &HttpListenerConfig) -> HL {
    let mut l = HL {
        addr: sa_tok(&c.address),
        public: c.public_address.as_ref().map(sa_tok),
        expect_proxy: c.expect_proxy,
        sticky: sname_tok(&c.sticky_name),
        ft: c.front_timeout,
        bt: c.back_timeout,
        ct: c.connect_timeout,
        rt: c.request_timeout,
        active: c.active,
        answers: c.http_answers.clone(),
        alpn: vec![],
        sni: None,
        d11: None,
        knobs: knobs_get!(c),
        sid: c.sozu_id_header.clone(),
        rest: 9999,
    };
    for r in 0..4 {
        l.rest = r;
        if &http_listener(&l) == c {
            return l;
        }
    }
    l.rest = 9999;
    l
}

pub fn https_listener(l: &HL) -> HttpsListenerConfig {
    let mut c = HttpsListenerConfig {
        address: sa(l.addr),
        public_address: l.public.map(sa),
        expect_proxy: l.expect_proxy,
        sticky_name: sname(l.sticky),
        front_timeout: l.ft,
        back_timeout: l.bt,
        connect_timeout: l.ct,
        request_timeout: l.rt,
        active: l.active,
        http_answers: l.answers.clone(),
        alpn_protocols: l.alpn.iter().map(|n| alpn_str(*n)).collect(),
        strict_sni_binding: l.sni,
        disable_http11: l.d11,
        sozu_id_header: l.sid.clone(),
        ..Default::default()
    };
    knobs_set!(c, l.knobs);
    if l.rest == 1 || l.rest == 2 {
        let k = l.rest as u32;
        c.versions = if k == 1 { vec![4, 5] } else { vec![5] };
        c.cipher_list = vec![if k == 1 { "ECDHE-RSA-AES128-GCM-SHA256".into() } else { "ecdhe-rsa-aes256-gcm-sha384".into() }];
        c.cipher_suites = vec![format!("TLS13_AES_{}_GCM", 128 * k)];
        c.signature_algorithms = vec![if k == 1 { "ECDSA+SHA256".into() } else { "rsa_pss_rsae_sha256".into() }];
        c.groups_list = vec![if k == 1 { "x25519".into() } else { "P-256".into() }];
        c.certificate = Some(format!("default cert {k}"));
        c.key = Some(format!("Default Key {k}"));
        c.certificate_chain = vec![format!("chain {k}")];
        c.send_tls13_tickets = 2 * k as u64;
        c.hsts = Some(HstsConfig {
            enabled: Some(k == 1),
            max_age: Some(31536000 / k),
            include_subdomains: Some(k == 2),
            preload: Some(k == 1),
            force_replace_backend: Some(k == 2),
        });
        c.answers.insert("404".into(), if k == 1 { "nf".into() } else { "NF".into() });
        c.send_x_real_ip = Some(k == 1);
        c.elide_x_real_ip = Some(k == 2);
    } else if l.rest == 4 {
        // what `ListenerBuilder::to_tls` fills in: the TLS parameter lists a worker needs to build its context
        if let Ok(d) = sozu_command_lib::config::ListenerBuilder::new_https(sa(l.addr)).to_tls(None) {
            c.versions = d.versions;
            c.cipher_list = d.cipher_list;
            c.cipher_suites = d.cipher_suites;
            c.signature_algorithms = d.signature_algorithms;
            c.groups_list = d.groups_list;
            c.send_tls13_tickets = d.send_tls13_tickets;
        }
    } else if l.rest > 2 {
        c.cipher_suites = vec![format!("r{}", l.rest)];
    }
    c
}
pub fn hl_of_https(c: &HttpsListenerConfig) -> HL {
    let mut l = HL {
        addr: sa_tok(&c.address),
        public: c.public_address.as_ref().map(sa_tok),
        expect_proxy: c.expect_proxy,
        sticky: sname_tok(&c.sticky_name),
        ft: c.front_timeout,
        bt: c.back_timeout,
        ct: c.connect_timeout,
        rt: c.request_timeout,
        active: c.active,
        answers: c.http_answers.clone(),
        alpn: c.alpn_protocols.iter().map(|s| alpn_tok(s)).collect(),
        sni: c.strict_sni_binding,
        d11: c.disable_http11,
        knobs: knobs_get!(c),
        sid: c.sozu_id_header.clone(),
        rest: 9999,
    };
    for r in 0..5 {
        l.rest = r;
        if &https_listener(&l) == c {
            return l;
        }
    }
    l.rest = 9999;
    l
}

pub fn tcp_listener(w: &[&str]) -> Option<TcpListenerConfig> {
    if w.len() != 7 {
        return None;
    }
    Some(TcpListenerConfig {
        address: sa(w[0].parse().ok()?),
        public_address: parse_opt_u64(w[1])?.map(sa),
        expect_proxy: parse_b(w[2])?,
        front_timeout: w[3].parse().ok()?,
        back_timeout: w[4].parse().ok()?,
        connect_timeout: w[5].parse().ok()?,
        active: parse_b(w[6])?,
    })
}
pub fn tcp_words(c: &TcpListenerConfig) -> Vec<String> {
    vec![
        sa_tok(&c.address).to_string(),
        opt_word(&c.public_address.as_ref().map(sa_tok)),
        b01(c.expect_proxy),
        c.front_timeout.to_string(),
        c.back_timeout.to_string(),
        c.connect_timeout.to_string(),
        b01(c.active),
    ]
}
pub fn udp_listener(w: &[&str]) -> Option<UdpListenerConfig> {
    if w.len() != 7 {
        return None;
    }
    Some(UdpListenerConfig {
        address: sa(w[0].parse().ok()?),
        public_address: parse_opt_u64(w[1])?.map(sa),
        front_timeout: w[2].parse().ok()?,
        back_timeout: w[3].parse().ok()?,
        max_rx_datagram_size: w[4].parse().ok()?,
        max_flows: w[5].parse().ok()?,
        active: parse_b(w[6])?,
    })
}
pub fn udp_words(c: &UdpListenerConfig) -> Vec<String> {
    vec![
        sa_tok(&c.address).to_string(),
        opt_word(&c.public_address.as_ref().map(sa_tok)),
        c.front_timeout.to_string(),
        c.back_timeout.to_string(),
        c.max_rx_datagram_size.to_string(),
        c.max_flows.to_string(),
        b01(c.active),
    ]
}

// ----------------------------------------------------------------- fronts --

pub fn front_rest(f: &mut RequestHttpFrontend, rest: u64) {
    use sozu_command_lib::proto::command::Header;
    if rest == 1 || rest == 2 {
        let k = rest as u32;
        f.redirect = Some(k as i32);
        f.redirect_scheme = Some(k as i32);
        f.required_auth = Some(k == 1);
        f.redirect_template = Some(if k == 1 { "https://%HOST/%PATH".into() } else { "HTTP://other/%path".into() });
        f.rewrite_host = Some(if k == 1 { "rw.example".into() } else { "RW.Example".into() });
        f.rewrite_path = Some(if k == 1 { "/rw".into() } else { "/RW/".into() });
        f.rewrite_port = Some(8080 + k);
        f.headers = (0..k)
            .map(|i| Header { position: 1 + i as i32, key: if i == 0 { "X-Verif".into() } else { "x-verif".into() }, val: format!("v{k}{i}") })
            .collect();
        f.hsts = Some(HstsConfig {
            enabled: Some(k == 1),
            max_age: Some(60 * k),
            include_subdomains: Some(k == 2),
            preload: Some(k == 2),
            force_replace_backend: Some(k == 1),
        });
    } else if rest > 2 {
        f.redirect_template = Some(format!("tpl{rest}"));
    }
}
pub fn req_front(w: &[&str]) -> Option<RequestHttpFrontend> {
    if w.len() != 9 {
        return None;
    }
    let mut f = RequestHttpFrontend {
        cluster_id: parse_opt_u64(w[0])?.map(cid),
        address: sa(w[1].parse().ok()?),
        hostname: host(w[2].parse().ok()?),
        path: PathRule { kind: w[3].parse().ok()?, value: path(w[4].parse().ok()?) },
        method: parse_opt_u64(w[5])?.map(method),
        position: w[6].parse().ok()?,
        tags: tags(w[7].parse().ok()?),
        ..Default::default()
    };
    front_rest(&mut f, w[8].parse().ok()?);
    Some(f)
}
pub fn req_front_words(f: &RequestHttpFrontend) -> Vec<String> {
    let mut rest = 9999;
    for r in 0..4 {
        let mut g = RequestHttpFrontend {
            cluster_id: f.cluster_id.clone(),
            address: f.address,
            hostname: f.hostname.clone(),
            path: f.path.clone(),
            method: f.method.clone(),
            position: f.position,
            tags: f.tags.clone(),
            ..Default::default()
        };
        front_rest(&mut g, r);
        if &g == f {
            rest = r;
            break;
        }
    }
    vec![
        opt_word(&f.cluster_id.as_ref().map(|c| cid_tok(c))),
        sa_tok(&f.address).to_string(),
        host_tok(&f.hostname).to_string(),
        f.path.kind.to_string(),
        path_tok(&f.path.value).to_string(),
        opt_word(&f.method.as_ref().map(|m| method_tok(m))),
        f.position.to_string(),
        tags_tok(&f.tags).to_string(),
        rest.to_string(),
    ]
}
/// stored `HttpFrontend` in the dump: same words, `tags` optional
pub fn stored_front_words(f: &HttpFrontend) -> Vec<String> {
    let r: RequestHttpFrontend = f.clone().into();
    let mut w = req_front_words(&r);
    w[7] = match &f.tags {
        None => "-".into(),
        Some(t) => tags_tok(t).to_string(),
    };
    w
}
/// real route key -> model key syntax
pub fn key_word(k: &str) -> String {
    if let Some(r) = k.strip_prefix("Wrong variant of PathRuleKind: ") {
        // "<message containing the value>[;method]"
        let (msg, m) = match r.split_once(';') {
            Some((a, b)) => (a, Some(b)),
            None => (r, None),
        };
        let kind: String = msg.chars().filter(|c| c.is_ascii_digit()).collect();
        return format!("W{};{}", kind, opt_word(&m.map(|m| method_tok(m))));
    }
    let parts: Vec<&str> = k.split(';').collect();
    if parts.len() < 3 {
        return format!("?{k}");
    }
    let a: Option<SocketAddr> = parts[0].parse().ok();
    let (kind, p) = match parts[2].chars().next() {
        Some('P') => (0, &parts[2][1..]),
        Some('R') => (1, &parts[2][1..]),
        Some('=') => (2, &parts[2][1..]),
        _ => (9999, parts[2]),
    };
    format!(
        "{};{};{};{};{}",
        a.map(|a| addr_tok(&a)).unwrap_or(9999),
        host_tok(parts[1]),
        kind,
        path_tok(p),
        opt_word(&parts.get(3).map(|m| method_tok(m)))
    )
}

pub fn tf_words(cluster: &str, a: u64, t: &BTreeMap<String, String>) -> Vec<String> {
    vec![cid_tok(cluster).to_string(), a.to_string(), tags_tok(t).to_string()]
}

pub fn backend_words(cluster: &str, id: &str, a: u64, sticky: &Option<String>, lb: &Option<LoadBalancingParams>, backup: &Option<bool>) -> Vec<String> {
    vec![
        cid_tok(cluster).to_string(),
        bid_tok(id).to_string(),
        a.to_string(),
        opt_word(&sticky.as_ref().map(|s| sticky_id_tok(s))),
        lb.as_ref().map(|l| format!("w{}", l.weight)).unwrap_or_else(|| "-".into()),
        optb_word(backup),
    ]
}

// -------------------------------------------------- op line <-> Request --

fn ltype(w: &str) -> Option<i32> {
    let n: i32 = w.parse().ok()?;
    Some(if (0..4).contains(&n) { n } else { 42 })
}
fn ltype_word(p: i32) -> String {
    if (0..4).contains(&p) { p.to_string() } else { "9".into() }
}

macro_rules! patch_shared {
    ($p:expr, $w:expr) => {{
        $p.address = sa($w[0].parse().ok()?);
        $p.public_address = parse_opt_u64($w[1])?.map(sa);
        $p.expect_proxy = parse_opt_b($w[2])?;
        $p.sticky_name = parse_opt_u64($w[3])?.map(|n| sname(n));
        $p.front_timeout = parse_opt_u64($w[4])?.map(|n| n as u32);
        $p.back_timeout = parse_opt_u64($w[5])?.map(|n| n as u32);
        $p.connect_timeout = parse_opt_u64($w[6])?.map(|n| n as u32);
        $p.request_timeout = parse_opt_u64($w[7])?.map(|n| n as u32);
        $p.http_answers = parse_answers($w[8])?;
    }};
}
macro_rules! patch_shared_words {
    ($p:expr) => {
        vec![
            sa_tok(&$p.address).to_string(),
            opt_word(&$p.public_address.as_ref().map(sa_tok)),
            optb_word(&$p.expect_proxy),
            opt_word(&$p.sticky_name.as_ref().map(|s| sname_tok(s))),
            opt_word(&$p.front_timeout),
            opt_word(&$p.back_timeout),
            opt_word(&$p.connect_timeout),
            opt_word(&$p.request_timeout),
            answers_word(&$p.http_answers),
        ]
    };
}
macro_rules! patch_ign {
    ($p:expr, $n:expr) => {
        if $n > 0 {
            $p.answers.insert("404".into(), format!("ignored{}", $n));
            $p.elide_x_real_ip = Some(true);
            $p.send_x_real_ip = Some($n % 2 == 0);
        }
    };
}
macro_rules! patch_ign_word {
    ($p:expr) => {
        $p.answers
            .get("404")
            .and_then(|s| s.strip_prefix("ignored"))
            .and_then(|r| r.parse::<u64>().ok())
            .unwrap_or(0)
            .to_string()
    };
}

pub fn parse_cmd(pems: &Pems, w: &[&str]) -> Option<Request> {
    let rt = match (w[0], &w[1..]) {
        ("addcluster", [id, h, rest]) => {
            RequestType::AddCluster(cluster(id.parse().ok()?, parse_hc(h)?, rest.parse().ok()?))
        }
        ("rmcluster", [id]) => RequestType::RemoveCluster(cid(id.parse().ok()?)),
        ("sethc", [id, h]) => RequestType::SetHealthCheck(SetHealthCheck {
            cluster_id: cid(id.parse().ok()?),
            config: parse_hc(h)??,
        }),
        ("rmhc", [id]) => RequestType::RemoveHealthCheck(cid(id.parse().ok()?)),
        ("addhttpl", r) => RequestType::AddHttpListener(http_listener(&parse_hl(r)?)),
        ("addhttpsl", r) => RequestType::AddHttpsListener(https_listener(&parse_hl(r)?)),
        ("addtcpl", r) => RequestType::AddTcpListener(tcp_listener(r)?),
        ("addudpl", r) => RequestType::AddUdpListener(udp_listener(r)?),
        ("rmlistener", [t, a]) => RequestType::RemoveListener(RemoveListener {
            address: sa(a.parse().ok()?),
            proxy: ltype(t)?,
        }),
        ("activate", [t, a]) => RequestType::ActivateListener(ActivateListener {
            address: sa(a.parse().ok()?),
            proxy: ltype(t)?,
            from_scm: false,
        }),
        ("deactivate", [t, a]) => RequestType::DeactivateListener(DeactivateListener {
            address: sa(a.parse().ok()?),
            proxy: ltype(t)?,
            to_scm: false,
        }),
        ("addhttpf", r) => RequestType::AddHttpFrontend(req_front(r)?),
        ("rmhttpf", r) => RequestType::RemoveHttpFrontend(req_front(r)?),
        ("addhttpsf", r) => RequestType::AddHttpsFrontend(req_front(r)?),
        ("rmhttpsf", r) => RequestType::RemoveHttpsFrontend(req_front(r)?),
        ("addcert", [a, pem, names, rest, _fp, _cn]) => RequestType::AddCertificate(AddCertificate {
            address: sa(a.parse().ok()?),
            certificate: pems.cert(pem.parse().ok()?, &parse_dotted(names)?, rest.parse().ok()?),
            expired_at: None,
        }),
        ("rmcert", [a, fp]) => RequestType::RemoveCertificate(RemoveCertificate {
            address: sa(a.parse().ok()?),
            fingerprint: if *fp == "x" { "zz-not-hex".into() } else { pems.fp_hex(fp.parse().ok()?) },
        }),
        ("replcert", [a, old, pem, names, rest, _fp, _cn]) => {
            RequestType::ReplaceCertificate(ReplaceCertificate {
                address: sa(a.parse().ok()?),
                new_certificate: pems.cert(pem.parse().ok()?, &parse_dotted(names)?, rest.parse().ok()?),
                old_fingerprint: if *old == "x" { "zz-not-hex".into() } else { pems.fp_hex(old.parse().ok()?) },
                new_expired_at: None,
            })
        }
        ("addtcpf", [c, a, t]) => RequestType::AddTcpFrontend(RequestTcpFrontend {
            cluster_id: cid(c.parse().ok()?),
            address: sa(a.parse().ok()?),
            tags: tags(t.parse().ok()?),
        }),
        ("rmtcpf", [c, a, t]) => RequestType::RemoveTcpFrontend(RequestTcpFrontend {
            cluster_id: cid(c.parse().ok()?),
            address: sa(a.parse().ok()?),
            tags: tags(t.parse().ok()?),
        }),
        ("addudpf", [c, a, t]) => RequestType::AddUdpFrontend(RequestUdpFrontend {
            cluster_id: cid(c.parse().ok()?),
            address: sa(a.parse().ok()?),
            tags: tags(t.parse().ok()?),
        }),
        ("rmudpf", [c, a, t]) => RequestType::RemoveUdpFrontend(RequestUdpFrontend {
            cluster_id: cid(c.parse().ok()?),
            address: sa(a.parse().ok()?),
            tags: tags(t.parse().ok()?),
        }),
        ("addbackend", [c, b, a, st, wt, bk]) => RequestType::AddBackend(AddBackend {
            cluster_id: cid(c.parse().ok()?),
            backend_id: bid(b.parse().ok()?),
            address: sa(a.parse().ok()?),
            sticky_id: parse_opt_u64(st)?.map(|n| sticky_id(n)),
            load_balancing_parameters: if *wt == "-" {
                None
            } else {
                Some(LoadBalancingParams { weight: wt.strip_prefix('w')?.parse().ok()? })
            },
            backup: parse_opt_b(bk)?,
        }),
        ("rmbackend", [c, b, a]) => RequestType::RemoveBackend(RemoveBackend {
            cluster_id: cid(c.parse().ok()?),
            backend_id: bid(b.parse().ok()?),
            address: sa(a.parse().ok()?),
        }),
        ("updhttpl", r) if r.len() == 12 => {
            let mut p = UpdateHttpListenerConfig::default();
            patch_shared!(p, r);
            let ks = parse_slots(r[9])?;
            knobs_set!(p, ks);
            p.sozu_id_header = parse_sid(r[10])?;
            let ign: u64 = r[11].parse().ok()?;
            patch_ign!(p, ign);
            RequestType::UpdateHttpListener(p)
        }
        ("updhttpsl", r) if r.len() == 15 => {
            let mut p = UpdateHttpsListenerConfig::default();
            patch_shared!(p, r);
            p.alpn_protocols = match r[9] {
                "-" => None,
                "e" => Some(AlpnProtocols { values: vec![] }),
                l => Some(AlpnProtocols { values: parse_nat_list(l)?.iter().map(|n| alpn_str(*n)).collect() }),
            };
            p.strict_sni_binding = parse_opt_b(r[10])?;
            p.disable_http11 = parse_opt_b(r[11])?;
            let ks = parse_slots(r[12])?;
            knobs_set!(p, ks);
            p.sozu_id_header = parse_sid(r[13])?;
            let ign: u64 = r[14].parse().ok()?;
            patch_ign!(p, ign);
            if ign > 0 {
                // another patch field the code never reads
                p.hsts = Some(HstsConfig { enabled: Some(ign % 2 == 1), max_age: Some(ign as u32), include_subdomains: Some(ign % 2 == 0),
                                           preload: Some(ign == 1), force_replace_backend: Some(ign == 2) });
            }
            RequestType::UpdateHttpsListener(p)
        }
        ("updtcpl", [a, pu, ep, ft, bt, ct]) => RequestType::UpdateTcpListener(UpdateTcpListenerConfig {
            address: sa(a.parse().ok()?),
            public_address: parse_opt_u64(pu)?.map(sa),
            expect_proxy: parse_opt_b(ep)?,
            front_timeout: parse_opt_u64(ft)?.map(|n| n as u32),
            back_timeout: parse_opt_u64(bt)?.map(|n| n as u32),
            connect_timeout: parse_opt_u64(ct)?.map(|n| n as u32),
        }),
        ("updudpl", [a, pu, ft, bt, mr, mf]) => RequestType::UpdateUdpListener(UpdateUdpListenerConfig {
            address: sa(a.parse().ok()?),
            public_address: parse_opt_u64(pu)?.map(sa),
            front_timeout: parse_opt_u64(ft)?.map(|n| n as u32),
            back_timeout: parse_opt_u64(bt)?.map(|n| n as u32),
            max_rx_datagram_size: parse_opt_u64(mr)?.map(|n| n as u32),
            max_flows: parse_opt_u64(mf)?.map(|n| n as u32),
        }),
        ("other", ["1"]) => RequestType::Status(Status {}),
        ("other", ["0"]) => RequestType::SaveState("/nonexistent/verif".into()),
        ("empty", []) => return Some(Request { request_type: None }),
        _ => return None,
    };
    Some(Request { request_type: Some(rt) })
}

pub fn parse_dotted(w: &str) -> Option<Vec<u64>> {
    if w == "-" {
        return Some(vec![]);
    }
    w.split('.').map(|x| x.parse().ok()).collect()
}

/// canonical words of a request (the op-line syntax)
pub fn cmd_words(pems: &Pems, r: &Request) -> Vec<String> {
    let s = |x: &str| x.to_string();
    let mut v: Vec<String>;
    match &r.request_type {
        None => return vec![s("empty")],
        Some(RequestType::AddCluster(c)) => {
            v = vec![s("addcluster"), cid_tok(&c.cluster_id).to_string(),
                     c.health_check.as_ref().map(hc_word).unwrap_or_else(|| s("-")), cluster_rest(c).to_string()];
        }
        Some(RequestType::RemoveCluster(id)) => v = vec![s("rmcluster"), cid_tok(id).to_string()],
        Some(RequestType::SetHealthCheck(h)) => {
            v = vec![s("sethc"), cid_tok(&h.cluster_id).to_string(), hc_word(&h.config)]
        }
        Some(RequestType::RemoveHealthCheck(id)) => v = vec![s("rmhc"), cid_tok(id).to_string()],
        Some(RequestType::AddHttpListener(l)) => {
            v = vec![s("addhttpl")];
            v.extend(hl_words(&hl_of_http(l)));
        }
        Some(RequestType::AddHttpsListener(l)) => {
            v = vec![s("addhttpsl")];
            v.extend(hl_words(&hl_of_https(l)));
        }
        Some(RequestType::AddTcpListener(l)) => {
            v = vec![s("addtcpl")];
            v.extend(tcp_words(l));
        }
        Some(RequestType::AddUdpListener(l)) => {
            v = vec![s("addudpl")];
            v.extend(udp_words(l));
        }
        Some(RequestType::RemoveListener(x)) => {
            v = vec![s("rmlistener"), ltype_word(x.proxy), sa_tok(&x.address).to_string()]
        }
        Some(RequestType::ActivateListener(x)) => {
            v = vec![s("activate"), ltype_word(x.proxy), sa_tok(&x.address).to_string()]
        }
        Some(RequestType::DeactivateListener(x)) => {
            v = vec![s("deactivate"), ltype_word(x.proxy), sa_tok(&x.address).to_string()]
        }
        Some(RequestType::AddHttpFrontend(f)) => {
            v = vec![s("addhttpf")];
            v.extend(req_front_words(f));
        }
        Some(RequestType::RemoveHttpFrontend(f)) => {
            v = vec![s("rmhttpf")];
            v.extend(req_front_words(f));
        }
        Some(RequestType::AddHttpsFrontend(f)) => {
            v = vec![s("addhttpsf")];
            v.extend(req_front_words(f));
        }
        Some(RequestType::RemoveHttpsFrontend(f)) => {
            v = vec![s("rmhttpsf")];
            v.extend(req_front_words(f));
        }
        Some(RequestType::AddCertificate(a)) => {
            v = vec![s("addcert"), sa_tok(&a.address).to_string()];
            v.extend(pems.cert_words(&a.certificate));
        }
        Some(RequestType::RemoveCertificate(x)) => {
            let t = pems.fp_tok(&x.fingerprint);
            v = vec![s("rmcert"), sa_tok(&x.address).to_string(),
                     if x.fingerprint == "zz-not-hex" { s("x") } else { t.to_string() }];
        }
        Some(RequestType::ReplaceCertificate(x)) => {
            let t = pems.fp_tok(&x.old_fingerprint);
            v = vec![s("replcert"), sa_tok(&x.address).to_string(),
                     if x.old_fingerprint == "zz-not-hex" { s("x") } else { t.to_string() }];
            v.extend(pems.cert_words(&x.new_certificate));
        }
        Some(RequestType::AddTcpFrontend(f)) => {
            v = vec![s("addtcpf")];
            v.extend(tf_words(&f.cluster_id, sa_tok(&f.address), &f.tags));
        }
        Some(RequestType::RemoveTcpFrontend(f)) => {
            v = vec![s("rmtcpf")];
            v.extend(tf_words(&f.cluster_id, sa_tok(&f.address), &f.tags));
        }
        Some(RequestType::AddUdpFrontend(f)) => {
            v = vec![s("addudpf")];
            v.extend(tf_words(&f.cluster_id, sa_tok(&f.address), &f.tags));
        }
        Some(RequestType::RemoveUdpFrontend(f)) => {
            v = vec![s("rmudpf")];
            v.extend(tf_words(&f.cluster_id, sa_tok(&f.address), &f.tags));
        }
        Some(RequestType::AddBackend(b)) => {
            v = vec![s("addbackend")];
            v.extend(backend_words(&b.cluster_id, &b.backend_id, sa_tok(&b.address), &b.sticky_id,
                                   &b.load_balancing_parameters, &b.backup));
        }
        Some(RequestType::RemoveBackend(b)) => {
            v = vec![s("rmbackend"), cid_tok(&b.cluster_id).to_string(),
                     bid_tok(&b.backend_id).to_string(), sa_tok(&b.address).to_string()];
        }
        Some(RequestType::UpdateHttpListener(p)) => {
            v = vec![s("updhttpl")];
            v.extend(patch_shared_words!(p));
            v.push(slots_word(&knobs_get!(p)));
            v.push(sid_word(&p.sozu_id_header));
            v.push(patch_ign_word!(p));
        }
        Some(RequestType::UpdateHttpsListener(p)) => {
            v = vec![s("updhttpsl")];
            v.extend(patch_shared_words!(p));
            v.push(match &p.alpn_protocols {
                None => s("-"),
                Some(a) if a.values.is_empty() => s("e"),
                Some(a) => nat_list_word(&a.values.iter().map(|x| alpn_tok(x)).collect::<Vec<_>>()),
            });
            v.push(optb_word(&p.strict_sni_binding));
            v.push(optb_word(&p.disable_http11));
            v.push(slots_word(&knobs_get!(p)));
            v.push(sid_word(&p.sozu_id_header));
            v.push(patch_ign_word!(p));
        }
        Some(RequestType::UpdateTcpListener(p)) => {
            v = vec![s("updtcpl"), sa_tok(&p.address).to_string(),
                     opt_word(&p.public_address.as_ref().map(sa_tok)), optb_word(&p.expect_proxy),
                     opt_word(&p.front_timeout), opt_word(&p.back_timeout), opt_word(&p.connect_timeout)];
        }
        Some(RequestType::UpdateUdpListener(p)) => {
            v = vec![s("updudpl"), sa_tok(&p.address).to_string(),
                     opt_word(&p.public_address.as_ref().map(sa_tok)), opt_word(&p.front_timeout),
                     opt_word(&p.back_timeout), opt_word(&p.max_rx_datagram_size), opt_word(&p.max_flows)];
        }
        Some(RequestType::Status(_)) => v = vec![s("other"), s("1")],
        Some(_) => v = vec![s("other"), s("0")],
    }
    v
}

pub fn cmds_str(pems: &Pems, rs: &[Request]) -> String {
    if rs.is_empty() {
        return "-".into();
    }
    let mut v: Vec<String> = rs.iter().map(|r| cmd_words(pems, r).join("~")).collect();
    v.sort();
    v.join("|")
}

// ------------------------------------------------------------------- dump --

pub fn dump(pems: &Pems, s: &ConfigState) -> String {
    let mut e: Vec<String> = vec![];
    for (k, c) in &s.clusters {
        e.push(format!(
            "C{}:{}:{}:{}",
            cid_tok(k),
            cid_tok(&c.cluster_id),
            c.health_check.as_ref().map(hc_word).unwrap_or_else(|| "-".into()),
            cluster_rest(c)
        ));
    }
    for (k, l) in &s.backends {
        let bs: Vec<String> = l
            .iter()
            .map(|b: &Backend| {
                backend_words(&b.cluster_id, &b.backend_id, addr_tok(&b.address), &b.sticky_id,
                              &b.load_balancing_parameters, &b.backup).join("/")
            })
            .collect();
        e.push(format!("B{}:[{}]", cid_tok(k), bs.join(";")));
    }
    for (k, l) in &s.http_listeners {
        e.push(format!("H{}:{}", addr_tok(k), hl_words(&hl_of_http(l)).join(":")));
    }
    for (k, l) in &s.https_listeners {
        e.push(format!("S{}:{}", addr_tok(k), hl_words(&hl_of_https(l)).join(":")));
    }
    for (k, l) in &s.tcp_listeners {
        e.push(format!("T{}:{}", addr_tok(k), tcp_words(l).join(":")));
    }
    for (k, l) in &s.udp_listeners {
        e.push(format!("U{}:{}", addr_tok(k), udp_words(l).join(":")));
    }
    for (k, f) in &s.http_fronts {
        e.push(format!("F{}={}", key_word(k), stored_front_words(f).join(":")));
    }
    for (k, f) in &s.https_fronts {
        e.push(format!("G{}={}", key_word(k), stored_front_words(f).join(":")));
    }
    for (k, l) in &s.tcp_fronts {
        let mut fs: Vec<String> =
            l.iter().map(|f: &TcpFrontend| tf_words(&f.cluster_id, addr_tok(&f.address), &f.tags).join("/")).collect();
        fs.sort();
        e.push(format!("X{}:[{}]", cid_tok(k), fs.join(";")));
    }
    for (k, l) in &s.udp_fronts {
        let mut fs: Vec<String> =
            l.iter().map(|f: &UdpFrontend| tf_words(&f.cluster_id, addr_tok(&f.address), &f.tags).join("/")).collect();
        fs.sort();
        e.push(format!("Y{}:[{}]", cid_tok(k), fs.join(";")));
    }
    for (k, m) in &s.certificates {
        let mut cs: Vec<(u64, String)> = m
            .iter()
            .map(|(fp, c)| {
                let t = pems.fp_tok(&fp.to_string());
                (t, format!("{}={}", t, pems.cert_words(c)[..3].join("/")))
            })
            .collect();
        cs.sort();
        e.push(format!("K{}:[{}]", addr_tok(k), cs.into_iter().map(|x| x.1).collect::<Vec<_>>().join(";")));
    }
    if e.is_empty() {
        return "-".into();
    }
    e.sort();
    e.join(" ")
}
