//! Command-line generator of the State area (op lines in the State codec's syntax), shared by
//! `bin/state.rs` (in-process, model-compared) and `bin/stateworker.rs` (real worker).
#![allow(dead_code)]
use std::collections::BTreeSet;

use super::codec::*;
use super::pems;
use verif_harness::Rng;

// -------------------------------------------------------------- generator --

pub const KN: &str = "-,-,-,-,-,-,-,-,-,-,-,-,-,-,-,-,-,-";

pub struct Shadow {
    pub addrs: Vec<u64>,
    pub listeners: [BTreeSet<u64>; 4],
    pub clusters: BTreeSet<u64>,
    pub backends: BTreeSet<(u64, u64, u64)>,
    pub certs: BTreeSet<(u64, u64)>,
    pub fronts: Vec<String>,
    pub tfs: BTreeSet<(bool, u64, u64, u64)>,
}

pub fn knob_min(i: usize) -> u64 {
    if i == 6 || i == 15 || i == 16 { 0 } else if i == 8 { 2 } else { 1 }
}

pub fn g_opt(rng: &mut Rng, p: u64, f: impl FnOnce(&mut Rng) -> String) -> String {
    if rng.chance(p, 100) { f(rng) } else { "-".into() }
}
pub fn g_addr(rng: &mut Rng, sh: &Shadow) -> u64 {
    let a = *rng.pick(&sh.addrs);
    if rng.chance(1, 12) { a + 16 } else { a }
}
pub fn g_answers(rng: &mut Rng) -> String {
    if rng.chance(3, 4) {
        return "-".into();
    }
    (0..12).map(|_| if rng.chance(1, 4) { rng.below(3).to_string() } else { "-".into() }).collect::<Vec<_>>().join(",")
}
pub fn g_knobs(rng: &mut Rng, dens: u64, bad_at: Option<usize>) -> String {
    (0..NKNOBS)
        .map(|i| {
            if bad_at == Some(i) {
                (knob_min(i) - 1).to_string()
            } else if rng.chance(dens, 100) {
                (knob_min(i) + rng.below(3) * 7).to_string()
            } else {
                "-".into()
            }
        })
        .collect::<Vec<_>>()
        .join(",")
}
pub const GOOD_SID: [&str; 3] = ["Sozu-Id", "x", "X-Req.1~"];
pub const BAD_SID: [&str; 5] = ["", "a:b", "a b", "h\u{e9}", "a\r\n"];
pub fn sidw(s: &str) -> String {
    format!("x{}", verif_hex(s.as_bytes()))
}

pub fn g_httpl(rng: &mut Rng, sh: &Shadow, https: bool) -> String {
    let a = g_addr(rng, sh);
    let alpn = if https && rng.chance(1, 3) { ["0", "1", "0,1", "1,0"][rng.below(4) as usize].to_string() } else { "-".into() };
    format!(
        "{} {} {} {} {} {} {} {} {} {} {} {} {} {} {} {} {}",
        if https { "addhttpsl" } else { "addhttpl" },
        a,
        g_opt(rng, 20, |r| r.below(20).to_string()),
        rng.below(2),
        rng.below(3),
        *rng.pick(&[60u64, 5, 0]),
        *rng.pick(&[30u64, 7]),
        *rng.pick(&[3u64, 4, 1]),
        *rng.pick(&[10u64, 12, 2]),
        rng.below(2),
        g_answers(rng),
        alpn,
        if https { g_opt(rng, 20, |r| r.below(2).to_string()) } else { "-".into() },
        if https { g_opt(rng, 20, |r| r.below(2).to_string()) } else { "-".into() },
        if rng.chance(1, 3) { g_knobs(rng, 20, None) } else { KN.to_string() },
        g_opt(rng, 15, |r| sidw(*r.pick(&GOOD_SID[..]))),
        rng.below(4)
    )
}

/// listener patch; `bad`: 0 none, 1 knob below minimum, 2 alpn unknown (https), 3 sozu_id_header invalid
pub fn g_patch(rng: &mut Rng, a: u64, https: bool, bad: u64) -> String {
    let dens = *rng.pick(&[0u64, 30, 60, 100]);
    let bad_knob = if bad == 1 {
        let cands: Vec<usize> = (0..NKNOBS).filter(|i| knob_min(*i) > 0).collect();
        Some(*rng.pick(&cands))
    } else {
        None
    };
    let mut w = vec![
        (if https { "updhttpsl" } else { "updhttpl" }).to_string(),
        a.to_string(),
        g_opt(rng, dens / 2, |r| r.below(20).to_string()),
        g_opt(rng, dens, |r| r.below(2).to_string()),
        g_opt(rng, dens, |r| r.below(3).to_string()),
        g_opt(rng, dens, |r| r.pick(&[5u64, 61, 0]).to_string()),
        g_opt(rng, dens, |r| r.pick(&[31u64, 8]).to_string()),
        g_opt(rng, dens, |r| r.pick(&[4u64, 9]).to_string()),
        g_opt(rng, dens, |r| r.pick(&[11u64, 2]).to_string()),
        if rng.chance(dens, 200) { (0..12).map(|_| if rng.chance(1, 3) { rng.below(3).to_string() } else { "-".into() }).collect::<Vec<_>>().join(",") } else { "-".into() },
    ];
    if https {
        w.push(if bad == 2 {
            ["5", "0,5", "5,1", "1,0,7"][rng.below(4) as usize].to_string()
        } else if rng.chance(dens, 150) {
            ["e", "0", "1", "0,1"][rng.below(4) as usize].to_string()
        } else {
            "-".into()
        });
        w.push(g_opt(rng, dens, |r| r.below(2).to_string()));
        w.push(g_opt(rng, dens, |r| r.below(2).to_string()));
    }
    w.push(g_knobs(rng, dens / 2, bad_knob));
    w.push(if bad == 3 { sidw(*rng.pick(&BAD_SID[..])) } else { g_opt(rng, dens / 2, |r| sidw(*r.pick(&GOOD_SID[..]))) });
    w.push(if rng.chance(1, 5) { (1 + rng.below(3)).to_string() } else { "0".into() });
    w.join(" ")
}

pub fn g_front(rng: &mut Rng, sh: &Shadow) -> String {
    format!(
        "{} {} {} {} {} {} {} {} {}",
        g_opt(rng, 80, |r| r.below(4).to_string()),
        g_addr(rng, sh),
        rng.below(4),
        if rng.chance(1, 25) { 7 } else { rng.below(3) },
        rng.below(6),
        g_opt(rng, 45, |r| r.below(6).to_string()),
        if rng.chance(1, 25) { 9 } else { rng.below(3) },
        rng.below(4),
        rng.below(4)
    )
}

pub fn g_cert(rng: &mut Rng) -> String {
    let pem = if rng.chance(1, 6) { 10 + rng.below(3) } else if rng.chance(1, 8) { 13 } else { rng.below(10) };
    let names = if rng.chance(1, 3) { dotted(&(0..1 + rng.below(2)).map(|_| rng.below(3)).collect::<Vec<_>>()) } else { "-".into() };
    let rest = rng.below(4);
    let p = pems();
    let c = p.cert(pem, &parse_dotted(&names).unwrap(), rest);
    p.cert_words(&c).join(" ")
}

/// one command line; `invalid_bias` in percent
pub fn g_cmd(rng: &mut Rng, sh: &mut Shadow, bias: u64) -> String {
    let bad = rng.chance(bias, 100);
    let k = rng.below(100);
    let pick_l = |rng: &mut Rng, sh: &Shadow, t: usize| -> Option<u64> {
        let v: Vec<u64> = sh.listeners[t].iter().cloned().collect();
        if v.is_empty() { None } else { Some(*rng.pick(&v)) }
    };
    if k < 8 {
        let id = rng.below(5);
        let h = if bad { format!("i{}", rng.below(4)) } else { g_opt(rng, 30, |r| format!("v{}", r.below(3))) };
        if !bad { sh.clusters.insert(id); }
        format!("addcluster {id} {h} {}", rng.below(5))
    } else if k < 11 {
        let id = rng.below(5);
        sh.clusters.remove(&id);
        format!("rmcluster {id}")
    } else if k < 15 {
        format!("sethc {} {}", rng.below(5), if bad { format!("i{}", rng.below(4)) } else { format!("v{}", rng.below(3)) })
    } else if k < 17 {
        format!("rmhc {}", rng.below(5))
    } else if k < 23 {
        let https = rng.chance(1, 2);
        let l = g_httpl(rng, sh, https);
        let a: u64 = l.split(' ').nth(1).unwrap().parse().unwrap();
        sh.listeners[https as usize].insert(a % 16);
        l
    } else if k < 26 {
        let a = g_addr(rng, sh);
        sh.listeners[2].insert(a % 16);
        format!("addtcpl {a} {} {} {} {} {} {}", g_opt(rng, 20, |r| r.below(20).to_string()), rng.below(2),
                *rng.pick(&[60u64, 5]), *rng.pick(&[30u64, 7]), *rng.pick(&[3u64, 1]), rng.below(2))
    } else if k < 29 {
        let a = g_addr(rng, sh);
        sh.listeners[3].insert(a % 16);
        format!("addudpl {a} {} {} {} {} {} {}", g_opt(rng, 20, |r| r.below(20).to_string()), *rng.pick(&[30u64, 5]),
                *rng.pick(&[30u64, 9]), *rng.pick(&[1500u64, 512, 9000]), rng.below(3), rng.below(2))
    } else if k < 33 {
        let t = if bad { 9 } else { rng.below(4) };
        let a = g_addr(rng, sh);
        if t < 4 { sh.listeners[t as usize].remove(&(a % 16)); }
        format!("rmlistener {t} {a}")
    } else if k < 38 {
        let t = if bad && rng.chance(1, 2) { 9 } else { rng.below(4) };
        format!("{} {t} {}", if rng.chance(2, 3) { "activate" } else { "deactivate" }, g_addr(rng, sh))
    } else if k < 46 {
        let https = rng.chance(1, 2);
        let f = g_front(rng, sh);
        sh.fronts.push(format!("{} {f}", https as u8));
        format!("{} {f}", if https { "addhttpsf" } else { "addhttpf" })
    } else if k < 50 {
        if !sh.fronts.is_empty() && rng.chance(4, 5) {
            let i = rng.below(sh.fronts.len() as u64) as usize;
            let f = sh.fronts.remove(i);
            let (h, f) = f.split_once(' ').unwrap();
            format!("{} {f}", if h == "1" { "rmhttpsf" } else { "rmhttpf" })
        } else {
            format!("{} {}", if rng.chance(1, 2) { "rmhttpsf" } else { "rmhttpf" }, g_front(rng, sh))
        }
    } else if k < 57 {
        let a = g_addr(rng, sh);
        let c = g_cert(rng);
        let w: Vec<&str> = c.split(' ').collect();
        if w[3] != "x" && w[4] != "!" {
            sh.certs.insert((a % 16, w[3].parse().unwrap()));
        }
        format!("addcert {a} {c}")
    } else if k < 60 {
        let v: Vec<(u64, u64)> = sh.certs.iter().cloned().collect();
        if bad { format!("rmcert {} x", g_addr(rng, sh)) }
        else if !v.is_empty() && rng.chance(3, 4) { let (a, f) = *rng.pick(&v); sh.certs.remove(&(a, f)); format!("rmcert {a} {f}") }
        else { format!("rmcert {} {}", g_addr(rng, sh), *rng.pick(&[0u64, 2, 900])) }
    } else if k < 65 {
        let v: Vec<(u64, u64)> = sh.certs.iter().cloned().collect();
        let (a, old) = if !v.is_empty() && rng.chance(4, 5) { *rng.pick(&v) } else { (g_addr(rng, sh), *rng.pick(&[0u64, 1, 900])) };
        let oldw = if bad && rng.chance(1, 3) { "x".to_string() } else { old.to_string() };
        let c = if bad { let p = pems(); p.cert_words(&p.cert(11 + rng.below(2), &[], 0)).join(" ") } else { g_cert(rng) };
        format!("replcert {a} {oldw} {c}")
    } else if k < 70 {
        let udp = rng.chance(1, 3);
        let (c, a, t) = (rng.below(4), g_addr(rng, sh), rng.below(4));
        sh.tfs.insert((udp, c, a % 16, t));
        format!("{} {c} {a} {t}", if udp { "addudpf" } else { "addtcpf" })
    } else if k < 73 {
        let v: Vec<_> = sh.tfs.iter().cloned().collect();
        if !v.is_empty() && rng.chance(3, 4) {
            let (u, c, a, t) = *rng.pick(&v);
            sh.tfs.retain(|x| !(x.0 == u && x.1 == c && x.2 == a));
            format!("{} {c} {a} {t}", if u { "rmudpf" } else { "rmtcpf" })
        } else {
            format!("{} {} {} 0", if rng.chance(1, 2) { "rmudpf" } else { "rmtcpf" }, rng.below(3), g_addr(rng, sh))
        }
    } else if k < 81 {
        let (c, b, a) = (rng.below(4), rng.below(4), g_addr(rng, sh));
        sh.backends.insert((c, b, a % 16));
        format!(
            "addbackend {c} {b} {a} {} {} {}",
            g_opt(rng, 30, |r| r.below(3).to_string()),
            if rng.chance(1, 3) { format!("w{}", *rng.pick(&[0i64, 5, 100, -3])) } else { "-".into() },
            g_opt(rng, 30, |r| r.below(2).to_string())
        )
    } else if k < 85 {
        let v: Vec<_> = sh.backends.iter().cloned().collect();
        if !v.is_empty() && rng.chance(3, 4) {
            let x = *rng.pick(&v);
            sh.backends.remove(&x);
            format!("rmbackend {} {} {}", x.0, x.1, x.2)
        } else {
            format!("rmbackend {} {} {}", rng.below(4), rng.below(4), g_addr(rng, sh))
        }
    } else if k < 93 {
        let https = rng.chance(3, 5);
        let a = match pick_l(rng, sh, https as usize) {
            Some(a) if rng.chance(9, 10) => a + if rng.chance(1, 12) { 16 } else { 0 },
            _ => g_addr(rng, sh),
        };
        let kind = if bad { if https { 1 + rng.below(3) } else { *rng.pick(&[1u64, 3]) } } else { 0 };
        g_patch(rng, a, https, kind)
    } else if k < 96 {
        let a = match pick_l(rng, sh, 2) { Some(a) if rng.chance(4, 5) => a, _ => g_addr(rng, sh) };
        format!("updtcpl {a} {} {} {} {} {}", g_opt(rng, 30, |r| r.below(20).to_string()), g_opt(rng, 40, |r| r.below(2).to_string()),
                g_opt(rng, 40, |r| r.pick(&[61u64, 6, 0]).to_string()), g_opt(rng, 40, |r| r.pick(&[31u64, 8]).to_string()),
                g_opt(rng, 40, |r| r.pick(&[4u64, 2]).to_string()))
    } else if k < 98 {
        let a = match pick_l(rng, sh, 3) { Some(a) if rng.chance(4, 5) => a, _ => g_addr(rng, sh) };
        format!("updudpl {a} {} {} {} {} {}", g_opt(rng, 30, |r| r.below(20).to_string()), g_opt(rng, 40, |r| r.pick(&[31u64, 6]).to_string()),
                g_opt(rng, 40, |r| r.pick(&[32u64, 7]).to_string()), g_opt(rng, 40, |r| r.pick(&[9000u64, 576]).to_string()),
                g_opt(rng, 40, |r| r.below(5).to_string()))
    } else if k < 99 {
        format!("other {}", rng.below(2))
    } else {
        "empty".into()
    }
}

pub fn new_shadow(rng: &mut Rng) -> Shadow {
    let mut addrs: Vec<u64> = (0..16).collect();
    rng.shuffle(&mut addrs);
    addrs.truncate(3 + rng.below(2) as usize);
    Shadow { addrs, listeners: Default::default(), clusters: Default::default(), backends: Default::default(),
             certs: Default::default(), fronts: vec![], tfs: Default::default() }
}

/// a small adversarial mutation of the current state (C06)
pub fn g_mutation(rng: &mut Rng, sh: &mut Shadow) -> Vec<String> {
    // a frontend that differs only in tags / cluster / policies (same route key)
    if !sh.fronts.is_empty() && rng.chance(1, 4) {
        let i = rng.below(sh.fronts.len() as u64) as usize;
        let old = sh.fronts[i].clone();
        let (h, f) = old.split_once(' ').unwrap();
        let mut w: Vec<String> = f.split(' ').map(|x| x.to_string()).collect();
        match rng.below(3) {
            0 => w[7] = ((w[7].parse::<u64>().unwrap_or(0) + 1) % 3).to_string(),
            1 => w[8] = ((w[8].parse::<u64>().unwrap_or(0) + 1) % 3).to_string(),
            _ => w[0] = if w[0] == "-" { "1".into() } else { "-".into() },
        }
        let newf = w.join(" ");
        sh.fronts[i] = format!("{h} {newf}");
        let (rm, add) = if h == "1" { ("rmhttpsf", "addhttpsf") } else { ("rmhttpf", "addhttpf") };
        return vec![format!("{rm} {f}"), format!("{add} {newf}")];
    }
    vec![g_mutation1(rng, sh)]
}

pub fn g_mutation1(rng: &mut Rng, sh: &mut Shadow) -> String {
    let bs: Vec<_> = sh.backends.iter().cloned().collect();
    let k = rng.below(10);
    if k < 3 && !bs.is_empty() {
        // same backend id at another address / changed parameters
        let (c, b, a) = *rng.pick(&bs);
        let a2 = if rng.chance(2, 3) { *rng.pick(&sh.addrs) } else { a };
        sh.backends.insert((c, b, a2));
        return format!("addbackend {c} {b} {a2} - {} -", if rng.chance(1, 2) { "w9" } else { "-" });
    }
    if k < 5 {
        let v: Vec<_> = sh.tfs.iter().cloned().collect();
        if !v.is_empty() {
            let (u, c, a, t) = *rng.pick(&v);
            let t2 = (t + 1) % 3;
            sh.tfs.insert((u, c, a, t2));
            return format!("{} {c} {a} {t2}", if u { "addudpf" } else { "addtcpf" });
        }
    }
    if k < 7 {
        for t in 0..4usize {
            let v: Vec<u64> = sh.listeners[t].iter().cloned().collect();
            if !v.is_empty() && rng.chance(1, 2) {
                let a = *rng.pick(&v);
                return match rng.below(3) {
                    0 => format!("activate {t} {a}"),
                    1 => format!("deactivate {t} {a}"),
                    _ => match t {
                        0 => g_patch(rng, a, false, 0),
                        1 => g_patch(rng, a, true, 0),
                        2 => format!("updtcpl {a} - - 99 - -"),
                        _ => format!("updudpl {a} - 99 - - -"),
                    },
                };
            }
        }
    }
    g_cmd(rng, sh, 5)
}
