#!/usr/bin/env python3
"""Print the coverage-triage task text for a builder. usage: coverage_prompt.py <ID> [<ID> ...]"""
import json
import os
import sys

ROOT = os.path.dirname(os.path.dirname(os.path.abspath(__file__)))
ids = sys.argv[1:]
props = {json.loads(l)["id"]: json.loads(l) for l in open(os.path.join(ROOT, "properties.jsonl"))}
print(f"""Coverage-driven extension round for {', '.join(ids)} (your area). Background: in the last seeding round 4 of 12 independent breaking changes were missed, every time because the changed branch lay in code the property is anchored in but that the registered runs never reached (or reached on one path only). I have therefore measured, with an instrumented build of the harness, which lines of each property's anchored files the QUICK runs of that property execute: /verif/coverage/<ID>.json (per anchored file: functions never entered, `uncovered_line_ranges` = executable lines with count 0; diagnostic only). Re-measure with `python3 tools/coverage.py <ID>` (uses /tmp/covbuild; run `python3 tools/coverage.py --build <ID>` once after you changed harness code — it takes ~4 min, serialise with others via `flock /tmp/covbuild.lock`).

Your task, for each property listed below:
1. Triage: read the property statement + anchors (properties.jsonl) and walk the uncovered ranges of the anchored files IN /repo (current lines). For each uncovered branch decide: (a) relevant to what the property promises and reachable by inputs/configurations/histories the property quantifies over -> must be reached and judged; (b) logging/metrics/debug/unreachable/other property's business -> skip. Concentrate on decision logic: error and edge branches of the mechanisms the anchors name, alternative listener kinds (HTTP vs HTTPS vs TCP), protocol pairs, configuration variants, late-failing paths, glue that calls the modelled core (argument order, which timeout/limit/flag is passed, what is done with the result).
2. Extend the generator/scenarios so the quick run reaches the (a) branches, and make sure an ORACLE would notice a wrong decision there (reaching a line is worthless unless the outcome is compared with the model or judged by an oracle written from the property text). Where the newly reached logic is decision logic, add it to the Lean model and state/prove the corresponding theorem in your Props file (full strength; `_partial` + `_counterexample` only for genuine open defects); keep model files import-free.
3. Keep the unchanged tree green: `VERIF_SEED=1,2,3 ./check <ID>` exit 0; no new flake (use the rig's inconclusive policy for set-up failures; no timing-dependent verdicts); keep quick-run growth modest (aim < +30 s per property).
4. If you find behaviour that contradicts the property on the real code, do NOT silence it: give me the witness (input/history), the class fingerprint and a proposed entry for known_findings.json (or a minimal proposed fix as a diff under /verif/proposed_fixes/), and let the check report it as a failure until I register it.
5. Report: per property, which branches you brought under the check (file:lines, what decides them, which class/theorem now guards them), the coverage numbers before/after, and what you deliberately left out and why.
Rules as before: own files only (your harness bins/modules, your lean/Sozu/<Area>/ files, your tools/props entries — tell me if props_modules/runs change); never edit /repo (ask for a cfg(sozu_verif) hook with the exact lines if needed); never edit properties.jsonl; sandboxes via tools/sandbox.py; delete scratch under /tmp when done; commit your /verif changes with `git add <your files>; git commit` (not -A).
""")
for i in ids:
    p = props[i]
    cov = json.load(open(os.path.join(ROOT, "coverage", i + ".json")))
    print(f"--- {i}: {p['title']}\nStatement: {p['statement']}\nQuantifier: {p['quantifier']['text']}")
    print("Anchored mechanisms: " + "; ".join(f"{m['name']} [{m['where']}]" for m in p["anchors"]["mechanism"]))
    print("Coverage now: " + "; ".join(f"{f}: {v['entered']}/{v['functions']} fns, {v['line_percent']}% lines" for f, v in cov["files"].items()))
    print()
