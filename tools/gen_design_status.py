#!/usr/bin/env python3
"""Regenerate the '## 9. As built' block of DESIGN.md (between the markers) from
the tree: tools/props/*.json, evidence/*.json, known_findings.json,
seeded/*/meta.json and seeded/results.json."""
import json
import os
import re
import subprocess

ROOT = os.path.dirname(os.path.dirname(os.path.abspath(__file__)))
BEGIN, END = "<!-- BEGIN GENERATED STATUS -->", "<!-- END GENERATED STATUS -->"


def load(p, default=None):
    try:
        return json.load(open(os.path.join(ROOT, p)))
    except Exception:  # noqa: BLE001
        return default


claimed = load("tools/claimed.json", [])
kf = load("known_findings.json", {"findings": []})["findings"]
results = load("seeded/results.json", {})
sweep = load("seeded/sweep.json", {})
out = []
out.append("### 9.1 Per property: what is proved, what ties it to the code\n")
out.append("| ID | theorems checked | runs (harness binary ↔ Lean driver) | cases vs code (last quick run) | claimed |")
out.append("|---|---|---|---|---|")
for fn in sorted(os.listdir(os.path.join(ROOT, "tools", "props"))):
    pid = fn[:-5]
    cfg = load(f"tools/props/{fn}")
    ev = load(f"evidence/{pid}.json", {})
    cov = ev.get("coverage", {})
    runs = ", ".join(r["bin"] + ("↔" + r["driver"] if r.get("driver") else " (black-box rig)") for r in cfg["runs"])
    out.append(f"| {pid} | {cov.get('discharged', '?')}/{cov.get('obligations', '?')} | {runs} | {cov.get('evaluations', '?')} | {'yes' if pid in claimed else 'not yet'} |")
out.append("")
out.append("What each claim says is in `tools/props/<ID>.json` (`claim`, `level_note`) and is copied to MANIFEST.json.\n")
out.append("### 9.2 Genuine defects: repaired (`fix:` commits in /repo) and recorded (open)\n")
out.append("| id | property | class (fingerprint) | status | commit |")
out.append("|---|---|---|---|---|")
for f in kf:
    out.append(f"| {f['id']} | {f['property']} | `{f['class']}` | {f['status']} | {f.get('commit', '')} |")
out.append("")
out.append("### 9.3 Seeded changes (independent sub-agents) and which checks catch them\n")
out.append("| seed | property | what it changes | needs to manifest | caught by (harness run in a sandbox copy) | `./check` on /repo with the patch applied |")
out.append("|---|---|---|---|---|---|")
sd = os.path.join(ROOT, "seeded")
if os.path.isdir(sd):
    for name in sorted(os.listdir(sd)):
        m = load(f"seeded/{name}/meta.json")
        if not m:
            continue
        r = results.get(name, {})
        out.append(f"| {name} | {m.get('property')} | {m.get('summary', '')[:220].replace('|', '/')} | {m.get('needs_to_manifest', '')[:160].replace('|', '/')} | {r.get('caught_by', 'not yet run')} | {('exit %s, %d VIOLATION line(s): %s' % (sweep[name]['exit'], sweep[name]['violations'], ', '.join(sweep[name]['classes'][:3]))) if name in sweep and sweep[name].get('applied') else ('patch does not apply to HEAD' if name in sweep else 'not yet run')} |")
out.append("")
block = BEGIN + "\n" + "\n".join(out) + "\n" + END
p = os.path.join(ROOT, "DESIGN.md")
s = open(p).read()
if BEGIN in s:
    s = re.sub(re.escape(BEGIN) + r".*?" + re.escape(END), lambda _: block, s, flags=re.S)
else:
    s += "\n" + block + "\n"
open(p, "w").write(s)
print("DESIGN.md status block regenerated")
