#!/usr/bin/env python3
"""Translator: re-extract numeric constants, small tables and inline numeric
knobs from /repo's *current* source text into lean/Sozu/Generated/Consts.lean.

Theorems that mention these names are re-checked against what the code says
now. The translator refuses (exit 1) when an expected item is missing or is
not a literal arithmetic expression it can evaluate.

usage: extract_consts.py <repo> <out.lean>
"""
import os
import re
import sys

# (lean name, file, regex with ONE group = integer expression, doc)
SPECS = [
    ("scmMaxFdsOut", "command/src/scm_socket.rs", r"pub const MAX_FDS_OUT: usize = ([^;]+);", "fds per SCM_RIGHTS message"),
    ("scmMaxBytesOut", "command/src/scm_socket.rs", r"pub const MAX_BYTES_OUT: usize = ([^;]+);", "manifest receive buffer"),
    ("sessAcceptBase", "lib/src/server.rs", r"let threshold = (\d+) \+ \d+ \* self\.max_connections;", "accept_slab_threshold: base"),
    ("sessAcceptFactor", "lib/src/server.rs", r"let threshold = \d+ \+ (\d+) \* self\.max_connections;", "accept_slab_threshold: factor"),
    ("sessResumeNum", "lib/src/server.rs", r"self\.nb_connections < \(?self\.max_connections \* (\d+) / \d+", "decr hysteresis numerator"),
    ("sessResumeDen", "lib/src/server.rs", r"self\.nb_connections < \(?self\.max_connections \* \d+ / (\d+)", "decr hysteresis denominator"),
    ("sessResumeFloor", "lib/src/server.rs", r"self\.nb_connections < \(self\.max_connections \* \d+ / \d+\)\.max\((\d+)\)", "decr hysteresis floor: an idle manager always re-opens the gate"),
    ("h2FrameHeaderSize", "lib/src/protocol/mux/parser.rs", r"pub const FRAME_HEADER_SIZE: usize = ([^;]+);", ""),
    ("h2StreamIdMask", "lib/src/protocol/mux/parser.rs", r"pub const STREAM_ID_MASK: u32 = ([^;]+);", ""),
    ("h2PriorityPayloadSize", "lib/src/protocol/mux/parser.rs", r"pub const PRIORITY_PAYLOAD_SIZE: u32 = ([^;]+);", ""),
    ("h2RstStreamPayloadSize", "lib/src/protocol/mux/parser.rs", r"pub const RST_STREAM_PAYLOAD_SIZE: u32 = ([^;]+);", ""),
    ("h2SettingsEntrySize", "lib/src/protocol/mux/parser.rs", r"pub const SETTINGS_ENTRY_SIZE: u32 = ([^;]+);", ""),
    ("h2PingPayloadSize", "lib/src/protocol/mux/parser.rs", r"pub const PING_PAYLOAD_SIZE: u32 = ([^;]+);", ""),
    ("h2WindowUpdatePayloadSize", "lib/src/protocol/mux/parser.rs", r"pub const WINDOW_UPDATE_PAYLOAD_SIZE: u32 = ([^;]+);", ""),
    ("h2GoawayPayloadSize", "lib/src/protocol/mux/parser.rs", r"pub const GOAWAY_PAYLOAD_SIZE: u32 = ([^;]+);", ""),
    ("h2MaxSettingsEntries", "lib/src/protocol/mux/parser.rs", r"pub const MAX_SETTINGS_ENTRIES: usize = ([^;]+);", ""),
    ("h2PriorityUpdateMinPayload", "lib/src/protocol/mux/parser.rs", r"pub const PRIORITY_UPDATE_MIN_PAYLOAD: u32 = ([^;]+);", ""),
    ("h2PriorityUpdateMaxValue", "lib/src/protocol/mux/parser.rs", r"pub const PRIORITY_UPDATE_MAX_VALUE: usize = ([^;]+);", ""),
    ("h2FlagEndStream", "lib/src/protocol/mux/parser.rs", r"pub const FLAG_END_STREAM: u8 = ([^;]+);", ""),
    ("h2FlagEndHeaders", "lib/src/protocol/mux/parser.rs", r"pub const FLAG_END_HEADERS: u8 = ([^;]+);", ""),
    ("h2FlagPadded", "lib/src/protocol/mux/parser.rs", r"pub const FLAG_PADDED: u8 = ([^;]+);", ""),
    ("h2FlagPriority", "lib/src/protocol/mux/parser.rs", r"pub const FLAG_PRIORITY: u8 = ([^;]+);", ""),
    ("h2DefaultMaxFrameSize", "lib/src/protocol/mux/h2.rs", r"\nconst DEFAULT_MAX_FRAME_SIZE: u32 = ([^;]+);", ""),
    ("h2MinMaxFrameSize", "lib/src/protocol/mux/h2.rs", r"\nconst MIN_MAX_FRAME_SIZE: u32 = ([^;]+);", ""),
    ("h2MaxMaxFrameSize", "lib/src/protocol/mux/h2.rs", r"\nconst MAX_MAX_FRAME_SIZE: u32 = ([^;]+);", ""),
    ("h2FlowControlMaxWindow", "lib/src/protocol/mux/h2.rs", r"\nconst FLOW_CONTROL_MAX_WINDOW: u32 = ([^;]+);", ""),
    ("h2StreamIdMax", "lib/src/protocol/mux/h2.rs", r"\nconst STREAM_ID_MAX: u32 = ([^;]+);", ""),
    ("h2DefaultMaxConcurrentStreams", "lib/src/protocol/mux/h2.rs", r"\nconst DEFAULT_MAX_CONCURRENT_STREAMS: u32 = ([^;]+);", ""),
    ("h2DefaultMaxRstStreamPerWindow", "lib/src/protocol/mux/h2.rs", r"\nconst DEFAULT_MAX_RST_STREAM_PER_WINDOW: u32 = ([^;]+);", ""),
    ("h2DefaultMaxPingPerWindow", "lib/src/protocol/mux/h2.rs", r"\nconst DEFAULT_MAX_PING_PER_WINDOW: u32 = ([^;]+);", ""),
    ("h2DefaultMaxSettingsPerWindow", "lib/src/protocol/mux/h2.rs", r"\nconst DEFAULT_MAX_SETTINGS_PER_WINDOW: u32 = ([^;]+);", ""),
    ("h2DefaultMaxEmptyDataPerWindow", "lib/src/protocol/mux/h2.rs", r"\nconst DEFAULT_MAX_EMPTY_DATA_PER_WINDOW: u32 = ([^;]+);", ""),
    ("h2DefaultMaxContinuationFrames", "lib/src/protocol/mux/h2.rs", r"\nconst DEFAULT_MAX_CONTINUATION_FRAMES: u32 = ([^;]+);", ""),
    ("h2DefaultMaxGlitchCount", "lib/src/protocol/mux/h2.rs", r"\nconst DEFAULT_MAX_GLITCH_COUNT: u32 = ([^;]+);", ""),
    # --- H2Wire (C15) ---
    ("h2FlagAck", "lib/src/protocol/mux/parser.rs", r"pub const FLAG_ACK: u8 = ([^;]+);", ""),
    ("h2SettingsCount", "lib/src/protocol/mux/parser.rs", r"pub const SETTINGS_COUNT: u32 = ([^;]+);", ""),
    ("h2SettingsIdHeaderTableSize", "lib/src/protocol/mux/parser.rs", r"pub const SETTINGS_HEADER_TABLE_SIZE: u16 = ([^;]+);", ""),
    ("h2SettingsIdEnablePush", "lib/src/protocol/mux/parser.rs", r"pub const SETTINGS_ENABLE_PUSH: u16 = ([^;]+);", ""),
    ("h2SettingsIdMaxConcurrentStreams", "lib/src/protocol/mux/parser.rs", r"pub const SETTINGS_MAX_CONCURRENT_STREAMS: u16 = ([^;]+);", ""),
    ("h2SettingsIdInitialWindowSize", "lib/src/protocol/mux/parser.rs", r"pub const SETTINGS_INITIAL_WINDOW_SIZE: u16 = ([^;]+);", ""),
    ("h2SettingsIdMaxFrameSize", "lib/src/protocol/mux/parser.rs", r"pub const SETTINGS_MAX_FRAME_SIZE: u16 = ([^;]+);", ""),
    ("h2SettingsIdMaxHeaderListSize", "lib/src/protocol/mux/parser.rs", r"pub const SETTINGS_MAX_HEADER_LIST_SIZE: u16 = ([^;]+);", ""),
    ("h2SettingsIdEnableConnectProtocol", "lib/src/protocol/mux/parser.rs", r"pub const SETTINGS_ENABLE_CONNECT_PROTOCOL: u16 = ([^;]+);", ""),
    ("h2SettingsIdNoRfc7540Priorities", "lib/src/protocol/mux/parser.rs", r"pub const SETTINGS_NO_RFC7540_PRIORITIES: u16 = ([^;]+);", ""),
    ("h2TypeByteData", "lib/src/protocol/mux/parser.rs", r"\n\s+(\w+) => FrameType::Data,", "convert_frame_type arm"),
    ("h2SerTypeByteData", "lib/src/protocol/mux/serializer.rs", r"\n\s+FrameType::Data => (\w+),", "serialize_frame_type arm"),
    ("h2TypeByteHeaders", "lib/src/protocol/mux/parser.rs", r"\n\s+(\w+) => FrameType::Headers,", "convert_frame_type arm"),
    ("h2SerTypeByteHeaders", "lib/src/protocol/mux/serializer.rs", r"\n\s+FrameType::Headers => (\w+),", "serialize_frame_type arm"),
    ("h2TypeBytePriority", "lib/src/protocol/mux/parser.rs", r"\n\s+(\w+) => FrameType::Priority,", "convert_frame_type arm"),
    ("h2SerTypeBytePriority", "lib/src/protocol/mux/serializer.rs", r"\n\s+FrameType::Priority => (\w+),", "serialize_frame_type arm"),
    ("h2TypeByteRstStream", "lib/src/protocol/mux/parser.rs", r"\n\s+(\w+) => FrameType::RstStream,", "convert_frame_type arm"),
    ("h2SerTypeByteRstStream", "lib/src/protocol/mux/serializer.rs", r"\n\s+FrameType::RstStream => (\w+),", "serialize_frame_type arm"),
    ("h2TypeByteSettings", "lib/src/protocol/mux/parser.rs", r"\n\s+(\w+) => FrameType::Settings,", "convert_frame_type arm"),
    ("h2SerTypeByteSettings", "lib/src/protocol/mux/serializer.rs", r"\n\s+FrameType::Settings => (\w+),", "serialize_frame_type arm"),
    ("h2TypeBytePushPromise", "lib/src/protocol/mux/parser.rs", r"\n\s+(\w+) => FrameType::PushPromise,", "convert_frame_type arm"),
    ("h2SerTypeBytePushPromise", "lib/src/protocol/mux/serializer.rs", r"\n\s+FrameType::PushPromise => (\w+),", "serialize_frame_type arm"),
    ("h2TypeBytePing", "lib/src/protocol/mux/parser.rs", r"\n\s+(\w+) => FrameType::Ping,", "convert_frame_type arm"),
    ("h2SerTypeBytePing", "lib/src/protocol/mux/serializer.rs", r"\n\s+FrameType::Ping => (\w+),", "serialize_frame_type arm"),
    ("h2TypeByteGoAway", "lib/src/protocol/mux/parser.rs", r"\n\s+(\w+) => FrameType::GoAway,", "convert_frame_type arm"),
    ("h2SerTypeByteGoAway", "lib/src/protocol/mux/serializer.rs", r"\n\s+FrameType::GoAway => (\w+),", "serialize_frame_type arm"),
    ("h2TypeByteWindowUpdate", "lib/src/protocol/mux/parser.rs", r"\n\s+(\w+) => FrameType::WindowUpdate,", "convert_frame_type arm"),
    ("h2SerTypeByteWindowUpdate", "lib/src/protocol/mux/serializer.rs", r"\n\s+FrameType::WindowUpdate => (\w+),", "serialize_frame_type arm"),
    ("h2TypeByteContinuation", "lib/src/protocol/mux/parser.rs", r"\n\s+(\w+) => FrameType::Continuation,", "convert_frame_type arm"),
    ("h2SerTypeByteContinuation", "lib/src/protocol/mux/serializer.rs", r"\n\s+FrameType::Continuation => (\w+),", "serialize_frame_type arm"),
    ("h2TypeBytePriorityUpdate", "lib/src/protocol/mux/parser.rs", r"\n\s+(\w+) => FrameType::PriorityUpdate,", "convert_frame_type arm"),
    ("h2SerTypeBytePriorityUpdate", "lib/src/protocol/mux/serializer.rs", r"\n\s+FrameType::PriorityUpdate => (\w+),", "serialize_frame_type arm"),
    ("h2DefaultMaxWindowUpdateStream0PerWindow", "lib/src/protocol/mux/h2.rs", r"\nconst DEFAULT_MAX_WINDOW_UPDATE_STREAM0_PER_WINDOW: u32 = ([^;]+);", ""),
    ("h2DefaultMaxRstStreamLifetime", "lib/src/protocol/mux/h2.rs", r"const DEFAULT_MAX_RST_STREAM_LIFETIME: u64 = ([^;]+);", ""),
    ("h2DefaultMaxRstStreamAbusiveLifetime", "lib/src/protocol/mux/h2.rs", r"const DEFAULT_MAX_RST_STREAM_ABUSIVE_LIFETIME: u64 = ([^;]+);", ""),
    ("h2DefaultMaxRstStreamEmittedLifetime", "lib/src/protocol/mux/h2.rs", r"const DEFAULT_MAX_RST_STREAM_EMITTED_LIFETIME: u64 = ([^;]+);", ""),
    ("h2DefaultMaxPingLifetime", "lib/src/protocol/mux/h2.rs", r"\nconst DEFAULT_MAX_PING_LIFETIME: u32 = ([^;]+);", ""),
    ("h2DefaultMaxSettingsLifetime", "lib/src/protocol/mux/h2.rs", r"\nconst DEFAULT_MAX_SETTINGS_LIFETIME: u32 = ([^;]+);", ""),
    ("h2MaxHeaderListSize", "lib/src/protocol/mux/h2.rs", r"const MAX_HEADER_LIST_SIZE: usize = ([^;]+);", ""),
    ("h2FloodWindowSecs", "lib/src/protocol/mux/h2.rs", r"const FLOOD_WINDOW_DURATION: std::time::Duration = std::time::Duration::from_secs\((\d+)\);", "flood window (seconds)"),
    ("chanDefaultBufferSize", "command/src/config.rs", r"pub const DEFAULT_COMMAND_BUFFER_SIZE: u64 = ([^;]+);", "default command channel buffer size"),
    ("chanDefaultMaxBufferSize", "command/src/config.rs", r"pub const DEFAULT_MAX_COMMAND_BUFFER_SIZE: u64 = ([^;]+);", "default command channel buffer ceiling"),
    ("chanConsumeShiftDiv", "command/src/buffer/growable.rs", r"if self\.position > self\.capacity / (\d+) \{", "Buffer::consume shifts when position > capacity / this"),
    ("chanShrinkFactor", "command/src/channel.rs", r"self\.front_buf\.available_data\(\) \* (\d+) < self\.initial_buffer_size", "front buffer shrinks when data * this < initial size"),
    ("chanGrowFactor", "command/src/channel.rs", r"current_capacity\.saturating_mul\((\d+)\)", "grow_size doubling factor"),
    ("chanWriteGrowFactor", "command/src/channel.rs", r"new_length\.saturating_mul\((\d+)\)", "write_delimited_message doubling factor"),
]

# byte tables: (lean name, file, regex with ONE group = comma-separated byte list)
BYTE_TABLES = [
    ("ppSignatureV2", "lib/src/protocol/proxy_protocol/parser.rs", r"const PROTOCOL_SIGNATURE_V2: \[u8; 12\] = \[([^\]]+)\];"),
    ("udpPp2Signature", "lib/src/protocol/udp/proxy_protocol.rs", r"const PP2_SIGNATURE: \[u8; 12\] = \[([^\]]+)\];"),
    ("h2SettingsAck", "lib/src/protocol/mux/serializer.rs", r"pub const SETTINGS_ACKNOWLEDGEMENT: \[u8; 9\] = \[([^\]]+)\];"),
    ("h2PingAckHeader", "lib/src/protocol/mux/serializer.rs", r"pub const PING_ACKNOWLEDGEMENT_HEADER: \[u8; 9\] = \[([^\]]+)\];"),
]


def ev(expr):
    e = re.sub(r"//.*", "", expr).strip()
    e = re.sub(r"(?<=[0-9a-fA-FxX])_(?=[0-9a-fA-F])", "", e)
    e = re.sub(r"(?<=\d)(usize|u64|u32|u16|u8|i32|i64)\b", "", e)
    e = re.sub(r"\s+as\s+\w+", "", e)
    if not re.fullmatch(r"[0-9a-fA-FxX\s\+\-\*/<>\(\)]+", e):
        raise ValueError(f"not a literal arithmetic expression: {expr!r}")
    return int(eval(e, {"__builtins__": {}}, {}))  # noqa: S307 (sanitised above)


def main():
    repo, out = sys.argv[1], sys.argv[2]
    lines = ["/- GENERATED by tools/extract_consts.py from the repository's current source text.",
             "   Do not edit: rewritten (when different) on every check run. -/",
             "namespace Sozu.Consts", ""]
    errors = []
    cache = {}

    def src(f):
        if f not in cache:
            cache[f] = open(os.path.join(repo, f), encoding="utf-8", errors="replace").read()
        return cache[f]

    for name, f, pat, doc in SPECS:
        try:
            m = re.search(pat, src(f))
            if not m:
                raise ValueError("pattern not found")
            v = ev(m.group(1))
            if doc:
                lines.append(f"/-- {doc} ({f}) -/")
            lines.append(f"def {name} : Nat := {v}")
        except Exception as ex:  # noqa: BLE001
            errors.append(f"{name} ({f}): {ex}")
    for name, f, pat in BYTE_TABLES:
        try:
            m = re.search(pat, src(f), flags=re.S)
            if not m:
                raise ValueError("pattern not found")
            vals = [ev(x) for x in m.group(1).split(",") if x.strip()]
            lines.append(f"def {name} : List Nat := [{', '.join(str(v) for v in vals)}]")
        except Exception as ex:  # noqa: BLE001
            errors.append(f"{name} ({f}): {ex}")
    lines += ["", "end Sozu.Consts", ""]
    if errors:
        print("extract_consts: cannot extract:\n  " + "\n  ".join(errors))
        sys.exit(1)
    text = "\n".join(lines)
    old = open(out).read() if os.path.exists(out) else None
    if old != text:
        os.makedirs(os.path.dirname(out), exist_ok=True)
        with open(out, "w") as fh:
            fh.write(text)
        print(f"extract_consts: wrote {out} ({len(SPECS) + len(BYTE_TABLES)} items)")
    else:
        print(f"extract_consts: {out} up to date ({len(SPECS) + len(BYTE_TABLES)} items)")


if __name__ == "__main__":
    main()
