#!/usr/bin/env python3
"""Translator: re-extract numeric constants, small tables and inline numeric
knobs from /repo's *current* source text into lean/Sozu/Generated/Consts.lean.

Theorems that mention these names are re-checked against what the code says
now. An expected item that is missing, or is not a literal expression the translator
can evaluate, is left undefined (and reported): the Lean modules that use it then
fail to compile, i.e. the proof obligations of the properties depending on it break.

usage: extract_consts.py <repo> <out.lean>
"""
import os
import re
import sys

# (lean name, file, regex with ONE group = integer expression, doc)
SPECS = [
    ("scmMaxFdsOut", "command/src/scm_socket.rs", r"pub const MAX_FDS_OUT: usize = ([^;]+);", "fds per SCM_RIGHTS message"),
    ("scmMaxBytesOut", "command/src/scm_socket.rs", r"pub const MAX_BYTES_OUT: usize = ([^;]+);", "manifest receive buffer"),
    ("scmMaxAddressLen", "command/src/scm_socket.rs", r"const MAX_ADDRESS_LEN: usize = ([^;]+);", "longest textual SocketAddr the manifest buffer is sized for"),
    ("sessAcceptBase", "lib/src/server.rs", r"let threshold = (\d+) \+ \d+ \* self\.max_connections;", "accept_slab_threshold: base"),
    ("sessAcceptFactor", "lib/src/server.rs", r"let threshold = \d+ \+ (\d+) \* self\.max_connections;", "accept_slab_threshold: factor"),
    ("sessResumeNum", "lib/src/server.rs", r"self\.nb_connections < \(?self\.max_connections \* (\d+) / \d+", "decr hysteresis numerator"),
    ("sessResumeDen", "lib/src/server.rs", r"self\.nb_connections < \(?self\.max_connections \* \d+ / (\d+)", "decr hysteresis denominator"),
    ("sessResumeFloor", "lib/src/server.rs", r"self\.nb_connections < \(self\.max_connections \* \d+ / \d+\)\.max\((\d+)\)", "decr hysteresis floor: an idle manager always re-opens the gate"),
    ("h2FrameHeaderSize", "lib/src/protocol/mux/parser.rs", r"pub const FRAME_HEADER_SIZE: usize = ([^;]+);", ""),
    ("h2StreamIdMask", "lib/src/protocol/mux/parser.rs", r"pub const STREAM_ID_MASK: u32 = ([^;]+);", ""),
    ("h2PriorityPayloadSize", "lib/src/protocol/mux/parser.rs", r"pub const PRIORITY_PAYLOAD_SIZE: u32 = ([^;]+);", ""),
    ("h2RstStreamPayloadSize", "lib/src/protocol/mux/parser.rs", r"pub const RST_STREAM_PAYLOAD_SIZE: u32 = ([^;]+);", ""),
    ("h2SettingsEntrySize", "lib/src/protocol/mux/parser.rs", r"pub const SETTINGS_ENTRY_SIZE: u32 = ([^;]+);", ""),
    ("h2PingPayloadSize", "lib/src/protocol/mux/parser.rs", r"pub const PING_PAYLOAD_SIZE: u32 = ([^;]+);", ""),
    ("h2WindowUpdatePayloadSize", "lib/src/protocol/mux/parser.rs", r"pub const WINDOW_UPDATE_PAYLOAD_SIZE: u32 = ([^;]+);", ""),
    ("h2GoawayPayloadSize", "lib/src/protocol/mux/parser.rs", r"pub const GOAWAY_PAYLOAD_SIZE: u32 = ([^;]+);", ""),
    ("h2MaxSettingsEntries", "lib/src/protocol/mux/parser.rs", r"pub const MAX_SETTINGS_ENTRIES: usize = ([^;]+);", ""),
    ("h2PriorityUpdateMinPayload", "lib/src/protocol/mux/parser.rs", r"pub const PRIORITY_UPDATE_MIN_PAYLOAD: u32 = ([^;]+);", ""),
    ("h2PriorityUpdateMaxValue", "lib/src/protocol/mux/parser.rs", r"pub const PRIORITY_UPDATE_MAX_VALUE: usize = ([^;]+);", ""),
    ("h2FlagEndStream", "lib/src/protocol/mux/parser.rs", r"pub const FLAG_END_STREAM: u8 = ([^;]+);", ""),
    ("h2FlagEndHeaders", "lib/src/protocol/mux/parser.rs", r"pub const FLAG_END_HEADERS: u8 = ([^;]+);", ""),
    ("h2FlagPadded", "lib/src/protocol/mux/parser.rs", r"pub const FLAG_PADDED: u8 = ([^;]+);", ""),
    ("h2FlagPriority", "lib/src/protocol/mux/parser.rs", r"pub const FLAG_PRIORITY: u8 = ([^;]+);", ""),
    ("h2DefaultMaxFrameSize", "lib/src/protocol/mux/h2.rs", r"\nconst DEFAULT_MAX_FRAME_SIZE: u32 = ([^;]+);", ""),
    ("h2MinMaxFrameSize", "lib/src/protocol/mux/h2.rs", r"\nconst MIN_MAX_FRAME_SIZE: u32 = ([^;]+);", ""),
    ("h2MaxMaxFrameSize", "lib/src/protocol/mux/h2.rs", r"\nconst MAX_MAX_FRAME_SIZE: u32 = ([^;]+);", ""),
    ("h2FlowControlMaxWindow", "lib/src/protocol/mux/h2.rs", r"\nconst FLOW_CONTROL_MAX_WINDOW: u32 = ([^;]+);", ""),
    ("h2StreamIdMax", "lib/src/protocol/mux/h2.rs", r"\nconst STREAM_ID_MAX: u32 = ([^;]+);", ""),
    ("h2DefaultMaxConcurrentStreams", "lib/src/protocol/mux/h2.rs", r"\nconst DEFAULT_MAX_CONCURRENT_STREAMS: u32 = ([^;]+);", ""),
    ("h2DefaultMaxRstStreamPerWindow", "lib/src/protocol/mux/h2.rs", r"\nconst DEFAULT_MAX_RST_STREAM_PER_WINDOW: u32 = ([^;]+);", ""),
    ("h2DefaultMaxPingPerWindow", "lib/src/protocol/mux/h2.rs", r"\nconst DEFAULT_MAX_PING_PER_WINDOW: u32 = ([^;]+);", ""),
    ("h2DefaultMaxSettingsPerWindow", "lib/src/protocol/mux/h2.rs", r"\nconst DEFAULT_MAX_SETTINGS_PER_WINDOW: u32 = ([^;]+);", ""),
    ("h2DefaultMaxEmptyDataPerWindow", "lib/src/protocol/mux/h2.rs", r"\nconst DEFAULT_MAX_EMPTY_DATA_PER_WINDOW: u32 = ([^;]+);", ""),
    ("h2DefaultMaxContinuationFrames", "lib/src/protocol/mux/h2.rs", r"\nconst DEFAULT_MAX_CONTINUATION_FRAMES: u32 = ([^;]+);", ""),
    ("h2DefaultMaxGlitchCount", "lib/src/protocol/mux/h2.rs", r"\nconst DEFAULT_MAX_GLITCH_COUNT: u32 = ([^;]+);", ""),
    # --- H2Wire (C15) ---
    ("h2FlagAck", "lib/src/protocol/mux/parser.rs", r"pub const FLAG_ACK: u8 = ([^;]+);", ""),
    ("h2SettingsCount", "lib/src/protocol/mux/parser.rs", r"pub const SETTINGS_COUNT: u32 = ([^;]+);", ""),
    ("h2SettingsIdHeaderTableSize", "lib/src/protocol/mux/parser.rs", r"pub const SETTINGS_HEADER_TABLE_SIZE: u16 = ([^;]+);", ""),
    ("h2SettingsIdEnablePush", "lib/src/protocol/mux/parser.rs", r"pub const SETTINGS_ENABLE_PUSH: u16 = ([^;]+);", ""),
    ("h2SettingsIdMaxConcurrentStreams", "lib/src/protocol/mux/parser.rs", r"pub const SETTINGS_MAX_CONCURRENT_STREAMS: u16 = ([^;]+);", ""),
    ("h2SettingsIdInitialWindowSize", "lib/src/protocol/mux/parser.rs", r"pub const SETTINGS_INITIAL_WINDOW_SIZE: u16 = ([^;]+);", ""),
    ("h2SettingsIdMaxFrameSize", "lib/src/protocol/mux/parser.rs", r"pub const SETTINGS_MAX_FRAME_SIZE: u16 = ([^;]+);", ""),
    ("h2SettingsIdMaxHeaderListSize", "lib/src/protocol/mux/parser.rs", r"pub const SETTINGS_MAX_HEADER_LIST_SIZE: u16 = ([^;]+);", ""),
    ("h2SettingsIdEnableConnectProtocol", "lib/src/protocol/mux/parser.rs", r"pub const SETTINGS_ENABLE_CONNECT_PROTOCOL: u16 = ([^;]+);", ""),
    ("h2SettingsIdNoRfc7540Priorities", "lib/src/protocol/mux/parser.rs", r"pub const SETTINGS_NO_RFC7540_PRIORITIES: u16 = ([^;]+);", ""),
    ("h2TypeByteData", "lib/src/protocol/mux/parser.rs", r"\n\s+(\w+) => FrameType::Data,", "convert_frame_type arm"),
    ("h2SerTypeByteData", "lib/src/protocol/mux/serializer.rs", r"\n\s+FrameType::Data => (\w+),", "serialize_frame_type arm"),
    ("h2TypeByteHeaders", "lib/src/protocol/mux/parser.rs", r"\n\s+(\w+) => FrameType::Headers,", "convert_frame_type arm"),
    ("h2SerTypeByteHeaders", "lib/src/protocol/mux/serializer.rs", r"\n\s+FrameType::Headers => (\w+),", "serialize_frame_type arm"),
    ("h2TypeBytePriority", "lib/src/protocol/mux/parser.rs", r"\n\s+(\w+) => FrameType::Priority,", "convert_frame_type arm"),
    ("h2SerTypeBytePriority", "lib/src/protocol/mux/serializer.rs", r"\n\s+FrameType::Priority => (\w+),", "serialize_frame_type arm"),
    ("h2TypeByteRstStream", "lib/src/protocol/mux/parser.rs", r"\n\s+(\w+) => FrameType::RstStream,", "convert_frame_type arm"),
    ("h2SerTypeByteRstStream", "lib/src/protocol/mux/serializer.rs", r"\n\s+FrameType::RstStream => (\w+),", "serialize_frame_type arm"),
    ("h2TypeByteSettings", "lib/src/protocol/mux/parser.rs", r"\n\s+(\w+) => FrameType::Settings,", "convert_frame_type arm"),
    ("h2SerTypeByteSettings", "lib/src/protocol/mux/serializer.rs", r"\n\s+FrameType::Settings => (\w+),", "serialize_frame_type arm"),
    ("h2TypeBytePushPromise", "lib/src/protocol/mux/parser.rs", r"\n\s+(\w+) => FrameType::PushPromise,", "convert_frame_type arm"),
    ("h2SerTypeBytePushPromise", "lib/src/protocol/mux/serializer.rs", r"\n\s+FrameType::PushPromise => (\w+),", "serialize_frame_type arm"),
    ("h2TypeBytePing", "lib/src/protocol/mux/parser.rs", r"\n\s+(\w+) => FrameType::Ping,", "convert_frame_type arm"),
    ("h2SerTypeBytePing", "lib/src/protocol/mux/serializer.rs", r"\n\s+FrameType::Ping => (\w+),", "serialize_frame_type arm"),
    ("h2TypeByteGoAway", "lib/src/protocol/mux/parser.rs", r"\n\s+(\w+) => FrameType::GoAway,", "convert_frame_type arm"),
    ("h2SerTypeByteGoAway", "lib/src/protocol/mux/serializer.rs", r"\n\s+FrameType::GoAway => (\w+),", "serialize_frame_type arm"),
    ("h2TypeByteWindowUpdate", "lib/src/protocol/mux/parser.rs", r"\n\s+(\w+) => FrameType::WindowUpdate,", "convert_frame_type arm"),
    ("h2SerTypeByteWindowUpdate", "lib/src/protocol/mux/serializer.rs", r"\n\s+FrameType::WindowUpdate => (\w+),", "serialize_frame_type arm"),
    ("h2TypeByteContinuation", "lib/src/protocol/mux/parser.rs", r"\n\s+(\w+) => FrameType::Continuation,", "convert_frame_type arm"),
    ("h2SerTypeByteContinuation", "lib/src/protocol/mux/serializer.rs", r"\n\s+FrameType::Continuation => (\w+),", "serialize_frame_type arm"),
    ("h2TypeBytePriorityUpdate", "lib/src/protocol/mux/parser.rs", r"\n\s+(\w+) => FrameType::PriorityUpdate,", "convert_frame_type arm"),
    ("h2SerTypeBytePriorityUpdate", "lib/src/protocol/mux/serializer.rs", r"\n\s+FrameType::PriorityUpdate => (\w+),", "serialize_frame_type arm"),
    ("h2DefaultMaxWindowUpdateStream0PerWindow", "lib/src/protocol/mux/h2.rs", r"\nconst DEFAULT_MAX_WINDOW_UPDATE_STREAM0_PER_WINDOW: u32 = ([^;]+);", ""),
    ("h2DefaultMaxRstStreamLifetime", "lib/src/protocol/mux/h2.rs", r"const DEFAULT_MAX_RST_STREAM_LIFETIME: u64 = ([^;]+);", ""),
    ("h2DefaultMaxRstStreamAbusiveLifetime", "lib/src/protocol/mux/h2.rs", r"const DEFAULT_MAX_RST_STREAM_ABUSIVE_LIFETIME: u64 = ([^;]+);", ""),
    ("h2DefaultMaxRstStreamEmittedLifetime", "lib/src/protocol/mux/h2.rs", r"const DEFAULT_MAX_RST_STREAM_EMITTED_LIFETIME: u64 = ([^;]+);", ""),
    ("h2DefaultMaxPingLifetime", "lib/src/protocol/mux/h2.rs", r"\nconst DEFAULT_MAX_PING_LIFETIME: u32 = ([^;]+);", ""),
    ("h2DefaultMaxSettingsLifetime", "lib/src/protocol/mux/h2.rs", r"\nconst DEFAULT_MAX_SETTINGS_LIFETIME: u32 = ([^;]+);", ""),
    ("h2MaxHeaderListSize", "lib/src/protocol/mux/h2.rs", r"const MAX_HEADER_LIST_SIZE: usize = ([^;]+);", ""),
    ("h2FloodWindowSecs", "lib/src/protocol/mux/h2.rs", r"const FLOOD_WINDOW_DURATION: std::time::Duration = std::time::Duration::from_secs\((\d+)\);", "flood window (seconds)"),
    ("chanDefaultBufferSize", "command/src/config.rs", r"pub const DEFAULT_COMMAND_BUFFER_SIZE: u64 = ([^;]+);", "default command channel buffer size"),
    ("chanDefaultMaxBufferSize", "command/src/config.rs", r"pub const DEFAULT_MAX_COMMAND_BUFFER_SIZE: u64 = ([^;]+);", "default command channel buffer ceiling"),
    ("chanConsumeShiftDiv", "command/src/buffer/growable.rs", r"if self\.position > self\.capacity / (\d+) \{", "Buffer::consume shifts when position > capacity / this"),
    ("chanShrinkFactor", "command/src/channel.rs", r"self\.front_buf\.available_data\(\) \* (\d+) < self\.initial_buffer_size", "front buffer shrinks when data * this < initial size"),
    ("chanGrowFactor", "command/src/channel.rs", r"current_capacity\.saturating_mul\((\d+)\)", "grow_size doubling factor"),
    ("chanWriteGrowFactor", "command/src/channel.rs", r"new_length\.saturating_mul\((\d+)\)", "write_delimited_message doubling factor"),
    # --- ProxyProto / Pipe (C18) ---
    ("ppAddrLenV4", "lib/src/protocol/proxy_protocol/header.rs", r"fn len\(&self\) -> u16 \{\s+match \*self \{\s+ProxyAddr::Ipv4Addr \{ \.\. \} => (\d+),", "encoder: IPv4 address block size"),
    ("ppAddrLenV6", "lib/src/protocol/proxy_protocol/header.rs", r"fn len\(&self\) -> u16 \{\s+match \*self \{[\s\S]{0,200}?ProxyAddr::Ipv6Addr \{ \.\. \} => (\d+),", "encoder: IPv6 address block size"),
    ("ppAddrLenUnix", "lib/src/protocol/proxy_protocol/header.rs", r"fn len\(&self\) -> u16 \{\s+match \*self \{[\s\S]{0,200}?ProxyAddr::UnixAddr \{ \.\. \} => (\d+),", "encoder: UNIX address block size"),
    ("ppAddrLenUnspec", "lib/src/protocol/proxy_protocol/header.rs", r"fn len\(&self\) -> u16 \{\s+match \*self \{[\s\S]{0,200}?ProxyAddr::AfUnspec => (\d+),", "encoder: UNSPEC address block size"),
    ("ppFamV4Hi", "lib/src/protocol/proxy_protocol/header.rs", r"ProxyAddr::Ipv4Addr \{ \.\. \} => (0x[0-9a-fA-F]+) \| 0x[0-9a-fA-F]+,", "get_family: AF_INET nibble (shifted)"),
    ("ppFamV4Lo", "lib/src/protocol/proxy_protocol/header.rs", r"ProxyAddr::Ipv4Addr \{ \.\. \} => 0x[0-9a-fA-F]+ \| (0x[0-9a-fA-F]+),", "get_family: STREAM"),
    ("ppFamV6Hi", "lib/src/protocol/proxy_protocol/header.rs", r"ProxyAddr::Ipv6Addr \{ \.\. \} => (0x[0-9a-fA-F]+) \| 0x[0-9a-fA-F]+,", "get_family: AF_INET6 nibble (shifted)"),
    ("ppFamV6Lo", "lib/src/protocol/proxy_protocol/header.rs", r"ProxyAddr::Ipv6Addr \{ \.\. \} => 0x[0-9a-fA-F]+ \| (0x[0-9a-fA-F]+),", "get_family: STREAM"),
    ("ppFamUnixHi", "lib/src/protocol/proxy_protocol/header.rs", r"ProxyAddr::UnixAddr \{ \.\. \} => (0x[0-9a-fA-F]+) \| 0x[0-9a-fA-F]+,", "get_family: AF_UNIX nibble (shifted)"),
    ("ppFamUnixLo", "lib/src/protocol/proxy_protocol/header.rs", r"ProxyAddr::UnixAddr \{ \.\. \} => 0x[0-9a-fA-F]+ \| (0x[0-9a-fA-F]+),", "get_family: STREAM"),
    ("ppFamUnspec", "lib/src/protocol/proxy_protocol/header.rs", r"ProxyAddr::AfUnspec => (0x[0-9a-fA-F]+),", "get_family: AF_UNSPEC"),
    ("ppVersionBits", "lib/src/protocol/proxy_protocol/header.rs", r"let ver_and_cmd = (0x[0-9a-fA-F]+) \| command;", "encoder: version nibble"),
    ("ppEncCmdLocal", "lib/src/protocol/proxy_protocol/header.rs", r"Command::Local => (\d+),", "encoder: LOCAL command bit"),
    ("ppEncCmdProxy", "lib/src/protocol/proxy_protocol/header.rs", r"Command::Proxy => (\d+),", "encoder: PROXY command bit"),
    ("ppUnixPathLen", "lib/src/protocol/proxy_protocol/header.rs", r"src_addr: \[u8; (\d+)\],", "UNIX socket path field"),
    ("ppParseCmdLocal", "lib/src/protocol/proxy_protocol/parser.rs", r"(0x[0-9a-fA-F]+) => Ok\(\(i, Command::Local\)\),", "parser: ver/cmd byte for LOCAL"),
    ("ppParseCmdProxy", "lib/src/protocol/proxy_protocol/parser.rs", r"(0x[0-9a-fA-F]+) => Ok\(\(i, Command::Proxy\)\),", "parser: ver/cmd byte for PROXY"),
    ("ppParseFamUnspec", "lib/src/protocol/proxy_protocol/parser.rs", r"(0x[0-9a-fA-F]+) => Ok\(\(i, ProxyAddr::AfUnspec\)\),", "parser: family nibble UNSPEC"),
    ("ppParseFamV4", "lib/src/protocol/proxy_protocol/parser.rs", r"(0x[0-9a-fA-F]+) => parse_ipv4_on_v2\(i\),", "parser: family nibble INET"),
    ("ppParseFamV6", "lib/src/protocol/proxy_protocol/parser.rs", r"(0x[0-9a-fA-F]+) => parse_ipv6_on_v2\(i\),", "parser: family nibble INET6"),
    ("ppParseIpLenV4", "lib/src/protocol/proxy_protocol/parser.rs", r"fn parse_ipv4_on_v2[^\n]*\n\s+let in_len = i\.len\(\);\s+let \(i, src_ip\) = take\((\d+)u8\)\(i\)\?;", "parser: IPv4 address bytes"),
    ("ppParseIpLenV6", "lib/src/protocol/proxy_protocol/parser.rs", r"fn parse_ipv6_on_v2[^\n]*\n\s+let in_len = i\.len\(\);\s+let \(i, src_ip\) = take\((\d+)u8\)\(i\)\?;", "parser: IPv6 address bytes"),
    ("ppExpectStageV4", "lib/src/protocol/proxy_protocol/expect.rs", r"HeaderLen::V4 => (\d+),", "expect: first read window"),
    ("ppExpectStageV6", "lib/src/protocol/proxy_protocol/expect.rs", r"HeaderLen::V6 => (\d+),", "expect: second read window"),
    ("ppExpectStageUnix", "lib/src/protocol/proxy_protocol/expect.rs", r"HeaderLen::Unix => (\d+),", "expect: last read window"),
    ("ppExpectBufLen", "lib/src/protocol/proxy_protocol/expect.rs", r"frontend_buffer: \[u8; (\d+)\],", "expect: reassembly buffer"),
    ("ppExpectBumpV4", "lib/src/protocol/proxy_protocol/expect.rs", r"HeaderLen::V4 => \{\s+if self\.index == (\d+) \{", "expect: index at which stage V4 -> V6"),
    ("ppExpectBumpV6", "lib/src/protocol/proxy_protocol/expect.rs", r"HeaderLen::V6 => \{\s+if self\.index == (\d+) \{", "expect: index at which stage V6 -> Unix"),
    ("ppExpectOversize", "lib/src/protocol/proxy_protocol/expect.rs", r"HeaderLen::Unix => \{\s+if self\.index == (\d+) \{", "expect: index at which the header is declared oversized"),
    ("maxLoopIterations", "command/src/config.rs", r"pub const MAX_LOOP_ITERATIONS: usize = ([^;]+);", "readiness loop cap shared by every session state"),
    ("poolConsumeShiftDiv", "lib/src/pool.rs", r"if self\.inner\.position > self\.capacity\(\) / (\d+) \{", "Checkout::consume shifts when position > capacity / this"),
    # --- Backends (C12) ---
    ("backendRetryMaxTries", "lib/src/backends.rs", r"retry::ExponentialBackoffPolicy::new\((\d+)\)", "Backend::new: max_tries of the per-backend back-off policy"),
    ("lbRandomDefaultWeight", "lib/src/load_balancing.rs", r"\.map\(\|p\| p\.weight\)\s*\.unwrap_or\((\d+)\)", "Random: weight of a backend without load_balancing_parameters"),
    ("lbDefaultWeight", "lib/src/load_balancing.rs", r"\nconst DEFAULT_WEIGHT: i32 = ([^;]+);", "HRW/Maglev default weight"),
    ("lbMaglevTableSize", "lib/src/load_balancing.rs", r"pub const DEFAULT_TABLE_SIZE: usize = ([^;]+);", "Maglev table size M"),
    ("h2DefaultInitialWindowSize", "lib/src/protocol/mux/h2.rs", r"const DEFAULT_INITIAL_WINDOW_SIZE: u32 = ([^;]+);", "RFC default stream/connection window"),
    ("h2EnlargedConnectionWindow", "lib/src/protocol/mux/h2.rs", r"\nconst ENLARGED_CONNECTION_WINDOW: u32 = ([^;]+);", "default initial_connection_window"),
    ("h2ErrInternalError", "lib/src/protocol/mux/parser.rs", r"\n\s+InternalError = (0x[0-9a-fA-F]+),", "H2Error::InternalError code"),
    ("muxH1FrontStreamWindow", "lib/src/http.rs", r"\.create_stream\(request_id, ([^)]+)\)", "Stream.window given to streams of HTTP/1 frontends (http listener)"),
    ("muxH1sFrontStreamWindow", "lib/src/https.rs", r"context\.create_stream\(handshake\.request_id, ([^)]+)\)", "Stream.window given to streams of HTTP/1 frontends (https listener)"),
    # --- Headers (C03/C13) ---
    ("hdrMaxTrailerBytes", "lib/src/protocol/mux/pkawa.rs", r"pub const MAX_TRAILER_BYTES: usize = ([^;]+);", "per-trailer-block byte cap"),
    ("hdrFieldSizeOverhead", "lib/src/protocol/mux/h2.rs", r"const HEADER_FIELD_SIZE_OVERHEAD: usize = ([^;]+);", "RFC 9113 6.5.2 per-field overhead"),
    ("cfgH2MinBufferSize", "command/src/config.rs", r"pub const H2_MIN_BUFFER_SIZE: u64 = ([^;]+);", "smallest buffer_size accepted when an HTTPS listener advertises h2"),
    ("cfgDefaultBufferSize", "command/src/config.rs", r"pub const DEFAULT_BUFFER_SIZE: u64 = ([^;]+);", "buffer_size when the file does not set it"),
    ("wkLeaseTableCap", "lib/src/metrics/mod.rs", r"pub const LEASE_TABLE_CAP: usize = ([^;]+);", "SetMetricDetail: lease table capacity (C08)"),
    ("cfgMsgCounterBits", "command/src/config.rs", r"let mut count = 0(u8|u16|u32|u64|usize|u128);", "width in bits of the message id counter of generate_config_messages"),
    # --- Answers (C02): the cause -> status literals of Mux::ready / Mux::timeout / end_stream_decision ---
    ("ansConnRetries", "lib/src/server.rs", r"pub const CONN_RETRIES: u8 = ([^;]+);", "connection attempts per request before 503"),
    ("ansRetriesExhausted", "lib/src/protocol/mux/mod.rs", r"BE::MaxConnectionRetries\(_\)\s+\| BE::MaxSessionsMemory\s+\| BE::MaxBuffers => \{\s+warn!\([^;]*\);\s+set_default_answer\(stream, front_readiness, (\d+), &answers\);", "MaxConnectionRetries | MaxSessionsMemory | MaxBuffers"),
    ("ansNoBackend", "lib/src/protocol/mux/mod.rs", r"BE::Backend\(BackendError::NoBackendForCluster\(_\)\) => \{\s+set_default_answer\(stream, front_readiness, (\d+), &answers\);", "NoBackendForCluster"),
    ("ansHostParse", "lib/src/protocol/mux/mod.rs", r"FrontendFromRequestError::InvalidCharsAfterHost\(_\) => (\d+),", "HostParse | InvalidCharsAfterHost"),
    ("ansNoCluster", "lib/src/protocol/mux/mod.rs", r"FrontendFromRequestError::NoClusterFound\(_\) => (\d+),", "NoClusterFound"),
    ("ansUnauthorized", "lib/src/protocol/mux/mod.rs", r"BE::RetrieveClusterError\(RetrieveClusterError::UnauthorizedRoute\) => \{\s+set_default_answer\(stream, front_readiness, (\d+), &answers\);", "UnauthorizedRoute"),
    ("ansSniMismatch", "lib/src/protocol/mux/mod.rs", r"RetrieveClusterError::SniAuthorityMismatch \{ \.\. \},\s+\) => \{(?:\s*//[^\n]*)*\s+set_default_answer\(stream, front_readiness, (\d+), &answers\);", "SniAuthorityMismatch"),
    ("ansRedirectDefault", "lib/src/protocol/mux/mod.rs", r"stream\.context\.redirect_status\.unwrap_or\((\d+)\)", "HttpsRedirect without a stashed status"),
    ("ansBackendOther", "lib/src/protocol/mux/mod.rs", r"BE::Backend\(ref e\) => \{\s+error!\([^;]*\);\s+set_default_answer\(stream, front_readiness, (\d+), &answers\);", "any other BackendError"),
    ("ansRetrieveOther", "lib/src/protocol/mux/mod.rs", r"BE::RetrieveClusterError\(ref other\) => \{\s+error!\([^;]*\);\s+set_default_answer\(stream, front_readiness, (\d+), &answers\);", "any other RetrieveClusterError"),
    ("ansTcpNotFound", "lib/src/protocol/mux/mod.rs", r"BE::NotFound\(ref msg\) => \{\s+error!\([^;]*\);\s+set_default_answer\(stream, front_readiness, (\d+), &answers\);", "NotFound (TCP only)"),
    ("ansPerIpLimit", "lib/src/protocol/mux/mod.rs", r"set_default_answer_with_retry_after\(\s+stream,\s+front_readiness,\s+(\d+),", "TooManyConnectionsPerIp"),
    ("ansClientTimeout", "lib/src/protocol/mux/mod.rs", r"Some\(\"client_timeout\"\);\s+set_default_answer\(stream, front_readiness, (\d+), &answers\);", "front timer, H1 stream Idle"),
    ("ansLinkTimeout", "lib/src/protocol/mux/mod.rs", r"StreamState::Link => \{(?:\s*//[^\n]*)*\s+let answers = answers_rc\.borrow\(\);\s+let stream = &mut self\.context\.streams\[stream_id\];\s+set_default_answer\(stream, front_readiness, (\d+), &answers\);", "front timer, stream in Link"),
    ("ansFrontTimeoutLinked", "lib/src/protocol/mux/mod.rs", r"Some\(\"client_timeout_during_response\"\);\s+set_default_answer\(stream, front_readiness, (\d+), &answers\);", "front timer, Linked, response not started"),
    ("ansBackendTimeout", "lib/src/protocol/mux/mod.rs", r"Some\(\"backend_timeout\"\);\s+set_default_answer\(stream, front_readiness, (\d+), &answers\);", "back timer, Linked, response not started"),
    ("ansBackendClosedEarly", "lib/src/protocol/mux/shared.rs", r"EndStreamAction::SendDefault\((\d+)\)", "end_stream_decision: no response, request already consumed"),
    ("ansFrontParse", "lib/src/protocol/mux/h1.rs", r"incr!\(names::http::FRONTEND_PARSE_ERRORS\);\s+let answers = answers_rc\.borrow\(\);\s+set_default_answer\(stream, &mut self\.readiness, (\d+), &answers\);", "H1 request parse error"),
    # --- State (C05/C06/C07): listener patch validation ---
    ("stateShrinkRatioMinHttp", "command/src/state.rs", r"pub fn validate_h2_flood_knobs_http\b[\s\S]*?if let Some\(v\) = patch\.h2_stream_shrink_ratio \{\s*if v < (\d+)", "update_http_listener: smallest accepted h2_stream_shrink_ratio"),
    ("stateShrinkRatioMinHttps", "command/src/state.rs", r"pub fn validate_h2_flood_knobs_https\b[\s\S]*?if let Some\(v\) = patch\.h2_stream_shrink_ratio \{\s*if v < (\d+)", "update_https_listener: smallest accepted h2_stream_shrink_ratio"),
    ("stateKnobZeroRejected", "command/src/state.rs", r"pub fn validate_h2_flood_knobs_https\b[\s\S]*?if let Some\((\d+)\) = \$field", "require_ge1!: the rejected value of a flood knob"),
]

# byte tables: (lean name, file, regex with ONE group = comma-separated byte list)
BYTE_TABLES = [
    ("ppSignatureV2", "lib/src/protocol/proxy_protocol/parser.rs", r"const PROTOCOL_SIGNATURE_V2: \[u8; 12\] = \[([^\]]+)\];"),
    ("udpPp2Signature", "lib/src/protocol/udp/proxy_protocol.rs", r"const PP2_SIGNATURE: \[u8; 12\] = \[([^\]]+)\];"),
    ("h2SettingsAck", "lib/src/protocol/mux/serializer.rs", r"pub const SETTINGS_ACKNOWLEDGEMENT: \[u8; 9\] = \[([^\]]+)\];"),
    ("h2PingAckHeader", "lib/src/protocol/mux/serializer.rs", r"pub const PING_ACKNOWLEDGEMENT_HEADER: \[u8; 9\] = \[([^\]]+)\];"),
    ("ppEncSignature", "lib/src/protocol/proxy_protocol/header.rs", r"let signature = \[([^\]]+)\];"),
]


# boolean code-shape flags: (lean name, file, regex present when TRUE, regex present when FALSE, doc).
# Exactly one of the two patterns must match, otherwise the translator refuses.
FLAGS = [
    ("hubForwardsTimedOut", "bin/src/command/server.rs",
     r"task\.job\.on_finish\(&mut self\.server, client, timed_out\)",
     r"task\.job\.on_finish\(&mut self\.server, client, false\)",
     "handle_finishing_task hands its timed_out flag to on_finish (false: a constant `false` is passed, F17)"),
    ("hubStopFailureExclusive", "bin/src/command/requests.rs",
     r"if !\(timed_out && self\.hardness\) \{\s*client\.finish_ok\(",
     r"must leave the master in the Stopping state\"\s*\);\s*client\.finish_ok\(",
     "StopTask::on_finish sends finish_ok only when it did not already send the timed-out failure"),
    ("hubRetiresAnsweredIds", "bin/src/command/server.rs",
     r"\.on_message\(&mut self\.server, client, worker_id, response\);\s*if terminal \{\s*self\.in_flight\.remove\(&response_id\);",
     r"\.on_message\(&mut self\.server, client, worker_id, response\);\s*\}\s*fn handle_finishing_task",
     "handle_worker_response removes the in-flight id once it got a terminal answer (false: a duplicate answer is counted again)"),
    ("hubAnswersUnsupportedVerbs", "bin/src/command/requests.rs",
     r"RequestType::LaunchWorker\(_\) => \{\s*client\.finish_failure\(",
     r"RequestType::LaunchWorker\(_\) => \{\} // not yet implemented",
     "request_type None / LaunchWorker / ReturnListenSockets are answered with a failure (false: never answered, F21)"),
    ("hubReloadBadPathPanics", "bin/src/command/requests.rs",
     r"panic!\(\"cannot load configuration from",
     r"could not load configuration from '\{path\}'",
     "ReloadConfiguration of a path that cannot be loaded panics the main process (false: the client is answered a failure and the task is cancelled)"),
    # --- H2Wire (C15) ---
    ("h2FirstSettingsChecksLen", "lib/src/protocol/mux/h2.rs",
     r"\(H2State::ClientSettings, Position::Server\) => \{\s*let i = kawa\.storage\.data\(\);(?:\s*//[^\n]*)*\s*if i\.len\(\) % parser::SETTINGS_ENTRY_SIZE as usize != 0 \{\s*return self\.goaway\(H2Error::FrameSizeError\);",
     r"\(H2State::ClientSettings, Position::Server\) => \{\s*let i = kawa\.storage\.data\(\);\s*let settings = match parser::settings_frame\(",
     "the first SETTINGS of a connection (parsed with settings_frame directly) is refused with FRAME_SIZE_ERROR when its length is not a multiple of 6 (false: accepted, tail dropped, F24)"),
]


# byte sets written as a `matches!(b, b'x' | b'a'..=b'z' | 0x00..=0x1F ...)` pattern:
# (lean name, file, regex with ONE group = the alternatives of the pattern)
BYTE_SETS = [
    # --- Headers (C03/C13) ---
    ("hdrTchar", "lib/src/protocol/mux/pkawa.rs", r"fn is_tchar\(b: u8\) -> bool \{\s+matches!\(\s+b,([^)]+)\)"),
    ("hdrPseudoValueForbidden", "lib/src/protocol/mux/pkawa.rs", r"fn has_invalid_pseudo_value_byte\(value: &\[u8\]\) -> bool \{\s+value\.iter\(\)\.any\(\|&b\| matches!\(b,([^)]+)\)\)"),
    ("hdrValueCtlImmediate", "lib/src/protocol/mux/pkawa.rs", r"\n\s+((?:0x[0-9A-Fa-f]{2}(?:\.\.=0x[0-9A-Fa-f]{2})? \| )+0x7F) => \{\s+return Some\(RejectReason::CrlfInValue\);"),
    ("hdrValueCrLf", "lib/src/protocol/mux/pkawa.rs", r"\n\s+(0x0A \| 0x0D) => saw_crlf = true,"),
    ("hdrH2OutValueForbidden", "lib/src/protocol/mux/converter.rs", r"\.any\(\|&b\| matches!\(b,([^)]+)\)\)\s+\{\s+error!\(\s+\"\{\} H1->H2 header value contains invalid characters"),
]

# lists of byte-string literals: (lean name, file, regex with ONE group = region, item regex with ONE group)
STRING_LISTS = [
    ("hdrConnectionSpecific", "lib/src/protocol/mux/pkawa.rs", r"fn is_connection_specific_header\(name: &\[u8\]\) -> bool \{([\s\S]*?)\n\}", r'compare_no_case\(name, b"([^"]+)"\)'),
    ("hdrTrailerElided", "lib/src/protocol/mux/pkawa.rs", r"if matches!\(\s+k\.as_ref\(\),([^)]+)\)", r'b"([^"]+)"'),
    # --- Worker (C08): which proxies a request is destined to, which kinds ConfigState::dispatch accepts,
    #     which kinds the main process scatters (variant names as byte strings) ---
    ("wkAllVariants", "command/src/proto/command.rs", r"pub enum RequestType \{([\s\S]*?)\n    \}", r"\n\s+(\w+)\("),
    ("wkDestHttp", "command/src/request.rs", r"match request_type \{\s*((?:\|?\s*RequestType::\w+\(_\)\s*)+)=> \{\s*proxy_destination\.to_http_proxy = true\s*\}", r"RequestType::(\w+)"),
    ("wkDestHttps", "command/src/request.rs", r"((?:\|?\s*RequestType::\w+\(_\)\s*)+)=> proxy_destination\.to_https_proxy = true,", r"RequestType::(\w+)"),
    ("wkDestTcp", "command/src/request.rs", r"((?:\|?\s*RequestType::\w+\(_\)\s*)+)=> \{\s*proxy_destination\.to_tcp_proxy = true\s*\}", r"RequestType::(\w+)"),
    ("wkDestUdp", "command/src/request.rs", r"((?:\|?\s*RequestType::\w+\(_\)\s*)+)=> \{\s*proxy_destination\.to_udp_proxy = true\s*\}", r"RequestType::(\w+)"),
    ("wkDestAll", "command/src/request.rs", r"((?:\|?\s*RequestType::\w+\(_\)\s*)+)=> \{\s*proxy_destination\.to_http_proxy = true;\s*proxy_destination\.to_https_proxy = true;\s*proxy_destination\.to_tcp_proxy = true;\s*proxy_destination\.to_udp_proxy = true;\s*\}", r"RequestType::(\w+)"),
    ("wkDispatchHandled", "command/src/state.rs", r"let result = match request_type \{([\s\S]*?)// This is to avoid the error message", r"RequestType::(\w+)\(\w+\) =>"),
    ("wkDispatchPassthrough", "command/src/state.rs", r"((?:\|?\s*RequestType::\w+\(_\)\s*)+)=> Ok\(\(\)\),", r"RequestType::(\w+)"),
    ("wkScatterWorkerRequest", "bin/src/command/requests.rs", r"RequestType::Status\(_\) => status\(self, client\),\s*((?:\|?\s*RequestType::\w+\(_\)\s*)+)=> \{\s*worker_request\(self, client, request_type\);", r"RequestType::(\w+)"),
    ("wkScatterQueryClusters", "bin/src/command/requests.rs", r"((?:\|?\s*RequestType::\w+\(_\)\s*)+)=> \{\s*query_clusters\(self, client, request_type\);", r"RequestType::(\w+)"),
]


# a captured Rust unsigned integer type stands for its width in bits (usize: 64-bit targets)
TYPE_BITS = {"u8": 8, "u16": 16, "u32": 32, "u64": 64, "usize": 64, "u128": 128}


def ev(expr):
    e = re.sub(r"//.*", "", expr).strip()
    if e in TYPE_BITS:
        return TYPE_BITS[e]
    e = re.sub(r"(?<=[0-9a-fA-FxX])_(?=[0-9a-fA-F])", "", e)
    e = re.sub(r"(?<=\d)(usize|u64|u32|u16|u8|i32|i64)\b", "", e)
    e = re.sub(r"\s+as\s+\w+", "", e)
    if not re.fullmatch(r"[0-9a-fA-FxX\s\+\-\*/<>\(\)]+", e):
        raise ValueError(f"not a literal arithmetic expression: {expr!r}")
    return int(eval(e, {"__builtins__": {}}, {}))  # noqa: S307 (sanitised above)


def byte_lit(tok):
    tok = tok.strip()
    m = re.fullmatch(r"b'(\\?.)'", tok)
    if m:
        c = m.group(1)
        esc = {"\\'": 39, "\\\\": 92, "\\n": 10, "\\r": 13, "\\t": 9, "\\0": 0}
        return esc[c] if c in esc else ord(c)
    return ev(tok)


def byte_set(alts):
    tok = r"(?:b'(?:\\.|[^'\\])'|0x[0-9A-Fa-f]+|\d+)"
    text = re.sub(r"//.*", "", alts)
    out = set()
    pos = 0
    for m in re.finditer(rf"({tok})(?:\s*\.\.=\s*({tok}))?", text):
        if text[pos:m.start()].strip(" \n\t|") != "":
            raise ValueError(f"unexpected text in byte pattern: {text[pos:m.start()]!r}")
        pos = m.end()
        lo = byte_lit(m.group(1))
        hi = byte_lit(m.group(2)) if m.group(2) else lo
        out.update(range(lo, hi + 1))
    if text[pos:].strip(" \n\t|,") != "":
        raise ValueError(f"unexpected trailing text in byte pattern: {text[pos:]!r}")
    if not out or max(out) > 255:
        raise ValueError("empty or out-of-range byte set")
    return sorted(out)


def main():
    repo, out = sys.argv[1], sys.argv[2]
    lines = ["/- GENERATED by tools/extract_consts.py from the repository's current source text.",
             "   Do not edit: rewritten (when different) on every check run. -/",
             "namespace Sozu.Consts", ""]
    errors = []
    cache = {}

    def src(f):
        if f not in cache:
            cache[f] = open(os.path.join(repo, f), encoding="utf-8", errors="replace").read()
        return cache[f]

    for name, f, pat, doc in SPECS:
        try:
            m = re.search(pat, src(f))
            if not m:
                raise ValueError("pattern not found")
            v = ev(m.group(1))
            if doc:
                lines.append(f"/-- {doc} ({f}) -/")
            lines.append(f"def {name} : Nat := {v}")
        except Exception as ex:  # noqa: BLE001
            errors.append(f"{name} ({f}): {ex}")
    for name, f, pat in BYTE_TABLES:
        try:
            m = re.search(pat, src(f), flags=re.S)
            if not m:
                raise ValueError("pattern not found")
            vals = [ev(x) for x in m.group(1).split(",") if x.strip()]
            lines.append(f"def {name} : List Nat := [{', '.join(str(v) for v in vals)}]")
        except Exception as ex:  # noqa: BLE001
            errors.append(f"{name} ({f}): {ex}")
    for name, f, pat_t, pat_f, doc in FLAGS:
        try:
            t = re.search(pat_t, src(f)) is not None
            fl = re.search(pat_f, src(f)) is not None
            if t == fl:
                raise ValueError("cannot tell which shape the code has (true-pattern %s, false-pattern %s)" % (t, fl))
            lines.append(f"/-- {doc} ({f}) -/")
            lines.append(f"def {name} : Bool := {'true' if t else 'false'}")
        except Exception as ex:  # noqa: BLE001
            errors.append(f"{name} ({f}): {ex}")
    for name, f, pat in BYTE_SETS:
        try:
            m = re.search(pat, src(f), flags=re.S)
            if not m:
                raise ValueError("pattern not found")
            vals = byte_set(m.group(1))
            lines.append(f"def {name} : List Nat := [{', '.join(str(v) for v in vals)}]")
        except Exception as ex:  # noqa: BLE001
            errors.append(f"{name} ({f}): {ex}")
    for name, f, pat, item in STRING_LISTS:
        try:
            m = re.search(pat, src(f), flags=re.S)
            if not m:
                raise ValueError("pattern not found")
            items = re.findall(item, m.group(1))
            if not items:
                raise ValueError("no items")
            body = ", ".join("[" + ", ".join(str(b) for b in it.encode()) + "]" for it in items)
            lines.append(f"/-- {' '.join(items)} ({f}) -/")
            lines.append(f"def {name} : List (List Nat) := [{body}]")
        except Exception as ex:  # noqa: BLE001
            errors.append(f"{name} ({f}): {ex}")
    lines += ["", "end Sozu.Consts", ""]
    if errors:
        # An item that cannot be extracted is simply NOT defined: the Lean modules that use
        # it stop compiling, which breaks the proof obligations of exactly the properties that
        # depend on it (./check reports those), and of no other property.
        print("extract_consts: cannot extract (left undefined):\n  " + "\n  ".join(errors))
    text = "\n".join(lines)
    old = open(out).read() if os.path.exists(out) else None
    if old != text:
        os.makedirs(os.path.dirname(out), exist_ok=True)
        with open(out, "w") as fh:
            fh.write(text)
        print(f"extract_consts: wrote {out} ({len(SPECS) + len(BYTE_TABLES) + len(FLAGS)} items)")
    else:
        print(f"extract_consts: {out} up to date ({len(SPECS) + len(BYTE_TABLES) + len(FLAGS)} items)")


if __name__ == "__main__":
    main()
