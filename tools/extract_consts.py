#!/usr/bin/env python3
"""Translator: re-extract numeric constants, small tables and inline numeric
knobs from /repo's *current* source text into lean/Sozu/Generated/Consts.lean.

Theorems that mention these names are re-checked against what the code says
now. The translator refuses (exit 1) when an expected item is missing or is
not a literal arithmetic expression it can evaluate.

usage: extract_consts.py <repo> <out.lean>
"""
import os
import re
import sys

# (lean name, file, regex with ONE group = integer expression, doc)
SPECS = [
    ("scmMaxFdsOut", "command/src/scm_socket.rs", r"pub const MAX_FDS_OUT: usize = ([^;]+);", "fds per SCM_RIGHTS message"),
    ("scmMaxBytesOut", "command/src/scm_socket.rs", r"pub const MAX_BYTES_OUT: usize = ([^;]+);", "manifest receive buffer"),
    ("sessAcceptBase", "lib/src/server.rs", r"let threshold = (\d+) \+ \d+ \* self\.max_connections;", "accept_slab_threshold: base"),
    ("sessAcceptFactor", "lib/src/server.rs", r"let threshold = \d+ \+ (\d+) \* self\.max_connections;", "accept_slab_threshold: factor"),
    ("sessResumeNum", "lib/src/server.rs", r"self\.nb_connections < self\.max_connections \* (\d+) / \d+", "decr hysteresis numerator"),
    ("sessResumeDen", "lib/src/server.rs", r"self\.nb_connections < self\.max_connections \* \d+ / (\d+)", "decr hysteresis denominator"),
    ("h2FrameHeaderSize", "lib/src/protocol/mux/parser.rs", r"pub const FRAME_HEADER_SIZE: usize = ([^;]+);", ""),
    ("h2StreamIdMask", "lib/src/protocol/mux/parser.rs", r"pub const STREAM_ID_MASK: u32 = ([^;]+);", ""),
    ("h2PriorityPayloadSize", "lib/src/protocol/mux/parser.rs", r"pub const PRIORITY_PAYLOAD_SIZE: u32 = ([^;]+);", ""),
    ("h2RstStreamPayloadSize", "lib/src/protocol/mux/parser.rs", r"pub const RST_STREAM_PAYLOAD_SIZE: u32 = ([^;]+);", ""),
    ("h2SettingsEntrySize", "lib/src/protocol/mux/parser.rs", r"pub const SETTINGS_ENTRY_SIZE: u32 = ([^;]+);", ""),
    ("h2PingPayloadSize", "lib/src/protocol/mux/parser.rs", r"pub const PING_PAYLOAD_SIZE: u32 = ([^;]+);", ""),
    ("h2WindowUpdatePayloadSize", "lib/src/protocol/mux/parser.rs", r"pub const WINDOW_UPDATE_PAYLOAD_SIZE: u32 = ([^;]+);", ""),
    ("h2GoawayPayloadSize", "lib/src/protocol/mux/parser.rs", r"pub const GOAWAY_PAYLOAD_SIZE: u32 = ([^;]+);", ""),
    ("h2MaxSettingsEntries", "lib/src/protocol/mux/parser.rs", r"pub const MAX_SETTINGS_ENTRIES: usize = ([^;]+);", ""),
    ("h2PriorityUpdateMinPayload", "lib/src/protocol/mux/parser.rs", r"pub const PRIORITY_UPDATE_MIN_PAYLOAD: u32 = ([^;]+);", ""),
    ("h2PriorityUpdateMaxValue", "lib/src/protocol/mux/parser.rs", r"pub const PRIORITY_UPDATE_MAX_VALUE: usize = ([^;]+);", ""),
    ("h2FlagEndStream", "lib/src/protocol/mux/parser.rs", r"pub const FLAG_END_STREAM: u8 = ([^;]+);", ""),
    ("h2FlagEndHeaders", "lib/src/protocol/mux/parser.rs", r"pub const FLAG_END_HEADERS: u8 = ([^;]+);", ""),
    ("h2FlagPadded", "lib/src/protocol/mux/parser.rs", r"pub const FLAG_PADDED: u8 = ([^;]+);", ""),
    ("h2FlagPriority", "lib/src/protocol/mux/parser.rs", r"pub const FLAG_PRIORITY: u8 = ([^;]+);", ""),
    ("h2DefaultMaxFrameSize", "lib/src/protocol/mux/h2.rs", r"\nconst DEFAULT_MAX_FRAME_SIZE: u32 = ([^;]+);", ""),
    ("h2MinMaxFrameSize", "lib/src/protocol/mux/h2.rs", r"\nconst MIN_MAX_FRAME_SIZE: u32 = ([^;]+);", ""),
    ("h2MaxMaxFrameSize", "lib/src/protocol/mux/h2.rs", r"\nconst MAX_MAX_FRAME_SIZE: u32 = ([^;]+);", ""),
    ("h2FlowControlMaxWindow", "lib/src/protocol/mux/h2.rs", r"\nconst FLOW_CONTROL_MAX_WINDOW: u32 = ([^;]+);", ""),
    ("h2StreamIdMax", "lib/src/protocol/mux/h2.rs", r"\nconst STREAM_ID_MAX: u32 = ([^;]+);", ""),
    ("h2DefaultMaxConcurrentStreams", "lib/src/protocol/mux/h2.rs", r"\nconst DEFAULT_MAX_CONCURRENT_STREAMS: u32 = ([^;]+);", ""),
    ("h2DefaultMaxRstStreamPerWindow", "lib/src/protocol/mux/h2.rs", r"\nconst DEFAULT_MAX_RST_STREAM_PER_WINDOW: u32 = ([^;]+);", ""),
    ("h2DefaultMaxPingPerWindow", "lib/src/protocol/mux/h2.rs", r"\nconst DEFAULT_MAX_PING_PER_WINDOW: u32 = ([^;]+);", ""),
    ("h2DefaultMaxSettingsPerWindow", "lib/src/protocol/mux/h2.rs", r"\nconst DEFAULT_MAX_SETTINGS_PER_WINDOW: u32 = ([^;]+);", ""),
    ("h2DefaultMaxEmptyDataPerWindow", "lib/src/protocol/mux/h2.rs", r"\nconst DEFAULT_MAX_EMPTY_DATA_PER_WINDOW: u32 = ([^;]+);", ""),
    ("h2DefaultMaxContinuationFrames", "lib/src/protocol/mux/h2.rs", r"\nconst DEFAULT_MAX_CONTINUATION_FRAMES: u32 = ([^;]+);", ""),
    ("h2DefaultMaxGlitchCount", "lib/src/protocol/mux/h2.rs", r"\nconst DEFAULT_MAX_GLITCH_COUNT: u32 = ([^;]+);", ""),
]

# byte tables: (lean name, file, regex with ONE group = comma-separated byte list)
BYTE_TABLES = [
    ("ppSignatureV2", "lib/src/protocol/proxy_protocol/parser.rs", r"const PROTOCOL_SIGNATURE_V2: \[u8; 12\] = \[([^\]]+)\];"),
    ("udpPp2Signature", "lib/src/protocol/udp/proxy_protocol.rs", r"const PP2_SIGNATURE: \[u8; 12\] = \[([^\]]+)\];"),
    ("h2SettingsAck", "lib/src/protocol/mux/serializer.rs", r"pub const SETTINGS_ACKNOWLEDGEMENT: \[u8; 9\] = \[([^\]]+)\];"),
]


def ev(expr):
    e = re.sub(r"//.*", "", expr).strip()
    e = re.sub(r"(?<=[0-9a-fA-FxX])_(?=[0-9a-fA-F])", "", e)
    e = re.sub(r"(?<=\d)(usize|u64|u32|u16|u8|i32|i64)\b", "", e)
    e = re.sub(r"\s+as\s+\w+", "", e)
    if not re.fullmatch(r"[0-9a-fA-FxX\s\+\-\*/<>\(\)]+", e):
        raise ValueError(f"not a literal arithmetic expression: {expr!r}")
    return int(eval(e, {"__builtins__": {}}, {}))  # noqa: S307 (sanitised above)


def main():
    repo, out = sys.argv[1], sys.argv[2]
    lines = ["/- GENERATED by tools/extract_consts.py from the repository's current source text.",
             "   Do not edit: rewritten (when different) on every check run. -/",
             "namespace Sozu.Consts", ""]
    errors = []
    cache = {}

    def src(f):
        if f not in cache:
            cache[f] = open(os.path.join(repo, f), encoding="utf-8", errors="replace").read()
        return cache[f]

    for name, f, pat, doc in SPECS:
        try:
            m = re.search(pat, src(f))
            if not m:
                raise ValueError("pattern not found")
            v = ev(m.group(1))
            if doc:
                lines.append(f"/-- {doc} ({f}) -/")
            lines.append(f"def {name} : Nat := {v}")
        except Exception as ex:  # noqa: BLE001
            errors.append(f"{name} ({f}): {ex}")
    for name, f, pat in BYTE_TABLES:
        try:
            m = re.search(pat, src(f), flags=re.S)
            if not m:
                raise ValueError("pattern not found")
            vals = [ev(x) for x in m.group(1).split(",") if x.strip()]
            lines.append(f"def {name} : List Nat := [{', '.join(str(v) for v in vals)}]")
        except Exception as ex:  # noqa: BLE001
            errors.append(f"{name} ({f}): {ex}")
    lines += ["", "end Sozu.Consts", ""]
    if errors:
        print("extract_consts: cannot extract:\n  " + "\n  ".join(errors))
        sys.exit(1)
    text = "\n".join(lines)
    old = open(out).read() if os.path.exists(out) else None
    if old != text:
        os.makedirs(os.path.dirname(out), exist_ok=True)
        with open(out, "w") as fh:
            fh.write(text)
        print(f"extract_consts: wrote {out} ({len(SPECS) + len(BYTE_TABLES)} items)")
    else:
        print(f"extract_consts: {out} up to date ({len(SPECS) + len(BYTE_TABLES)} items)")


if __name__ == "__main__":
    main()
