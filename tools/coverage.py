#!/usr/bin/env python3
"""Diagnostic (not a check, not a proof): which functions of the files a property is
anchored in are executed by that property's registered quick runs?

Builds the harness with `-C instrument-coverage` on the nightly toolchain (its
llvm-tools are the only ones installed) into a scratch target directory OUTSIDE
/verif, runs every quick run of tools/props/<ID>.json with the instrumented binary,
merges the profiles and writes coverage/<ID>.json: per anchored file, the functions
(name, line) that were never entered and the line coverage. Used to direct where the
correspondence check has to grow; nothing registered in MANIFEST.json depends on it.

usage: coverage.py [--build] [ID ...]     (scratch: /tmp/covbuild, /tmp/covprof)
"""
import json
import os
import re
import subprocess
import sys

ROOT = os.path.dirname(os.path.dirname(os.path.abspath(__file__)))
TOOLS = "/root/.rustup/toolchains/nightly-x86_64-unknown-linux-gnu/lib/rustlib/x86_64-unknown-linux-gnu/bin"
TGT = "/tmp/covbuild"
PROF = "/tmp/covprof"
args = sys.argv[1:]
BUILD = "--build" in args
if BUILD:
    args.remove("--build")
    pass
props = {json.loads(l)["id"]: json.loads(l) for l in open(os.path.join(ROOT, "properties.jsonl"))}
ids = args or sorted(props)
os.makedirs(os.path.join(ROOT, "coverage"), exist_ok=True)
if BUILD:
    need = sorted({r["bin"] for i in ids for r in json.load(open(os.path.join(ROOT, "tools", "props", i + ".json")))["runs"]})
    env = dict(os.environ, CARGO_TARGET_DIR=TGT, RUSTFLAGS="--cfg sozu_verif -C instrument-coverage", CARGO_NET_OFFLINE="true",
               LLVM_PROFILE_FILE="/tmp/covprof/build-%p.profraw")   # instrumented build scripts run in /repo/<crate>: keep their profiles out of /repo
    subprocess.check_call(["cargo", "+nightly", "build", "--offline", "--release", ] + [x for b in need for x in ("--bin", b)], cwd=os.path.join(ROOT, "harness"), env=env)
FN = re.compile(r"^\s*(?:pub(?:\([a-z: ]+\))?\s+)?(?:const\s+)?(?:async\s+)?(?:unsafe\s+)?fn\s+([A-Za-z0-9_]+)")


def fn_at(path, line, cache={}):
    if path not in cache:
        try:
            cache[path] = open(path, errors="replace").read().splitlines()
        except OSError:
            cache[path] = []
    src = cache[path]
    for k in range(line - 1, max(line - 6, -1), -1):
        if 0 <= k < len(src):
            m = FN.match(src[k])
            if m:
                return m.group(1)
    return None


for pid in ids:
    cfg = json.load(open(os.path.join(ROOT, "tools", "props", pid + ".json")))
    pdir = os.path.join(PROF, pid)
    subprocess.call(["rm", "-rf", pdir])
    os.makedirs(pdir)
    bins = []
    for i, r in enumerate(cfg["runs"]):
        if r.get("thorough_only"):
            continue
        exe = os.path.join(TGT, "release", r["bin"])
        bins.append(exe)
        cmd = [exe, "--prop", pid, "--tier", "quick", "--seed", "1", "--out", os.path.join(pdir, f"res{i}.json")]
        if r.get("driver"):
            cmd += ["--driver", os.path.join(ROOT, "lean", ".lake", "build", "bin", r["driver"])]
        for k, v in r.get("args", {}).items():
            cmd += ["--" + k, str(v)]
        env = dict(os.environ, LLVM_PROFILE_FILE=os.path.join(pdir, f"run{i}-%p.profraw"))
        try:
            subprocess.run(cmd, cwd=ROOT, env=env, stdout=subprocess.DEVNULL, stderr=subprocess.DEVNULL, timeout=3 * r.get("timeout_quick", 600))
        except subprocess.TimeoutExpired:
            print(pid, r["bin"], "timeout")
    raws = [os.path.join(pdir, f) for f in os.listdir(pdir) if f.endswith(".profraw")]
    if not raws:
        print(pid, "no profile")
        continue
    pd = os.path.join(pdir, "m.profdata")
    subprocess.check_call([os.path.join(TOOLS, "llvm-profdata"), "merge", "-sparse", "-o", pd] + raws)
    bins = sorted(set(bins))
    cmd = [os.path.join(TOOLS, "llvm-cov"), "export", "-format=text", "-skip-expansions", "-instr-profile", pd, bins[0]]
    for b in bins[1:]:
        cmd += ["-object", b]
    data = json.loads(subprocess.run(cmd, stdout=subprocess.PIPE, check=True).stdout)["data"][0]
    anchors = ["/repo/" + f for f in props[pid]["anchors"]["files"]]
    per = {}
    for f in data["functions"]:
        fns = f.get("filenames") or []
        if not fns or not fns[0].startswith("/repo/"):
            continue
        path = fns[0]
        line = f["regions"][0][0] if f.get("regions") else 0
        e = per.setdefault(path, {})
        key = (fn_at(path, line) or f["name"][-40:], line)
        e[key] = max(e.get(key, 0), f["count"])      # generic instances: covered if any instance ran
    lines = {f["filename"]: f["summary"]["lines"] for f in data["files"] if f["filename"].startswith("/repo/")}
    out = {"property": pid, "note": "diagnostic only; functions of anchored files never entered by the quick runs", "files": {}}
    for path in sorted(per):
        anchored = any(path == a or path.startswith(a.rstrip("/") + "/") for a in anchors)
        if not anchored:
            continue
        e = per[path]
        out["files"][path[len("/repo/"):]] = {
            "functions": len(e), "entered": sum(1 for v in e.values() if v > 0),
            "line_percent": round(lines.get(path, {}).get("percent", 0), 1),
            "never_entered": sorted([f"{n}@{l}" for (n, l), v in e.items() if v == 0], key=lambda s: int(s.split("@")[1])),
        }
    missing = [a[len("/repo/"):] for a in anchors if not any(p == a or p.startswith(a.rstrip("/") + "/") for p in per)]
    out["anchored_files_not_linked_or_never_instrumented"] = missing
    # uncovered executable line ranges of the anchored files (llvm-cov show: `line| count|source`)
    srcs = ["/repo/" + f for f in out["files"]]
    if srcs:
        show = [os.path.join(TOOLS, "llvm-cov"), "show", "-instr-profile", pd, bins[0]]
        for b in bins[1:]:
            show += ["-object", b]
        txt = subprocess.run(show + srcs, stdout=subprocess.PIPE, text=True, errors="replace").stdout
        cur, zero = None, {}
        for ln in txt.splitlines():
            if ln.startswith("/repo/") and ln.endswith(":"):
                cur = ln[len("/repo/"):-1]
                continue
            m = re.match(r"^\s*(\d+)\|\s*([0-9.kMG]*)\|", ln)
            if m and cur is not None:
                if m.group(2) == "0":
                    zero.setdefault(cur, []).append(int(m.group(1)))
        for f, ls in zero.items():
            rng, a, b = [], None, None
            for l in ls:
                if a is None:
                    a = b = l
                elif l == b + 1:
                    b = l
                else:
                    rng.append([a, b]); a = b = l
            if a is not None:
                rng.append([a, b])
            if f in out["files"]:
                out["files"][f]["uncovered_line_ranges"] = rng
    json.dump(out, open(os.path.join(ROOT, "coverage", pid + ".json"), "w"), indent=1)
    print(pid, {k: f"{v['entered']}/{v['functions']} fns, {v['line_percent']}% lines" for k, v in out["files"].items()}, "missing:", missing)
    subprocess.call(["rm", "-rf", pdir])
