#!/usr/bin/env python3
"""Regenerate MANIFEST.json from tools/props_table.py (claimed properties) and
tools/not_applicable.json (everything else, with a reason)."""
import json
import os
import subprocess
import sys

ROOT = os.path.dirname(os.path.dirname(os.path.abspath(__file__)))
sys.path.insert(0, os.path.join(ROOT, "tools"))
from props_table import PROPS as ALL_PROPS  # noqa: E402

# only properties whose check the lead has run green on the unchanged tree are claimed
CLAIMED = json.load(open(os.path.join(ROOT, "tools", "claimed.json")))
PROPS = {k: v for k, v in ALL_PROPS.items() if k in CLAIMED}

all_ids = [json.loads(l)["id"] for l in open(os.path.join(ROOT, "properties.jsonl"))]
na = json.load(open(os.path.join(ROOT, "tools", "not_applicable.json")))
hooks = json.load(open(os.path.join(ROOT, "tools", "hooks.json")))

checks = []
for pid in sorted(PROPS):
    c = PROPS[pid]
    checks.append({
        "property_id": pid,
        "quick_cmd": f"./check {pid} --tier quick",
        "thorough_cmd": f"./check {pid} --tier thorough",
        "evidence_file": f"/verif/evidence/{pid}.json",
        "replay_cmd_template": f"./check {pid} --replay {{path}}",
        "engine": "lean-proof+correspondence",
        "level_claimed": {"category": c.get("level", "proof"), "text": c["claim"], "design_ref": c["design_ref"]},
        "level_note": c["level_note"],
        "technique": c["technique"],
    })
manifest = {
    "version": 1,
    "setup_cmd": "./check --setup",
    "hooks": hooks,
    "engines": [{
        "name": "lean-proof+correspondence",
        "path": "/verif/check",
        "serves_properties": sorted(PROPS),
        "kind_free_text": "Lean 4 models + theorems (lean/Sozu/*/Props.lean, kernel-checked on every run) tied to /repo by a Rust differential harness (harness/) that runs the real code and the compiled Lean model drivers on the same operation sequences, plus a constants/tables translator (tools/extract_consts.py)",
    }],
    "checks": checks,
    "not_applicable": [{"property_id": i, "reason": na.get(i, "not yet built in this round; see DESIGN.md §4 for the plan")}
                       for i in all_ids if i not in PROPS],
    "notes": open(os.path.join(ROOT, "tools", "manifest_notes.txt")).read().strip(),
}
with open(os.path.join(ROOT, "MANIFEST.json"), "w") as f:
    json.dump(manifest, f, indent=1)
print("MANIFEST.json:", len(checks), "checks,", len(manifest["not_applicable"]), "not_applicable")
