#!/usr/bin/env python3
"""seedtest for a whole property: run every registered run of tools/props/<ID>.json
against a patch in the private sandbox. usage: seedtest_prop.py <patch.diff> <ID>"""
import json
import os
import subprocess
import sys

ROOT = os.path.dirname(os.path.dirname(os.path.abspath(__file__)))
patch, pid = sys.argv[1], sys.argv[2]
cfg = json.load(open(os.path.join(ROOT, "tools", "props", pid + ".json")))
specs = []
for r in cfg["runs"]:
    if r.get("thorough_only"):
        continue
    kv = []
    if r.get("driver"):
        kv.append("driver=" + os.path.join(ROOT, "lean", ".lake", "build", "bin", r["driver"]))
    for k, v in r.get("args", {}).items():
        kv.append(f"{k}={v}")
    specs.append(r["bin"] + (":" + ",".join(kv) if kv else ""))
sys.exit(subprocess.call([sys.executable, os.path.join(ROOT, "tools", "seedtest.py"), patch, pid] + specs))
