#!/usr/bin/env python3
"""Run harness binaries against a seeded change in the private sandbox (used while
builders share /repo). usage: seedtest.py <patch.diff> <prop> <bin>[:arg=val,...] [...]
Prints, per binary, the failure classes that are NOT open known findings of <prop>."""
import json
import os
import subprocess
import sys

ROOT = os.path.dirname(os.path.dirname(os.path.abspath(__file__)))
patch, prop = sys.argv[1], sys.argv[2]
sb = "/tmp/vsb-seedtest"
if not os.path.exists(sb):
    subprocess.check_call([sys.executable, os.path.join(ROOT, "tools", "sandbox.py"), "create", "seedtest"])
repo = os.path.join(sb, "repo")
subprocess.check_call("git fetch -q origin && git checkout -q --detach origin/main && git checkout -q -- . && git clean -fdq", shell=True, cwd=repo)
subprocess.check_call(["git", "apply", patch], cwd=repo)
known = {f["class"] for f in json.load(open(os.path.join(ROOT, "known_findings.json")))["findings"]
         if f["property"] == prop and f["status"] == "open"}
for spec in sys.argv[3:]:
    b, _, extra = spec.partition(":")
    args = ["--prop", prop, "--tier", "quick", "--seed", "1"]
    for kv in filter(None, extra.split(",")):
        k, v = kv.split("=")
        args += ["--" + k, v]
    outp = os.path.join(sb, f"result_{b}.json")
    if os.path.exists(outp):
        os.remove(outp)
    p = subprocess.run([sys.executable, os.path.join(ROOT, "tools", "sandbox.py"), "run", "seedtest", b] + args + ["--out", outp],
                       stdout=subprocess.PIPE, stderr=subprocess.STDOUT, text=True)
    if not os.path.exists(outp):
        print(b, "NO RESULT", p.stdout[-800:])
        continue
    res = json.load(open(outp))
    classes = {}
    for f in res.get("failures", []):
        classes.setdefault((f["kind"], f["class"]), f.get("detail", "")[:160])
    new = {k: v for k, v in classes.items() if k[1] not in known}
    print(f"{b}: {res.get('evaluations')} cases; new failure classes: {len(new)}")
    for (k, c), dt in new.items():
        print(f"   {k} {c}: {dt}")
subprocess.check_call("git checkout -q -- . && git clean -fdq", shell=True, cwd=repo)
