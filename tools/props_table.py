"""Per-property configuration of ./check: which Lean modules carry the theorems,
which drivers/harness binaries tie the model to the code, and the texts that go
into MANIFEST.json / evidence. One entry per *claimed* property."""

KERNEL = "Lean 4.33.0 kernel (lake build; #print axioms audit: only propext / Classical.choice / Quot.sound allowed; no sorry/admit/axiom/native_decide/bv_decide)"
HARNESS = "verif-harness (Rust): generators, canonicalisation, diff, shrinker - differential testing bounds what the model/code tie sees"
TRANSLATOR = "tools/extract_consts.py copies literals/tables from /repo source text into Sozu/Generated/Consts.lean"

PROPS = {
    "C16": {
        "title": "Resources return to baseline and admission limits are never exceeded",
        "props_modules": ["Sozu.Sessions.Props"],
        "runs": [
            {"bin": "sessions", "driver": "sessions_driver"},
        ],
        "level": "proof",
        "technique": "Lean 4 theorems (invariants by induction over op sequences) on a model of SessionManager + differential correspondence with the real SessionManager",
        "design_ref": "DESIGN.md §4 C16",
        "claim": "Theorems, for every operation history: nb_connections <= max_connections; check_limits=true makes the following incr safe; refusal closes the accept gate and a decr under 90% reopens it; per-(cluster,ip) forward counts equal the number of tokens holding the slot (a token holds at most one), return to zero when every token is untracked, and never exceed a fixed positive limit under the admission call-site protocol. Partial: leak-freedom of the real session exit paths (a missing decrement somewhere in http/https/tcp session code) is not a theorem; the accounting core is proved and tied to the real SessionManager by differential runs.",
        "level_note": "Trusted: Lean kernel; the hand-written model Sozu/Sessions/Model.lean is tied to lib/src/server.rs::SessionManager only through the differential harness (harness/src/bin/sessions.rs) and the constants translator; session exit paths in http.rs/https.rs/tcp.rs are not modelled.",
        "trusted_base": [KERNEL, HARNESS, TRANSLATOR,
                         "model of SessionManager hand-written; call-site protocol (check_limits->incr, at_limit->track) replicated in the harness, not extracted"],
        "assumptions": ["slab length is an input of check_limits", "tokens/cluster ids/IPs are opaque identities",
                        "usize arithmetic does not overflow (counts are bounded by the number of sessions)"],
    },
}
