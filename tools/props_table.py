"""Per-property configuration of ./check, one JSON file per *claimed* property
in tools/props/<ID>.json:

  title, props_modules (Lean modules holding the `<ID>_*` theorems),
  runs: [{bin, driver, tag?, args?, thorough_only?, timeout_quick?, timeout_thorough?}],
  level, technique, design_ref, claim, level_note, trusted_base[], assumptions[]
"""
import json
import os

_D = os.path.join(os.path.dirname(os.path.abspath(__file__)), "props")
PROPS = {}
for _fn in sorted(os.listdir(_D)):
    if _fn.endswith(".json"):
        PROPS[_fn[:-5]] = json.load(open(os.path.join(_D, _fn)))
