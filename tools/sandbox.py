#!/usr/bin/env python3
"""Private scratch copy of /repo + the harness, for trying out source mutations
without touching /repo (which every check and every other worker shares).

  tools/sandbox.py create <name>            copy /repo (tracked files, HEAD + working tree) and the harness to /tmp/vsb-<name>/
  tools/sandbox.py run <name> <bin> [args]  build harness bin <bin> against the sandbox repo and run it
                                            (adds --driver automatically when a lean driver named <bin>_driver exists
                                             unless --driver is given)
  tools/sandbox.py destroy <name>           remove the sandbox and its build output

Edit /tmp/vsb-<name>/repo/... freely between runs (e.g. `git -C /tmp/vsb-<name>/repo apply x.diff`,
`git -C /tmp/vsb-<name>/repo checkout -- .`).
"""
import os
import shutil
import subprocess
import sys

ROOT = os.path.dirname(os.path.dirname(os.path.abspath(__file__)))


def sb(name):
    return f"/tmp/vsb-{name}"


def create(name):
    d = sb(name)
    os.makedirs(d, exist_ok=True)
    repo = os.path.join(d, "repo")
    if not os.path.exists(repo):
        subprocess.check_call(["git", "clone", "-q", "--no-hardlinks", "/repo", repo])
        # carry over uncommitted working-tree changes of /repo (normally none)
        diff = subprocess.run(["git", "-C", "/repo", "diff", "HEAD"], stdout=subprocess.PIPE).stdout
        if diff.strip():
            subprocess.run(["git", "-C", repo, "apply"], input=diff, check=True)
    h = os.path.join(d, "harness")
    if os.path.exists(h):
        shutil.rmtree(h)
    shutil.copytree(os.path.join(ROOT, "harness"), h, ignore=shutil.ignore_patterns("target"))
    ct = open(os.path.join(h, "Cargo.toml")).read().replace('"/repo/', f'"{repo}/')
    open(os.path.join(h, "Cargo.toml"), "w").write(ct)
    cfg = open(os.path.join(h, ".cargo", "config.toml")).read().replace("/verif/.build", os.path.join(d, "target"))
    open(os.path.join(h, ".cargo", "config.toml"), "w").write(cfg)
    print(d)


def run(name, binname, args):
    d = sb(name)
    h = os.path.join(d, "harness")
    # refresh harness sources from /verif (keep rewritten manifests)
    for sub in ("src",):
        dst = os.path.join(h, sub)
        shutil.rmtree(dst, ignore_errors=True)
        shutil.copytree(os.path.join(ROOT, "harness", sub), dst)
    env = dict(os.environ, CARGO_NET_OFFLINE="true")
    rc = subprocess.call(["cargo", "build", "--offline", "--release", "--bin", binname], cwd=h, env=env)
    if rc != 0:
        sys.exit(rc)
    cmd = [os.path.join(d, "target", "release", binname)] + args
    if "--driver" not in args:
        drv = os.path.join(ROOT, "lean", ".lake", "build", "bin", binname + "_driver")
        if os.path.exists(drv):
            cmd += ["--driver", drv]
    if "--out" not in args:
        cmd += ["--out", os.path.join(d, f"result_{binname}.json")]
    sys.exit(subprocess.call(cmd, cwd=ROOT))


def main():
    if len(sys.argv) < 3:
        print(__doc__)
        sys.exit(2)
    op, name = sys.argv[1], sys.argv[2]
    if op == "create":
        create(name)
    elif op == "run":
        run(name, sys.argv[3], sys.argv[4:])
    elif op == "destroy":
        shutil.rmtree(sb(name), ignore_errors=True)
    else:
        print(__doc__)
        sys.exit(2)


if __name__ == "__main__":
    main()
