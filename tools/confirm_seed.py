#!/usr/bin/env python3
"""Confirm a seeded change produced by an independent sub-agent, in its scratch
worktree: (1) with the patch applied the workspace builds and the existing
suite passes (no test of BASELINE.stable_pass fails; the three fuzz_* tests are
environment-dependent here and ignored), (2) the demonstration fails with the
patch and passes without it. Then copy patch.diff + demo + meta.json to
/verif/seeded/<name>/ and record what was run.

usage: confirm_seed.py <worktree> <name> <demo-src> <crate-tests-dir> <demo-test-name> [--skip-suite]
 e.g.  confirm_seed.py /tmp/wt-C04 C04-1 _seed/demo_c04_rule_order.rs lib/tests demo_c04_rule_order
"""
import json
import os
import re
import shutil
import subprocess
import sys

wt, name, demo_src, tests_dir, demo_name = sys.argv[1:6]
skip_suite = "--skip-suite" in sys.argv
env = dict(os.environ, CARGO_NET_OFFLINE="true")
crate = {"lib/tests": "sozu-lib", "command/tests": "sozu-command-lib", "bin/tests": "sozu", "e2e/tests": "sozu-e2e",
         "e2e/src/tests": "sozu-e2e"}[tests_dir]
E2E_MOD = tests_dir == "e2e/src/tests"   # demo is a module of the e2e crate: needs a `mod` line
log = []


def sh(cmd, **kw):
    p = subprocess.run(cmd, shell=True, cwd=wt, env=env, stdout=subprocess.PIPE, stderr=subprocess.STDOUT, text=True, **kw)
    return p.returncode, p.stdout


def patch_applied():
    rc, _ = sh("git apply --check -R _seed/patch.diff")
    return rc == 0


def run_demo():
    os.makedirs(os.path.join(wt, tests_dir), exist_ok=True)
    shutil.copy(os.path.join(wt, demo_src), os.path.join(wt, tests_dir, demo_name + ".rs"))
    if E2E_MOD:
        modrs = os.path.join(wt, tests_dir, "mod.rs")
        orig = open(modrs).read()
        open(modrs, "w").write(orig + f"\nmod {demo_name};\n")
        rc, out = sh(f"cargo test --offline -p sozu-e2e {demo_name} 2>&1 | tail -40")
        open(modrs, "w").write(orig)
        if re.search(r"running 0 tests", out) and not re.search(r"test result: .* [1-9]\d* passed|FAILED", out):
            out += "\n[no test ran]"
    else:
        rc, out = sh(f"cargo test --offline -p {crate} --test {demo_name} 2>&1 | tail -30")
    os.remove(os.path.join(wt, tests_dir, demo_name + ".rs"))
    ok = re.search(r"test result: ok\. [1-9]", out) is not None and "FAILED" not in out and "[no test ran]" not in out
    return ok, out


if not patch_applied():
    rc, out = sh("git apply _seed/patch.diff")
    assert rc == 0, out
ok_with, out_with = run_demo()
log.append({"step": "demo with patch", "passes": ok_with, "tail": out_with[-1500:]})
suite = None
if not skip_suite:
    rc, out = sh("cargo nextest run --workspace --no-fail-fast --tool-config-file pb:/w/lib/nextest.toml --profile pb --test-threads 8 --offline 2>&1 | tail -40")
    failed = set(re.findall(r"FAIL \[[^\]]*\] \(\s*\d+/\d+\) (\S+) (\S+)", out))
    failed = {f"{a}::{b}" for a, b in failed}
    base = json.load(open("/root/.vp/BASELINE.json"))
    stable = set(base["stable_pass"])
    bad = sorted(f for f in failed if f in stable and "fuzz_tests::fuzz_" not in f)
    # the machine is heavily loaded: re-run failed stable tests alone before believing them
    still = []
    for t in bad:
        pkg, test = t.split("::", 1)
        okc = False
        for _ in range(2):
            rc2, out2 = sh(f"cargo nextest run -p {pkg} --offline --no-fail-fast -E 'test(={test})' 2>&1 | tail -5")
            if re.search(r"1 passed", out2):
                okc = True
                break
        if not okc:
            still.append(t)
    retried = bad
    bad = still
    suite = {"failed": sorted(failed), "failed_under_load_but_pass_alone": sorted(set(retried) - set(bad)), "stable_tests_broken": bad}
    log.append({"step": "existing suite with patch", **suite})
rc, out = sh("git apply -R _seed/patch.diff")
assert rc == 0, out
ok_without, out_without = run_demo()
log.append({"step": "demo without patch", "passes": ok_without, "tail": out_without[-1500:]})
good = (not ok_with) and ok_without and (suite is None or not suite["stable_tests_broken"])
print(json.dumps(log, indent=1)[-6000:])
print("CONFIRMED" if good else "NOT CONFIRMED")
if good:
    dst = os.path.join("/verif/seeded", name)
    os.makedirs(dst, exist_ok=True)
    for fn in os.listdir(os.path.join(wt, "_seed")):
        src = os.path.join(wt, "_seed", fn)
        if os.path.isdir(src):
            continue   # run logs of the seeding agent: not kept
        if os.path.getsize(src) > 2_000_000 or fn.endswith(".log"):
            continue
        shutil.copy(src, dst)
    meta = json.load(open(os.path.join(dst, "meta.json")))
    meta["confirmed_by_lead"] = log
    meta["demo"] = {"file": os.path.basename(demo_src), "drop_into": tests_dir, "run": f"cargo test --offline -p {crate} --test {demo_name}"}
    json.dump(meta, open(os.path.join(dst, "meta.json"), "w"), indent=1)
