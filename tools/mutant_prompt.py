#!/usr/bin/env python3
"""Print the prompt given to an independent 'seeding' sub-agent for one property
(only the property text and a scratch worktree; nothing from /verif)."""
import json
import sys

pid, wt = sys.argv[1], sys.argv[2]
p = [json.loads(l) for l in open("/verif/properties.jsonl") if json.loads(l)["id"] == pid][0]
print(f"""You are testing how well a verification effort detects regressions in the Rust reverse proxy "sozu" (sozu-proxy/sozu). You work ONLY inside your own scratch git worktree of the repository at {wt} (do not read or write /repo, /verif or any other directory outside {wt} and the system toolchain; there is no network: always pass --offline to cargo).

Here is a semantic property of sozu that should always hold:

  Title: {p['title']}
  Statement: {p['statement']}
  Quantified over: {p['quantifier']['text']}
  Code it is anchored in: {', '.join(p['anchors']['files'])}

Your task: produce ONE realistic change to the sozu source (the kind of slip a refactor, optimisation or bug-fix could introduce — not sabotage that looks deliberate) that BREAKS this property while the code STILL COMPILES and the EXISTING TEST SUITE STILL PASSES, together with a DEMONSTRATION (a new test file or small program inside the worktree) that fails with your change applied and passes without it.

Requirements on the change:
- It must need something specific to manifest: a particular interleaving or schedule, a crash or fault at a particular point, a multi-step sequence of operations, an unusual input or boundary size, or two cooperating sites that each look fine alone. Do NOT produce a change that ordinary use would expose at once (e.g. every request failing).
- Keep it small (a few lines, at most two sites) and plausible. Do not touch tests, Cargo files, or anything under e2e/, fuzz/, doc/.
- It must compile in release and debug, and the existing tests must pass: run at least `cargo test --offline -p <each crate you touched>` (crates: sozu-command-lib in command/, sozu-lib in lib/, sozu in bin/) and make sure nothing that passed before now fails (a few tests are flaky or fail before your change too — compare against a run without your change if in doubt).

Deliverables, written to {wt}/_seed/ :
- patch.diff : `git diff` of your source change only (not the demonstration),
- the demonstration (e.g. demo_test.rs to be dropped into a crate's tests/ directory, or a small bin), with the exact commands to run it in a README.md, and what output shows failure/success,
- meta.json : {{"property": "{pid}", "summary": "...", "needs_to_manifest": "...", "files_touched": [...], "commands_run": [...]}}.
When done, revert nothing: leave the worktree with your change applied. Final answer: a 10-line summary (what you changed, why tests miss it, how the demo shows it).""")
