#!/usr/bin/env python3
"""Run the registered checks against every stored seeded change on /repo ITSELF
(the procedure of the brief): `git -C /repo apply <patch>`, `./check <ID> --tier quick`,
`git -C /repo checkout -- .`. Records exit code, VIOLATION lines and the classes of the
replay files into seeded/sweep.json. Only run this when nothing else uses /repo.

usage: seed_sweep.py [name ...]   (default: every directory under seeded/)
"""
import json
import os
import re
import subprocess
import sys
import time

ROOT = os.path.dirname(os.path.dirname(os.path.abspath(__file__)))
SD = os.path.join(ROOT, "seeded")
names = sys.argv[1:] or sorted(n for n in os.listdir(SD) if os.path.isdir(os.path.join(SD, n)) and not n.startswith("_"))
out_path = os.path.join(SD, "sweep.json")
res = json.load(open(out_path)) if os.path.exists(out_path) else {}
assert subprocess.run(["git", "-C", "/repo", "status", "--porcelain", "--untracked-files=no"], capture_output=True, text=True).stdout.strip() == "", "/repo has uncommitted changes"
head = subprocess.run(["git", "-C", "/repo", "rev-parse", "--short", "HEAD"], capture_output=True, text=True).stdout.strip()
for n in names:
    meta = json.load(open(os.path.join(SD, n, "meta.json")))
    pid = meta["property"]
    patch = os.path.join(SD, "_rebased", n + ".rebased.diff")
    if not os.path.exists(patch):
        patch = os.path.join(SD, n, "patch.diff")
    ap = subprocess.run(["git", "-C", "/repo", "apply", patch], capture_output=True, text=True)
    if ap.returncode != 0:
        res[n] = {"property": pid, "applied": False, "error": ap.stderr[-300:], "repo_head": head}
        print(n, "DOES NOT APPLY")
        continue
    t0 = time.time()
    # the run below rewrites evidence/<ID>.json and adds replay files for the SEEDED tree:
    # keep what the unchanged tree produced and drop what this run adds
    ev_path = os.path.join(ROOT, "evidence", pid + ".json")
    ev_saved = open(ev_path).read() if os.path.exists(ev_path) else None
    rp_dir = os.path.join(ROOT, "replays", pid)
    rp_before = set(os.listdir(rp_dir)) if os.path.isdir(rp_dir) else set()
    try:
        p = subprocess.run(["./check", pid, "--tier", "quick"], cwd=ROOT, capture_output=True, text=True, timeout=1500)
        out = p.stdout + p.stderr
        rc = p.returncode
    except subprocess.TimeoutExpired as ex:
        out, rc = (ex.stdout or b"").decode(errors="replace") if isinstance(ex.stdout, bytes) else (ex.stdout or ""), 124
    finally:
        subprocess.run(["git", "-C", "/repo", "checkout", "--", "."], check=True)
    classes = []
    for m in re.finditer(r"^VIOLATION property=\S+ replay=(\S+)(.*)$", out, flags=re.M):
        try:
            d = json.load(open(m.group(1)))
            classes.append(f"{d.get('kind') or 'obligation'}:{d.get('class') or (d.get('broken_obligations') or [{}])[0].get('what', '?')}" + (" [no-failing-input-found]" if "no-failing-input-found" in m.group(2) else ""))
        except Exception:  # noqa: BLE001
            classes.append("unreadable-replay")
    if ev_saved is not None:
        open(ev_path, "w").write(ev_saved)
    if os.path.isdir(rp_dir):
        for f in set(os.listdir(rp_dir)) - rp_before:
            os.remove(os.path.join(rp_dir, f))
    res[n] = {"property": pid, "applied": True, "repo_head": head, "exit": rc, "violations": len(classes),
              "classes": sorted(set(classes)), "wall_s": round(time.time() - t0, 1), "caught": rc == 1 and len(classes) > 0}
    print(n, "caught" if res[n]["caught"] else "MISSED", rc, sorted(set(classes))[:4], res[n]["wall_s"])
    json.dump(res, open(out_path, "w"), indent=1)
# leave /repo build artefacts consistent: one last rebuild happens on the next check
