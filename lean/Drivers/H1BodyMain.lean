import Sozu.Common.Proto
import Sozu.H1Body.Model
open Sozu Sozu.Proto Sozu.H1Body

/-- driver state: header bytes still to skip, the body decoder, decoded body
    bytes not yet emitted as DATA, END_STREAM already emitted -/
structure St where
  skip : Nat
  dec : Dec
  pending : Bytes
  esSent : Bool

def St.init : St := { skip := 0, dec := Dec.start (.length 0), pending := [], esSent := false }

def parseFraming (s : String) : Option Framing :=
  if s = "chunked" then some .chunked
  else if s = "close" then some .close
  else match s.splitOn ":" with
    | ["cl", n] => n.toNat?.map Framing.length
    | _ => none

def isDone (d : Dec) : Bool := d.phase == .done
def isErr (d : Dec) : Bool := d.phase == .error

def stepLine (st : St) (line : String) : St × List String :=
  match words line with
  | ["stream", _cap, f, h, hx, _mode, _seed] =>
    -- a whole transfer under an impl-chosen schedule: the expected observation
    -- is the decoded body, ended cleanly, whatever the schedule
    match parseFraming f, h.toNat?, hexToBytes hx with
    | some f, some h, some bs =>
      let r := (Dec.start f).feed (bs.drop h)
      (st, [s!"body={bytesToHex r.2} end={boolStr (isDone r.1)}"])
    | _, _, _ => (st, ["bad-op"])
  | ["new", f, h, _cap, _kind] =>
    match parseFraming f, h.toNat? with
    | some f, some h => ({ skip := h, dec := Dec.start f, pending := [], esSent := false }, ["ok"])
    | _, _ => (st, ["bad-op"])
  | ["feed", hx] =>
    match hexToBytes hx with
    | none => (st, ["bad-op"])
    | some bs =>
      let hdrPart := min st.skip bs.length
      let rest := bs.drop hdrPart
      let skip' := st.skip - hdrPart
      if skip' > 0 then ({ st with skip := skip' }, ["body=- done=0 err=0"])
      else
        -- `Length(0)` terminates as soon as the headers are complete
        let r := st.dec.feed rest
        let left := if isDone r.1 then s!" left={r.1.buf.length}" else ""
        ({ st with skip := 0, dec := r.1, pending := st.pending ++ r.2 },
         [s!"body={bytesToHex r.2} done={boolStr (isDone r.1)} err={boolStr (isErr r.1)}{left}"])
  | ["h2", _, w] =>
    match w.toInt? with
    | none => (st, ["bad-op"])
    | some w =>
      if st.skip > 0 then (st, ["data=- es=0"])
      else
        let n := min w.toNat st.pending.length
        let out := st.pending.take n
        let pend := st.pending.drop n
        let es := isDone st.dec && pend.isEmpty && !st.esSent
        ({ st with pending := pend, esSent := st.esSent || es }, [s!"data={bytesToHex out} es={boolStr es}"])
  | ["consume", _] => (st, ["ok"])
  | ["h1pass"] => (st, ["ok"])
  | _ => (st, ["bad-op"])

def main : IO Unit := runDriver stepLine St.init
