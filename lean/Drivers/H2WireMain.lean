import Sozu.Common.Proto
import Sozu.H2Wire.Model
open Sozu Sozu.Proto Sozu.H2Wire

/-! Line-protocol driver of the H2 wire model (property C15).

ops (one output line each):
  new                                   -> new
  decode <mfs> <hex>                    -> ok <type> <flags> <sid> <consumed> <summary> | incomplete | err <code>
  body <type> <flags> <sid> <len> <hex> -> ok <remaining> <summary> | eof | err <code>
  settings_frame <flags> <hex>          -> ok <remaining> <summary> | eof | err <code>
  fframe <0 normal|1 closed stream|2 in header block> <hex frame> -> the flood events of that received frame (as `f`)
  hbudget <max bytes> <max fields> <k:v,...> / clen <declared|-> <len:es,...> / prio <known> <lookahead> <sid> <dep> -> handled | serr c | cerr c
  psettings <hex payload> -> ack <local max frame size> | cerr <code>; cdecode <hex> -> decode with the connection's receive bound
  cnew <max streams> / cframe <sid> <kind> <end_stream 0|1> -> the connection-history model (connStep)
  stream <state> <frame kind>           -> handled | serr <code> | cerr <code>  (handle_header_state's table)
  first_settings <hex>                  -> the first SETTINGS payload of a connection, as h2.rs parses it
  gen_header <cap> <len> <type> <flags> <sid>
  gen_settings <cap> <v1> .. <v8>       (booleans as 0/1)
  gen_rst <cap> <sid> <code>
  gen_wu <cap> <sid> <inc>
  gen_goaway <cap> <last> <code>
  gen_pingack <cap> <hex>               -> bytes <hex> | bufsmall
  fnew <11 thresholds>                  -> f <counters>
  fset <13 counters>                    -> f <counters>
  f <event> [arg]                       -> none|viol <code> <count> <threshold>, then <counters>; `dead` after a violation
-/

def b01 (b : Bool) : String := if b then "1" else "0"

def soutStr : StreamOut → String
  | .handled => "handled"
  | .streamError c => s!"serr {c}"
  | .connError c => s!"cerr {c}"

def typeByte : FType → Nat := serializeFrameType

def summary : Frame → String
  | .data sid p es => s!"data:{sid}:{b01 es}:{bytesToHex p}"
  | .headers sid prio frag es eh =>
    let ps := match prio with
      | none => "-"
      | some (x, d, w) => s!"{b01 x}/{d}/{w}"
    s!"headers:{sid}:{b01 es}:{b01 eh}:{ps}:{bytesToHex frag}"
  | .priority sid x d w => s!"priority:{sid}:{b01 x}/{d}/{w}"
  | .rstStream sid c => s!"rst:{sid}:{c}"
  | .settings es ack =>
    let body := if es.isEmpty then "-" else ",".intercalate (es.map fun e => s!"{e.1}={e.2}")
    s!"settings:{b01 ack}:{body}"
  | .ping p ack => s!"ping:{b01 ack}:{bytesToHex p}"
  | .goAway l c d => s!"goaway:{l}:{c}:{bytesToHex d}"
  | .windowUpdate sid inc => s!"wu:{sid}:{inc}"
  | .continuation => "continuation"
  | .priorityUpdate p v => s!"pu:{p}:{bytesToHex v}"
  | .unknown t => s!"unknown:{t}"

def resStr : Res → String
  | .ok h f c => s!"ok {typeByte h.ftype} {h.flags} {h.sid} {c} {summary f}"
  | .incomplete => "incomplete"
  | .err c => s!"err {c}"

def presStr : PRes Frame → String
  | .ok f rest => s!"ok {rest.length} {summary f}"
  | .eof => "eof"
  | .fail c => s!"err {c}"

def genOut (cap : Nat) (bs : Bytes) : String :=
  if cap < bs.length then "bufsmall" else "bytes " ++ bytesToHex bs

def nats (ws : List String) : Option (List Nat) := ws.mapM String.toNat?

def counters (s : Flood) : String :=
  " ".intercalate ([s.rst, s.rstLife, s.rstAbusive, s.rstEmitted, s.ping, s.pingLife, s.settings, s.settingsLife,
    s.emptyData, s.wu0, s.cont, s.accHdr, s.glitch].map toString)

def violStr : Option Violation → String
  | none => "none"
  | some (e, c, t) => s!"viol {e} {c} {t}"

def parseFloodOp (ws : List String) : Option FloodOp :=
  match ws with
  | ["age", n] => n.toNat?.map FloodOp.age
  | ["rst", b] => if b = "1" then some (.rstReceived true) else if b = "0" then some (.rstReceived false) else none
  | ["rst_emitted"] => some .rstEmitted
  | ["ping"] => some .ping
  | ["settings", k] => k.toNat?.map FloodOp.settings
  | ["empty_data"] => some .emptyData
  | ["wu0"] => some .wu0
  | ["continuation", n] => n.toNat?.map FloodOp.continuation
  | ["headers_start", n] => n.toNat?.map FloodOp.headersStart
  | ["headers_end"] => some .headersEnd
  | ["glitch"] => some .glitch
  | ["check"] => some .check
  | _ => none

structure St where
  flood : Flood
  dead : Bool
  conn : Conn := Conn.init 100
  sett : SettingsState := SettingsState.init

def St.init : St := { flood := Flood.new FloodCfg.default, dead := false }

def stepLine (st : St) (line : String) : St × List String :=
  match words line with
  | ["new"] => (St.init, ["new"])
  | ["decode", mfs, hex] =>
    match mfs.toNat?, hexToBytes hex with
    | some m, some bs => (st, [resStr (decode bs m)])
    | _, _ => (st, ["bad-op"])
  | ["body", t, flags, sid, len, hex] =>
    match nats [t, flags, sid, len], hexToBytes hex with
    | some [t, flags, sid, len], some bs =>
      (st, [presStr (frameBody bs { len := len, ftype := convertFrameType t, flags := flags, sid := sid })])
    | _, _ => (st, ["bad-op"])
  | ["settings_frame", flags, hex] =>
    match flags.toNat?, hexToBytes hex with
    | some fl, some bs =>
      (st, [presStr (settingsFrame bs { len := bs.length, ftype := .settings, flags := fl, sid := 0 })])
    | _, _ => (st, ["bad-op"])
  | ["fframe", ctx, hex] =>
    let ctx? : Option FrameCtx := match ctx with
      | "0" => some .normal | "1" => some .closedStream | "2" => some .inHeaderBlock | _ => none
    match ctx?, hexToBytes hex with
    | some ctx, some bs =>
      if st.dead then (st, ["dead"]) else
      match decode bs 16384 with
      | .ok h f _ =>
        -- a CONTINUATION inside a header block also has to fit the connection buffer
        let r := match ctx, f with
          | .inHeaderBlock, .continuation =>
            let c := continuationStep Consts.cfgDefaultBufferSize st.flood h.len
            if c.2.isSome then c
            else if flagSet h.flags Consts.h2FlagEndHeaders then floodRun c.1 [.headersEnd] else c
          | _, _ => floodFrame st.flood ctx h f
        ({ flood := r.1, dead := r.2.isSome }, [violStr r.2 ++ " " ++ counters r.1])
      | .incomplete => (st, ["incomplete"])
      | .err c => (st, [s!"err {c}"])
    | _, _ => (st, ["bad-op"])
  | ["hbudget", mb, mf, fields] =>
    let fs := if fields = "-" then some [] else
      (fields.splitOn ",").mapM fun kv =>
        match kv.splitOn ":" with
        | [k, v] => match k.toNat?, v.toNat? with
          | some k, some v => some (k, v)
          | _, _ => none
        | _ => none
    match mb.toNat?, mf.toNat?, fs with
    | some mb, some mf, some fs =>
      (st, [soutStr ((headerBudget mb mf fs).getD .handled)])
    | _, _, _ => (st, ["bad-op"])
  | ["clen", declared, frames] =>
    let d : Option (Option Nat) := if declared = "-" then some none else declared.toNat?.map some
    let fs := if frames = "-" then some [] else
      (frames.splitOn ",").mapM fun kv =>
        match kv.splitOn ":" with
        | [k, v] => match k.toNat? with
          | some k => if v = "1" then some (k, true) else if v = "0" then some (k, false) else none
          | none => none
        | _ => none
    match d, fs with
    | some d, some fs =>
      (st, [soutStr (contentLengthRun d 0 fs).2])
    | _, _ => (st, ["bad-op"])
  | ["prio", known, la, sid, dep] =>
    match sid.toNat?, dep.toNat? with
    | some sid, some dep =>
      (st, [soutStr (priorityVerdict (known == "1") (la == "1") sid dep)])
    | _, _ => (st, ["bad-op"])
  | ["psettings", hex] =>
    match hexToBytes hex with
    | some bs =>
      let r := handleSettings st.sett 65536 (parseSettings bs)
      ({ st with sett := r.1 }, [match r.2 with | none => s!"ack {r.1.localS.maxFrameSize}" | some c => s!"cerr {c}"])
    | none => (st, ["bad-op"])
  | ["cdecode", hex] =>
    match hexToBytes hex with
    | some bs => (st, [resStr (connDecode st.sett bs)])
    | none => (st, ["bad-op"])
  | ["cnew", m] =>
    match m.toNat? with
    | some m => ({ st with conn := Conn.init m }, ["cnew"])
    | none => (st, ["bad-op"])
  | ["cframe", sid, fk, es] =>
    let fk? : Option FrameKind := match fk with
      | "data" => some .data | "headers" => some .headers | "window_update" => some .windowUpdate
      | "rst_stream" => some .rstStream | "priority" => some .priority | "continuation" => some .continuation
      | _ => none
    match sid.toNat?, fk?, es with
    | some sid, some fk, "0" | some sid, some fk, "1" =>
      let r := connStep st.conn (.frame sid fk (es == "1"))
      let o := match r.2 with
        | none => "none"
        | some .handled => "handled"
        | some (.streamError c) => s!"serr {c}"
        | some (.connError c) => s!"cerr {c}"
      ({ st with conn := r.1 }, [o])
    | _, _, _ => (st, ["bad-op"])
  | ["stream", sst, fk] =>
    let st? : Option StreamSt := match sst with
      | "idle_above" => some .idleAbove | "closed_below" => some .closedBelow
      | "closed_end_stream" => some .closedEndStream | "closed_peer_rst" => some .closedPeerRst
      | "refused" => some .refused | "half_closed_remote" => some .halfClosedRemote | "open" => some .open
      | _ => none
    let fk? : Option FrameKind := match fk with
      | "data" => some .data | "headers" => some .headers | "window_update" => some .windowUpdate
      | "rst_stream" => some .rstStream | "priority" => some .priority | "continuation" => some .continuation
      | _ => none
    match st?, fk? with
    | some ss, some fk =>
      let o := match headerVerdict (viewOf ss) fk with
        | .handled => "handled"
        | .streamError c => s!"serr {c}"
        | .connError c => s!"cerr {c}"
      (st, [o])
    | _, _ => (st, ["bad-op"])
  | ["first_settings", hex] =>
    match hexToBytes hex with
    | some bs => (st, [presStr (firstSettings bs)])
    | none => (st, ["bad-op"])
  | ["gen_header", cap, len, t, flags, sid] =>
    match nats [cap, len, t, flags, sid] with
    | some [cap, len, t, flags, sid] =>
      (st, [genOut cap (genFrameHeader { len := len, ftype := convertFrameType t, flags := flags, sid := sid })])
    | _ => (st, ["bad-op"])
  | ["gen_settings", cap, a, b, c, d, e, f, g, h] =>
    match nats [cap, a, b, c, d, e, f, g, h] with
    | some [cap, a, b, c, d, e, f, g, h] =>
      let stg : Settings :=
        { headerTableSize := a
          enablePush := (b != 0)
          maxConcurrentStreams := c
          initialWindowSize := d
          maxFrameSize := e
          maxHeaderListSize := f
          enableConnectProtocol := (g != 0)
          noRfc7540Priorities := (h != 0) }
      (st, [genOut cap (genSettings stg)])
    | _ => (st, ["bad-op"])
  | ["gen_rst", cap, sid, code] =>
    match nats [cap, sid, code] with
    | some [cap, sid, code] => (st, [genOut cap (genRstStream sid code)])
    | _ => (st, ["bad-op"])
  | ["gen_wu", cap, sid, inc] =>
    match nats [cap, sid, inc] with
    | some [cap, sid, inc] => (st, [genOut cap (genWindowUpdate sid inc)])
    | _ => (st, ["bad-op"])
  | ["gen_goaway", cap, last, code] =>
    match nats [cap, last, code] with
    | some [cap, last, code] => (st, [genOut cap (genGoAway last code)])
    | _ => (st, ["bad-op"])
  | ["gen_pingack", cap, hex] =>
    match cap.toNat?, hexToBytes hex with
    | some cap, some bs => (st, [genOut cap (genPingAck bs)])
    | _, _ => (st, ["bad-op"])
  | "fnew" :: rest =>
    match nats rest with
    | some [a, b, c, d, e, f, g, h, i, j, k] =>
      let cfg : FloodCfg :=
        { maxRst := a
          maxPing := b
          maxSettings := c
          maxEmptyData := d
          maxWu0 := e
          maxCont := f
          maxGlitch := g
          maxRstLife := h
          maxRstAbusive := i
          maxRstEmitted := j
          maxHeaderList := k }
      let fl := Flood.new cfg.clamped
      ({ flood := fl, dead := false }, ["f " ++ counters fl])
    | _ => (st, ["bad-op"])
  | "fset" :: rest =>
    match nats rest with
    | some [a, b, c, d, e, f, g, h, i, j, k, l, m] =>
      let fl : Flood :=
        { st.flood with
          rst := a
          rstLife := b
          rstAbusive := c
          rstEmitted := d
          ping := e
          pingLife := f
          settings := g
          settingsLife := h
          emptyData := i
          wu0 := j
          cont := k
          accHdr := l
          glitch := m }
      ({ st with flood := fl }, ["f " ++ counters fl])
    | _ => (st, ["bad-op"])
  | "f" :: rest =>
    match parseFloodOp rest with
    | none => (st, ["bad-op"])
    | some op =>
      if st.dead then (st, ["dead"]) else
      let r := floodStep st.flood op
      ({ flood := r.1, dead := r.2.isSome }, [violStr r.2 ++ " " ++ counters r.1])
  | _ => (st, ["bad-op"])

def main : IO Unit := runDriver stepLine St.init
