import Sozu.Common.Proto
import Sozu.Router.Model
import Sozu.Router.Spec
open Sozu Sozu.Proto Sozu.Trie Sozu.Router

/-
Line protocol (one line in, one line out):

  new
  add <pos> <host> <kind> <path> <method> <cluster> <redirect> <scheme> <tmpl> <rhost> <rpath> <rport> <auth> <pathOk> <hostOk> <table>
  rem <pos> <host> <kind> <path> <method> <pathOk> <hostOk> <table>
  probe <host> <path> <method> <table>

byte strings are hex (`-` = empty), optional fields use `~` for None.
<table> = `-` or comma-separated `<K><pat>:<subject>:<0|1>` with K in S (segment
regex on a host label), D (hostname regex on the whole host), P (path regex on
the path): the truth values computed by the real `regex` crate. The model is
run with "absent = false" and "absent = true"; if the two runs differ the table
was incomplete and the driver prints `missing-oracle` (never defaults silently).
-/

abbrev Table := List ((Nat × Bytes × Bytes) × Bool)

def parseEntry (e : String) : Option ((Nat × Bytes × Bytes) × Bool) :=
  match e.toList with
  | k :: rest =>
    let kind := if k = 'S' then some 0 else if k = 'D' then some 1 else if k = 'P' then some 2 else none
    match kind, (String.ofList rest).splitOn ":" with
    | some kd, [p, s, v] =>
      match hexToBytes p, hexToBytes s with
      | some pb, some sb => if v = "1" then some ((kd, pb, sb), true) else if v = "0" then some ((kd, pb, sb), false) else none
      | _, _ => none
    | _, _ => none
  | [] => none

def parseTable (s : String) : Option Table :=
  if s = "-" then some [] else (s.splitOn ",").mapM parseEntry

def tableGet (t : Table) (dflt : Bool) (k : Nat) (p s : Bytes) : Bool :=
  match t.find? (fun e => e.1 = (k, p, s)) with
  | some e => e.2
  | none => dflt

def mkOracle (t : Table) (dflt : Bool) : Oracle :=
  { seg := tableGet t dflt 0, dom := tableGet t dflt 1, path := tableGet t dflt 2 }

def optBytes (s : String) : Option (Option Bytes) :=
  if s = "~" then some none else (hexToBytes s).map some

def optNat (s : String) : Option (Option Nat) :=
  if s = "~" then some none else s.toNat?.map some

def optBool (s : String) : Option (Option Bool) :=
  if s = "~" then some none else if s = "1" then some (some true) else if s = "0" then some (some false) else none

def bool01 (s : String) : Option Bool :=
  if s = "1" then some true else if s = "0" then some false else none

def showOB : Option Bytes → String
  | none => "~"
  | some b => bytesToHex b

def showON : Option Nat → String
  | none => "~"
  | some n => toString n

def showResult (r : RouteResult) : String :=
  s!"c={showOB r.cluster} r={r.redirect} s={r.scheme} t={showOB r.tmpl} h={showOB r.rhost} p={showOB r.rpath} o={showON r.rport} a={boolStr r.auth}"

def insertStr (x : String) : List String → List String
  | [] => [x]
  | y :: ys => if x < y then x :: y :: ys else if x = y then y :: ys else y :: insertStr x ys

def showSpec (l : List (Option Route)) : String :=
  match (l.map fun r => match r with | some r => showResult r.result | none => "none").foldr insertStr [] with
  | [] => "none"
  | xs => ";".intercalate xs

def noDollar (x : Option Bytes) : Bool :=
  match x with
  | some b => !b.contains 36
  | none => true

structure St where
  r : Router
  spec : Spec.State
  dead : Bool

def St.init : St := ⟨Router.new, [], false⟩

def parseFrontCore (pos host kind path method pathOk hostOk : String) : Option Front :=
  match pos.toNat?, hexToBytes host, kind.toNat?, hexToBytes path, optBytes method, bool01 pathOk, bool01 hostOk with
  | some pos, some host, some kind, some path, some method, some pok, some hok =>
    some { pos, host, kind, path, method, pathOk := pok, hostOk := hok }
  | _, _, _, _, _, _, _ => none

def showAdd : AddOut → String
  | .ok => "ok" | .errPath => "err-path" | .errDomain => "err-domain" | .errAdd => "err-add" | .panic => "panic"

def showRem : RemoveOut → String
  | .ok => "ok" | .errPath => "err-path" | .errDomain => "err-domain" | .errRemove => "err-remove"

def probeAll (o : Oracle) (s : Router) (host path method : Bytes) : String :=
  match lookup o s host path method with
  | some r => showResult r
  | none => "none"

def doAdd (st : St) (f : Front) (t : Table) : St × String :=
  let a := addFront (mkOracle t false) st.r f
  let b := addFront (mkOracle t true) st.r f
  -- the two runs must agree on the outcome and on the lookup_mut resolution
  let agree := a.2 = b.2 &&
    (domainLookupMut (mkOracle t false).seg st.r.tree f.host false).map (·.1) =
    (domainLookupMut (mkOracle t true).seg st.r.tree f.host false).map (·.1)
  if !agree then (st, "missing-oracle")
  else if a.2 = .panic then ({ st with dead := true }, "panic")
  else ({ st with r := a.1, spec := Spec.step st.spec (.add f) }, showAdd a.2)

def doRem (st : St) (f : Front) (t : Table) : St × String :=
  let a := removeFront (mkOracle t false) st.r f
  let b := removeFront (mkOracle t true) st.r f
  let agree := a.2 = b.2 &&
    (domainLookupMut (mkOracle t false).seg st.r.tree f.host false).map (·.1) =
    (domainLookupMut (mkOracle t true).seg st.r.tree f.host false).map (·.1)
  if !agree then (st, "missing-oracle")
  else ({ st with r := a.1, spec := Spec.step st.spec (.remove f) }, showRem a.2)

def doProbe (st : St) (host path method : Bytes) (t : Table) : String :=
  let o0 := mkOracle t false
  let o1 := mkOracle t true
  let a := probeAll o0 st.r host path method ++ " | " ++ showSpec (Spec.route o0 st.spec host path method)
  let b := probeAll o1 st.r host path method ++ " | " ++ showSpec (Spec.route o1 st.spec host path method)
  if a = b then a else "missing-oracle"

def stepLine (st : St) (line : String) : St × List String :=
  match words line with
  | ["new"] => (St.init, ["new"])
  | ws =>
    if st.dead then (st, ["dead"]) else
    match ws with
    | ["add", pos, host, kind, path, method, cluster, redirect, scheme, tmpl, rhost, rpath, rport, auth, pathOk, hostOk, table] =>
      match parseFrontCore pos host kind path method pathOk hostOk, optBytes cluster, optNat redirect, optNat scheme,
            optBytes tmpl, optBytes rhost, optBytes rpath, optNat rport, optBool auth, parseTable table with
      | some f, some cluster, some redirect, some scheme, some tmpl, some rhost, some rpath, some rport, some auth, some t =>
        if !(noDollar rhost && noDollar rpath) then (st, ["bad-op"]) else
        let f := { f with cluster, redirect, scheme, tmpl, rhost, rpath, rport, auth }
        let (st', o) := doAdd st f t
        (st', [o])
      | _, _, _, _, _, _, _, _, _, _ => (st, ["bad-op"])
    | ["rem", pos, host, kind, path, method, pathOk, hostOk, table] =>
      match parseFrontCore pos host kind path method pathOk hostOk, parseTable table with
      | some f, some t =>
        let (st', o) := doRem st f t
        (st', [o])
      | _, _ => (st, ["bad-op"])
    | ["probe", host, path, method, table] =>
      match hexToBytes host, hexToBytes path, hexToBytes method, parseTable table with
      | some h, some p, some m, some t => (st, [doProbe st h p m t])
      | _, _, _, _ => (st, ["bad-op"])
    | _ => (st, ["bad-op"])

def main : IO Unit := runDriver stepLine St.init
