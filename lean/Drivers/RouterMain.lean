import Sozu.Common.Proto
import Sozu.Router.Model
import Sozu.Router.Spec
open Sozu Sozu.Proto Sozu.Trie Sozu.Router

/-
Line protocol (one line in, one line out):

  new [http|https]      (no argument: the bare Router; http: HttpProxy + one HTTP listener; https: an HttpsListener)
  add <pos> <host> <kind> <path> <method> <cluster> <redirect> <scheme> <tmpl> <rhost> <rpath> <rport> <auth> <pathOk> <hostOk> <table> <hdrs> <hsts> <inherit> <addr>
  rem <pos> <host> <kind> <path> <method> <pathOk> <hostOk> <table> <addr>
  probe <host> <path> <method> <table>      (listener modes: <host> is the Host / :authority value)
  hsts <0|1>            (refresh_inheriting_hsts with a listener default that renders / does not render)

byte strings are hex (`-` = empty), optional fields use `~` for None.
<table> = `-` or comma-separated `<K><pat>:<subject>:<0|1>` with K in S (segment
regex on a host label), D (hostname regex on the whole host), P (path regex on
the path): the truth values computed by the real `regex` crate. The model is
run with "absent = false" and "absent = true"; if the two runs differ the table
was incomplete and the driver prints `missing-oracle` (never defaults silently).
-/

abbrev Table := List ((Nat × Bytes × Bytes) × Bool)

def parseEntry (e : String) : Option ((Nat × Bytes × Bytes) × Bool) :=
  match e.toList with
  | k :: rest =>
    let kind := if k = 'S' then some 0 else if k = 'D' then some 1 else if k = 'P' then some 2 else none
    match kind, (String.ofList rest).splitOn ":" with
    | some kd, [p, s, v] =>
      match hexToBytes p, hexToBytes s with
      | some pb, some sb => if v = "1" then some ((kd, pb, sb), true) else if v = "0" then some ((kd, pb, sb), false) else none
      | _, _ => none
    | _, _ => none
  | [] => none

def parseTable (s : String) : Option Table :=
  if s = "-" then some [] else (s.splitOn ",").mapM parseEntry

def tableGet (t : Table) (dflt : Bool) (k : Nat) (p s : Bytes) : Bool :=
  match t.find? (fun e => e.1 = (k, p, s)) with
  | some e => e.2
  | none => dflt

def mkOracle (t : Table) (dflt : Bool) : Oracle :=
  { seg := tableGet t dflt 0, dom := tableGet t dflt 1, path := tableGet t dflt 2 }

def optBytes (s : String) : Option (Option Bytes) :=
  if s = "~" then some none else (hexToBytes s).map some

def optNat (s : String) : Option (Option Nat) :=
  if s = "~" then some none else s.toNat?.map some

def optBool (s : String) : Option (Option Bool) :=
  if s = "~" then some none else if s = "1" then some (some true) else if s = "0" then some (some false) else none

def bool01 (s : String) : Option Bool :=
  if s = "1" then some true else if s = "0" then some false else none

def showOB : Option Bytes → String
  | none => "~"
  | some b => bytesToHex b

def showON : Option Nat → String
  | none => "~"
  | some n => toString n

def showResult (r : RouteResult) : String :=
  s!"c={showOB r.cluster} r={r.redirect} s={r.scheme} t={showOB r.tmpl} h={showOB r.rhost} p={showOB r.rpath} o={showON r.rport} a={boolStr r.auth} q={r.nreq} e={r.nresp}"

def insertStr (x : String) : List String → List String
  | [] => [x]
  | y :: ys => if x < y then x :: y :: ys else if x = y then y :: ys else y :: insertStr x ys

def showSpec (l : List (Option Route)) : String :=
  match (l.map fun r => match r with | some r => showResult r.result | none => "none").foldr insertStr [] with
  | [] => "none"
  | xs => ";".intercalate xs

def noDollar (x : Option Bytes) : Bool :=
  match x with
  | some b => !b.contains 36
  | none => true

structure St where
  /-- 0 = bare Router, 1 = HttpProxy with one HTTP listener, 2 = HttpsListener -/
  mode : Nat
  l : Listener
  spec : Spec.State
  dead : Bool

def St.init (mode : Nat) : St := ⟨mode, Listener.new (mode != 1) 0, [], false⟩

def parseFrontCore (pos host kind path method pathOk hostOk : String) : Option Front :=
  match pos.toNat?, hexToBytes host, kind.toNat?, hexToBytes path, optBytes method, bool01 pathOk, bool01 hostOk with
  | some pos, some host, some kind, some path, some method, some pok, some hok =>
    some { pos, host, kind, path, method, pathOk := pok, hostOk := hok }
  | _, _, _, _, _, _, _ => none

def showL : LOut → String
  | .ok => "ok" | .errPath => "err-path" | .errDomain => "err-domain" | .errAdd => "err-add"
  | .errRemove => "err-remove" | .errHsts => "err-hsts" | .errInput => "err-input"
  | .errNoListener => "err-nolistener" | .panic => "panic"

def glueRefusal (o : LOut) : Bool := o = .errHsts || o = .errInput || o = .errNoListener

def parseHdrs (s : String) : Option (List Nat) :=
  if s = "-" then some [] else s.toList.mapM fun c => if c.isDigit then some (c.toNat - 48) else none

def parseHsts (s : String) : Option (Option (Bool × Bool)) :=
  if s = "~" then some none
  else match s.toList with
    | [a, b] => match bool01 (String.ofList [a]), bool01 (String.ofList [b]) with
      | some x, some y => some (some (x, y))
      | _, _ => none
    | _ => none

def probeAll (o : Oracle) (st : St) (host path method : Bytes) : Option String :=
  match (if st.mode = 0 then some (lookup o st.l.fronts host path method) else st.l.lookup o host path method) with
  | none => none
  | some (some r) => some (showResult r)
  | some none => some "none"

def suffix (st : St) (o : Oracle) (host : Bytes) : String :=
  if st.mode = 0 then " hh=" ++ boolStr (hasHostname o st.l.fronts host)
  else if st.mode = 1 then " t=" ++ boolStr (st.l.tags.contains host)
  else ""

def doAdd (st : St) (f : Front) (addr : Nat) (t : Table) : St × String :=
  let a := st.l.add (mkOracle t false) f addr
  let b := st.l.add (mkOracle t true) f addr
  let agree := a.2 = b.2 &&
    (domainLookupMut (mkOracle t false).seg st.l.fronts.tree f.host false).map (·.1) =
    (domainLookupMut (mkOracle t true).seg st.l.fronts.tree f.host false).map (·.1)
  if !agree then (st, "missing-oracle")
  else if a.2 = .panic then ({ st with dead := true }, "panic")
  else ({ st with l := a.1, spec := if glueRefusal a.2 then st.spec else Spec.step st.spec (.add (if st.l.https then f else { f with inherit := false })) }, showL a.2)

def doRem (st : St) (f : Front) (addr : Nat) (t : Table) : St × String :=
  let a := st.l.remove (mkOracle t false) f addr
  let b := st.l.remove (mkOracle t true) f addr
  let st0 := { st with l := a.1 }
  let st1 := { st with l := b.1 }
  let agree := a.2 = b.2 && suffix st0 (mkOracle t false) f.host = suffix st1 (mkOracle t true) f.host &&
    (domainLookupMut (mkOracle t false).seg st.l.fronts.tree f.host false).map (·.1) =
    (domainLookupMut (mkOracle t true).seg st.l.fronts.tree f.host false).map (·.1)
  if !agree then (st, "missing-oracle")
  else ({ st0 with spec := if glueRefusal a.2 then st.spec else Spec.step st.spec (.remove f) },
        showL a.2 ++ suffix st0 (mkOracle t false) f.host)

def doProbe (st : St) (host path method : Bytes) (t : Table) : String :=
  let o0 := mkOracle t false
  let o1 := mkOracle t true
  let one (o : Oracle) : String :=
    match probeAll o st host path method with
    | none => "err-host"
    | some x =>
      let h := if st.mode = 0 then host else (authorityHost host).getD host
      x ++ " | " ++ showSpec (Spec.route o st.spec h path method)
  if one o0 = one o1 then one o0 else "missing-oracle"

def doHsts (st : St) (edit : Bool) : St :=
  { st with l := { st.l with fronts := refreshHsts edit st.l.fronts },
            spec := st.spec.map fun fe => { fe with route := refreshRoute edit fe.route } }

def stepLine (st : St) (line : String) : St × List String :=
  match words line with
  | ["new"] => (St.init 0, ["new"])
  | ["new", "http"] => (St.init 1, ["new"])
  | ["new", "https"] => (St.init 2, ["new"])
  | ws =>
    if st.dead then (st, ["dead"]) else
    match ws with
    | ["add", pos, host, kind, path, method, cluster, redirect, scheme, tmpl, rhost, rpath, rport, auth, pathOk, hostOk, table,
       hdrs, hsts, inherit, addr] =>
      match parseFrontCore pos host kind path method pathOk hostOk, optBytes cluster, optNat redirect, optNat scheme,
            optBytes tmpl, optBytes rhost, optBytes rpath, optNat rport, optBool auth, parseTable table,
            parseHdrs hdrs, parseHsts hsts, bool01 inherit, addr.toNat? with
      | some f, some cluster, some redirect, some scheme, some tmpl, some rhost, some rpath, some rport, some auth, some t,
        some headers, some hsts, some inherit, some addr =>
        if !(noDollar rhost && noDollar rpath) then (st, ["bad-op"])
        else if st.mode != 1 && f.pos > 2 then (st, ["bad-op"]) else
        let f := { f with cluster, redirect, scheme, tmpl, rhost, rpath, rport, auth, headers, hsts, inherit }
        let (st', o) := doAdd st f (if st.mode = 1 then addr else 0) t
        (st', [o])
      | _, _, _, _, _, _, _, _, _, _, _, _, _, _ => (st, ["bad-op"])
    | ["rem", pos, host, kind, path, method, pathOk, hostOk, table, addr] =>
      match parseFrontCore pos host kind path method pathOk hostOk, parseTable table, addr.toNat? with
      | some f, some t, some addr =>
        if st.mode != 1 && f.pos > 2 then (st, ["bad-op"]) else
        let (st', o) := doRem st f (if st.mode = 1 then addr else 0) t
        (st', [o])
      | _, _, _ => (st, ["bad-op"])
    | ["probe", host, path, method, table] =>
      match hexToBytes host, hexToBytes path, hexToBytes method, parseTable table with
      | some h, some p, some m, some t => (st, [doProbe st h p m t])
      | _, _, _, _ => (st, ["bad-op"])
    | ["hsts", e] =>
      match bool01 e with
      | some edit => if st.mode = 1 then (st, ["bad-op"]) else (doHsts st edit, ["ok"])
      | none => (st, ["bad-op"])
    | _ => (st, ["bad-op"])

def main : IO Unit := runDriver stepLine (St.init 0)
