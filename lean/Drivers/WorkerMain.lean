import Sozu.Common.Proto
import Sozu.Worker.Model
open Sozu Sozu.Proto Sozu.Worker

def ltPair (a b : Nat × Nat) : Bool := a.1 < b.1 || (a.1 == b.1 && a.2 < b.2)

def insPair (x : Nat × Nat) : List (Nat × Nat) → List (Nat × Nat)
  | [] => [x]
  | y :: ys => if ltPair x y then x :: y :: ys else y :: insPair x ys

def sortPairs (l : List (Nat × Nat)) : List (Nat × Nat) := l.foldr insPair []

def showPairs (sep : String) (l : List (Nat × Nat)) : String :=
  "[" ++ ",".intercalate ((sortPairs l).map fun p => s!"{p.1}{sep}{p.2}") ++ "]"

def showNats (l : List Nat) : String :=
  "[" ++ ",".intercalate ((sortPairs (l.map fun x => (x, 0))).map fun p => s!"{p.1}") ++ "]"

def statusStr : Status → String
  | .ok => "ok" | .failure => "fail" | .processing => "processing"

def respStr (l : List Status) : String :=
  if l.isEmpty then "-" else ",".intercalate (l.map statusStr)

def infoStr (i : ClusterInfo) : String :=
  let fr (l : List Front) := showPairs ":" (l.map fun f => (f.addr, f.key))
  s!" info=known:{boolStr i.known} knobs:{i.knobs} http:{fr i.http} https:{fr i.https} tcp:{showNats i.tcp} udp:{showNats i.udp} be:{showPairs "@" i.backends}"

def outStr (o : Out) : String :=
  respStr o.resp ++ " acc=" ++ boolStr o.accepted ++ (match o.info with | some i => infoStr i | none => "")

def parseBool (s : String) : Option Bool :=
  if s = "1" then some true else if s = "0" then some false else none

def parseLType (s : String) : Option LType :=
  match s with
  | "h" => some .http | "s" => some .https | "t" => some .tcp | "u" => some .udp
  | _ => none

/-- `x` = a `proxy` value that is not a `ListenerType` -/
def parseLTypeOpt (s : String) : Option (Option LType) :=
  if s = "x" then some none else (parseLType s).map some

def parseKind (n : String) : Option Kind := Kind.all.find? (·.name == n)

/-- kinds the `plain` op may carry: no payload fact decides anything -/
def plainAllowed (k : Kind) : Bool :=
  match k with
  | .none | .saveState | .loadState | .listWorkers | .listFrontends | .listListeners
  | .launchWorker | .upgradeMain | .upgradeWorker | .subscribeEvents | .reloadConfiguration
  | .status | .queryClustersByDomain | .queryClustersHashes | .queryMetrics | .softStop
  | .hardStop | .configureMetrics | .logging | .returnListenSockets
  | .queryCertificatesFromTheState | .countRequests | .setMaxConnectionsPerIp
  | .queryMaxConnectionsPerIp | .queryHealthChecks => true
  | _ => false

def hasFlag (flags : String) (c : Char) : Bool := flags.toList.contains c

def parseOp (ws : List String) : Option Op :=
  match ws with
  | ["plain", k, ok] =>
    match parseKind k, parseBool ok with
    | some k, some ok => if plainAllowed k then some (.plain k ok) else none
    | _, _ => none
  | ["addcluster", c, hc, tpl, knobs] =>
    match c.toNat?, parseBool hc, parseBool tpl, knobs.toNat? with
    | some c, some hc, some tpl, some knobs => some (.addCluster c hc tpl knobs)
    | _, _, _, _ => none
  | ["rmcluster", c] => c.toNat?.map Op.removeCluster
  | ["addbackend", c, b, a] =>
    match c.toNat?, b.toNat?, a.toNat? with
    | some c, some b, some a => some (.addBackend c b a)
    | _, _, _ => none
  | ["rmbackend", c, b, a] =>
    match c.toNat?, b.toNat?, a.toNat? with
    | some c, some b, some a => some (.removeBackend c b a)
    | _, _, _ => none
  | ["sethc", c, v] =>
    match c.toNat?, parseBool v with
    | some c, some v => some (.setHealthCheck c v)
    | _, _ => none
  | ["rmhc", c] => c.toNat?.map Op.removeHealthCheck
  | ["addl", t, a, v] =>
    match parseLType t, a.toNat?, parseBool v with
    | some t, some a, some v => some (.addListener t a v)
    | _, _, _ => none
  | ["updl", t, a, v] =>
    match parseLType t, a.toNat?, parseBool v with
    | some t, some a, some v => some (.updateListener t a v)
    | _, _, _ => none
  | ["act", t, a] =>
    match parseLTypeOpt t, a.toNat? with
    | some t, some a => some (.activate t a)
    | _, _ => none
  -- `scm`: `to_scm = true` (the descriptor is also sent on the SCM socket; same answer)
  | ["deact", t, a, "scm"] =>
    match parseLTypeOpt t, a.toNat? with
    | some t, some a => some (.deactivate t a)
    | _, _ => none
  | ["deact", t, a] =>
    match parseLTypeOpt t, a.toNat? with
    | some t, some a => some (.deactivate t a)
    | _, _ => none
  | ["rml", t, a] =>
    match parseLTypeOpt t, a.toNat? with
    | some t, some a => some (.removeListener t a)
    | _, _ => none
  | ["addf", p, a, k, c, fl] =>
    match parseLType p, a.toNat?, k.toNat?, c.toNat? with
    | some p, some a, some k, some c =>
      if p == .http || p == .https then
        some (.addFront (p == .https) ⟨a, k, c⟩ (hasFlag fl 'r') (hasFlag fl 'e') (hasFlag fl 'h') (hasFlag fl 'p'))
      else none
    | _, _, _, _ => none
  | ["rmf", p, a, k, c, fl] =>
    match parseLType p, a.toNat?, k.toNat?, c.toNat? with
    | some p, some a, some k, some c =>
      if p == .http || p == .https then
        some (.removeFront (p == .https) ⟨a, k, c⟩ (hasFlag fl 'r') (hasFlag fl 'e') (hasFlag fl 'p'))
      else none
    | _, _, _, _ => none
  | ["addl4", p, a, c] =>
    match parseLType p, a.toNat?, c.toNat? with
    | some p, some a, some c =>
      if p == .tcp || p == .udp then some (.addL4Front (p == .udp) a c) else none
    | _, _, _ => none
  | ["rml4", p, a, c] =>
    match parseLType p, a.toNat?, c.toNat? with
    | some p, some a, some c =>
      if p == .tcp || p == .udp then some (.removeL4Front (p == .udp) a c) else none
    | _, _, _ => none
  | ["addcert", a, i, v] =>
    match a.toNat?, i.toNat?, parseBool v with
    | some a, some i, some v => some (.addCert a i v)
    | _, _, _ => none
  | ["rmcert", a, i, v] =>
    match a.toNat?, i.toNat?, parseBool v with
    | some a, some i, some v => some (.removeCert a i v)
    | _, _, _ => none
  | ["replcert", a, o, h, n, nv] =>
    match a.toNat?, o.toNat?, parseBool h, n.toNat?, parseBool nv with
    | some a, some o, some h, some n, some nv => some (.replaceCert a o h n nv)
    | _, _, _, _, _ => none
  | ["qcerts", m, i] =>
    match m.toNat?, i.toNat? with
    | some m, some i => if m ≤ 2 then some (.queryCerts m i) else none
    | _, _ => none
  | ["setdetail", c, fl, p] =>
    match c.toNat?, p.toNat? with
    | some c, some p =>
      let detail := if hasFlag fl 'n' then 0 else if hasFlag fl 'v' then 2 else 1
      some (.setDetail c (hasFlag fl 'l') (hasFlag fl 'c') detail (hasFlag fl 't') (!hasFlag fl 'u') p)
    | _, _ => none
  | ["qcluster", c] => c.toNat?.map Op.queryCluster
  | _ => none

def stepLine (s : WState) (line : String) : WState × List String :=
  match words line with
  | ["new"] => (WState.init, ["new"])
  -- a worker with `max_connections = 1`: the listener capacity gate is within reach
  | ["new", "small"] => (WState.initWith 1, ["new"])
  | ["new", "w", "small"] => (WState.initWith 1, ["new"])
  -- `new w`: a fixed witness case of the harness' corpus
  | ["new", "w"] => (WState.init, ["new"])
  -- thorough tier: the harness starts a client hammering a route outside the op universe
  -- (its listener takes a slab token and counts in `base_sessions_count`)
  | ["traffic"] =>
    let s1 := (step s (.addListener .http 999 true)).1
    ((step s1 (.activate (some .http) 999)).1, ["traffic"])
  | ws =>
    -- `nowait`: the harness does not wait for this request's answer before the next write
    let ws := match ws with | "nowait" :: rest => rest | _ => ws
    match parseOp ws with
    | some op =>
      if s.stopped then (s, ["dead"]) else
      let (s', o) := step s op
      (s', [outStr o])
    | none => (s, ["bad-op"])

def main : IO Unit := runDriver stepLine WState.init
