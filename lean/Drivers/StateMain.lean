import Sozu.Common.Proto
import Sozu.State.Model
/-
Line-protocol driver of the State model (properties C05, C06, C07).
One op line in, one line out. The op syntax is also the canonical printing of
commands (`diff` / `replay` print the command lists they computed, sorted).
-/
open Sozu Sozu.Proto Sozu.State

namespace StateDriver

-- --------------------------------------------------------------- parsing --

def ofl (cs : List Char) : String := String.ofList cs

/-- "-" ↦ none -/
def pOpt {α : Type} (f : String → Option α) (w : String) : Option (Option α) :=
  if w = "-" then some none else (f w).map some

def pNat (w : String) : Option Nat := w.toNat?

def pBool (w : String) : Option Bool :=
  if w = "0" then some false else if w = "1" then some true else none

def pInt (w : String) : Option Int := w.toInt?

def allSome {α : Type} : List (Option α) → Option (List α)
  | [] => some []
  | none :: _ => none
  | some x :: t => (allSome t).map (x :: ·)

/-- comma list; "-" is the empty list -/
def pList {α : Type} (sep : String) (f : String → Option α) (w : String) : Option (List α) :=
  if w = "-" then some [] else allSome ((w.splitOn sep).map f)

def pSlots (w : String) : Option (List (Option Nat)) := pList "," (pOpt pNat) w

/-- `-` none, otherwise comma slots -/
def pAnswers (w : String) : Option (Option (List (Option Nat))) :=
  if w = "-" then some none else (pSlots w).map some

/-- `-` none, `x<hex>` some bytes (`x` alone: empty string) -/
def pSid (w : String) : Option (Option (List Nat)) :=
  if w = "-" then some none else
  match w.toList with
  | 'x' :: [] => some (some [])
  | 'x' :: rest => (hexToBytes (ofl rest)).map some
  | _ => none

/-- patch alpn: `-` none, `e` some [], else list -/
def pAlpnPatch (w : String) : Option (Option (List Nat)) :=
  if w = "-" then some none else if w = "e" then some (some []) else (pList "," pNat w).map some

def pHC (w : String) : Option (Option HC) :=
  if w = "-" then some none else
  match w.toList with
  | 'v' :: rest => (ofl rest).toNat?.map fun t => some { tok := t, valid := true }
  | 'i' :: rest => (ofl rest).toNat?.map fun t => some { tok := t, valid := false }
  | _ => none

def pLType (w : String) : Option (Option LType) :=
  match w.toNat? with
  | some 0 => some (some .http)
  | some 1 => some (some .https)
  | some 2 => some (some .tcp)
  | some 3 => some (some .udp)
  | some _ => some none
  | none => none

def pHttpL (ws : List String) : Option HttpL :=
  match ws with
  | [a, pu, ep, st, ft, bt, ct, rt, act, ans, alpn, sni, d11, ks, sid, rest] => do
    let a ← pNat a; let pu ← pOpt pNat pu; let ep ← pBool ep; let st ← pNat st
    let ft ← pNat ft; let bt ← pNat bt; let ct ← pNat ct; let rt ← pNat rt; let act ← pBool act
    let ans ← pAnswers ans; let alpn ← pList "," pNat alpn
    let sni ← pOpt pBool sni; let d11 ← pOpt pBool d11
    let ks ← pSlots ks; let sid ← pSid sid; let rest ← pNat rest
    pure { addr := a, pub := pu, expectProxy := ep, sticky := st, ft, bt, ct, rt, active := act,
           answers := ans, alpn, strictSni := sni, disableH11 := d11, knobs := ks, sid, rest }
  | _ => none

def pTcpL (ws : List String) : Option TcpL :=
  match ws with
  | [a, pu, ep, ft, bt, ct, act] => do
    let a ← pNat a; let pu ← pOpt pNat pu; let ep ← pBool ep
    let ft ← pNat ft; let bt ← pNat bt; let ct ← pNat ct; let act ← pBool act
    pure { addr := a, pub := pu, expectProxy := ep, ft, bt, ct, active := act }
  | _ => none

def pUdpL (ws : List String) : Option UdpL :=
  match ws with
  | [a, pu, ft, bt, mr, mf, act] => do
    let a ← pNat a; let pu ← pOpt pNat pu
    let ft ← pNat ft; let bt ← pNat bt; let mr ← pNat mr; let mf ← pNat mf; let act ← pBool act
    pure { addr := a, pub := pu, ft, bt, maxRx := mr, maxFlows := mf, active := act }
  | _ => none

def pFront (ws : List String) : Option ReqFront :=
  match ws with
  | [cl, a, h, k, p, m, pos, tags, rest] => do
    let cl ← pOpt pNat cl; let a ← pNat a; let h ← pNat h; let k ← pNat k; let p ← pNat p
    let m ← pOpt pNat m; let pos ← pNat pos; let tags ← pNat tags; let rest ← pNat rest
    pure { cluster := cl, addr := a, host := h, kind := k, path := p, method := m, pos, tags, rest }
  | _ => none

def pTF (ws : List String) : Option TcpFront :=
  match ws with
  | [c, a, t] => do
    let c ← pNat c; let a ← pNat a; let t ← pNat t
    pure { cluster := c, addr := a, tags := t }
  | _ => none

/-- environment facts carried by a certificate: fingerprint (`x` = not PEM) and
    certificate names (`!` = not X.509) -/
abbrev EnvL := List (Nat × (Option Nat × Option (List Nat)))

def pFp (w : String) : Option (Option Nat) := if w = "x" then some none else (pNat w).map some

def pCn (w : String) : Option (Option (List Nat)) :=
  if w = "!" then some none else (pList "." pNat w).map some

/-- `<pem> <names> <rest> <fp> <cn>` -/
def pCert (ws : List String) : Option (Cert × (Nat × (Option Nat × Option (List Nat)))) :=
  match ws with
  | [pem, names, rest, fp, cn] => do
    let pem ← pNat pem; let names ← pList "." pNat names; let rest ← pNat rest
    let fp ← pFp fp; let cn ← pCn cn
    pure ({ pem, names, rest }, (pem, (fp, cn)))
  | _ => none

def pHttpPatch (https : Bool) (ws : List String) : Option HttpPatch :=
  if https then
    match ws with
    | [a, pu, ep, st, ft, bt, ct, rt, ans, alpn, sni, d11, ks, sid, ign] => do
      let a ← pNat a; let pu ← pOpt pNat pu; let ep ← pOpt pBool ep; let st ← pOpt pNat st
      let ft ← pOpt pNat ft; let bt ← pOpt pNat bt; let ct ← pOpt pNat ct; let rt ← pOpt pNat rt
      let ans ← pAnswers ans; let alpn ← pAlpnPatch alpn
      let sni ← pOpt pBool sni; let d11 ← pOpt pBool d11
      let ks ← pSlots ks; let sid ← pSid sid; let ign ← pNat ign
      pure { addr := a, pub := pu, expectProxy := ep, sticky := st, ft, bt, ct, rt, answers := ans,
             alpn, strictSni := sni, disableH11 := d11, knobs := ks, sid, ign }
    | _ => none
  else
    match ws with
    | [a, pu, ep, st, ft, bt, ct, rt, ans, ks, sid, ign] => do
      let a ← pNat a; let pu ← pOpt pNat pu; let ep ← pOpt pBool ep; let st ← pOpt pNat st
      let ft ← pOpt pNat ft; let bt ← pOpt pNat bt; let ct ← pOpt pNat ct; let rt ← pOpt pNat rt
      let ans ← pAnswers ans; let ks ← pSlots ks; let sid ← pSid sid; let ign ← pNat ign
      pure { addr := a, pub := pu, expectProxy := ep, sticky := st, ft, bt, ct, rt, answers := ans,
             alpn := none, strictSni := none, disableH11 := none, knobs := ks, sid, ign }
    | _ => none

/-- one command line; also returns the environment facts it carries -/
def parseCmd (ws : List String) : Option (Cmd × EnvL) :=
  let pure' (c : Cmd) : Option (Cmd × EnvL) := some (c, [])
  match ws with
  | ["addcluster", id, hc, rest] => do
    let id ← pNat id; let hc ← pHC hc; let rest ← pNat rest
    pure' (.addCluster { id, hc, rest })
  | ["rmcluster", id] => (pNat id).bind fun id => pure' (.removeCluster id)
  | ["sethc", id, hc] => do
    let id ← pNat id
    match ← pHC hc with
    | some h => pure' (.setHC id h)
    | none => none
  | ["rmhc", id] => (pNat id).bind fun id => pure' (.removeHC id)
  | "addhttpl" :: r => (pHttpL r).bind fun l => pure' (.addHttpL l)
  | "addhttpsl" :: r => (pHttpL r).bind fun l => pure' (.addHttpsL l)
  | "addtcpl" :: r => (pTcpL r).bind fun l => pure' (.addTcpL l)
  | "addudpl" :: r => (pUdpL r).bind fun l => pure' (.addUdpL l)
  | ["rmlistener", ty, a] => do let ty ← pLType ty; let a ← pNat a; pure' (.removeListener ty a)
  | ["activate", ty, a] => do let ty ← pLType ty; let a ← pNat a; pure' (.activate ty a)
  | ["deactivate", ty, a] => do let ty ← pLType ty; let a ← pNat a; pure' (.deactivate ty a)
  | "addhttpf" :: r => (pFront r).bind fun f => pure' (.addHttpF f)
  | "rmhttpf" :: r => (pFront r).bind fun f => pure' (.removeHttpF f)
  | "addhttpsf" :: r => (pFront r).bind fun f => pure' (.addHttpsF f)
  | "rmhttpsf" :: r => (pFront r).bind fun f => pure' (.removeHttpsF f)
  | "addcert" :: a :: r => do
    let a ← pNat a; let (c, e) ← pCert r
    pure (.addCert a c, [e])
  | ["rmcert", a, fp] => do let a ← pNat a; let fp ← pFp fp; pure' (.removeCert a fp)
  | "replcert" :: a :: old :: r => do
    let a ← pNat a; let old ← pFp old; let (c, e) ← pCert r
    pure (.replaceCert a old c, [e])
  | "addtcpf" :: r => (pTF r).bind fun f => pure' (.addTcpF f)
  | "rmtcpf" :: r => (pTF r).bind fun f => pure' (.removeTcpF f)
  | "addudpf" :: r => (pTF r).bind fun f => pure' (.addUdpF f)
  | "rmudpf" :: r => (pTF r).bind fun f => pure' (.removeUdpF f)
  | ["addbackend", c, b, a, st, w, bk] => do
    let c ← pNat c; let b ← pNat b; let a ← pNat a
    let st ← pOpt pNat st
    let w ← if w = "-" then some none else
      match w.toList with
      | 'w' :: rest => (pInt (ofl rest)).map some
      | _ => none
    let bk ← pOpt pBool bk
    pure' (.addBackend { cluster := c, id := b, addr := a, sticky := st, weight := w, backup := bk })
  | ["rmbackend", c, b, a] => do
    let c ← pNat c; let b ← pNat b; let a ← pNat a; pure' (.removeBackend c b a)
  | "updhttpl" :: r => (pHttpPatch false r).bind fun p => pure' (.updHttpL p)
  | "updhttpsl" :: r => (pHttpPatch true r).bind fun p => pure' (.updHttpsL p)
  | ["updtcpl", a, pu, ep, ft, bt, ct] => do
    let a ← pNat a; let pu ← pOpt pNat pu; let ep ← pOpt pBool ep
    let ft ← pOpt pNat ft; let bt ← pOpt pNat bt; let ct ← pOpt pNat ct
    pure' (.updTcpL { addr := a, pub := pu, expectProxy := ep, ft, bt, ct })
  | ["updudpl", a, pu, ft, bt, mr, mf] => do
    let a ← pNat a; let pu ← pOpt pNat pu
    let ft ← pOpt pNat ft; let bt ← pOpt pNat bt; let mr ← pOpt pNat mr; let mf ← pOpt pNat mf
    pure' (.updUdpL { addr := a, pub := pu, ft, bt, maxRx := mr, maxFlows := mf })
  | ["other", ok] => (pBool ok).bind fun ok => pure' (.other ok)
  | ["empty"] => pure' .empty
  | _ => none

-- -------------------------------------------------------------- printing --

def sOpt {α : Type} (f : α → String) : Option α → String
  | none => "-"
  | some x => f x

def sNat (n : Nat) : String := toString n
def sBool (b : Bool) : String := boolStr b

def sList {α : Type} (sep : String) (f : α → String) (l : List α) : String :=
  if l.isEmpty then "-" else sep.intercalate (l.map f)

def sSlots (l : List (Option Nat)) : String := sList "," (sOpt sNat) l

def sAnswers : Option (List (Option Nat)) → String
  | none => "-"
  | some l => sSlots l

def sSid : Option (List Nat) → String
  | none => "-"
  | some bs => "x" ++ (if bs.isEmpty then "" else bytesToHex bs)

def sAlpnPatch : Option (List Nat) → String
  | none => "-"
  | some [] => "e"
  | some l => sList "," sNat l

def sHC : Option HC → String
  | none => "-"
  | some h => (if h.valid then "v" else "i") ++ toString h.tok

def sLType : Option LType → String
  | some .http => "0" | some .https => "1" | some .tcp => "2" | some .udp => "3" | none => "9"

def wHttpL (l : HttpL) : List String :=
  [sNat l.addr, sOpt sNat l.pub, sBool l.expectProxy, sNat l.sticky, sNat l.ft, sNat l.bt, sNat l.ct,
   sNat l.rt, sBool l.active, sAnswers l.answers, sList "," sNat l.alpn, sOpt sBool l.strictSni,
   sOpt sBool l.disableH11, sSlots l.knobs, sSid l.sid, sNat l.rest]

def wTcpL (l : TcpL) : List String :=
  [sNat l.addr, sOpt sNat l.pub, sBool l.expectProxy, sNat l.ft, sNat l.bt, sNat l.ct, sBool l.active]

def wUdpL (l : UdpL) : List String :=
  [sNat l.addr, sOpt sNat l.pub, sNat l.ft, sNat l.bt, sNat l.maxRx, sNat l.maxFlows, sBool l.active]

def wFront (f : ReqFront) : List String :=
  [sOpt sNat f.cluster, sNat f.addr, sNat f.host, sNat f.kind, sNat f.path, sOpt sNat f.method,
   sNat f.pos, sNat f.tags, sNat f.rest]

def wStoredFront (f : HttpFront) : List String :=
  [sOpt sNat f.cluster, sNat f.addr, sNat f.host, sNat f.kind, sNat f.path, sOpt sNat f.method,
   sNat f.pos, sOpt sNat f.tags, sNat f.rest]

def wTF (f : TcpFront) : List String := [sNat f.cluster, sNat f.addr, sNat f.tags]

def envLookup (e : EnvL) (pem : Nat) : Option Nat × Option (List Nat) :=
  match e.find? (fun p => p.1 = pem) with
  | some p => p.2
  | none => (none, none)

def mkEnv (e : EnvL) : Env :=
  { fp := fun pem => (envLookup e pem).1, names := fun pem => (envLookup e pem).2 }

def wCert (e : EnvL) (c : Cert) : List String :=
  let f := envLookup e c.pem
  [sNat c.pem, sList "." sNat c.names, sNat c.rest,
   (match f.1 with | none => "x" | some n => sNat n),
   (match f.2 with | none => "!" | some ns => sList "." sNat ns)]

def wBackend (b : Backend) : List String :=
  [sNat b.cluster, sNat b.id, sNat b.addr, sOpt sNat b.sticky,
   (match b.weight with | none => "-" | some w => "w" ++ toString w), sOpt sBool b.backup]

def wHttpPatch (https : Bool) (p : HttpPatch) : List String :=
  [sNat p.addr, sOpt sNat p.pub, sOpt sBool p.expectProxy, sOpt sNat p.sticky, sOpt sNat p.ft,
   sOpt sNat p.bt, sOpt sNat p.ct, sOpt sNat p.rt, sAnswers p.answers] ++
  (if https then [sAlpnPatch p.alpn, sOpt sBool p.strictSni, sOpt sBool p.disableH11] else []) ++
  [sSlots p.knobs, sSid p.sid, sNat p.ign]

def cmdWords (e : EnvL) : Cmd → List String
  | .addCluster c => ["addcluster", sNat c.id, sHC c.hc, sNat c.rest]
  | .removeCluster id => ["rmcluster", sNat id]
  | .setHC id hc => ["sethc", sNat id, sHC (some hc)]
  | .removeHC id => ["rmhc", sNat id]
  | .addHttpL l => "addhttpl" :: wHttpL l
  | .addHttpsL l => "addhttpsl" :: wHttpL l
  | .addTcpL l => "addtcpl" :: wTcpL l
  | .addUdpL l => "addudpl" :: wUdpL l
  | .removeListener ty a => ["rmlistener", sLType ty, sNat a]
  | .activate ty a => ["activate", sLType ty, sNat a]
  | .deactivate ty a => ["deactivate", sLType ty, sNat a]
  | .addHttpF f => "addhttpf" :: wFront f
  | .removeHttpF f => "rmhttpf" :: wFront f
  | .addHttpsF f => "addhttpsf" :: wFront f
  | .removeHttpsF f => "rmhttpsf" :: wFront f
  | .addCert a c => "addcert" :: sNat a :: wCert e c
  | .removeCert a fp => ["rmcert", sNat a, (match fp with | none => "x" | some n => sNat n)]
  | .replaceCert a old c =>
    "replcert" :: sNat a :: (match old with | none => "x" | some n => sNat n) :: wCert e c
  | .addTcpF f => "addtcpf" :: wTF f
  | .removeTcpF f => "rmtcpf" :: wTF f
  | .addUdpF f => "addudpf" :: wTF f
  | .removeUdpF f => "rmudpf" :: wTF f
  | .addBackend b => "addbackend" :: wBackend b
  | .removeBackend c b a => ["rmbackend", sNat c, sNat b, sNat a]
  | .updHttpL p => "updhttpl" :: wHttpPatch false p
  | .updHttpsL p => "updhttpsl" :: wHttpPatch true p
  | .updTcpL p => ["updtcpl", sNat p.addr, sOpt sNat p.pub, sOpt sBool p.expectProxy,
                   sOpt sNat p.ft, sOpt sNat p.bt, sOpt sNat p.ct]
  | .updUdpL p => ["updudpl", sNat p.addr, sOpt sNat p.pub, sOpt sNat p.ft, sOpt sNat p.bt,
                   sOpt sNat p.maxRx, sOpt sNat p.maxFlows]
  | .other ok => ["other", sBool ok]
  | .empty => ["empty"]

def insertStr (x : String) : List String → List String
  | [] => [x]
  | y :: ys => if x < y then x :: y :: ys else y :: insertStr x ys

def sortStr (l : List String) : List String := l.foldr insertStr []

def sFKey : FKey → String
  | .ok a h k p m => s!"{a};{h};{k};{p};{sOpt sNat m}"
  | .wrong k m => s!"W{k};{sOpt sNat m}"

def entryStr (e : EnvL) : Target × Val → String
  | (.cluster id, .cluster c) => s!"C{id}:{c.id}:{sHC c.hc}:{c.rest}"
  | (.backends cid, .backends l) =>
    s!"B{cid}:[" ++ ";".intercalate (l.map fun b => "/".intercalate (wBackend b)) ++ "]"
  | (.httpL a, .hl l) => s!"H{a}:" ++ ":".intercalate (wHttpL l)
  | (.httpsL a, .hl l) => s!"S{a}:" ++ ":".intercalate (wHttpL l)
  | (.tcpL a, .tl l) => s!"T{a}:" ++ ":".intercalate (wTcpL l)
  | (.udpL a, .ul l) => s!"U{a}:" ++ ":".intercalate (wUdpL l)
  | (.httpF k, .front f) => s!"F{sFKey k}=" ++ ":".intercalate (wStoredFront f)
  | (.httpsF k, .front f) => s!"G{sFKey k}=" ++ ":".intercalate (wStoredFront f)
  | (.tcpF cid, .tfs l) => s!"X{cid}:[" ++ ";".intercalate (sortStr (l.map fun f => "/".intercalate (wTF f))) ++ "]"
  | (.udpF cid, .tfs l) => s!"Y{cid}:[" ++ ";".intercalate (sortStr (l.map fun f => "/".intercalate (wTF f))) ++ "]"
  | (.certs a, .certs m) =>
    s!"K{a}:[" ++ ";".intercalate (m.map fun p => s!"{p.1}=" ++ "/".intercalate ((wCert e p.2).take 3)) ++ "]"
  | _ => "?ill-typed"

def dump (e : EnvL) (s : St) : String :=
  if s.isEmpty then "-" else " ".intercalate (sortStr (s.map (entryStr e)))

/-- same configuration up to empty buckets and the order inside a tcp/udp front `Vec` -/
def sameCfg (e : EnvL) (s s' : St) : Bool :=
  let f (x : St) := sortStr ((x.map (entryStr e)).filter fun w => !(w.endsWith ":[]"))
  f s == f s'

def cmdsStr (e : EnvL) (cs : List Cmd) : String :=
  if cs.isEmpty then "-" else "|".intercalate (sortStr (cs.map fun c => "~".intercalate (cmdWords e c)))

-- ---------------------------------------------------------------- driver --

structure DS where
  env : EnvL := []
  cur : St := []
  mark : Option St := none

def stepLine (d : DS) (line : String) : DS × List String :=
  match words line with
  | ["new"] => ({}, ["new"])
  | ["mark"] => ({ d with mark := some d.cur }, ["mark"])
  | ["markreset"] => ({ d with mark := some d.cur, cur := [] }, ["mark"])
  | ["diff"] =>
    match d.mark with
    | none => (d, ["bad-op"])
    | some a =>
      let env := mkEnv d.env
      let cs := diff a d.cur
      let r := run env a cs
      let ok := allOk env a cs
      (d, [s!"diff {cs.length} {cmdsStr d.env cs} {if ok then "rok" else "rerr"} eq{boolStr (sameCfg d.env r d.cur)} {dump d.env r}"])
  | ["diffself"] => (d, [s!"diffself {(diff d.cur d.cur).length}"])
  | ["replay"] =>
    let env := mkEnv d.env
    let cs := generateRequests d.cur
    let r := run env St.init cs
    let ok := allOk env St.init cs
    (d, [s!"replay {cs.length} {cmdsStr d.env cs} {if ok then "rok" else "rerr"} eq{boolStr (sameCfg d.env r d.cur)} {dump d.env r}"])
  | ws =>
    match parseCmd ws with
    | none => (d, ["bad-op"])
    | some (c, e) =>
      let env' := e ++ d.env
      let r := dispatch (mkEnv env') d.cur c
      ({ d with env := env', cur := r.1 }, [(if r.2 then "ok " else "err ") ++ dump env' r.1])

end StateDriver

def main : IO Unit := runDriver StateDriver.stepLine ({} : StateDriver.DS)
