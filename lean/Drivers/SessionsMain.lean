import Sozu.Common.Proto
import Sozu.Sessions.Model
open Sozu Sozu.Proto Sozu.Sessions

/-- insertion sort on triples for canonical dumps (lexicographic). -/
def lt3 (a b : Nat × Nat × Nat) : Bool :=
  a.1 < b.1 || (a.1 == b.1 && (a.2.1 < b.2.1 || (a.2.1 == b.2.1 && a.2.2 < b.2.2)))

def insertSorted (x : Nat × Nat × Nat) : List (Nat × Nat × Nat) → List (Nat × Nat × Nat)
  | [] => [x]
  | y :: ys => if lt3 x y then x :: y :: ys else y :: insertSorted x ys

def sort3 (l : List (Nat × Nat × Nat)) : List (Nat × Nat × Nat) := l.foldr insertSorted []

def dump (s : SM) : String :=
  let fwd := sort3 (s.fwd.map fun p => (p.1.1, p.1.2, p.2))
  let rev := sort3 s.rev
  let f (l : List (Nat × Nat × Nat)) := ",".intercalate (l.map fun x => s!"{x.1}:{x.2.1}:{x.2.2}")
  s!"nb={s.nb} ca={boolStr s.canAccept} mpi={s.maxPerIp} fwd=[{f fwd}] rev=[{f rev}]"

def outStr : Out → String
  | .bool b => boolStr b
  | .ok => "ok"
  | .panic => "panic"

def parseOp (ws : List String) : Option Op :=
  match ws with
  | ["check", n] => n.toNat?.map Op.check
  | ["incr"] => some Op.incr
  | ["decr"] => some Op.decr
  | ["atlimit", t, c, ip, ov] =>
    match t.toNat?, c.toNat?, ip.toNat? with
    | some t, some c, some ip =>
      if ov = "-" then some (Op.atLimit t c ip none) else ov.toNat?.map fun o => Op.atLimit t c ip (some o)
    | _, _, _ => none
  | ["admit", t, c, ip, ov] =>
    match t.toNat?, c.toNat?, ip.toNat? with
    | some t, some c, some ip =>
      if ov = "-" then some (Op.admission t c ip none) else ov.toNat?.map fun o => Op.admission t c ip (some o)
    | _, _, _ => none
  | ["track", t, c, ip] =>
    match t.toNat?, c.toNat?, ip.toNat? with
    | some t, some c, some ip => some (Op.track t c ip)
    | _, _, _ => none
  | ["untrack", t] => t.toNat?.map Op.untrack
  | ["clear"] => some Op.clear
  | ["setmax", n] => n.toNat?.map Op.setMax
  | _ => none

/-- driver state: the model plus a "dead" flag (the real process panicked). -/
def stepLine (st : SM × Bool) (line : String) : (SM × Bool) × List String :=
  let (s, dead) := st
  match words line with
  | ["new", m, p] =>
    match m.toNat?, p.toNat? with
    | some m, some p => let s' := SM.new m p; ((s', false), ["new " ++ dump s'])
    | _, _ => (st, ["bad-op"])
  | ws =>
    if dead then (st, ["dead"]) else
    match parseOp ws with
    | some op =>
      let (s', o) := step s op
      ((s', o == Out.panic), [outStr o ++ (if o == Out.panic then "" else " " ++ dump s')])
    | none => (st, ["bad-op"])

def main : IO Unit := runDriver stepLine (SM.new 0 0, false)
