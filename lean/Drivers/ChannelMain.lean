import Sozu.Common.Proto
import Sozu.Channel.Model
open Sozu Sozu.Proto Sozu.Channel

/-
Line protocol of the C11 driver (one output line per input line).

  new <buffer_size> <max_buffer_size>      -> new
  good <id> <segs>                         -> ok     (declares: this payload decodes, to message <id>)
  w <id> <segs>                            -> ok | err <kind>       (write_message; also declares the payload good)
  flush <k1,k2,..|->                       -> n <count> | err <kind>
  raw <segs>                               -> n <len>
  deliver <k>                              -> n <k'>
  readable                                 -> n <count> | err <kind>
  read                                     -> msg <id> | err <kind>
  extract                                  -> msgs <id,id,..|->
  close                                    -> ok
  bread                                    -> msg <id> | err <kind>   (read_message_blocking_timeout)
  bw <id> <segs> <k1,k2,..|->              -> ok | err <kind>         (write_message in blocking mode)
  drain <rounds>                           -> drained <id,..|-> <last error kind>
  rawgood <id> <segs>                      -> n <len>   (raw + declares segs[8..] good)

Direct Buffer run: `buf <cap>`, `bufw <segs>`, `bufop consume|shift|grow|shrink|reset|read <n>`
  -> r=<result> cap=<capacity> data=<available_data> space=<available_space> <hex of data()>

Worker-side run (chanworker): the spec is a FIFO of unanswered request ids.
  wstart <buffer> <max> <sndbuf>           -> started
  wreq <seq> <idlen>                       -> sent      (not expected to be answered when idlen + 32 > ceiling)
  wread <k>                                -> got <seq,seq,..|->    (the next k outstanding, in request order)
  wsoft <seq>                              -> sent      (SoftStop; its final answer comes after all earlier answers, then the worker exits)
  wpause <ms>                              -> paused    (the main process does nothing for a while)
  wstop                                    -> alive left=<n>

<segs> = `-` (empty) or comma-separated segments, each a hex string or
`<count>x<hexbyte>` (run of one byte).  The decode oracle (`decodes`) is the
table of payloads declared good so far: prost is a parameter of the model.
-/

def parseSeg (s : String) : Option (List Nat) :=
  match s.splitOn "x" with
  | [h] => hexToBytes h
  | [n, b] =>
    match n.toNat?, hexToBytes b with
    | some n, some [v] => some (List.replicate n v)
    | _, _ => none
  | _ => none

def parseSegs (s : String) : Option (List Nat) :=
  if s = "-" then some [] else
  (s.splitOn ",").foldl (fun acc seg =>
    match acc, parseSeg seg with
    | some a, some b => some (a ++ b)
    | _, _ => none) (some [])

def parseSched (s : String) : Option (List Nat) :=
  if s = "-" then some [] else
  (s.splitOn ",").foldr (fun x acc =>
    match x.toNat?, acc with
    | some n, some l => some (n :: l)
    | _, _ => none) (some [])

def errStr : Err → String
  | .conn => "conn"
  | .noByteToRead => "eof"
  | .noByteWritten => "nbw"
  | .tooLarge n => s!"toolarge {n}"
  | .under n => s!"under {n}"
  | .bufferFull => "full"
  | .nothingRead => "nothing"
  | .invalid => "invalid"
  | .write => "write"
  | .timeout => "timeout"

structure DState where
  sys : Sys
  table : List (Bytes × String)   -- payload ↦ message id
  wq : List Nat := []             -- worker-side spec: requests not answered yet
  wmax : Nat := 0                 -- worker-side run: the channel's ceiling
  buf : Buffer := Buffer.withCapacity 0   -- direct Buffer run
  wsoft : Bool := false           -- worker-side run: a SoftStop was sent (the worker then exits)

def DState.decodes (d : DState) (p : Bytes) : Bool := d.table.any fun e => e.1 == p

def DState.idOf (d : DState) (p : Bytes) : String :=
  match d.table.find? fun e => e.1 == p with
  | some e => e.2
  | none => "?"

def outStr (d : DState) : Out → String
  | .unit => "ok"
  | .count n => s!"n {n}"
  | .msg p => s!"msg {d.idOf p}"
  | .msgs ps => "msgs " ++ (if ps.isEmpty then "-" else ",".intercalate (ps.map d.idOf))
  | .err e => "err " ++ errStr e
  | .drained ps e =>
    "drained " ++ (if ps.isEmpty then "-" else ",".intercalate (ps.map d.idOf)) ++ " " ++ errStr e

def declare (d : DState) (id : String) (p : Bytes) : DState :=
  if d.decodes p then d else { d with table := (p, id) :: d.table }

def apply (d : DState) (op : Op) : DState × List String :=
  let (s1, o) := step d.decodes d.sys op
  let d1 := { d with sys := s1 }
  (d1, [outStr d1 o])

def applyX (d : DState) (op : XOp) : DState × List String :=
  let (s1, o) := xstep d.decodes d.sys op
  let d1 := { d with sys := s1 }
  (d1, [outStr d1 o])

/-- canonical line of the direct Buffer run: result, capacity, pending data, free tail, the data -/
def bufLine (d : DState) (r : Nat) : DState × List String :=
  (d, [s!"r={r} cap={d.buf.cap} data={d.buf.availData} space={d.buf.availSpace} {bytesToHex d.buf.data}"])

def stepLine (d : DState) (line : String) : DState × List String :=
  match words line with
  | ["new", a, b] =>
    match a.toNat?, b.toNat? with
    | some a, some b => ({ sys := Sys.new a b, table := [] }, ["new"])
    | _, _ => (d, ["bad-op"])
  | ["good", id, segs] =>
    match parseSegs segs with
    | some p => (declare d id p, ["ok"])
    | none => (d, ["bad-op"])
  | ["w", id, segs] =>
    match parseSegs segs with
    | some p => apply (declare d id p) (.write p)
    | none => (d, ["bad-op"])
  | ["flush", sched] =>
    match parseSched sched with
    | some l => apply d (.flush l)
    | none => (d, ["bad-op"])
  | ["raw", segs] =>
    match parseSegs segs with
    | some p => apply d (.raw p)
    | none => (d, ["bad-op"])
  | ["deliver", k] =>
    match k.toNat? with
    | some k => apply d (.deliver k)
    | none => (d, ["bad-op"])
  | ["wstart", b, m, _] =>
    match b.toNat?, m.toNat? with
    | some b, some m => ({ d with wq := [], wmax := Nat.max b m, wsoft := false }, ["started"])
    | _, _ => (d, ["bad-op"])
  | ["wreq", i, len] =>
    match i.toNat?, len.toNat? with
    | some i, some len =>
      -- a request whose answer (id + up to 32 bytes of framing/status/content) cannot fit
      -- the ceiling cannot be answered over this channel: the spec expects no answer to it
      if len + 32 ≤ d.wmax then ({ d with wq := (wstep d.wq (.req i)).1 }, ["sent"]) else (d, ["sent"])
    | _, _ => (d, ["bad-op"])
  | ["wread", k] =>
    match k.toNat? with
    | some k =>
      let (q, o) := wstep d.wq (.read k)
      ({ d with wq := q }, ["got " ++ (if o.isEmpty then "-" else ",".intercalate (o.map toString))])
    | none => (d, ["bad-op"])
  | ["wsoft", i] =>
    -- SoftStop with no session open: answered (finally) after everything asked before it
    match i.toNat? with
    | some i => ({ d with wq := (wstep d.wq (.req i)).1, wsoft := true }, ["sent"])
    | none => (d, ["bad-op"])
  | ["wpause", _] => (d, ["paused"])
  | ["wstop"] => (d, [(if d.wsoft then "stopped left=" else "alive left=") ++ toString d.wq.length])
  | ["buf", c] =>
    match c.toNat? with
    | some c => bufLine { d with buf := Buffer.withCapacity c } 0
    | none => (d, ["bad-op"])
  | ["bufw", segs] =>
    match parseSegs segs with
    | some p => let (b, n) := bstep d.buf (.write p); bufLine { d with buf := b } n
    | none => (d, ["bad-op"])
  | ["bufop", op, n] =>
    match n.toNat? with
    | some n =>
      let bop : Option BOp := match op with
        | "consume" => some (.consume n)
        | "shift" => some .shift
        | "grow" => some (.grow n)
        | "shrink" => some (.shrink n)
        | "reset" => some .reset
        | "read" => some (.read n)
        | _ => none
      match bop with
      | some bop => let (b, r) := bstep d.buf bop; bufLine { d with buf := b } r
      | none => (d, ["bad-op"])
    | none => (d, ["bad-op"])
  | ["bread"] => applyX d .bread
  | ["bw", id, segs, sched] =>
    match parseSegs segs, parseSched sched with
    | some p, some l => applyX (declare d id p) (.bwrite p l)
    | _, _ => (d, ["bad-op"])
  | ["readable"] => apply d .readable
  | ["read"] => apply d .read
  | ["extract"] => apply d .extract
  | ["close"] => apply d .close
  | ["drain", k] =>
    match k.toNat? with
    | some k => apply d (.drain k)
    | none => (d, ["bad-op"])
  | ["rawgood", id, segs] =>
    match parseSegs segs with
    | some f => apply (declare d id (f.drop delim)) (.raw f)
    | none => (d, ["bad-op"])
  | _ => (d, ["bad-op"])

def main : IO Unit := runDriver stepLine { sys := Sys.new 0 0, table := [] }
