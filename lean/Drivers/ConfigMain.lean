import Sozu.Common.Proto
import Sozu.Config.Model
open Sozu Sozu.Proto Sozu.Config

/-
Line protocol of the Config area (one output line per input line):
(every declaration line ends with one word x=… carrying the non-structural
 options the harness renders into the TOML file; the model ignores it)
  new buffer=N activate=0|1 metrics_off=0|1 x=…                 -> new
  listener PROTO ADDR h2=0|1 cert=NAME|- ep=0|1 pa=0|1 x=…       -> ok
  cluster ID http|tcp hc=ok|bad x=…                              -> ok
  front CLUSTER ADDR KEY cert=NAME|- x=…                         -> ok
  backend CLUSTER ADDR ID|- x=…                                  -> ok
  hash-order-dependent x=   (the same route is declared in two clusters: which one wins depends on
                             the HashMap iteration order; dispatch/redispatch answer `unmodelled`)  -> ok
  expect accept|reject x=why:…  (oracle marker of the harness)      -> ok
  violation KIND x=…  (a constraint violation outside the structural model was rendered)  -> ok
  load        -> ok http=[..] https=[..] tcp=[..] udp=[..] | err KIND | unmodelled (after `violation`)
  msgs        -> n=N ids=unique|dup@I :: canonical message list   | none
  dispatch    -> rejected=[..] L=[..] C=[..] F=[..] T=[..] B=[..] K=[..]  | none
  redispatch  -> same=0|1 rejected=[..]                           | none
Canonical message list: cluster blocks sorted by cluster id, default listeners
sorted by address within their protocol (hash-map iteration order is not
observable); see `canon`.
-/

structure DS where
  names : Array String := #[""]          -- interned strings; 0 = none
  decl : Decl := {}
  violation : Bool := false
  hashDependent : Bool := false
  cfg : Option Cfg := none
  st : Option St := none

def DS.intern (d : DS) (s : String) : DS × Nat :=
  match d.names.findIdx? (· == s) with
  | some i => (d, i)
  | none => ({ d with names := d.names.push s }, d.names.size)

def DS.name (d : DS) (i : Nat) : String := d.names[i]?.getD "?"

def protoStr : Proto → String
  | .http => "http" | .https => "https" | .tcp => "tcp" | .udp => "udp"

def parseProto : String → Option Proto
  | "http" => some .http | "https" => some .https | "tcp" => some .tcp | "udp" => some .udp
  | _ => none

def kv (key w : String) : Option String :=
  if w.startsWith (key ++ "=") then some ((w.drop (key.length + 1)).toString) else none

def bit (key w : String) : Option Bool :=
  match kv key w with
  | some "1" => some true
  | some "0" => some false
  | _ => none

def sortStr (l : List String) : List String := l.mergeSort (fun a b => decide (a ≤ b))

def showMsg (d : DS) : Msg → String
  | .addListener p a => s!"AL:{protoStr p}:{d.name a}"
  | .addCluster c _ => s!"AC:{d.name c}"
  | .addCert a k => s!"CERT:{d.name a}:{d.name k}"
  | .addFront h c key => (if h then "HSF:" else "HF:") ++ s!"{d.name c}:{d.name key}"
  | .addTcpFront u c key => (if u then "UF:" else "TF:") ++ s!"{d.name c}:{d.name key}"
  | .addBackend c (.explicit i) a => s!"AB:{d.name c}:{d.name i}:{d.name a}"
  | .addBackend c (.dflt k i a') a => s!"AB:{d.name c}:{d.name k}-{i}-{d.name a'}:{d.name a}"
  | .activate p a => s!"ACT:{protoStr p}:{d.name a}"
  | .metricsOff => "MOFF"

/-- segment kind of a message for canonicalisation -/
def segKind : Msg → Nat
  | .addListener .. => 0
  | .activate .. => 2
  | .metricsOff => 3
  | _ => 1

def msgProto : Msg → Option Proto
  | .addListener p _ => some p
  | .activate p _ => some p
  | _ => none

def msgAddr : Msg → Nat
  | .addListener _ a => a
  | .activate _ a => a
  | _ => 0

/-- split a list into maximal runs with equal `f` -/
def runsBy {α β : Type} [BEq β] (f : α → β) : List α → List (List α)
  | [] => []
  | x :: xs =>
    match runsBy f xs with
    | (y :: ys) :: rest => if f x == f y then (x :: y :: ys) :: rest else [x] :: (y :: ys) :: rest
    | other => [x] :: other

def protoNat : Option Proto → Nat
  | some .http => 1 | some .https => 2 | some .tcp => 3 | some .udp => 4 | none => 0

/-- within a run of listener (or activate) messages of one protocol: explicit
    ones in order, then the default ones sorted by address string -/
def canonRun (d : DS) (explicit : List (Proto × Nat)) (run : List Msg) : List String :=
  let isExp (m : Msg) := match msgProto m with
    | some p => explicit.any fun e => e.1 == p && e.2 == msgAddr m
    | none => true
  (run.filter isExp).map (showMsg d) ++ sortStr ((run.filter (fun m => !isExp m)).map (showMsg d))

/-- cluster blocks: from an `addCluster` up to the next one -/
def blocks : List Msg → List (List Msg)
  | [] => []
  | m :: ms =>
    match blocks ms with
    | b :: rest =>
      match b with
      | (.addCluster _ _) :: _ => [m] :: b :: rest
      | _ => (m :: b) :: rest
    | [] => [[m]]

def blockKey (d : DS) : List Msg → String
  | (.addCluster c _) :: _ => d.name c
  | _ => ""

def canon (d : DS) (explicit : List (Proto × Nat)) (ms : List Msg) : List String :=
  (runsBy segKind ms).flatMap fun seg =>
    match seg with
    | [] => []
    | m :: _ =>
      if segKind m == 0 || segKind m == 2 then
        (runsBy (fun x => protoNat (msgProto x)) seg).flatMap (canonRun d explicit)
      else if segKind m == 1 then
        let bs := blocks seg
        let sorted := bs.mergeSort (fun a b => decide (blockKey d a ≤ blockKey d b))
        sorted.flatMap fun b => b.map (showMsg d)
      else seg.map (showMsg d)

def idsSummary (l : List Nat) : String :=
  let rec go : List Nat → List Nat → Nat → String
    | [], _, _ => "unique"
    | x :: xs, seen, i => if seen.contains x then s!"dup@{i}" else go xs (x :: seen) (i + 1)
  go l [] 0

def bracket (l : List String) : String := "[" ++ ",".intercalate l ++ "]"

def showListeners (d : DS) (explicit : List (Proto × Nat)) (ls : List Listener) : String :=
  let isExp (l : Listener) := explicit.any fun e => e.1 == l.proto && e.2 == l.addr
  bracket ((ls.filter isExp).map (fun l => d.name l.addr) ++
    sortStr ((ls.filter (fun l => !isExp l)).map fun l => d.name l.addr))

def showState (d : DS) (s : St) : String :=
  let L := sortStr (s.listeners.map fun l => s!"{protoStr l.1}:{d.name l.2.1}:{boolStr l.2.2}")
  let C := sortStr (s.clusters.map d.name)
  let F := sortStr (s.fronts.map fun f => (if f.1 then "hs:" else "h:") ++ s!"{d.name f.2.1}:{d.name f.2.2}")
  let T := sortStr (s.tfronts.map fun f => (if f.1 then "u:" else "t:") ++ s!"{d.name f.2.1}:{d.name f.2.2}")
  let B := sortStr (s.backends.map fun b =>
    match b.2.1 with
    | .explicit i => s!"{d.name b.1}:{d.name i}:{d.name b.2.2}"
    | .dflt k i a => s!"{d.name b.1}:{d.name k}-{i}-{d.name a}:{d.name b.2.2}")
  let K := sortStr (s.certs.map fun c => s!"{d.name c.1}:{d.name c.2}")
  s!"L={bracket L} C={bracket C} F={bracket F} T={bracket T} B={bracket B} K={bracket K}"

def errStr : LoadErr → String
  | .addressInUse => "address-in-use"
  | .publicAddrExpectProxy => "public-address-expect-proxy"
  | .wrongFrontendProtocol => "wrong-frontend-protocol"
  | .proxyProtocolMix => "proxy-protocol-mix"
  | .bufferTooSmallForH2 => "buffer-too-small-for-h2"
  | .invalidHealthCheck => "invalid-health-check"

def explicitOf (d : DS) : List (Proto × Nat) := d.decl.listeners.map fun l => (l.proto, l.addr)

/-- clusters in canonical (id string) order: the hash order is a parameter -/
def sortedDecl (d : DS) : Decl :=
  { d.decl with clusters := d.decl.clusters.mergeSort (fun a b => decide (d.name a.id ≤ d.name b.id)) }

def updCluster (d : DS) (cid : Nat) (f : Cluster → Cluster) : Option DS :=
  if d.decl.clusters.any (·.id == cid) then
    some { d with decl := { d.decl with clusters := d.decl.clusters.map fun k => if k.id == cid then f k else k } }
  else none

def stepLine (d : DS) (line : String) : DS × List String :=
  match words line with
  | ["new", b, a, m, _x] =>
    match (kv "buffer" b).bind String.toNat?, bit "activate" a, bit "metrics_off" m with
    | some b, some a, some m =>
      ({ decl := { bufferSize := b, activate := a, metricsOff := m } }, ["new"])
    | _, _, _ => (d, ["bad-op"])
  | ["listener", p, addr, h2, cert, ep, pa, _x] =>
    match parseProto p, bit "h2" h2, kv "cert" cert, bit "ep" ep, bit "pa" pa with
    | some p, some h2, some cert, some ep, some pa =>
      let (d, a) := d.intern addr
      let (d, c) := if cert == "-" then (d, 0) else d.intern cert
      let l : Listener := { proto := p, addr := a, h2 := h2, cert := c, expectProxy := ep, publicAddr := pa }
      ({ d with decl := { d.decl with listeners := d.decl.listeners ++ [l] } }, ["ok"])
    | _, _, _, _, _ => (d, ["bad-op"])
  | ["cluster", id, kind, hc, _x] =>
    if (kind != "http" && kind != "tcp") || (hc != "hc=ok" && hc != "hc=bad") then (d, ["bad-op"]) else
    let (d, c) := d.intern id
    if d.decl.clusters.any (·.id == c) then (d, ["bad-op"]) else
    ({ d with decl := { d.decl with clusters := d.decl.clusters ++ [{ id := c, tcp := kind == "tcp", fronts := [], backends := [], hcBad := hc == "hc=bad" }] } }, ["ok"])
  | ["front", cl, addr, key, cert, _x] =>
    match kv "cert" cert with
    | some cert =>
      let (d, c) := d.intern cl
      let (d, a) := d.intern addr
      let (d, k) := d.intern key
      let (d, ce) := if cert == "-" then (d, 0) else d.intern cert
      match updCluster d c (fun k' => { k' with fronts := k'.fronts ++ [{ addr := a, key := k, cert := ce }] }) with
      | some d' => (d', ["ok"])
      | none => (d, ["bad-op"])
    | none => (d, ["bad-op"])
  | ["backend", cl, addr, id, _x] =>
    let (d, c) := d.intern cl
    let (d, a) := d.intern addr
    let (d, i) := if id == "-" then (d, 0) else d.intern id
    match updCluster d c (fun k' => { k' with backends := k'.backends ++ [{ addr := a, id := i }] }) with
    | some d' => (d', ["ok"])
    | none => (d, ["bad-op"])
  | ["violation", _, _x] => ({ d with violation := true }, ["ok"])
  | ["expect", _, _x] => (d, ["ok"])
  | ["hash-order-dependent", _x] => ({ d with hashDependent := true }, ["ok"])
  | ["load"] =>
    if d.violation then ({ d with cfg := none, st := none }, ["unmodelled"]) else
    match build (sortedDecl d) with
    | .error e => ({ d with cfg := none, st := none }, ["err " ++ errStr e])
    | .ok c =>
      let ex := explicitOf d
      ({ d with cfg := some c, st := none },
        [s!"ok http={showListeners d ex c.http} https={showListeners d ex c.https} tcp={showListeners d ex c.tcp} udp={showListeners d ex c.udp}"])
  | ["msgs"] =>
    if d.violation then (d, ["unmodelled"]) else
    match d.cfg with
    | none => (d, ["none"])
    | some c =>
      let ms := messages c
      (d, [s!"n={ms.length} ids={idsSummary (ms.map (·.1))} :: " ++ " ".intercalate (canon d (explicitOf d) (ms.map (·.2)))])
  | ["dispatch"] =>
    if d.violation || d.hashDependent then (d, ["unmodelled"]) else
    match d.cfg with
    | none => (d, ["none"])
    | some c =>
      let ms := contents c
      let s := runMsgs {} ms
      let rej := sortStr ((rejected {} ms).map (showMsg d))
      ({ d with st := some s }, [s!"rejected={bracket rej} {showState d s}"])
  | ["redispatch"] =>
    if d.violation || d.hashDependent then (d, ["unmodelled"]) else
    match d.cfg, d.st with
    | some c, some s =>
      let ms := contents c
      let s' := runMsgs s ms
      let rej := sortStr ((rejected s ms).map (showMsg d))
      ({ d with st := some s' }, [s!"same={boolStr (showState d s == showState d s')} rejected={bracket rej}"])
    | _, _ => (d, ["none"])
  | _ => (d, ["bad-op"])

def main : IO Unit := runDriver stepLine {}
