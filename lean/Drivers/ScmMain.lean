import Sozu.Common.Proto
import Sozu.Scm.Model
open Sozu Sozu.Proto Sozu.Scm

/-
Line protocol of the Scm area (one output line per input line):
  new                                     -> new
  send http=L tls=L tcp=L udp=L           -> ok bytes=N fds=K | err send | unmodelled
        L = "-" or comma-separated addr@id (addr = SocketAddr::to_string, id = socket label)
  sendraw http=A tls=A tcp=A udp=A fds=I   -> like send, manifest and descriptors chosen independently
        A = "-" or comma-separated address texts (texts starting with "bad" do not parse), I = "-" or ids
  recv                                    -> ok http=L tls=L tcp=L udp=L | err receive|decode|count|addr | unmodelled
  drain                                   -> drained bytes=N fds=K
  ss-new BASE SLAB                        -> ss shutting=- slab=.. acks=[..] exited=0
  ss-stop ID | ss-tick CLOSED | ss-connect -> none|ack ID|accepted|refused + state
  handover …                              -> ok   (scenario line of the hand-over harness)
  ho-new INFLIGHT IDLE | ho-stop ID | ho-finish K | ho-connect
                                          -> the soft-stop model replayed on an observed trace:
                                             none|ack ID|accepted|refused exited=0|1
-/

def strBytes (s : String) : List Nat := s.toUTF8.toList.map UInt8.toNat
def bytesStr (b : List Nat) : String := String.ofList (b.map Char.ofNat)

def parseEntry (w : String) : Option (Addr × Fd) :=
  match w.splitOn "@" with
  | [a, i] => if a = "" then none else i.toNat?.map fun n => (strBytes a, n)
  | _ => none

def parseList (w : String) : Option (List (Addr × Fd)) :=
  if w = "-" then some [] else (w.splitOn ",").mapM parseEntry

def parseField (name w : String) : Option (List (Addr × Fd)) :=
  match w.splitOn "=" with
  | [n, l] => if n = name then parseList l else none
  | _ => none

def showList (l : List (Addr × Fd)) : String :=
  if l.isEmpty then "-" else ",".intercalate (l.map fun p => s!"{bytesStr p.1}@{p.2}")

def showListeners (l : Listeners) : String :=
  s!"http={showList l.http} tls={showList l.tls} tcp={showList l.tcp} udp={showList l.udp}"

def showOut : Out → String
  | .sent b f => s!"ok bytes={b} fds={f}"
  | .sendErr => "err send"
  | .recvOk l => "ok " ++ showListeners l
  | .recvErr .receive => "err receive"
  | .recvErr .decode => "err decode"
  | .recvErr .count => "err count"
  | .recvErr .addr => "err addr"
  | .drained b f => s!"drained bytes={b} fds={f}"
  | .unmodelled => "unmodelled"

def showSS (w : SoftStop.W) : String :=
  let sh := match w.shutting with | none => "-" | some i => toString i
  let acks := ",".intercalate (w.acks.map toString)
  s!"shutting={sh} slab={w.slab} acks=[{acks}] exited={boolStr w.exited}"

def showSSOut : SoftStop.Out → String
  | .none => "none"
  | .ack i => s!"ack {i}"
  | .accepted => "accepted"
  | .refused => "refused"

structure St where
  sock : Sock := {}
  ss : SoftStop.W := { base := 0, slab := 0 }
  hoIdle : Nat := 0

/-- `SocketAddr::from_str`: the harness only sends `SocketAddr::to_string` outputs, or,
    in raw messages, strings starting with "bad" that no socket address parser accepts -/
def parseOkAll : Addr → Bool := fun a => !(a.take 3 == [98, 97, 100])

def parseAddrList (name w : String) : Option (List Addr) :=
  match w.splitOn "=" with
  | [n, l] => if n != name then none else if l == "-" then some [] else some ((l.splitOn ",").map strBytes)
  | _ => none

def parseFds (w : String) : Option (List Nat) :=
  match w.splitOn "=" with
  | ["fds", l] => if l == "-" then some [] else (l.splitOn ",").mapM String.toNat?
  | _ => none

def stepLine (st : St) (line : String) : St × List String :=
  match words line with
  | ["new"] => ({ st with sock := {} }, ["new"])
  | ["send", h, t, c, u] =>
    match parseField "http" h, parseField "tls" t, parseField "tcp" c, parseField "udp" u with
    | some h, some t, some c, some u =>
      let (s', o) := step parseOkAll st.sock (.send { http := h, tls := t, tcp := c, udp := u })
      ({ st with sock := s' }, [showOut o])
    | _, _, _, _ => (st, ["bad-op"])
  | ["sendraw", h, t, c, u, f] =>
    match parseAddrList "http" h, parseAddrList "tls" t, parseAddrList "tcp" c, parseAddrList "udp" u, parseFds f with
    | some h, some t, some c, some u, some f =>
      let (s', o) := step parseOkAll st.sock (.sendRaw { http := h, tls := t, tcp := c, udp := u } f)
      ({ st with sock := s' }, [showOut o])
    | _, _, _, _, _ => (st, ["bad-op"])
  | ["recv"] =>
    let (s', o) := step parseOkAll st.sock .recv
    ({ st with sock := s' }, [showOut o])
  | ["drain"] =>
    let (s', o) := step parseOkAll st.sock .drain
    ({ st with sock := s' }, [showOut o])
  | ["ss-new", b, n] =>
    match b.toNat?, n.toNat? with
    | some b, some n =>
      let w : SoftStop.W := { base := b, slab := n, sessions := n - b }
      ({ st with ss := w }, ["ss " ++ showSS w])
    | _, _ => (st, ["bad-op"])
  | ["ss-stop", i] =>
    match i.toNat? with
    | some i =>
      let (w, o) := SoftStop.step st.ss (.softStop i)
      ({ st with ss := w }, [showSSOut o ++ " " ++ showSS w])
    | none => (st, ["bad-op"])
  | ["ss-tick", k] =>
    match k.toNat? with
    | some k =>
      let (w, o) := SoftStop.step st.ss (.tick k)
      ({ st with ss := w }, [showSSOut o ++ " " ++ showSS w])
    | none => (st, ["bad-op"])
  -- hand-over / soft-stop traces observed on a real worker (harness/src/bin/handover.rs)
  | "handover" :: _ => (st, ["ok"])
  | ["ho-new", inflight, idle, lis] =>
    match inflight.toNat?, idle.toNat?, lis.toNat? with
    | some n, some k, some l =>
      let w : SoftStop.W := { base := l, slab := l + n + k, sessions := n + k, listeners := l }
      ({ st with ss := w, hoIdle := k }, [s!"ho inflight={n} idle={k}"])
    | _, _, _ => (st, ["bad-op"])
  | ["ho-deactivate"] =>
    let (w, o) := SoftStop.step st.ss .deactivateListener
    ({ st with ss := w }, [showSSOut o ++ s!" exited={boolStr w.exited}"])
  | ["ho-new", inflight, idle] =>
    -- sessions with a request in flight + sessions that report shutting_down() at once
    match inflight.toNat?, idle.toNat? with
    | some n, some k =>
      let w : SoftStop.W := { base := 0, slab := n + k, sessions := n + k }
      ({ st with ss := w, hoIdle := k }, [s!"ho inflight={n} idle={k}"])
    | _, _ => (st, ["bad-op"])
  | ["ho-stop", i] =>
    -- SoftStop read, then the first tick closes the idle sessions
    match i.toNat? with
    | some i =>
      let (w1, _) := SoftStop.step st.ss (.softStop i)
      let (w2, o) := SoftStop.step w1 (.tick st.hoIdle)
      ({ st with ss := w2 }, [showSSOut o ++ s!" exited={boolStr w2.exited}"])
    | none => (st, ["bad-op"])
  | ["ho-finish", k] =>
    match k.toNat? with
    | some k =>
      let (w, o) := SoftStop.step st.ss (.tick k)
      ({ st with ss := w }, [showSSOut o ++ s!" exited={boolStr w.exited}"])
    | none => (st, ["bad-op"])
  | ["ho-return"] =>
    let (w, o) := SoftStop.step st.ss .returnListeners
    ({ st with ss := w }, [showSSOut o ++ s!" exited={boolStr w.exited}"])
  | ["ho-connect"] =>
    let (w, o) := SoftStop.step st.ss .connect
    ({ st with ss := w }, [showSSOut o ++ s!" exited={boolStr w.exited}"])
  | ["ss-connect"] =>
    let (w, o) := SoftStop.step st.ss .connect
    ({ st with ss := w }, [showSSOut o ++ " " ++ showSS w])
  | _ => (st, ["bad-op"])

def main : IO Unit := runDriver stepLine {}
