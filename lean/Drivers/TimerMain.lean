import Sozu.Common.Proto
import Sozu.Timer.Model
open Sozu Sozu.Proto Sozu.Timer

def ntStr : Option Nat → String
  | none => "max"
  | some n => toString n

def tail (t : T) : String := s!" | tick={t.tick} nt={ntStr (nextTick t)}"

def outStr : Out → String
  | .handle k tick => s!"tok={k} tick={tick}"
  | .state none => "none"
  | .state (some s) => s!"some {s}"
  | .noHandle => "none"

def parseOp (ws : List String) : Option Op :=
  match ws with
  | ["set", ms, st] => match ms.toNat?, st.toNat? with
    | some a, some b => some (.set a b) | _, _ => none
  | ["cancel", k, tick] => match k.toNat?, tick.toNat? with
    | some a, some b => some (.cancel a b) | _, _ => none
  | ["reset", k, tick, ms] => match k.toNat?, tick.toNat?, ms.toNat? with
    | some a, some b, some c => some (.reset a b c) | _, _, _ => none
  | ["poll", target] => target.toNat?.map .poll
  | ["pollms", ms] => ms.toNat?.map .pollMs
  | _ => none

def stepLine (st : Option T) (line : String) : Option T × List String :=
  match words line with
  | ["new", tickMs, slots] =>
    match tickMs.toNat?, slots.toNat? with
    | some a, some b =>
      if a = 0 then (st, ["bad-op"]) else
      let t := T.new a b
      (some t, [s!"new slots={t.slots}" ++ tail t])
    | _, _ => (st, ["bad-op"])
  | ws =>
    match st, parseOp ws with
    | some t, some op => let (t', o) := step t op; (some t', [outStr o ++ tail t'])
    | _, _ => (st, ["bad-op"])

def main : IO Unit := runDriver stepLine none
