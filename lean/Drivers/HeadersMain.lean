import Sozu.Common.Proto
import Sozu.Headers.Model
import Sozu.Headers.Editor
import Sozu.Headers.Strict
import Sozu.Headers.Hsts
import Sozu.Headers.Reconcile
open Sozu Sozu.Proto Sozu.Headers

/-! Line protocol of the Headers area (C03 / C13). One line in, one line out.
Byte strings are lowercase hex (`-` = empty); lists are `,`-separated (`_` =
empty list); a header is `hexname:hexvalue`; the `Block::Cookies` marker in a
field list is `C`; an absent optional string is `~`. -/

def hx (b : Bytes) : String := bytesToHex b

def parseList {α : Type} (f : String → Option α) (w : String) : Option (List α) :=
  if w = "_" then some [] else (w.splitOn ",").mapM f

def parsePair (s : String) : Option (Bytes × Bytes) :=
  match s.splitOn ":" with
  | [a, b] => do let x ← hexToBytes a; let y ← hexToBytes b; pure (x, y)
  | _ => none

def parseField (s : String) : Option Field :=
  if s = "C" then some .cookies else (parsePair s).map fun p => .hdr p.1 p.2

def parseOptBytes (s : String) : Option (Option Bytes) :=
  if s = "~" then some none else (hexToBytes s).map some

def parseBool (s : String) : Option Bool :=
  if s = "1" then some true else if s = "0" then some false else none

def showPairs (l : List (Bytes × Bytes)) : String :=
  if l.isEmpty then "_" else ",".intercalate (l.map fun p => hx p.1 ++ ":" ++ hx p.2)

def showFields (l : List Field) : String :=
  if l.isEmpty then "_" else ",".intercalate (l.map fun
    | .hdr k v => hx k ++ ":" ++ hx v
    | .cookies => "C")

/-- `closing,proto,pubip,pubv6,pubport,peerip|~,peerv6,peerport,sticky,sozuid,reqid,elide,send,stickySession|~,stickyFound|~` -/
def parseCtx (w : String) : Option Ctx :=
  match w.splitOn "," with
  | [cl, pr, pip, pv6, pport, peip, pev6, peport, st, sid, rid, el, se, ss, sf] => do
    let closing ← parseBool cl
    let proto ← hexToBytes pr
    let pubip ← hexToBytes pip
    let pubv6 ← parseBool pv6
    let pubport ← hexToBytes pport
    let peerIp ← parseOptBytes peip
    let peerV6 ← parseBool pev6
    let peerPort ← hexToBytes peport
    let sticky ← hexToBytes st
    let sozuId ← hexToBytes sid
    let reqId ← hexToBytes rid
    let elide ← parseBool el
    let send ← parseBool se
    let stickySession ← parseOptBytes ss
    let stickyFound ← parseOptBytes sf
    pure { closing, proto, publicAddr := { ip := pubip, isV6 := pubv6, port := pubport },
           peer := peerIp.map fun ip => { ip, isV6 := peerV6, port := peerPort },
           stickyName := sticky, sozuIdHeader := sozuId, requestId := reqId,
           elideXRealIp := elide, sendXRealIp := send, stickySession, stickyFound }
  | _ => none

def clsStr : RejectClass → String
  | .protocol => "protocol"
  | .calm => "calm"

def bodyStr : BodySize → String
  | .empty => "e"
  | .length n => s!"l{n}"
  | .chunked => "c"

def showReq (scheme : Bytes) (r : Req) : String :=
  s!"ok h1={hx (serializeH1 r)} h2={showPairs (toH2 scheme r)} body={bodyStr r.body}"

def showParsed (p : Parsed) : String :=
  s!"[{hx p.method} {hx p.target} 1.{p.minor} {showPairs p.headers} {boolStr p.chunked} {hx p.body} {showPairs p.trailers}]"

def parseEdit (s : String) : Option HeaderEdit :=
  match s.splitOn ":" with
  | [k, v, m] => do
    let key ← hexToBytes k
    let val ← hexToBytes v
    let mode ← if m = "a" then some EditMode.append else if m = "i" then some .setIfAbsent else if m = "s" then some .set else none
    pure { key, val, mode }
  | _ => none

/-- `e,m,s,p,f`: enabled t/f/n, max_age number or n, includeSubDomains, preload, force_replace_backend -/
def parseCfg (w : String) : Option (Option HstsCfg) :=
  if w = "~" then some none else
  match w.splitOn "," with
  | [e, m, s, p, f] => do
    let enabled ← if e = "t" then some (some true) else if e = "f" then some (some false) else if e = "n" then some none else none
    let maxAge ← if m = "n" then some none else m.toNat?.map some
    let s ← parseBool s
    let p ← parseBool p
    let f ← parseBool f
    pure (some { enabled, maxAge, includeSub := s, preload := p, forceReplace := f })
  | _ => none

def modeStr : EditMode → String
  | .append => "a"
  | .setIfAbsent => "i"
  | .set => "s"

def showEdits (l : List HeaderEdit) : String :=
  if l.isEmpty then "_" else ",".intercalate (l.map fun e => hx e.key ++ ":" ++ hx e.val ++ ":" ++ modeStr e.mode)

/-- driver state: the last accepted request and its limits (for the `body` op), and the HSTS route state -/
structure St where
  req : Option (Req × Limits) := none
  /-- bytes of the stream buffer taken by the accepted header block, and its capacity -/
  used : Nat := 0
  cap : Nat := 0
  hsts : HState := {}

/-- a stream event of the `recon` verb: `d<len>:<endStream 0|1>` or `t` (trailer HEADERS) -/
def parseStreamEv (s : String) : Option StreamEv :=
  if s = "t" then some .trailers
  else if s.startsWith "d" then
    match (String.ofList (s.toList.drop 1)).splitOn ":" with
    | [n, e] => do let n ← n.toNat?; let e ← parseBool e; pure (.data n e)
    | _ => none
  else none

def stepLine (st : St) (line : String) : St × List String :=
  match words line with
  | ["new"] => ({}, ["new"])
  -- h2 <maxList> <maxFields> <endStream> <scheme> <ctx|-> <headers> [<buffer size>]
  | "h2" :: ml :: mf :: es :: sch :: cx :: hs :: bufw =>
    match ml.toNat?, mf.toNat?, parseBool es, hexToBytes sch, parseList parsePair hs,
          (match bufw with | [] => some 131072 | [b] => b.toNat? | _ => none) with
    | some ml, some mf, some es, some sch, some hl, some cap =>
      let lim : Limits := { maxListSize := ml, maxFields := mf }
      let full := storageScan lim cap hl {} 0
      let res :=
        if full then some (.error Reason.storageFull)
        else if cx = "-" then some (validateRequest lim es hl)
        else (parseCtx cx).map fun c => handleRequest lim c es hl
      match res with
      | none => (st, ["bad-op"])
      | some (.error r) => ({ st with req := none }, [s!"reject {clsStr r.cls} {repr r}"])
      | some (.ok r) => ({ st with req := some (r, lim), used := storageUsed lim hl {} 0, cap := cap }, [showReq sch r])
    | _, _, _, _, _, _ => (st, ["bad-op"])
  -- recon <declared length|~> <exempt> <events>: Content-Length vs DATA reconciliation of one request stream
  | ["recon", d, ex, evs] =>
    match (if d = "~" then some none else d.toNat?.map some), parseBool ex, parseList parseStreamEv evs with
    | some declared, some ex, some evs =>
      let r := rrun declared ex evs
      (st, [s!"forwarded={r.forwarded} received={r.received} done={if r.done then 1 else 0} reset={if r.reset then 1 else 0}"])
    | _, _, _ => (st, ["bad-op"])
  -- trailer <maxList> <maxFields> <endStream> <headers>
  | ["trailer", ml, mf, es, hs] =>
    match ml.toNat?, mf.toNat?, parseBool es, parseList parsePair hs with
    | some ml, some mf, some es, some hl =>
      match handleTrailer { maxListSize := ml, maxFields := mf } es hl with
      | .error r => (st, [s!"reject {clsStr r.cls} {repr r}"])
      | .ok t => (st, [s!"ok {showPairs t}"])
    | _, _, _, _ => (st, ["bad-op"])
  -- body <chunks> <raw trailer list|~>: wire bytes after the header section of the last accepted request
  | ["body", cs, tr] =>
    match st.req, parseList hexToBytes cs with
    | some (r, lim), some chunks =>
      if tr = "~" then (st, [s!"ok {hx (wireBody r chunks none)}"])
      else match parseList parsePair tr with
        | some raw =>
          match handleTrailerS lim st.cap st.used true raw with
          | .error e => (st, [s!"reject {clsStr e.cls} {repr e}"])
          | .ok t => (st, [s!"ok {hx (wireBody r chunks (some t))}"])
        | none => (st, ["bad-op"])
    | _, _ => (st, ["bad-op"])
  -- h1 <hex> <cuts>: the strict reader on the client's bytes (the segmentation only concerns the real parser)
  | ["h1", h, _] =>
    match hexToBytes h with
    | some b =>
      let r := parseAll b
      (st, [s!"n={r.1.length} rest={r.2.length} {" ".intercalate (r.1.map showParsed)}".trimAscii.toString])
    | none => (st, ["bad-op"])
  -- strict <hex>: the strict reader on a byte string
  | ["strict", h] =>
    match hexToBytes h with
    | some b =>
      let r := parseAll b
      (st, [s!"n={r.1.length} rest={r.2.length} {" ".intercalate (r.1.map showParsed)}".trimAscii.toString])
    | none => (st, ["bad-op"])
  -- edit <scheme> <ctx> <method> <target> <host> <fields> <jar>: the editor on a parsed (H1) request
  | ["edit", sch, cx, m, t, h, fs, jar] =>
    match hexToBytes sch, parseCtx cx, hexToBytes m, hexToBytes t, hexToBytes h, parseList parseField fs, parseList parsePair jar with
    | some sch, some c, some m, some t, some h, some fs, some jar =>
      let r : Req := { method := m, target := t, host := h, fields := fs,
                       jar := jar.map (fun p => { key := p.1, val := p.2 }), body := .empty }
      let r' := editReq c r
      (st, [s!"ok h1={showPairs (emitted r')} h2={showPairs (toH2 sch r')} sticky={match stickyFoundIn c r.jar with | some v => hx v | none => "~"}"])
    | _, _, _, _, _, _, _ => (st, ["bad-op"])
  -- redit <ctx> <rwhost|~> <orig|~> <rwpath|~> <reqedits> <respedits> <method> <target> <host> <fields> <jar> <resp>:
  -- an HTTP/1.1 exchange through the editor and the router's rewrite / header-edit passes
  | ["redit", cx, rh, og, rp, es, res, m, t, h, fs, jar, rs] =>
    match parseCtx cx, parseOptBytes rh, parseOptBytes og, parseOptBytes rp, parseList parsePair es, parseList parsePair res,
          hexToBytes m, hexToBytes t, hexToBytes h, parseList parseField fs, parseList parsePair jar, parseList parsePair rs with
    | some c, some rh, some og, some rp, some es, some res, some m, some t, some h, some fs, some jar, some rs =>
      let r : Req := { method := m, target := t, host := h, fields := fs,
                       jar := jar.map (fun p => { key := p.1, val := p.2 }), body := .empty }
      let r' := routeReq rh og rp (es.map fun p => { key := p.1, val := p.2 }) (editReq c r)
      let respFields : List Field := (rs ++ [(cContentLength, [48]), (cConnection, sClose)]).map fun p => Field.hdr p.1 p.2
      let resp := applyEdits (res.map fun p => { key := p.1, val := p.2, mode := .append }) (editResponse c respFields)
      (st, [s!"ok {hx r'.target} {showPairs (emitted r')} | {showFields resp}"])
    | _, _, _, _, _, _, _, _, _, _, _, _ => (st, ["bad-op"])
  -- HSTS route state: hdef <cfg|~> / hadd <id> <deny> <policy> <other edits> <block cfg|~> / hpatch <cfg> / hunset / hdel <id> / hlook <id> <resp fields>
  | ["hdef", c] =>
    match parseCfg c with
    | some d => ({ st with hsts := { default := d, routes := [] } }, ["ok"])
    | none => (st, ["bad-op"])
  | ["hadd", id, dn, pol, oth, c] =>
    match id.toNat?, parseBool dn, parseBool pol, parseList parseEdit oth, parseCfg c with
    | some id, some dn, some pol, some oth, some b =>
      match hAdd st.hsts id b pol oth dn with
      | some h => ({ st with hsts := h }, ["ok"])
      | none => (st, ["err"])
    | _, _, _, _, _ => (st, ["bad-op"])
  | ["hpatch", c] =>
    match parseCfg c with
    | some (some cfg) => let r := hPatch st.hsts cfg; ({ st with hsts := r.1 }, [s!"ok {r.2}"])
    | _ => (st, ["bad-op"])
  | ["hunset"] =>
    let r := hRefresh { st.hsts with default := none } none
    ({ st with hsts := r.1 }, [s!"ok {r.2}"])
  | ["hdel", id] =>
    match id.toNat? with
    | some id =>
      match hRemove st.hsts id with
      | some h => ({ st with hsts := h }, ["ok"])
      | none => (st, ["err"])
    | none => (st, ["bad-op"])
  | ["hlook", id, fs] =>
    match id.toNat?, parseList parseField fs with
    | some id, some fs =>
      match hLookup st.hsts id with
      | some edits => (st, [s!"ok {showEdits edits} | {showFields (applyEdits edits fs)}"])
      | none => (st, ["none"])
    | _, _ => (st, ["bad-op"])
  -- h2resp <maxList> <maxFields> <endStream> <ctx|-> <headers>: an HTTP/2 backend's response header block
  | ["h2resp", ml, mf, es, cx, hs] =>
    match ml.toNat?, mf.toNat?, parseBool es, parseList parsePair hs with
    | some ml, some mf, some es, some hl =>
      let edit : Option (List Field → List Field) := if cx = "-" then some id else (parseCtx cx).map fun c => editResponse c
      match edit with
      | none => (st, ["bad-op"])
      | some e =>
        match validateResponse { maxListSize := ml, maxFields := mf } es e hl with
        | .error r => (st, [s!"reject {clsStr r.cls} {repr r}"])
        | .ok r => (st, [s!"ok {hx (serializeResp r)} body={bodyStr r.body}"])
    | _, _, _, _ => (st, ["bad-op"])
  -- resp <ctx> <fields>
  | ["resp", cx, fs] =>
    match parseCtx cx, parseList parseField fs with
    | some c, some fs => (st, [s!"ok {showFields (editResponse c fs)}"])
    | _, _ => (st, ["bad-op"])
  -- respedits <edits> <fields>
  | ["respedits", es, fs] =>
    match parseList parseEdit es, parseList parseField fs with
    | some es, some fs => (st, [s!"ok {showFields (applyEdits es fs)}"])
    | _, _ => (st, ["bad-op"])
  | _ => (st, ["bad-op"])

def main : IO Unit := runDriver stepLine ({} : St)
