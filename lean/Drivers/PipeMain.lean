import Sozu.Common.Proto
import Sozu.Pipe.Model
open Sozu Sozu.Proto Sozu.ProxyProto Sozu.Pipe

/-! Line-protocol driver of the C18 Pipe model (handler level + session level). -/

def resStr : Res → String
  | .cont => "continue"
  | .close => "close"
  | .upgrade => "upgrade"
  | .loopCap => "loopcap"
  | .spin => "spin"

def parseSR : String → Option SR
  | "C" => some .cont
  | "W" => some .wouldBlock
  | "X" => some .closed
  | "E" => some .error
  | _ => none

def rdStr (r : Rd) : String :=
  String.join [boolStr r.iR, boolStr r.iW, boolStr r.iH, boolStr r.iE, "/", boolStr r.eR, boolStr r.eW, boolStr r.eH, boolStr r.eE]

def parseScript (ws : List String) : Option (List (Nat × SR)) :=
  ws.mapM fun w =>
    match w.splitOn ":" with
    | [n, r] => match n.toNat?, parseSR r with
      | some n, some r => some (n, r)
      | _, _ => none
    | _ => none

structure DState where
  p : Pipe := Pipe.new 0
  dead : Bool := true
  /-- bytes delivered by the scripted client / the backend peer and not yet read -/
  fq : List Nat := []
  bq : List Nat := []
  bfin : Bool := false
  /-- handler mode: the backend socket's send buffer is full / its peer is gone -/
  bblocked : Bool := false
  bclosed : Bool := false
  /-- session mode (`snew`): the pipe together with the kernel model -/
  sess : Sess := { p := Pipe.new 0 }
  smode : Bool := false

def dump (p : Pipe) : String :=
  s!"fr={rdStr p.fr} br={rdStr p.br} chk={boolStr p.check}"

def stepLine (st : DState) (line : String) : DState × List String :=
  match words line with
  | ["new", cap, hb] =>
    match cap.toNat? with
    | some cap =>
      let p := Pipe.new cap (hb = "1")
      ({ p := p, dead := false }, ["new " ++ dump p])
    | none => (st, ["bad-op"])
  | ["end"] =>
    let p := if st.smode then st.sess.p else st.p
    (st, [s!"backgot={bytesToHex p.wroteB} frontgot={bytesToHex p.wroteF}"])
  | ["snew", cap] =>
    match cap.toNat? with
    | some cap =>
      let s : Sess := { p := Pipe.new cap, k := { bRoom := 1000000000 } }
      ({ sess := s, smode := true, dead := false }, ["new " ++ dump s.p])
    | none => (st, ["bad-op"])
  | "sev" :: evs =>
    if st.dead then (st, ["dead"]) else
    let parseEv (w : String) : Option Ev :=
      match w.splitOn ":" with
      | ["cs", hx] => (hexToBytes hx).map Ev.clientSend
      | ["bs", hx] => (hexToBytes hx).map Ev.backendSend
      | ["cf"] => some .clientFin
      | ["bf"] => some .backendFin
      | ["cr", n] => n.toNat?.map Ev.clientRoom
      | ["bo"] => some (.backendRoom 1000000000)
      | ["bb"] => some .backendBlock
      | ["fe"] => some .frontErr
      | ["be"] => some .backErr
      | _ => none
    match evs.mapM parseEv with
    | some evs =>
      let s1 := evs.foldl Sess.apply st.sess
      let (s2, r) := s1.readyWs
      ({ st with sess := s2, dead := r != .cont },
        [s!"{if r == Res.loopCap then "close" else resStr r} {dump s2.p} +{bytesToHex (s2.p.wroteF.drop st.sess.p.wroteF.length)}"])
    | none => (st, ["bad-op"])
  | ws =>
    if st.dead then (st, ["dead"]) else
    let fin (r : Pipe × Res) (extra : String) (st' : DState) : DState × List String :=
      ({ st' with p := r.1, dead := r.2 != .cont }, [s!"{resStr r.2} {dump r.1}{extra}"])
    match ws with
    | ["fev", r, w] => fin (st.p.step (.frontEvent (r = "1") (w = "1"))) "" st
    | ["bev", r, w] => fin (st.p.step (.backEvent (r = "1") (w = "1"))) "" st
    | ["rd", hx, r] =>
      match hexToBytes hx, parseSR r with
      | some bs, some r =>
        let q := st.fq ++ bs
        let win := st.p.fbuf.space
        let taken := min q.length win
        fin (st.p.readable q r) s!" win={win}" { st with fq := q.drop taken }
      | _, _ => (st, ["bad-op"])
    | "wr" :: sc =>
      match parseScript sc with
      | some sc =>
        let r := st.p.writable sc
        fin r s!" +{bytesToHex (r.1.wroteF.drop st.p.wroteF.length)}" st
      | none => (st, ["bad-op"])
    | ["brd", hx, f] =>
      match hexToBytes hx with
      | some bs =>
        -- a peer that is gone (`bclose`) delivers nothing more
        let q := if st.bclosed then st.bq else st.bq ++ bs
        let bfin := st.bfin || f = "1"
        let win := st.p.bbuf.space
        let (got, res) := kernelRead q bfin win
        let taken := if win = 0 ∨ ¬ st.p.hasBackend then 0 else got.length
        fin (st.p.backendReadable got res) "" { st with bq := q.drop taken, bfin := bfin }
      | none => (st, ["bad-op"])
    | ["bwr"] =>
      -- the backend peer reads everything: every write succeeds in full — unless its send
      -- buffer was filled (`bfill`: EAGAIN on the first byte) or its peer closed (`bclose`: EPIPE)
      let sc : List (Nat × SR) :=
        if st.bclosed then [(0, .closed)] else if st.bblocked then [(0, .wouldBlock)]
        else [(st.p.fbuf.data.length, .cont)]
      fin (st.p.backendWritable sc) "" st
    | ["bfill"] => ({ st with bblocked := true }, ["ok"])
    | ["bdrain"] => ({ st with bblocked := false }, ["ok"])
    | ["bclose"] => ({ st with bclosed := true, bfin := true }, ["ok"])
    | ["bhup"] => fin st.p.backendHup "" st
    | ["fhup"] => fin st.p.frontendHup "" st
    | _ => (st, ["bad-op"])

def main : IO Unit := runDriver stepLine ({} : DState)
