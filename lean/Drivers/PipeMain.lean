import Sozu.Common.Proto
import Sozu.Pipe.Model
open Sozu Sozu.Proto Sozu.ProxyProto Sozu.Pipe

/-! Line-protocol driver of the C18 Pipe model (handler level + session level). -/

def resStr : Res → String
  | .cont => "continue"
  | .close => "close"
  | .upgrade => "upgrade"
  | .loopCap => "loopcap"
  | .spin => "spin"

def parseSR : String → Option SR
  | "C" => some .cont
  | "W" => some .wouldBlock
  | "X" => some .closed
  | "E" => some .error
  | _ => none

def rdStr (r : Rd) : String :=
  String.join [boolStr r.iR, boolStr r.iW, boolStr r.iH, boolStr r.iE, "/", boolStr r.eR, boolStr r.eW, boolStr r.eH, boolStr r.eE]

def parseScript (ws : List String) : Option (List (Nat × SR)) :=
  ws.mapM fun w =>
    match w.splitOn ":" with
    | [n, r] => match n.toNat?, parseSR r with
      | some n, some r => some (n, r)
      | _, _ => none
    | _ => none

structure DState where
  p : Pipe := Pipe.new 0
  dead : Bool := true
  /-- bytes delivered by the scripted client / the backend peer and not yet read -/
  fq : List Nat := []
  bq : List Nat := []
  bfin : Bool := false

def dump (p : Pipe) : String :=
  s!"fr={rdStr p.fr} br={rdStr p.br} chk={boolStr p.check}"

def stepLine (st : DState) (line : String) : DState × List String :=
  match words line with
  | ["new", cap, hb] =>
    match cap.toNat? with
    | some cap =>
      let p := Pipe.new cap (hb = "1")
      ({ p := p, dead := false }, ["new " ++ dump p])
    | none => (st, ["bad-op"])
  | ["end"] => (st, [s!"backgot={bytesToHex st.p.wroteB} frontgot={bytesToHex st.p.wroteF}"])
  | ws =>
    if st.dead then (st, ["dead"]) else
    let fin (r : Pipe × Res) (extra : String) (st' : DState) : DState × List String :=
      ({ st' with p := r.1, dead := r.2 != .cont }, [s!"{resStr r.2} {dump r.1}{extra}"])
    match ws with
    | ["fev", r, w] => fin (st.p.step (.frontEvent (r = "1") (w = "1"))) "" st
    | ["bev", r, w] => fin (st.p.step (.backEvent (r = "1") (w = "1"))) "" st
    | ["rd", hx, r] =>
      match hexToBytes hx, parseSR r with
      | some bs, some r =>
        let q := st.fq ++ bs
        let win := st.p.fbuf.space
        let taken := min q.length win
        fin (st.p.readable q r) s!" win={win}" { st with fq := q.drop taken }
      | _, _ => (st, ["bad-op"])
    | "wr" :: sc =>
      match parseScript sc with
      | some sc =>
        let r := st.p.writable sc
        fin r s!" +{bytesToHex (r.1.wroteF.drop st.p.wroteF.length)}" st
      | none => (st, ["bad-op"])
    | ["brd", hx, f] =>
      match hexToBytes hx with
      | some bs =>
        let q := st.bq ++ bs
        let bfin := st.bfin || f = "1"
        let win := st.p.bbuf.space
        let (got, res) := kernelRead q bfin win
        let taken := if win = 0 ∨ ¬ st.p.hasBackend then 0 else got.length
        fin (st.p.backendReadable got res) "" { st with bq := q.drop taken, bfin := bfin }
      | none => (st, ["bad-op"])
    | ["bwr"] =>
      -- the backend peer reads everything: every write succeeds in full
      fin (st.p.backendWritable [(st.p.fbuf.data.length, .cont)]) "" st
    | ["bhup"] => fin st.p.backendHup "" st
    | ["fhup"] => fin st.p.frontendHup "" st
    | _ => (st, ["bad-op"])

def main : IO Unit := runDriver stepLine ({} : DState)
