import Sozu.Common.Proto
import Sozu.ProxyProto.Model
open Sozu Sozu.Proto Sozu.ProxyProto

/-! Line-protocol driver of the C18 ProxyProto model (codec + expect / send / relay machines). -/

def cmdStr : Cmd → String
  | .loc => "L"
  | .proxy => "P"

def addrStr : Addr → String
  | .v4 s d sp dp => s!"4:{bytesToHex s}:{bytesToHex d}:{sp}:{dp}"
  | .v6 s d sp dp => s!"6:{bytesToHex s}:{bytesToHex d}:{sp}:{dp}"
  | .unix s d => s!"u:{bytesToHex s}:{bytesToHex d}"
  | .unspec => "n"

def parseAddrSpec (w : String) : Option Addr :=
  match w.splitOn ":" with
  | ["n"] => some .unspec
  | ["4", s, d, sp, dp] =>
    match hexToBytes s, hexToBytes d, sp.toNat?, dp.toNat? with
    | some s, some d, some sp, some dp => some (.v4 s d sp dp)
    | _, _, _, _ => none
  | ["6", s, d, sp, dp] =>
    match hexToBytes s, hexToBytes d, sp.toNat?, dp.toNat? with
    | some s, some d, some sp, some dp => some (.v6 s d sp dp)
    | _, _, _, _ => none
  | ["u", s, d] =>
    match hexToBytes s, hexToBytes d with
    | some s, some d => some (.unix s d)
    | _, _ => none
  | _ => none

def parseSock (w : String) : Option SockAddr :=
  match w.splitOn ":" with
  | ["4", ip, p] =>
    match hexToBytes ip, p.toNat? with
    | some ip, some p => some (.v4 ip p)
    | _, _ => none
  | ["6", ip, p] =>
    match hexToBytes ip, p.toNat? with
    | some ip, some p => some (.v6 ip p)
    | _, _ => none
  | _ => none

def parseCmd : String → Option Cmd
  | "L" => some .loc
  | "P" => some .proxy
  | _ => none

def parseSR : String → Option SR
  | "C" => some .cont
  | "W" => some .wouldBlock
  | "X" => some .closed
  | "E" => some .error
  | _ => none

def resStr : Res → String
  | .cont => "continue"
  | .close => "close"
  | .upgrade => "upgrade"
  | .loopCap => "loopcap"
  | .spin => "spin"

def presStr : PResult → String
  | .incomplete => "incomplete"
  | .error => "error"
  | .ok h n => s!"ok {cmdStr h.cmd} {h.family} {addrStr h.addr} {n}"

def optAddrStr : Option Addr → String
  | none => "-"
  | some a => addrStr a

def hlStr : HeaderLen → String
  | .v4 => "v4" | .v6 => "v6" | .unix => "unix"

/-- what the harness can see of the real `ExpectProxyProtocol`: the window it
    will offer to the next `socket_read`, READABLE interest/event, addresses -/
def expectDump (s : Expect) : String :=
  s!"win={stageLen s.headerLen - s.buf.length} ir={boolStr s.interestR} er={boolStr s.eventR} addr={optAddrStr s.addresses}"

def relayDump (s : Relay) : String :=
  let hs := match s.headerSize with | none => "-" | some n => toString n
  s!"data={bytesToHex s.buf.data} space={s.buf.space} hs={hs} ir={boolStr s.fInterestR} er={boolStr s.fEventR} bw={boolStr s.bInterestW} addr={optAddrStr s.addresses}"

def parseWRes (w : String) : Option WRes :=
  if w = "W" then some .wouldBlock
  else if w = "E" then some .err
  else w.toNat?.map WRes.ok

structure DState where
  x : Expect := {}
  xdead : Bool := false
  /-- bytes the scripted socket still holds (delivered by the peer, not yet taken by a read) -/
  xq : List Nat := []
  rq : List Nat := []
  r : Relay := { buf := { cap := 0 } }
  rdead : Bool := false
  s : Send := { header := [] }

def stepLine (st : DState) (line : String) : DState × List String :=
  match words line with
  | ["new"] => ({}, ["ok"])
  | ["enc", c, fam, a] =>
    match parseCmd c, fam.toNat?, parseAddrSpec a with
    | some c, some fam, some a => (st, [bytesToHex (encode ⟨c, fam, a⟩)])
    | _, _, _ => (st, ["bad-op"])
  | ["encnew", c, src, dst] =>
    match parseCmd c, parseSock src, parseSock dst with
    | some c, some src, some dst =>
      let h := Header.new c src dst
      (st, [s!"{h.family} {addrStr h.addr} {bytesToHex (encode h)}"])
    | _, _, _ => (st, ["bad-op"])
  | ["parse", hx] =>
    match hexToBytes hx with
    | some bs => (st, [presStr (parse bs)])
    | none => (st, ["bad-op"])
  | ["rt", c, src, dst, rest] =>
    -- HeaderV2::new → into_bytes → parse_v2_header(bytes ++ rest), and every strict prefix
    match parseCmd c, parseSock src, parseSock dst, hexToBytes rest with
    | some c, some src, some dst, some rest =>
      let h := Header.new c src dst
      let b := encode h
      let pre := (List.range b.length).all fun k => parse (b.take k) == .incomplete
      (st, [s!"{h.family} {addrStr h.addr} {bytesToHex b} | {presStr (parse (b ++ rest))} | prefixes={boolStr pre}"])
    | _, _, _, _ => (st, ["bad-op"])
  | "send" :: fam :: variant =>
    -- v46: an IPv4 client accepted on a dual-stack `[::]` listener: the accepted socket
    -- reports both addresses as v4-mapped IPv6
    let mapped : List Nat := [0, 0, 0, 0, 0, 0, 0, 0, 0, 0, 255, 255, 127, 0, 0, 1]
    let peer : Option SockAddr :=
      if fam = "v4" then some (.v4 [127, 0, 0, 1] 1111)
      else if fam = "v6" then some (.v6 [0, 0, 0, 0, 0, 0, 0, 0, 0, 0, 0, 0, 0, 0, 0, 1] 1111)
      else if fam = "v46" then some (.v6 mapped 1111) else none
    let loc : Option SockAddr :=
      if fam = "v4" then some (.v4 [127, 0, 0, 1] 2222)
      else if fam = "v6" then some (.v6 [0, 0, 0, 0, 0, 0, 0, 0, 0, 0, 0, 0, 0, 0, 0, 1] 2222)
      else if fam = "v46" then some (.v6 mapped 2222) else none
    match peer, loc with
    | some p, some l =>
      -- what the kernel answers to the header writes: all at once; or EAGAIN on the first call
      -- (send buffer full) and everything on the second; or EPIPE (peer gone); or no backend socket
      let sched : Option (List (List WRes)) := match variant with
        | [] => some [[.ok 100000]]
        | ["blocked"] => some [[.wouldBlock], [.ok 100000]]
        | ["closed"] => some [[.err]]
        | ["nobackend"] => none
        | _ => some []
      match sched with
      | none => (st, ["close len=0 nothing"])
      | some sched =>
      let (_, res, out) := (Send.new p l).run sched
      let first := match sched with
        | [.wouldBlock] :: _ => "continue;"
        | _ => ""
      if out = [] then (st, [s!"{first}{resStr res} len=0 nothing"]) else
      let lab (a : Option SockAddr) : String :=
        if a = some p then "client" else if a = some l then "listener" else "other"
      match parse out with
      | .ok h n =>
        let (sa, da) : Option SockAddr × Option SockAddr := match h.addr with
          | .v4 s d sp dp => (some (.v4 s sp), some (.v4 d dp))
          | .v6 s d sp dp => (some (.v6 s sp), some (.v6 d dp))
          | _ => (none, none)
        (st, [s!"{first}{resStr res} len={out.length} consumed={n} cmd={cmdStr h.cmd} fam={h.family} src={lab sa} dst={lab da}"])
      | _ => (st, [s!"{first}{resStr res} len={out.length} unparsable"])
    | _, _ => (st, ["bad-op"])
  -- expect machine
  | ["xnew"] => ({ st with x := {}, xdead := false, xq := [] }, ["x " ++ expectDump {}])
  | ["xev"] =>
    -- an epoll READABLE event (update_readiness)
    let x := { st.x with eventR := true }
    ({ st with x := x }, ["x " ++ expectDump x])
  | ["xread", hx, r] =>
    if st.xdead then (st, ["dead"]) else
    match hexToBytes hx, parseSR r with
    | some bs, some r =>
      let q := st.xq ++ bs
      let (x', res) := st.x.readable q r
      let taken := x'.buf.length - st.x.buf.length
      ({ st with x := x', xdead := res != .cont, xq := q.drop taken }, [s!"{resStr res} {expectDump x'}"])
    | _, _ => (st, ["bad-op"])
  -- relay machine
  | ["rnew", cap] =>
    match cap.toNat? with
    | some cap =>
      let r : Relay := { buf := { cap := cap } }
      ({ st with r := r, rdead := false, rq := [] }, ["r " ++ relayDump r])
    | none => (st, ["bad-op"])
  | ["rread", hx, r] =>
    if st.rdead then (st, ["dead"]) else
    match hexToBytes hx, parseSR r with
    | some bs, some r =>
      let q := st.rq ++ bs
      let taken := min q.length st.r.buf.space
      let (r', res) := st.r.readable q r
      ({ st with r := r', rdead := res != .cont, rq := q.drop taken }, [s!"{resStr res} {relayDump r'}"])
    | _, _ => (st, ["bad-op"])
  | "rwrite" :: ws =>
    if st.rdead then (st, ["dead"]) else
    match ws.mapM parseWRes with
    | some ws =>
      let (r', res, out) := st.r.backWritable ws
      ({ st with r := r', rdead := res != .cont }, [s!"{resStr res} out={bytesToHex out} cursor={r'.cursor} {relayDump r'}"])
    | none => (st, ["bad-op"])
  | ["rwriteblocked"] =>
    -- `back_writable` against a backend whose send buffer is full: the first `write` answers EAGAIN
    if st.rdead then (st, ["dead"]) else
    let (r', res, out) := st.r.backWritable [.wouldBlock]
    ({ st with r := r', rdead := res != .cont }, [s!"{resStr res} out={bytesToHex out} cursor={r'.cursor} {relayDump r'}"])
  -- send machine
  | ["snew", peer, loc] =>
    match parseSock peer, parseSock loc with
    | some p, some l =>
      let s := Send.new p l
      ({ st with s := s }, [s!"s len={s.header.length}"])
    | _, _ => (st, ["bad-op"])
  | "swrite" :: ws =>
    match ws.mapM parseWRes with
    | some ws =>
      let (s', res, out) := st.s.backWritable ws
      ({ st with s := s' }, [s!"{resStr res} out={bytesToHex out} cursor={s'.cursor}"])
    | none => (st, ["bad-op"])
  -- whole expect-mode session against the kernel model: arrivals, one per wake-up
  | "xrun" :: chunks =>
    match chunks.mapM hexToBytes with
    | some cs =>
      match ({} : ExpectK).run cs with
      | .waiting k => (st, [s!"waiting idx={k.m.buf.length}"])
      | .closed k r => (st, [s!"closed {resStr r} idx={k.m.buf.length}"])
      | .upgraded a n lost unread later =>
        (st, [s!"upgraded addr={optAddrStr a} consumed={n} lost={bytesToHex lost} rest={bytesToHex (unread ++ later.flatten)}"])
    | none => (st, ["bad-op"])
  | _ => (st, ["bad-op"])

def main : IO Unit := runDriver stepLine ({} : DState)
