import Sozu.Common.Proto
import Sozu.Hub.Model
import Sozu.Generated.Consts
open Sozu Sozu.Proto Sozu.Hub

/-! Line protocol of the Hub model (C09).

```
new W T [S]                   W workers (the last S with a small channel ceiling), worker_timeout = T units -> ok
req C VERB [K]                client C sends a request (`addbig`: a mutating request the small workers' channels refuse)
ans W RW RT RS ST             worker W's channel delivers {id = RW-RT-RS, status ST}
close W | adv N | drop C | tick
hold … release                the lines in between are delivered as one poll batch
```
Outside `hold` every line is followed by one pass of the finishing rule (the
harness waits for a full loop iteration after each action).
Every line is answered by the messages the clients received because of it:
`c0=PO c2=F[0:O,1:F]` (per client, in order; `P` processing, `O` ok, `F`
failure with, for a worker verb, the response log the failure message lists;
`X` = the session was closed by the main process), or `-` when nothing was
received. -/

def stCode : St → String
  | .ok => "O" | .failure => "F" | .processing => "P"

/-- code-shape flags the driver runs the model with: those the translator read
    from the source, unless `VERIF_HUB_FLAGS` (four 0/1 digits: forwards
    timed_out, stop failure exclusive, retires answered ids, answers unsupported
    verbs) overrides them — used when the harness is built against a patched
    sandbox copy of the repository. -/
structure Flags where
  fwd : Bool
  excl : Bool
  retire : Bool
  answers : Bool
  reloadPanics : Bool := true

def Flags.ofCode : Flags :=
  { fwd := Consts.hubForwardsTimedOut, excl := Consts.hubStopFailureExclusive,
    retire := Consts.hubRetiresAnsweredIds, answers := Consts.hubAnswersUnsupportedVerbs,
    reloadPanics := Consts.hubReloadBadPathPanics }

def Flags.parse (s : String) : Option Flags :=
  match s.toList with
  | [a, b, c, d] =>
    if [a, b, c, d].all (fun x => x = '0' || x = '1') then
      some { fwd := a = '1', excl := b = '1', retire := c = '1', answers := d = '1' }
    else none
  | [a, b, c, d, e] =>
    if [a, b, c, d, e].all (fun x => x = '0' || x = '1') then
      some { fwd := a = '1', excl := b = '1', retire := c = '1', answers := d = '1', reloadPanics := e = '1' }
    else none
  | _ => none

def parseClientVerb (ws : List String) : Option ClientVerb :=
  match ws with
  | ["add"] => some .add
  | ["bad"] => some .bad
  | ["query"] => some .query
  | ["status"] => some .status
  | ["metrics"] => some .metrics
  | ["hardstop"] => some .hardStop
  | ["softstop"] => some .softStop
  | ["load", k] => k.toNat?.map ClientVerb.load
  | ["loadmissing"] => some .loadMissing
  | ["list"] => some .list
  | ["loadcorrupt"] => some .loadCorrupt
  | ["loadcorrupt", _k] => some .loadCorrupt
  | ["reload", k] => k.toNat?.map ClientVerb.reload
  | ["reloadbad"] => some .reloadBad
  | ["maxconn"] => some .workerOther
  | ["confmetrics"] => some .workerOther
  | ["metricdetail"] => some .metricDetail
  | ["metricdetailbad"] => some .metricDetailBad
  | ["count"] => some .list
  | ["hc"] => some .list
  | ["certs"] => some .list
  | ["querybyid"] => some .query
  | ["querydomain"] => some .query
  | ["querycerts"] => some .query
  | ["none"] => some .none
  | ["launch"] => some .launchWorker
  | ["retsock"] => some .returnListenSockets
  | _ => none

def parseVerb (fl : Flags) (allowed : Bool) (ws : List String) : Option Verb :=
  (parseClientVerb ws).map (ClientVerb.classifyFor allowed fl.answers)

/-- split the words of a `req2` line at "|" -/
def splitBar (ws : List String) : List (List String) :=
  ws.foldr (fun w acc => if w = "|" then [] :: acc else match acc with
    | [] => [[w]]
    | a :: rest => (w :: a) :: rest) [[]]

def parseSt : String → Option St
  | "ok" => some .ok
  | "fail" => some .failure
  | "proc" => some .processing
  | _ => none

def parseOp (fl : Flags) (allowed : Bool) (ws : List String) : Option Op :=
  match ws with
  | "req" :: c :: rest =>
    match c.toNat?, parseVerb fl allowed rest with
    | some c, some v => some (.request c v)
    | _, _ => none
  | ["ans", w, rw, rt, rs, st] =>
    match w.toNat?, rw.toNat?, rt.toNat?, rs.toNat?, parseSt st with
    | some w, some rw, some rt, some rs, some st => some (.response w { worker := rw, task := rt, sub := rs } st)
    | _, _, _, _, _ => none
  | ["close", w] => w.toNat?.map Op.close
  | ["adv", n] => n.toNat?.map Op.advance
  | ["drop", c] => c.toNat?.map Op.drop
  | ["tick"] => some .tick
  | _ => none

/-- stable insertion by sending worker: the order in which one `poll` batch
    presents different workers' sockets is not observable -/
def insBySender (x : Nat × Rid × St) : List (Nat × Rid × St) → List (Nat × Rid × St)
  | [] => [x]
  | y :: ys => if x.1 < y.1 then x :: y :: ys else y :: insBySender x ys

def bySender (l : List (Nat × Rid × St)) : List (Nat × Rid × St) :=
  l.foldl (fun acc x => insBySender x acc) []

def emitStr (e : Emit) : String :=
  match e.kind, e.src with
  | .failure, some (t, _) =>
    if t.verb = .worker then
      "F[" ++ ",".intercalate ((bySender t.got).map fun g => s!"{g.1}:{stCode g.2.2}") ++ "]"
    else "F"
  | k, _ => stCode k

def insertNat (x : Nat) : List Nat → List Nat
  | [] => [x]
  | y :: ys => if x < y then x :: y :: ys else if x = y then y :: ys else y :: insertNat x ys

def sortDedup (l : List Nat) : List Nat := l.foldr insertNat []

/-- what the clients saw between two states -/
def delta (h h' : Hub) : String :=
  let news := (h'.log.drop h.log.length).filter (·.delivered)
  let exited := h.run ≠ .exited && h'.run = .exited
  let xs := if exited then h'.known.filter (fun c => !h.closed.contains c) else []
  let cs := sortDedup (news.map (·.client) ++ xs)
  if cs.isEmpty then "-" else
  " ".intercalate (cs.map fun c =>
    s!"c{c}=" ++ String.join ((news.filter (·.client = c)).map emitStr) ++ (if xs.contains c then "X" else ""))

/-- driver state: the hub, `held` (the main process is blocked inside a request
    handler: events queue up, nothing is handled) with the events queued so far. -/
structure DState where
  hub : Hub
  held : Bool
  queue : List Op
  /-- workers whose channel ceiling is too small for a big request (`new W T S`:
      the last `S` workers) -/
  small : List Nat := []
  /-- the clients' uid is in `command_allowed_uids` (or the list is unset) -/
  allowed : Bool := true

/-- Outside a hold every line is one `poll` batch: the event, then the run
    loop's finishing pass. `hold` … `release` delivers all the lines in between
    as ONE batch: the finishing pass runs once, after all of them. -/
def stepLine (fl : Flags) (d : DState) (line : String) : DState × List String :=
  match words line with
  | ["new", w, t] =>
    match w.toNat?, t.toNat? with
    | some w, some t => ({ hub := Hub.init fl.fwd fl.excl fl.retire t w, held := false, queue := [] }, ["ok"])
    | _, _ => (d, ["bad-op"])
  | ["new", w, t, sm] =>
    match w.toNat?, t.toNat?, sm.toNat? with
    | some w, some t, some sm =>
      ({ hub := Hub.init fl.fwd fl.excl fl.retire t w, held := false, queue := [],
         small := (List.range w).filter (fun i => w ≤ i + sm) }, ["ok"])
    | _, _, _ => (d, ["bad-op"])
  | ["new", w, t, sm, "deny"] =>
    match w.toNat?, t.toNat?, sm.toNat? with
    | some w, some t, some sm =>
      ({ hub := Hub.init fl.fwd fl.excl fl.retire t w, held := false, queue := [],
         small := (List.range w).filter (fun i => w ≤ i + sm), allowed := false }, ["ok"])
    | _, _, _ => (d, ["bad-op"])
  | "req2" :: c :: rest =>
    -- two requests written back to back on one connection: `ClientSession::ready`
    -- keeps the last one only
    match c.toNat?, sessionPick ((splitBar rest).filterMap (parseVerb fl d.allowed)), (splitBar rest).all (fun ws => (parseVerb fl d.allowed ws).isSome) with
    | some c, some v, true =>
      if d.held then (d, ["bad-op"]) else
      let h' := step (step d.hub (.request c v)) .tick
      ({ d with hub := h' }, [delta d.hub h'])
    | _, _, _ => (d, ["bad-op"])
  | ["req", c, "reloadbad"] =>
    -- `Config::load_from_path(path).unwrap_or_else(|_| panic!(…))`: the main process
    -- dies in the handler (when the client is allowed to send it at all)
    match c.toNat? with
    | some c =>
      if d.held then (d, ["bad-op"]) else
      if !d.allowed then
        let h' := step (step d.hub (.request c .workerBad)) .tick
        ({ d with hub := h' }, [delta d.hub h'])
      else if !fl.reloadPanics then
        let h' := step (step d.hub (.request c (ClientVerb.reloadBad.classify fl.answers))) .tick
        ({ d with hub := h' }, [delta d.hub h'])
      else if d.hub.run = .exited then (d, ["-"]) else
      let known := if d.hub.known.contains c then d.hub.known else d.hub.known ++ [c]
      let h' := { d.hub with run := .exited, known := known, closed := known }
      ({ d with hub := h' }, [delta { d.hub with known := known } h'])
    | none => (d, ["bad-op"])
  | ["req", c, "addbig"] =>
    -- a mutating request too large for the small workers' channels: scattered
    -- as usual, then every send to a small worker fails
    match c.toNat? with
    | some c =>
      if d.held then (d, ["bad-op"]) else
      if !d.allowed then
        let h' := step (step d.hub (.request c .workerBad)) .tick
        ({ d with hub := h' }, [delta d.hub h'])
      else
      let h1 := run d.hub (Op.request c .worker :: d.small.map Op.sendFail)
      let h' := step h1 .tick
      ({ d with hub := h' }, [delta d.hub h'])
    | none => (d, ["bad-op"])
  | ["hold"] => if d.held then (d, ["bad-op"]) else ({ d with held := true, queue := [] }, ["-"])
  | ["release"] =>
    if !d.held then (d, ["bad-op"]) else
    let h' := step (run d.hub d.queue) .tick
    ({ hub := h', held := false, queue := [] }, [delta d.hub h'])
  | ws =>
    match parseOp fl d.allowed ws with
    | some op =>
      if d.held then ({ d with queue := d.queue ++ [op] }, ["-"])
      else
        let h' := step (step d.hub op) .tick
        ({ d with hub := h' }, [delta d.hub h'])
    | none => (d, ["bad-op"])

def main : IO Unit := do
  let fl ← match (← IO.getEnv "VERIF_HUB_FLAGS") with
    | some s =>
      match Flags.parse s with
      | some f => pure f
      | none => throw (IO.userError "VERIF_HUB_FLAGS must be four 0/1 digits")
    | none => pure Flags.ofCode
  runDriver (stepLine fl) { hub := Hub.init fl.fwd fl.excl fl.retire 0 0, held := false, queue := [] }
