import Sozu.Common.Proto
import Sozu.Answers.Model
open Sozu Sozu.Proto Sozu.Answers

/-! Line-protocol driver of the Answers model (C02).

In-process lines (harness `answers`):
  `new`                                   → `ok`
  `esd <main> <terminated> <ka> <consumed>` → the `end_stream_decision` string
  `esdp phase=<kawa phase> ka=… consumed=…` → the same, from a kawa parsing phase
  `resp shape=… conn=… cut=… fwd=…`        → `phase=… bs=… ka=… fc=… decision=…`
  `status <cause>`                         → the status of the cause table
  `tmpl <code>`                            → `status=<code> keepalive=0`
Black-box lines (harness `faults`):
  `new ft=… bt=… ct=… rt=…`               → `ok`
  `req i=… route=… client=… shape=… conn=… cut=… end=… big=…`
                                          → `adm <token>,<token>,…` (admissible observations)
-/

def kvs (ws : List String) : List (String × String) :=
  ws.filterMap fun w =>
    match w.splitOn "=" with
    | [k, v] => some (k, v)
    | _ => none

def look (m : List (String × String)) (k : String) : Option String :=
  (m.find? (·.1 == k)).map (·.2)

def decisionStr : EndAction → String
  | .forwardTerminated => "forward-terminated"
  | .closeDelimited => "close-delimited"
  | .forwardUnterminated => "forward-unterminated"
  | .sendDefault n => s!"send-default:{n}"
  | .reconnect => "reconnect"

def phaseStr : Phase → String
  | .initial => "initial" | .body => "body" | .terminated => "terminated" | .error => "error"

def bsStr : BodySize → String
  | .empty => "empty" | .length => "length" | .chunked => "chunked"

def parseBool (s : String) : Option Bool :=
  if s = "1" then some true else if s = "0" then some false else none

def parseCause (s : String) : Option Cause :=
  match s with
  | "host-parse" => some .hostParse
  | "no-cluster" => some .noCluster
  | "unauthorized" => some .unauthorized
  | "sni-mismatch" => some .sniMismatch
  | "redirect" => some (.redirect none)
  | "per-ip-limit" => some .perIpLimit
  | "no-backend" => some .noBackend
  | "retries-exhausted" => some .retriesExhausted
  | "max-sessions-memory" => some .maxSessionsMemory
  | "max-buffers" => some .maxBuffers
  | "backend-other" => some .backendOther
  | "retrieve-other" => some .retrieveOther
  | "tcp-not-found" => some .tcpNotFound
  | "front-parse" => some .frontParse
  | "backend-closed-early" => some .backendClosedEarly
  | "client-timeout" => some .clientTimeout
  | "link-timeout" => some .linkTimeout
  | "front-timeout-linked" => some .frontTimeoutLinked
  | "backend-timeout" => some .backendTimeout
  | _ => none

def shapeBs (shape : String) : Option BodySize :=
  match shape with
  | "cl" => some .length
  | "cl103" => some .length  -- an interim 103 first: the model starts at the final response
  | "cl103p" => some .length
  | "chunked" => some .chunked
  | "uc" => some .empty
  | _ => none

def cfgH1 : Cfg := { frontH2 := false }

/-- a request that was received, routed and linked to backend connection 1 -/
def linkedPrefix : List Ev := [.reqParsed true, .connect (.linked 1)]

/-- events a response prefix produces in the parser -/
def headEvents (bs : BodySize) (connClose : Bool) (cut : String) : Option (List Ev) :=
  match cut with
  | "none" | "status" | "headers" => some []
  | "hdrend" | "body" | "chunkline" | "beforelast" => some [.backHead bs connClose false]
  | "full" => some (if bs = .empty then [.backHead bs connClose false]
                    else [.backHead bs connClose false, .backBodyEnd])
  | _ => none

/-- in-process correspondence: parse a response prefix into a fresh linked stream -/
def respLine (m : List (String × String)) : Option String := do
  let shape ← look m "shape"
  let bs ← shapeBs shape
  let conn ← look m "conn"
  let cut ← look m "cut"
  let fwd ← (look m "fwd").bind parseBool
  let hs ← headEvents bs (conn == "close") cut
  let es := linkedPrefix ++ (if fwd then [Ev.reqForwarded] else []) ++ hs
  let s := run cfgH1 Stream.init es
  some s!"phase={phaseStr s.phase} bs={bsStr s.bodySize} ka={boolStr s.kaBackend} fc={boolStr s.frontConsumed} decision={decisionStr s.decision}"

/-! #### black-box: admissible client observations -/

/-- what is left of the keep-alive backend connection of the frontend session -/
inductive BackConn | fresh | idle | stalled
  deriving DecidableEq, Repr, Inhabited

/-- possible situations before a request: is the client connection still open, and the
    state of the session's keep-alive backend connection -/
abbrev Situation := Bool × BackConn

structure Req where
  route : String
  client : String
  shape : String
  conn : String
  cut : String
  endA : String
  big : Bool

def parseReq (m : List (String × String)) : Option Req := do
  let route ← look m "route"
  let client ← look m "client"
  let shape ← look m "shape"
  let conn ← look m "conn"
  let cut ← look m "cut"
  let endA ← look m "end"
  let big ← (look m "big").bind parseBool
  some { route, client, shape, conn, cut, endA, big }

def dedup (l : List String) : List String :=
  l.foldl (fun acc x => if acc.contains x then acc else acc ++ [x]) []

def outcomeToken (s : Stream) (r : Req) (bs : BodySize) : String :=
  match s.outcome with
  | none => "no-outcome"
  | some o => wireToken o (r.cut == "full") (!r.big) bs

/-- which timer of a stalled exchange fires first -/
def stallAlts (ft bt : Nat) (p : List Ev) : List (List Ev) :=
  if bt < ft then [p ++ [.timeoutBack]]
  else if ft < bt then [p ++ [.timeoutFront true]]
  else [p ++ [.timeoutBack], p ++ [.timeoutFront true]]

/-- cluster `fltk`: the 502/503/504 answers are keep-alive, the client connection and the
    frontend session survive; what is left of the backend connection is what the model's
    `pooledAfter` says about the last event -/
def survive (r : Req) (es : List Ev) (tok : String) : String × Situation :=
  let s := run cfgH1 Stream.init es.dropLast
  let pooled := match es.getLast? with
    | some e => pooledAfter cfgH1 s e
    | none => false
  let tok' := if tok.startsWith "default:" then (tok.dropEnd "closed".length).toString ++ "open" else tok
  let bc : BackConn := if pooled then (if r.endA == "stall" then .stalled else .idle) else .fresh
  (tok', (tok.startsWith "default:", bc))

/-- all (token, situation afterwards) pairs the model admits for a request in a situation -/
def admit (ft bt : Nat) (tls piped : Bool) (r : Req) (sit : Situation) : Option (List (String × Situation)) :=
  let closed : Situation := (false, .fresh)
  let one (es : List Ev) (bs : BodySize := .empty) : String × Situation :=
    let tok := outcomeToken (run cfgH1 Stream.init es) r bs
    if r.route == "fltk" then survive r es tok else (tok, closed)
  if r.client == "stallhead" then
    some [one [.timeoutFront true]]
  else if piped && sit.1 then
    -- WHAT THE CODE DOES (finding `pipelined-request-answered-408`): the bytes of a request that
    -- arrived in the same read as the previous one travel to the backend glued to that one;
    -- when the first exchange is over the frontend stream is Idle with nothing to parse, and the
    -- front timer answers 408
    some [one [.timeoutFront true]]
  else if r.client == "http10" || r.client == "junk" then
    -- the request head does not parse / is malformed
    some [one [.reqParsed false]]
  else if !(["full", "cred", "badcred", "pipe", "noread"].contains r.client) then none
  else
    let cred := r.client == "cred"
    -- routing outcomes in front of any backend connection: through the model's `routeDecision`
    let decided (ri : RouteIn) : Option (List (String × Situation)) :=
      match routeDecision ri with
      | some c => some [one [.reqParsed true, .connect (.err c)]]
      | none =>
        -- forwarded to the always-answering backend of that cluster
        some [("relayed/open", (true, if sit.1 then sit.2 else .fresh))]
    match r.route with
    | "unknown" => decided { frontFound := false }
    | "deny" => decided { hasCluster := false }
    | "limit" => decided { atIpLimit := true }
    | "sni421" => decided { sniMismatch := true }
    | "redir301" => decided { legacyHttpsRedirect := true }
    | "redir302" => decided { redirect := some 302, hasCluster := false }
    | "redir308" => decided { redirect := some 308, requiredAuth := true, authOk := cred }
    | "unauth" => decided { unauthorizedPolicy := true }
    | "auth" => decided { requiredAuth := true, authOk := cred }
    | "limauth" => decided { requiredAuth := true, authOk := cred, atIpLimit := true }
    | "nobackend" => some [one [.reqParsed true, .connect (.err .noBackend)]]
    | "badhost" =>
      -- over TLS the malformed authority is first of all not covered by the certificate
      match routeDecision { hostMalformed := true, sniMismatch := tls } with
      | some c => some [one [.reqParsed true, .connect (.err c)], one [.reqParsed false]]
      | none => none
    | "refuse4" =>
      let attempt : List Ev := [.connect (.linked 1), .backHup]
      some [one ([.reqParsed true] ++ attempt ++ attempt ++ attempt ++ [.connect (.linked 1)]),
            one ([.reqParsed true] ++ attempt ++ attempt ++ [.connect (.err .noBackend)])]
    | "refuse" =>
      let attempt : List Ev := [.connect (.linked 1), .backHup]
      some [one ([.reqParsed true] ++ attempt ++ attempt ++ attempt ++ [.connect (.linked 1)]),
            one ([.reqParsed true] ++ attempt ++ [.connect (.err .noBackend)])]
    | "flt" | "fltk" =>
      let p := linkedPrefix ++ [Ev.reqForwarded]
      -- a keep-alive backend connection whose peer stopped reading: no response ever
      if sit.1 && sit.2 == .stalled then
        -- if this exchange parks the connection again, its peer is still the stalled one
        some ((stallAlts ft bt p).map fun es =>
          let (t, s) := one es
          (t, (s.1, if s.2 == .idle then .stalled else s.2)))
      else if r.shape == "garbage" then
        some [one (p ++ [.backParseError])]
      else if r.shape == "cl103" then
        -- WHAT THE CODE DOES (finding `final-response-coalesced-with-1xx-lost`): an interim 103
        -- that arrives in the same read as the final response is forwarded and the response
        -- buffer cleared, final response included; nothing more comes: a timer answers 504
        some ((stallAlts ft bt p).map (one ·))
      else if r.client == "noread" then
        -- the client reads nothing: part of the body is written into the socket buffers, the
        -- rest stays pending until a timer fires
        match shapeBs r.shape with
        | none => none
        | some bs =>
          let h := p ++ [.backHead bs (r.conn == "close") false, .frontFlush, .backData]
          some ((stallAlts ft bt h).map (one · bs))
      else
        match shapeBs r.shape with
        | none => none
        | some bs =>
          let cc := r.conn == "close"
          let early := [one (p ++ [.backEof, .backHup])]
          match r.cut with
          | "accept1" | "acceptall" =>
            -- closed at accept: seen after the request was written (502), or before
            -- (reconnect until the retry budget is spent: 503)
            let attempt : List Ev := [.connect (.linked 1), .backHup]
            some (early ++ [one ([.reqParsed true] ++ attempt ++ attempt ++ attempt ++ [.connect (.linked 1)]),
                            one ([.reqParsed true] ++ attempt ++ [.connect (.linked 1), .reqForwarded, .backEof, .backHup])])
          | "none" | "status" | "headers" =>
            if r.endA == "stall" || r.endA == "late" then some ((stallAlts ft bt p).map (one ·))
            else some early
          | cut =>
            match headEvents bs cc cut with
            | none => none
            | some hs =>
              let h := p ++ hs
              if cut == "full" && bs != .empty then
                -- complete by its own framing: relayed, the client connection stays open
                let s := run cfgH1 Stream.init (h ++ [.frontFlush])
                let next : BackConn :=
                  if cc then .fresh
                  else match r.endA with
                    | "keep" => .idle
                    | "stall" => .stalled
                    | _ => .fresh
                some [(outcomeToken s r bs, (true, next))]
              else if r.endA == "stall" then
                some [one (h ++ [.frontFlush, .timeoutBack]) bs,
                      one (h ++ [.frontFlush, .timeoutFront true]) bs]
              else
                -- close / reset: the end of the connection is seen before or after the
                -- buffered part of the response was written to the client
                let tail : List Ev := [.backEof, .backHup, .frontFlush, .timeoutFront true]
                let alts := [one (h ++ tail) bs, one (h ++ [.frontFlush] ++ tail) bs]
                -- a body of several buffers: part written, the rest still pending when the
                -- connection ends (what is pending may then be dropped)
                let alts := if r.big then
                    alts ++ [(outcomeToken (run cfgH1 Stream.init (h ++ [.frontFlush, .backData] ++ tail))
                                { r with cut := "partly-dropped" } bs, closed)]
                  else alts
                -- a reset may discard what the kernel had not delivered yet
                some (if r.endA == "reset" then alts ++ early else alts)
    | _ => none

structure DState where
  sits : List Situation := [(false, .fresh)]
  ft : Nat := 1
  bt : Nat := 1
  tls : Bool := false
  /-- the previous request was written together with this one (HTTP/1 pipelining) -/
  piped : Bool := false

def stepLine (st : DState) (line : String) : DState × List String :=
  match words line with
  | "new" :: ws =>
    let m := kvs ws
    let num (k : String) : Nat := ((look m k).bind String.toNat?).getD 1
    ({ ft := num "ft", bt := num "bt", tls := (look m "tls") == some "1" }, ["ok"])
  | ["esd", a, b, c, d] =>
    match parseBool a, parseBool b, parseBool c, parseBool d with
    | some a, some b, some c, some d => (st, [decisionStr (endStreamDecision a b c d)])
    | _, _, _, _ => (st, ["bad-op"])
  | "esdp" :: ws =>
    let m := kvs ws
    let ph : Option Phase := match look m "phase" with
      | some "StatusLine" | some "Headers" | some "Cookies" => some .initial
      | some "Body" | some "Chunks" | some "Trailers" => some .body
      | some "Terminated" => some .terminated
      | some "Error" => some .error
      | _ => none
    match ph, (look m "ka").bind parseBool, (look m "consumed").bind parseBool with
    | some ph, some ka, some c =>
      (st, [decisionStr (endStreamDecision ph.isMain (ph == .terminated) ka c)])
    | _, _, _ => (st, ["bad-op"])
  | ["status", c] =>
    match parseCause c with
    | some c => (st, [toString (statusOf c)])
    | none => (st, ["bad-op"])
  | ["tmpl", n] =>
    match n.toNat? with
    | some n => (st, [s!"status={n} keepalive=0"])
    | none => (st, ["bad-op"])
  | "resp" :: ws =>
    match respLine (kvs ws) with
    | some l => (st, [l])
    | none => (st, ["bad-op"])
  | "req" :: ws =>
    match parseReq (kvs ws) with
    | none => (st, ["bad-op"])
    | some r =>
      let results := st.sits.map (admit st.ft st.bt st.tls st.piped r)
      if results.any Option.isNone then (st, ["bad-op"])
      else
        let pairs := (results.filterMap id).flatten
        let toks := dedup (pairs.map (·.1))
        let sits := pairs.foldl (fun acc p => if acc.contains p.2 then acc else acc ++ [p.2]) []
        ({ st with sits := (if sits.isEmpty then [(false, .fresh)] else sits), piped := r.client == "pipe" }, ["adm " ++ ",".intercalate toks])
  | _ => (st, ["bad-op"])

def main : IO Unit := runDriver stepLine {}
