import Sozu.Common.Proto
import Sozu.Udp.Model
import Sozu.Udp.Shell
open Sozu Sozu.Proto Sozu.Udp

/-! Line-protocol driver for the Udp area (property C19).

    new <maxflows> <maxrx> <cfg>        cfg = <cluster|-> <wp> <resp> <req> <fto> <bto> <pp> <every>
    c <addr> <hex> <now>                addr = 4:<8 hex>:<port> | 6:<32 hex>:<port>
    b <flow> <hex> <now>
    r <flow> <backend-id> <addr> <now>
    cfg <cfg>   maxflows <n>   maxrx <n>   drain   to <now>   abort <flow>   closeall   dump
-/

def parseAddr (w : String) : Option Addr :=
  match w.splitOn ":" with
  | [fam, ip, port] =>
    match hexToBytes ip, port.toNat? with
    | some bs, some p =>
      if fam = "4" ∧ bs.length = 4 then some { v6 := false, ip := bs, port := p }
      else if fam = "6" ∧ bs.length = 16 then some { v6 := true, ip := bs, port := p }
      else none
    | _, _ => none
  | _ => none

def addrStr (a : Addr) : String :=
  s!"{if a.v6 then "6" else "4"}:{bytesToHex a.ip}:{a.port}"

def parseBool (w : String) : Option Bool :=
  if w = "1" then some true else if w = "0" then some false else none

def parseCfg : List String → Option Cfg
  | [cl, wp, resp, req, fto, bto, pp, ev] =>
    match parseBool wp, resp.toNat?, req.toNat?, fto.toNat?, bto.toNat?, parseBool pp, parseBool ev with
    | some wp, some resp, some req, some fto, some bto, some pp, some ev =>
      some { cluster := if cl = "-" then "" else cl, withPort := wp, responses := resp, requests := req,
             frontTo := fto, backTo := bto, sendPP := pp, ppEvery := ev }
    | _, _, _, _, _, _, _ => none
  | _ => none

def cfgStr (c : Cfg) : String :=
  s!"{if c.cluster.isEmpty then "-" else c.cluster},{boolStr c.withPort},{c.responses},{c.requests},{c.frontTo},{c.backTo},{boolStr c.sendPP},{boolStr c.ppEvery}"

def reasonStr : DropReason → String
  | .invalid => "invalid" | .truncated => "truncated" | .noBackend => "nobackend"
  | .shed => "shed" | .unknownFlow => "unknown"

def metricStr : Metric → String
  | .flowCreated => "m:created" | .flowEvicted => "m:evicted" | .flowShed => "m:shed"
  | .dgramIn n => s!"m:in:{n}" | .dgramOut n => s!"m:out:{n}" | .dropped r => s!"m:drop:{reasonStr r}"

/-- position of the affinity-hash input among those seen so far in this case -/
def keyIndex (seen : List AKey) (k : AKey) : List AKey × Nat :=
  match seen.findIdx? (· = k) with
  | some i => (seen, i)
  | none => (seen ++ [k], seen.length)

/-- canonicalisation state of the driver (never part of the model):
    affinity-hash inputs seen, and — for the black-box rig — the incarnation
    number (order of admission) of every live flow id -/
structure Canon where
  seen : List AKey
  ghost : Bool
  incs : List (Nat × Nat)
  nextInc : Nat
  lastSel : Option Nat
  /-- the flow selected by the most recent client datagram line, if it admitted one -/
  selAt : Option Nat := none

def Canon.incOf (c : Canon) (f : Nat) : String :=
  match c.incs.find? (·.1 = f) with
  | some p => toString p.2
  | none => "?"

/-- `sel`: for a `SendToBackend` in ghost mode, the flow whose upstream socket the
    shell model (`Sozu.Udp.Shell`) writes the datagram to — that, not the manager's
    ghost flow id, is what the black-box rig observes on the wire -/
def outStr (c : Canon) (sel : Option Nat := none) : Out → Canon × String
  | .selectBackend f cl k =>
    let (seen', i) := keyIndex c.seen k
    ({ c with seen := seen', incs := (f, c.nextInc) :: c.incs.filter (·.1 ≠ f), nextInc := c.nextInc + 1,
              lastSel := some f, selAt := some f },
     s!"sel {f} {if cl.isEmpty then "-" else cl} k{i}")
  | .openUpstream f b => (c, s!"open {f} {addrStr b}")
  | .sendToBackend f dst p =>
    let via := match sel with
      | some g => c.incOf g
      | none => "?"
    (c, if c.ghost then s!"tob@{via} {addrStr dst} {bytesToHex p}" else s!"tob {addrStr dst} {bytesToHex p}")
  | .sendToClient f dst p =>
    (c, if c.ghost then s!"toc@{c.incOf f} {addrStr dst} {bytesToHex p}" else s!"toc {addrStr dst} {bytesToHex p}")
  | .armTimer t => (c, s!"arm {t}")
  | .metric m => (c, metricStr m)
  | .closeFlow f => ({ c with incs := c.incs.filter (·.1 ≠ f) }, s!"close {f}")
  | .drop r => (c, s!"drop {reasonStr r}")

def outsStr (c : Canon) (outs : List Out) (routes : List (Nat × Option Nat)) : Canon × String :=
  let (c', strs, _) := outs.foldl (fun (acc : Canon × List String × List (Nat × Option Nat)) o =>
    let (sel, rest) := match o, acc.2.2 with
      | .sendToBackend _ _ _, r :: rest => (r.2, rest)
      | _, rs => (none, rs)
    let (cn, str) := outStr acc.1 sel o
    (cn, acc.2.1 ++ [str], rest)) (c, [], routes)
  (c', if strs.isEmpty then "-" else ";".intercalate strs)

def summary (s : State) : String :=
  let t := match s.armed with | some d => toString d | none => "-"
  s!"n={s.len} mf={s.maxFlows} dr={boolStr s.draining} wp={boolStr s.cluster.withPort} t={t}"

def phaseStr : Phase → String
  | .awaiting => "A" | .established => "E" | .closing => "C"

def flowStr (id : Nat) (f : Flow) : String :=
  let b := match f.backend with | some a => addrStr a | none => "-"
  let bid := match f.backendId with | some a => a | none => "-"
  let pend := match f.pending with | some p => "P" ++ bytesToHex p | none => "N"
  s!"{id}/{addrStr f.client}/{bid}/{b}/{phaseStr f.phase}/{f.req}/{f.resp}/{f.deadline}/{boolStr f.firstPending}/{pend}/{cfgStr f.cfg}"

def dump (s : State) : String :=
  let fl := (liveIds s).filterMap fun id => (getFlow s id).map (flowStr id)
  s!"dump [{" ".intercalate fl}] | {summary s}"

def parseOp (ws : List String) : Option Op :=
  match ws with
  | ["c", a, p, now] =>
    match parseAddr a, hexToBytes p, now.toNat? with
    | some a, some p, some now => some (.client a p now)
    | _, _, _ => none
  | ["b", f, p, now] =>
    match f.toNat?, hexToBytes p, now.toNat? with
    | some f, some p, some now => some (.backend f p now)
    | _, _, _ => none
  | ["r", f, bid, a, now] =>
    match f.toNat?, parseAddr a, now.toNat? with
    | some f, some a, some now => some (.resolved f bid a now)
    | _, _, _ => none
  | "cfg" :: rest => (parseCfg rest).map Op.setCluster
  | ["maxflows", n] => n.toNat?.map Op.setMaxFlows
  | ["maxrx", n] => n.toNat?.map Op.setMaxRx
  | ["drain"] => some .drain
  | ["to", now] => now.toNat?.map Op.timeout
  | ["abort", f] => f.toNat?.map Op.abort
  | ["closeall"] => some .closeAll
  | _ => none

structure DState where
  s : State
  c : Canon
  /-- the shell model run alongside the manager (its routing decisions are printed in ghost mode) -/
  sh : Shell
  cur : Option Addr

def listener0 : Addr := { v6 := false, ip := [0, 0, 0, 0], port := 0 }

def emptyCfg : Cfg :=
  { cluster := "", withPort := false, responses := 0, requests := 0, frontTo := 0, backTo := 0,
    sendPP := false, ppEvery := false }

def emptyCanon : Canon := { seen := [], ghost := false, incs := [], nextInc := 0, lastSel := none }

/-- rig sugar (driver level only): `rr <backend-id> <addr> <now>` resolves the most
    recently selected flow; `bi <incarnation> <hex> <now>` is a backend datagram on
    the flow admitted `incarnation`-th (an unused id when that flow is gone); `ra` is
    the shell aborting the flow admitted by the most recent client datagram (no backend
    for the cluster, or the upstream socket could not be opened) -/
def parseSugar (c : Canon) (ws : List String) : Option Op :=
  match ws with
  | ["rr", bid, a, now] =>
    match parseAddr a, now.toNat? with
    | some a, some now => some (.resolved (c.lastSel.getD 999999) bid a now)
    | _, _ => none
  | ["ra"] => some (.abort (c.selAt.getD 999999))
  | ["bi", inc, p, now] =>
    match inc.toNat?, hexToBytes p, now.toNat? with
    | some inc, some p, some now =>
      let f := match c.incs.find? (·.2 = inc) with
        | some q => q.1
        | none => 999999
      some (.backend f p now)
    | _, _, _ => none
  | _ => none

def stepLine (st : DState) (line : String) : DState × List String :=
  match words line with
  | "new" :: mf :: mr :: rest =>
    match mf.toNat?, mr.toNat?, parseCfg rest with
    | some mf, some mr, some cfg =>
      let s := State.new cfg mf mr
      ({ s, c := emptyCanon, sh := Shell.new listener0, cur := none }, ["new | " ++ summary s])
    | _, _, _ => (st, ["bad-op"])
  | ["dump"] => (st, [dump st.s])
  | ["ghost", "on"] => ({ st with c := { st.c with ghost := true } }, ["ghost"])
  | ["shellreset"] => ({ st with sh := Shell.new listener0, cur := none }, ["shellreset"])
  | ws =>
    match (parseOp ws).orElse (fun _ => parseSugar st.c ws) with
    | some op =>
      let (y, outs, routes) := Sys.step true { s := st.s, sh := st.sh, cur := st.cur } op
      -- `selAt` lives from the client datagram that admits a flow to the next client datagram
      let c0 := match op with
        | .client _ _ _ => { st.c with selAt := none }
        | _ => st.c
      let (c1, str) := outsStr c0 outs routes
      -- an admission aborted by the shell before any datagram went out never shows on the wire: it does
      -- not count as an incarnation for the rig
      let c' := if ws = ["ra"] ∧ st.c.selAt.isSome then { c1 with nextInc := c1.nextInc - 1, selAt := none } else c1
      ({ s := y.s, c := c', sh := y.sh, cur := y.cur }, [str ++ " | " ++ summary y.s])
    | none => (st, ["bad-op"])

def main : IO Unit :=
  runDriver stepLine { s := State.new emptyCfg 0 0, c := emptyCanon, sh := Shell.new listener0, cur := none }
