import Sozu.Common.Proto
import Sozu.H2Flow.Model
open Sozu Sozu.Proto Sozu.H2Flow

/-- driver state: a bare converter rig (`k`, `raw` = bytes injected into
    `converter.out` before the next prepare), a connection ledger, a receiver. -/
structure St where
  k : KState
  raw : Bytes
  conn : Conn
  recv : Recv

def St.init : St := { k := ⟨[], false⟩, raw := [], conn := Conn.new true, recv := Recv.new 65535 100 }

def frameStr (f : Frame) : String := s!"{f.ty}:{f.flags}:{f.sid}:{bytesToHex f.payload}"

def blockStr : Block → String
  | .chunk d => s!"c:{bytesToHex d}"
  | .flags eh es => s!"f:{boolStr eh}{boolStr es}"
  | .hdr _ => "h"
  | .chunkHeader => "k"

def listStr (l : List String) : String := if l.isEmpty then "-" else ",".intercalate l

def parseBool (s : String) : Option Bool := if s = "1" then some true else if s = "0" then some false else none

def parseBlock : List String → Option Block
  | ["chunk", h] => (hexToBytes h).map Block.chunk
  | ["flags", a, b] => match parseBool a, parseBool b with
    | some a, some b => some (.flags a b)
    | _, _ => none
  | ["hdr", _, _, e] => (hexToBytes e).map Block.hdr
  | ["chunkhdr"] => some .chunkHeader
  | _ => none

def errStr : Err → String
  | .goawayProtocol => "goaway-protocol"
  | .goawayFlowControl => "goaway-flow-control"
  | .rstProtocol sid => s!"rst-protocol {sid}"
  | .rstFlowControl sid => s!"rst-flow-control {sid}"

def connDump (c : Conn) : String :=
  let ss := c.streams.map fun s => s!"{s.sid}:{s.window}:{bodyLen s.k.blocks}:{boolStr s.k.dead}"
  s!"cw={c.window} iw={c.peerInitWin} mfs={c.peerMfs} last={c.lastStreamId} dead={boolStr c.dead} streams={listStr ss}"

def outStr : Out → String
  | .ok => "ok"
  | .err e => "err " ++ errStr e
  | .opened sid => s!"opened {sid}"
  | .refused => "refused"
  | .frames fs => "frames " ++ listStr (fs.map frameStr)
  | .closed => "closed"

def recvDump (r : Recv) : String :=
  s!"since={r.since} pending={listStr (r.pending.map fun p => s!"{p.1}:{p.2}")}"

def parseOp : List String → Option Op
  | ["sinit", v] => v.toNat?.map Op.settingsInitWin
  | ["smfs", v] => v.toNat?.map Op.settingsMfs
  | ["smax", v] => v.toNat?.map Op.settingsMaxStreams
  | ["wu", s, i] => match s.toNat?, i.toNat? with
    | some s, some i => some (.windowUpdate s i)
    | _, _ => none
  | ["openp", s] => s.toNat?.map Op.openPeer
  | ["openl", w] => w.toNat?.map Op.openLocal
  | "push" :: s :: rest => match s.toNat?, parseBlock rest with
    | some s, some b => some (.push s b)
    | _, _ => none
  | ["write", s, i] => match s.toNat?, parseBool i with
    | some s, some i => some (.write s i)
    | _, _ => none
  | ["close", s] => s.toNat?.map Op.close
  | _ => none

def stepLine (st : St) (line : String) : St × List String :=
  match words line with
  | ["new"] => (St.init, ["ok"])
  | ["raw", h] => match hexToBytes h with
    | some b => ({ st with raw := st.raw ++ b }, ["ok"])
    | none => (st, ["bad-op"])
  | ["prepare", m, w, s, i] =>
    match m.toNat?, w.toInt?, s.toNat?, parseBool i with
    | some m, some w, some s, some i =>
      let r := prepare { mfs := m, window := w, sid := s, out := st.raw, incr := i, abort := false } st.k
      ({ st with k := r.2.2, raw := [] },
       [s!"w={r.1.window} dead={boolStr r.2.2.dead} frames={listStr (r.2.1.map frameStr)} rest={listStr (r.2.2.blocks.map blockStr)}"])
    | _, _, _, _ => (st, ["bad-op"])
  | ["nextid", l, c] =>
    match l.toNat?, parseBool c with
    | some l, some c =>
      (st, [match nextStreamId l c with
            | some (i, n) => s!"some {i} {n}"
            | none => "none"])
    | _, _ => (st, ["bad-op"])
  | ["conn", c] => match parseBool c with
    | some c => ({ st with conn := Conn.new c }, ["ok " ++ connDump (Conn.new c)])
    | none => (st, ["bad-op"])
  | ["recv", icw, ms] => match icw.toNat?, ms.toNat? with
    | some icw, some ms => ({ st with recv := Recv.new icw ms }, ["ok " ++ recvDump (Recv.new icw ms)])
    | _, _ => (st, ["bad-op"])
  | ["rdata", s, l, k, e] => match s.toNat?, l.toNat?, parseBool k, parseBool e with
    | some s, some l, some k, some e =>
      let r := rstep st.recv (.data s l k e)
      ({ st with recv := r }, ["ok " ++ recvDump r])
    | _, _, _, _ => (st, ["bad-op"])
  | "rflush" :: ids =>
    match ids.mapM String.toNat? with
    | some ids =>
      let r := flushWu st.recv ids
      ({ st with recv := r.1 }, [s!"wu={listStr (r.2.map fun p => s!"{p.1}:{p.2}")} " ++ recvDump r.1])
    | none => (st, ["bad-op"])
  | ws =>
    match parseBlock ws with
    | some b => ({ st with k := { st.k with blocks := st.k.blocks ++ [b] } }, ["ok"])
    | none =>
      match parseOp ws with
      | some op =>
        let r := step st.conn op
        ({ st with conn := r.1 }, [outStr r.2 ++ " " ++ connDump r.1])
      | none => (st, ["bad-op"])

def main : IO Unit := runDriver stepLine St.init
