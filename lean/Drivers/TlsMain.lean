import Sozu.Common.Proto
import Sozu.Tls.Model
open Sozu Sozu.Proto Sozu.Tls

/-
Line protocol of the Tls area (C17).

  new <probe> <probe> …                 reset; the probe grid (hex server names)
  newe <probe> …                        same, end-to-end mode: the dump is only the certificate a
                                        TLS client is presented (`c<fp>` / `D` default / `N` none)
  add <fp> <exp> <names>                add_certificate   (names: `_` | hex,hex,…  `-` = "")
  addbad                                add_certificate with an unparsable PEM
  rm <fpref>                            remove_certificate (RemoveCertificate.fingerprint decoded first)
  <fpref> = <id>[:L|U|M] hex text of certificate id in lower/UPPER/mixed case (same bytes),
            x:e empty text (decodes to the empty fingerprint), x:o odd length, x:n / x not hex
  repl <old|x> <fp> <exp> <names>       replace_certificate (`x` = unparsable old fingerprint)
  replbad <old|x>                       replace_certificate with an unparsable new PEM
  replsplit <old|x> <fp> <exp> <names>  the two halves of replace_certificate with a probe between
  sni <authority> <sni> <names>         the two router predicates (stateless)
  route <sni|none> <authority>          the gate of route_from_request on the current state
  routeh2 <sni> <auth>,<auth>,…         the same for the streams of one HTTP/2 connection (e2e)
  nosni                                 resolve for a ClientHello without server_name
  chain <leaf> <links>                  the chain presented for a certificate added with
                                        certificate_chain entries (stateless)

Every state-changing op answers `<result> | <grid dump>`; the dump has one
field per probe: `<wildcard lookup>/<exact lookup>/<served>/<names_for_sni>`.
No regex keys are ever sent (names with `/` are not generated), so the regex
oracle of the trie is the constant `false`.
-/

def noRe : Trie.Bytes → Trie.Bytes → Bool := fun _ _ => false

structure D where
  s : State
  grid : List (List Nat)
  /-- end-to-end mode (`newe`): only what a TLS client can see is printed -/
  short : Bool := false

def kvStr : Option (List Nat × Nat) → String
  | none => "-"
  | some (k, v) => s!"{v}@{bytesToHex k}"

def namesStr : Option (List (List Nat)) → String
  | none => "-"
  | some [] => "_"
  | some ns => "+".intercalate (ns.map bytesToHex)

def servedStr : Served → String
  | .cert fp => s!"c{fp}"
  | .default => "D"
  | .nothing => "N"

def probeStr (s : State) (n : List Nat) : String :=
  s!"{kvStr (domainLookup noRe s n true)}/{kvStr (domainLookup noRe s n false)}/{servedStr (resolve noRe s (some n))}/{namesStr (namesForSni noRe s n)}"

def dump (d : D) (s : State) : String :=
  if d.short then " ".intercalate (d.grid.map fun n => servedStr (resolve noRe s (some n)))
  else " ".intercalate (d.grid.map (probeStr s))

def parseNames (w : String) : Option (List (List Nat)) :=
  if w = "_" then some []
  else (w.splitOn ",").mapM hexToBytes

/-- an id nobody has: the empty fingerprint (`hex::decode("")` succeeds) -/
def emptyFp : Nat := 4294967295

/-- a fingerprint token `<id>[:L|U|M]` (the text is lower / upper / mixed-case hex of
    certificate `id`: the same decoded bytes) or `x[:e|o|n]` (`e` = empty text = the
    empty fingerprint; `o` odd length, `n` not hex, bare `x`: does not decode).
    `some none` = the text does not decode. -/
def parseOld (w : String) : Option (Option Nat) :=
  match w.splitOn ":" with
  | ["x"] => some none
  | ["x", "e"] => some (some emptyFp)
  | ["x", _] => some none
  | [n] => n.toNat?.map some
  | [n, _] => n.toNat?.map some
  | _ => none

def parseCert (fp e ns : String) : Option Cert :=
  match fp.toNat?, e.toInt?, parseNames ns with
  | some fp, some e, some ns => some { fp := fp, names := ns, exp := e }
  | _, _, _ => none

def outStr : Out → String
  | .fp n => s!"fp {n}"
  | .ok => "ok"
  | .err => "err"
  | .dead => "panic"

def doOp (d : D) (op : Op) : D × List String :=
  let r := step d.s op
  if r.2 = Out.dead then ({ d with s := r.1 }, ["panic"])
  else ({ d with s := r.1 }, [s!"{outStr r.2} | {dump d r.1}"])

def stepLine (d : D) (line : String) : D × List String :=
  match words line with
  | "new" :: probes =>
    match probes.mapM hexToBytes with
    | some g => let d' : D := { s := init, grid := g }; (d', [s!"new | {dump d' d'.s}"])
    | none => (d, ["bad-op"])
  | "newe" :: probes =>
    match probes.mapM hexToBytes with
    | some g => let d' : D := { s := init, grid := g, short := true }; (d', [s!"new | {dump d' d'.s}"])
    | none => (d, ["bad-op"])
  | ["chain", leaf, links] =>
    -- links: `_` or comma separated: an id, `x` (block that does not parse), `g` (text without markers: no block)
    let parsed : Option (List Link) :=
      if links = "_" then some []
      else (links.splitOn ",").filter (· ≠ "g") |>.mapM fun w =>
        if w = "x" then some Link.bad else w.toNat?.map Link.cert
    match leaf.toNat?, parsed with
    | some leaf, some ls =>
      match assembleChain leaf ls with
      | some c => (d, ["chain " ++ " ".intercalate (c.map toString)])
      | none => (d, ["err"])
    | _, _ => (d, ["bad-op"])
  | ["sni", a, sni, ns] =>
    match hexToBytes a, hexToBytes sni, parseNames ns with
    | some a, some sni, some ns =>
      let m := matchesSni a sni
      let c := match matchedCertName a ns with | some e => bytesToHex e | none => "none"
      (d, [s!"m={boolStr m} c={c}"])
    | _, _, _ => (d, ["bad-op"])
  | ws =>
    if d.s.dead then (d, ["panic"]) else
    match ws with
    | "add" :: fp :: e :: ns :: _ =>
      match parseCert fp e ns with
      | some c => doOp d (.add c)
      | none => (d, ["bad-op"])
    | ["addbad"] => doOp d .addInvalid
    | ["rm", fp] =>
      match parseOld fp with
      | some (some fp) => doOp d (.remove fp)
      | some none => doOp d .removeInvalid
      | none => (d, ["bad-op"])
    | "repl" :: old :: fp :: e :: ns :: _ =>
      match parseOld old, parseCert fp e ns with
      | some old, some c => doOp d (.replace old c)
      | _, _ => (d, ["bad-op"])
    | ["replbad", old] =>
      match parseOld old with
      | some old => doOp d (.replaceInvalid old)
      | none => (d, ["bad-op"])
    | "replsplit" :: old :: fp :: e :: ns :: _ =>
      match parseOld old, parseCert fp e ns with
      | some old, some c =>
        match prepare c with
        | none => doOp d (.replace old c)
        | some c' =>
          -- the state between `add_certificate(new)` and `remove_certificate(old)`
          let mid := if old = some c'.fp then d.s else add d.s c'
          let r := step d.s (.replace old c)
          if r.2 = Out.dead then ({ d with s := r.1 }, ["panic"])
          else ({ d with s := r.1 }, [s!"{outStr r.2} | {dump d mid} || {dump d r.1}"])
      | _, _ => (d, ["bad-op"])
    | ["nosni"] => (d, [servedStr (resolve noRe d.s none)])
    | ["routeh2", sni, auths] =>
      -- several streams of one HTTP/2 connection: the SAN snapshot is taken once, at the handshake
      match hexToBytes sni, (auths.splitOn ",").mapM hexToBytes with
      | some sni, some auths =>
        let snap := snapshot noRe d.s (some sni)
        (d, ["allow=" ++ ",".intercalate (auths.map fun a => boolStr (routeAllowed true (some sni) snap a))])
      | _, _ => (d, ["bad-op"])
    | ["route", sni, a] =>
      let sni? : Option (Option (List Nat)) := if sni = "none" then some none else (hexToBytes sni).map some
      match sni?, hexToBytes a with
      | some sni, some a =>
        let snap := snapshot noRe d.s sni
        if d.short then (d, [s!"allow={boolStr (routeAllowed true sni snap a)}"])
        else (d, [s!"allow={boolStr (routeAllowed true sni snap a)} snap={boolStr snap.isSome}"])
      | _, _ => (d, ["bad-op"])
    | _ => (d, ["bad-op"])

def main : IO Unit := runDriver stepLine { s := init, grid := [] }
