import Sozu.Common.Proto
import Sozu.Backends.Model
open Sozu Sozu.Proto Sozu.Backends

/-
Line protocol of the Backends (C12) driver. One op line in, one line out:
`<result> | <dump of the op's cluster>` (`tick`: dump of clusters 0..3).

  new
  tick <d>
  add <c> <id> <addr> <sticky|-> <weight|-> <backup 0|1>
  rm <c> <addr>
  pol <c> <rr|rnd|ll|p2|hrw|mag> <conn|req|ct|->
  hc <c> <addr> <ok 0|1> <threshold>
  hcoff <c>
  fail <c> <i> <w> | succ <c> <i> | inc <c> <i> | dec <c> <i> | closing <c> <i> | reqinc <c> <i> | reqdec <c> <i>
  close <c> <addr>
  sel <c> <key|-> <scores|-> <pref|->       scores = addr:weight:rank,...  (weight `n` = none)   pref = addr,addr,...
  sticky <c> <sticky-id>
-/

def natOpt (s : String) : Option (Option Nat) := if s = "-" then some none else s.toNat?.map some
def intOpt (s : String) : Option (Option Int) := if s = "-" || s = "n" then some none else s.toInt?.map some

def showOptNat : Option Nat → String
  | none => "-"
  | some n => toString n
def showOptInt : Option Int → String
  | none => "-"
  | some n => toString n

def showStatus : Status → String
  | .normal => "N"
  | .closing => "G"
  | .closed => "D"

def bref (b : Backend) : String := s!"{b.id}@{b.addr}"

def showBackend (now : Nat) (b : Backend) : String :=
  s!"{bref b} s={showStatus b.status} h={boolStr b.healthy}:{b.succ}:{b.fails} r={b.retry.tries}:{b.retry.wait}:{boolStr (b.retry.okay now)} co={boolStr (canOpen now b)} av={boolStr (isAvailable b)} n={b.conns} q={b.reqs} bk={boolStr b.backup} st={showOptNat b.sticky} w={showOptInt b.weight}"

def showCluster (s : State) (c : Nat) : String :=
  match s.get c with
  | none => s!"c{c}~"
  | some l =>
    let pol := match l.policy with
      | .maglev built _ => "<mag:" ++ ",".intercalate (built.map toString) ++ ">"
      | _ => ""
    s!"c{c}{pol}[" ++ ";".intercalate (l.backends.map (showBackend s.now)) ++ "]"

def showOut : Out → String
  | .ok => "ok"
  | .absent => "absent"
  | .count none => "none"
  | .count (some n) => toString n
  | .flag b => boolStr b
  | .ids [] => "ids:-"
  | .ids l => "ids:" ++ ",".intercalate (l.map toString)
  | .sel [] _ _ => "none"
  | .sel [b] _ true => "sticky " ++ bref b
  | .sel [b] _ false => "some " ++ bref b
  | .sel l _ _ => "any " ++ ",".intercalate (l.map bref)

def parseScores (s : String) : Option (List ((Nat × Option Int) × Nat)) :=
  if s = "-" then some [] else
  (s.splitOn ",").mapM fun t =>
    match t.splitOn ":" with
    | [a, w, r] =>
      match a.toNat?, intOpt w, r.toNat? with
      | some a, some w, some r => some ((a, w), r)
      | _, _, _ => none
    | _ => none

def parseNats (s : String) : Option (List Nat) :=
  if s = "-" then some [] else (s.splitOn ",").mapM (·.toNat?)

def scoreFn (tbl : List ((Nat × Option Int) × Nat)) : Nat → Nat → Option Int → Nat :=
  fun _ a w => ((tbl.find? (fun p => p.1 == (a, w))).map (·.2)).getD 0

def parsePolicy : String → Option PolicyKind
  | "rr" => some .roundRobin
  | "rnd" => some .random
  | "ll" => some .leastLoaded
  | "p2" => some .powerOfTwo
  | "hrw" => some .hrw
  | "mag" => some .maglev
  | _ => none

def parseMetric : String → Option (Option Metric)
  | "-" => some none
  | "conn" => some (some .connections)
  | "req" => some (some .requests)
  | "ct" => some (some .connectionTime)
  | _ => none

def parseBool : String → Option Bool
  | "0" => some false
  | "1" => some true
  | _ => none

/-- parsed op and the cluster to dump (`none` = all) -/
def parseOp (ws : List String) : Option (Op × Option Nat) :=
  match ws with
  | ["tick", d] => d.toNat?.map fun d => (Op.tick d, none)
  | ["add", c, id, a, st, w, bk] =>
    match c.toNat?, id.toNat?, a.toNat?, natOpt st, intOpt w, parseBool bk with
    | some c, some id, some a, some st, some w, some bk => some (Op.add c id a st w bk, some c)
    | _, _, _, _, _, _ => none
  | ["rm", c, a] =>
    match c.toNat?, a.toNat? with
    | some c, some a => some (Op.remove c a, some c)
    | _, _ => none
  | ["pol", c, k, m] =>
    match c.toNat?, parsePolicy k, parseMetric m with
    | some c, some k, some m => some (Op.setPolicy c k m, some c)
    | _, _, _ => none
  | ["hc", c, a, ok, thr] =>
    match c.toNat?, a.toNat?, parseBool ok, thr.toNat? with
    | some c, some a, some ok, some thr => some (Op.health c a ok thr, some c)
    | _, _, _, _ => none
  | ["hcoff", c] => c.toNat?.map fun c => (Op.healthOff c, some c)
  | ["fail", c, i, w] =>
    match c.toNat?, i.toNat?, w.toNat? with
    | some c, some i, some w => some (Op.fail c i w, some c)
    | _, _, _ => none
  | ["close", c, a] =>
    match c.toNat?, a.toNat? with
    | some c, some a => some (Op.closeAddr c a, some c)
    | _, _ => none
  | ["sel", c, k, sc, pf] =>
    match c.toNat?, natOpt k, parseScores sc, parseNats pf with
    | some c, some k, some sc, some pf =>
      some (Op.select c { key := k, score := scoreFn sc, pref := pf, rnd := 0 }, some c)
    | _, _, _, _ => none
  | ["sticky", c, st] =>
    match c.toNat?, st.toNat? with
    | some c, some st => some (Op.sticky c st { key := none, score := fun _ _ _ => 0, pref := [], rnd := 0 }, some c)
    | _, _ => none
  | [op, c, i] =>
    match c.toNat?, i.toNat? with
    | some c, some i =>
      match op with
      | "succ" => some (Op.succeed c i, some c)
      | "inc" => some (Op.inc c i, some c)
      | "dec" => some (Op.dec c i, some c)
      | "closing" => some (Op.closing c i, some c)
      | "reqinc" => some (Op.reqInc c i, some c)
      | "reqdec" => some (Op.reqDec c i, some c)
      | _ => none
    | _, _ => none
  | _ => none

def stepLine (s : State) (line : String) : State × List String :=
  match words line with
  | ["new"] => (State.init, ["new"])
  | ws =>
    match parseOp ws with
    | none => (s, ["bad-op"])
    | some (op, dc) =>
      let (s', o) := step s op
      let d := match dc with
        | some c => showCluster s' c
        | none => " ".intercalate ((List.range 4).map (showCluster s'))
      (s', [showOut o ++ " | " ++ d])

def main : IO Unit := runDriver stepLine State.init
