import Sozu.Common.Proto
import Sozu.Backends.Model
open Sozu Sozu.Proto Sozu.Backends

/-
Line protocol of the Backends (C12) driver. One op line in, one line out:
`<result> | <dump of the op's cluster>` (`tick`: dump of clusters 0..3).

  new
  tick <d>
  add <c> <id> <addr> <sticky|-> <weight|-> <backup 0|1>
  rm <c> <addr>
  pol <c> <rr|rnd|ll|p2|hrw|mag> <conn|req|ct|->
  hc <c> <addr> <ok 0|1> <threshold>
  hcoff <c>
  fail <c> <i> <w> | succ <c> <i> | inc <c> <i> | dec <c> <i> | closing <c> <i> | reqinc <c> <i> | reqdec <c> <i>
  close <c> <addr>
  sel <c> <key|-> <scores|-> <pref|->       scores = addr:weight:rank,...  (weight `n` = none)   pref = addr,addr,...
  sticky <c> <sticky-id>
-/

def natOpt (s : String) : Option (Option Nat) := if s = "-" then some none else s.toNat?.map some
def intOpt (s : String) : Option (Option Int) := if s = "-" || s = "n" then some none else s.toInt?.map some

def showOptNat : Option Nat → String
  | none => "-"
  | some n => toString n
def showOptInt : Option Int → String
  | none => "-"
  | some n => toString n

def showStatus : Status → String
  | .normal => "N"
  | .closing => "G"
  | .closed => "D"

def bref (b : Backend) : String := s!"{b.id}@{b.addr}"

def showBackend (now : Nat) (b : Backend) : String :=
  s!"{bref b} s={showStatus b.status} h={boolStr b.healthy}:{b.succ}:{b.fails} r={b.retry.tries}:{b.retry.wait}:{boolStr (b.retry.okay now)} co={boolStr (canOpen now b)} av={boolStr (isAvailable b)} n={b.conns} q={b.reqs} bk={boolStr b.backup} st={showOptNat b.sticky} w={showOptInt b.weight}"

def showCluster (s : State) (c : Nat) : String :=
  match s.get c with
  | none => s!"c{c}~"
  | some l =>
    let pol := match l.policy with
      | .maglev built _ => "<mag:" ++ ",".intercalate (built.map toString) ++ ">"
      | _ => ""
    s!"c{c}{pol}[" ++ ";".intercalate (l.backends.map (showBackend s.now)) ++ "]"

def showOut : Out → String
  | .ok => "ok"
  | .absent => "absent"
  | .count none => "none"
  | .count (some n) => toString n
  | .flag b => boolStr b
  | .ids [] => "ids:-"
  | .ids l => "ids:" ++ ",".intercalate (l.map toString)
  | .sel [] _ _ => "none"
  | .sel [b] _ true => "sticky " ++ bref b
  | .sel [b] _ false => "some " ++ bref b
  | .sel l _ _ => "any " ++ ",".intercalate (l.map bref)

def parseScores (s : String) : Option (List ((Nat × Option Int) × Nat)) :=
  if s = "-" then some [] else
  (s.splitOn ",").mapM fun t =>
    match t.splitOn ":" with
    | [a, w, r] =>
      match a.toNat?, intOpt w, r.toNat? with
      | some a, some w, some r => some ((a, w), r)
      | _, _, _ => none
    | _ => none

def parseNats (s : String) : Option (List Nat) :=
  if s = "-" then some [] else (s.splitOn ",").mapM (·.toNat?)

def scoreFn (tbl : List ((Nat × Option Int) × Nat)) : Nat → Nat → Option Int → Nat :=
  fun _ a w => ((tbl.find? (fun p => p.1 == (a, w))).map (·.2)).getD 0

def parsePolicy : String → Option PolicyKind
  | "rr" => some .roundRobin
  | "rnd" => some .random
  | "ll" => some .leastLoaded
  | "p2" => some .powerOfTwo
  | "hrw" => some .hrw
  | "mag" => some .maglev
  | _ => none

def parseMetric : String → Option (Option Metric)
  | "-" => some none
  | "conn" => some (some .connections)
  | "req" => some (some .requests)
  | "ct" => some (some .connectionTime)
  | _ => none

def parseBool : String → Option Bool
  | "0" => some false
  | "1" => some true
  | _ => none

/-- parsed op and the cluster to dump (`none` = all) -/
def parseOp (ws : List String) : Option (Op × Option Nat) :=
  match ws with
  | ["tick", d] => d.toNat?.map fun d => (Op.tick d, none)
  | ["add", c, id, a, st, w, bk] =>
    match c.toNat?, id.toNat?, a.toNat?, natOpt st, intOpt w, parseBool bk with
    | some c, some id, some a, some st, some w, some bk => some (Op.add c id a st w bk, some c)
    | _, _, _, _, _, _ => none
  | ["rm", c, a] =>
    match c.toNat?, a.toNat? with
    | some c, some a => some (Op.remove c a, some c)
    | _, _ => none
  | ["pol", c, k, m] =>
    match c.toNat?, parsePolicy k, parseMetric m with
    | some c, some k, some m => some (Op.setPolicy c k m, some c)
    | _, _, _ => none
  | ["hc", c, a, ok, thr] =>
    match c.toNat?, a.toNat?, parseBool ok, thr.toNat? with
    | some c, some a, some ok, some thr => some (Op.health c a ok thr, some c)
    | _, _, _, _ => none
  | ["hcoff", c] => c.toNat?.map fun c => (Op.healthOff c, some c)
  | ["fail", c, i, w] =>
    match c.toNat?, i.toNat?, w.toNat? with
    | some c, some i, some w => some (Op.fail c i w, some c)
    | _, _, _ => none
  | ["close", c, a] =>
    match c.toNat?, a.toNat? with
    | some c, some a => some (Op.closeAddr c a, some c)
    | _, _ => none
  | ["sel", c, k, sc, pf] =>
    match c.toNat?, natOpt k, parseScores sc, parseNats pf with
    | some c, some k, some sc, some pf =>
      some (Op.select c { key := k, score := scoreFn sc, pref := pf, rnd := 0 }, some c)
    | _, _, _, _ => none
  | ["sticky", c, st] =>
    match c.toNat?, st.toNat? with
    | some c, some st => some (Op.sticky c st { key := none, score := fun _ _ _ => 0, pref := [], rnd := 0 }, some c)
    | _, _ => none
  | [op, c, i] =>
    match c.toNat?, i.toNat? with
    | some c, some i =>
      match op with
      | "succ" => some (Op.succeed c i, some c)
      | "inc" => some (Op.inc c i, some c)
      | "dec" => some (Op.dec c i, some c)
      | "closing" => some (Op.closing c i, some c)
      | "reqinc" => some (Op.reqInc c i, some c)
      | "reqdec" => some (Op.reqDec c i, some c)
      | _ => none
    | _, _ => none
  | _ => none

/-! ### composite ops of the black-box run (`backends_bb`)

One `req` line is what one proxied HTTP request makes the worker do, as a
sequence of ordinary model ops (so every theorem about `run` applies to it):
selection (`sticky` or `select`), `inc` on the selected backend (`try_connect`),
then either `succeed` (+ `dec` when the client connection is closed again) or —
for an address that refuses connections (addresses >= `deadFrom`) — `fail` with
the deterministic first waits, `dec`, and a new attempt, at most `CONN_RETRIES`
times. A `fail` that would draw a random wait (third consecutive failure) makes
the rest of the case `nondet`.

  req <c> <cookie|-> <hold|close|bclose>   -> `some id@addr` | `none`   (bclose: the backend closes, same count effect as close)
  drop <k>                             close the k-th held client connection
  wait                                 one back-off second passes
-/

def deadFrom : Nat := 4
def connRetries : Nat := 3

structure DState where
  s : State
  /-- held connections: cluster, address, id; `none` = its backend was removed meanwhile -/
  held : List (Option (Nat × Nat × Nat))
  nondet : Bool

def indexOf (s : State) (c : Nat) (b : Backend) : Option Nat :=
  match s.get c with
  | none => none
  | some l => (l.backends.findIdx? (fun x => x.addr == b.addr && x.id == b.id))

def bbEnv : Env := { key := none, score := fun _ _ _ => 0, pref := [], rnd := 0 }

def outChoices : Out → List Backend
  | .sel l _ _ => l
  | _ => []

/-- `fuel` attempts left; returns the new state, the result text, whether a
    connection stays open on `(addr, id)`, and the nondeterminism flag -/
def reqLoop (c : Nat) (cookie : Option Nat) (hold : Bool) :
    Nat → State → State × String × Option (Nat × Nat × Nat) × Bool
  | 0, s => (s, "none", none, false)
  | fuel + 1, s =>
    let r := match cookie with
      | some st => step s (.sticky c st bbEnv)
      | none => step s (.select c bbEnv)
    match outChoices r.2 with
    | [] => (r.1, "none", none, false)
    | b :: rest =>
      -- a policy with several possible results is outside the black-box run
      if !rest.isEmpty then (r.1, "nondet", none, true) else
      match indexOf r.1 c b with
      | none => (r.1, "bad-state", none, true)
      | some i =>
        let s1 := (step r.1 (.inc c i)).1
        if b.addr ≥ deadFrom then
          let takes := b.retry.okay s1.now
          if takes && b.retry.tries ≥ 2 then (s1, "nondet", none, true) else
          let s2 := (step s1 (.fail c i 1)).1
          let s3 := (step s2 (.dec c i)).1
          reqLoop c cookie hold fuel s3
        else
          let s2 := (step s1 (.succeed c i)).1
          if hold then (s2, "some " ++ bref b, some (c, b.addr, b.id), false)
          else ((step s2 (.dec c i)).1, "some " ++ bref b, none, false)

def dropHeld (d : DState) (k : Nat) : DState × String :=
  match d.held[k]? with
  | none => (d, "absent")
  | some h =>
    let held := d.held.eraseIdx k
    match h with
    | none => ({ d with held := held }, "ok")
    | some (c, a, id) =>
      match d.s.get c with
      | none => ({ d with held := held }, "ok")
      | some l =>
        match l.backends.findIdx? (fun x => x.addr == a && x.id == id) with
        | none => ({ d with held := held }, "ok")
        | some i => ({ d with s := (step d.s (.dec c i)).1, held := held }, "ok")

def stepLine (d : DState) (line : String) : DState × List String :=
  match words line with
  | ["new"] => ({ s := State.init, held := [], nondet := false }, ["new"])
  | ws =>
    if d.nondet then (d, ["nondet"]) else
    match ws with
    | ["req", c, ck, h] =>
      match c.toNat?, natOpt ck, (if h = "hold" then some true else if h = "close" || h = "bclose" then some false else none) with
      | some c, some ck, some hold =>
        let (s', res, keep, nd) := reqLoop c ck hold connRetries d.s
        let held := match keep with
          | some k => d.held ++ [some k]
          | none => d.held
        ({ s := s', held := held, nondet := nd }, [res ++ " | " ++ showCluster s' c])
      | _, _, _ => (d, ["bad-op"])
    | ["drop", k] =>
      match k.toNat? with
      | some k => let (d', r) := dropHeld d k; (d', [r ++ " | " ++ showCluster d'.s 0])
      | none => (d, ["bad-op"])
    | ["wait"] =>
      let s' := (step d.s (.tick 1)).1
      ({ d with s := s' }, ["ok | " ++ showCluster s' 0])
    | _ =>
      match parseOp ws with
      | none => (d, ["bad-op"])
      | some (op, dc) =>
        let (s', o) := step d.s op
        -- a removed address orphans the connections held on it
        let held := match op with
          | .remove c a => d.held.map (fun h => match h with
              | some (c', a', id) => if c' == c && a' == a then none else some (c', a', id)
              | none => none)
          | _ => d.held
        let dd := match dc with
          | some c => showCluster s' c
          | none => " ".intercalate ((List.range 4).map (showCluster s'))
        ({ d with s := s', held := held }, [showOut o ++ " | " ++ dd])

def main : IO Unit := runDriver stepLine { s := State.init, held := [], nondet := false }
