import Sozu.Common.KMap
import Sozu.Generated.Consts
/-
Model of `lib/src/backends.rs` (`Backend`, `BackendList`, `BackendMap`),
`lib/src/load_balancing.rs` (RoundRobin, Random, LeastLoaded, PowerOfTwo,
Rendezvous/HRW, Maglev), `lib/src/retry.rs` (`ExponentialBackoffPolicy`) and the
healthy/unhealthy hysteresis of `HealthState` that eligibility reads.

Transcribed branch for branch. External things are inputs:
* time is the explicit `now : Nat` (seconds); `last_try.elapsed()` is `now - last`;
* the random back-off wait chosen by `fail()` is the op's input `w`;
* the random index of `Random` / the coin of `PowerOfTwo` is `Env.rnd`
  (`lbChoices` returns every backend the real code may return, `pick` chooses);
* the HRW score `-weight / ln(hash(seed, key, addr))` is the opaque total
  function `Env.score key addr weight` (only its order matters);
* the Maglev table is **not** rebuilt here: `rebuild` is modelled by its
  postcondition (every table entry indexes into the captured address list
  `built`). What the lookup reads from the table for one key — the distinct
  addresses met when probing forward from `key % M` — is the input `Env.pref`;
  entries of `pref` outside `built` are skipped exactly as
  `backend_addrs.get(idx) == None` is;
* `LoadMetric::ConnectionTime` (peak-EWMA float, real clock) is opaque: any
  candidate may be returned.
Backend ids, addresses, sticky ids, cluster ids are `Nat` identities.
-/
namespace Sozu.Backends

inductive Status where
  | normal | closing | closed
deriving DecidableEq, Repr

/-- `ExponentialBackoffPolicy` -/
structure Retry where
  max : Nat
  tries : Nat
  wait : Nat
  last : Nat
deriving DecidableEq, Repr

/-- `ExponentialBackoffPolicy::new(6)` as built by `Backend::new` at time `now` -/
def Retry.new (now : Nat) : Retry := { max := Consts.backendRetryMaxTries, tries := 0, wait := 0, last := now }

/-- `can_try() == Some(OKAY)`: `last_try.elapsed() >= wait` -/
def Retry.okay (r : Retry) (now : Nat) : Bool := decide (now - r.last ≥ r.wait)

/-- `fail()`; `w` is the randomly drawn wait (seconds) -/
def Retry.fail (r : Retry) (now w : Nat) : Retry :=
  if now - r.last < r.wait then r
  else { r with wait := w, last := now, tries := min (r.tries + 1) r.max }

/-- `succeed()` -/
def Retry.succeed (r : Retry) (now : Nat) : Retry := { r with wait := 0, last := now, tries := 0 }

/-- `is_down()` -/
def Retry.isDown (r : Retry) : Bool := decide (r.tries ≥ r.max)

structure Backend where
  id : Nat
  addr : Nat
  sticky : Option Nat
  weight : Option Int
  backup : Bool
  status : Status
  healthy : Bool
  succ : Nat
  fails : Nat
  retry : Retry
  conns : Nat
  reqs : Nat
deriving DecidableEq, Repr

/-- `Backend::new` -/
def Backend.new (now id addr : Nat) (sticky : Option Nat) (weight : Option Int) (backup : Bool) : Backend :=
  { id, addr, sticky, weight, backup, status := .normal, healthy := true, succ := 0, fails := 0,
    retry := Retry.new now, conns := 0, reqs := 0 }

/-- `can_open` -/
def canOpen (now : Nat) (b : Backend) : Bool :=
  if !b.healthy then false else (b.status == .normal && b.retry.okay now)

/-- `is_available` -/
def isAvailable (b : Backend) : Bool := b.healthy && b.status == .normal && !b.retry.isDown

/-- `inc_connections` -/
def incConn (b : Backend) : Backend × Option Nat :=
  if b.status = .normal then ({ b with conns := b.conns + 1 }, some (b.conns + 1)) else (b, none)

/-- the guarded decrement `if self.active_connections > 0 { self.active_connections -= 1 }` -/
def decN (b : Backend) : Nat := if b.conns > 0 then b.conns - 1 else b.conns

/-- `dec_connections` -/
def decConn (b : Backend) : Backend × Option Nat :=
  match b.status with
  | .normal => ({ b with conns := decN b }, some (decN b))
  | .closed => (b, none)
  | .closing =>
    if decN b = 0 then ({ b with conns := decN b, status := .closed }, none)
    else ({ b with conns := decN b }, some (decN b))

def setClosing (b : Backend) : Backend := { b with status := .closing }

/-- `HealthState::record_success` -/
def recordSuccess (b : Backend) (thr : Nat) : Backend × Bool :=
  let b1 := { b with fails := 0, succ := b.succ + 1 }
  if !b.healthy && b1.succ ≥ thr then ({ b1 with healthy := true }, true) else (b1, false)

/-- `HealthState::record_failure` -/
def recordFailure (b : Backend) (thr : Nat) : Backend × Bool :=
  let b1 := { b with succ := 0, fails := b.fails + 1 }
  if b.healthy && b1.fails ≥ thr then ({ b1 with healthy := false }, true) else (b1, false)

/-- one health-check result -/
def recordCheck (b : Backend) (ok : Bool) (thr : Nat) : Backend × Bool :=
  if ok then recordSuccess b thr else recordFailure b thr

/-- `HealthState::default()` written over a backend (`set_health_check_config(None)`) -/
def resetHealth (b : Backend) : Backend := { b with healthy := true, succ := 0, fails := 0 }

/-! ### load balancing policies -/

inductive Metric where
  | connections | requests | connectionTime
deriving DecidableEq, Repr

inductive PolicyKind where
  | roundRobin | random | leastLoaded | powerOfTwo | hrw | maglev
deriving DecidableEq, Repr

inductive Policy where
  | roundRobin (next : Nat)
  | random
  | leastLoaded (m : Metric)
  | powerOfTwo (m : Metric)
  | hrw (next : Nat)
  /-- `built` = `backend_addrs` captured at the last rebuild (empty ⇔ empty table) -/
  | maglev (built : List Nat) (next : Nat)
deriving DecidableEq, Repr

/-- the external inputs of one selection call -/
structure Env where
  key : Option Nat
  score : Nat → Nat → Option Int → Nat
  pref : List Nat
  rnd : Nat

/-- `RoundRobin::next_available_backend` -/
def rrPick (next : Nat) (cands : List Backend) : Option Backend × Nat :=
  if cands.isEmpty then (none, next)
  else (cands[next % cands.length]?, (next + 1) % cands.length)

/-- `Iterator::min_by_key`: the first minimum -/
def minFirst (m : Backend → Nat) : List Backend → Option Backend
  | [] => none
  | b :: t => some (t.foldl (fun best x => if m x < m best then x else best) b)

/-- the HRW loop: `Some((best, _)) if best >= score => keep`, else replace -/
def maxFirst (f : Backend → Nat) : List Backend → Option Backend
  | [] => none
  | b :: t => some (t.foldl (fun best x => if f best ≥ f x then best else x) b)

/-- one iteration of the `PowerOfTwo` loop over `(first, second)` -/
def p2cStep (m : Backend → Nat) (st : Option Backend × Option Backend) (b : Backend) :
    Option Backend × Option Backend :=
  match st with
  | (none, s) => (some b, s)
  | (some f, none) => if m f ≤ m b then (some f, some b) else (some b, some f)
  | (some f, some s) => if m f ≤ m b ∧ m b < m s then (some f, some b) else (some b, some f)

def p2cPair (m : Backend → Nat) (cands : List Backend) : Option Backend × Option Backend :=
  cands.foldl (p2cStep m) (none, none)

/-- the final `match (first, second)` of `PowerOfTwo`: what the coin may return -/
def p2cChoices (m : Backend → Nat) (cands : List Backend) : List Backend :=
  match p2cPair m cands with
  | (none, none) => []
  | (some b, none) => [b]
  | (none, some b) => [b]
  | (some a, some b) => [a, b]

def metricFn : Metric → Option (Backend → Nat)
  | .connections => some (·.conns)
  | .requests => some (·.reqs)
  | .connectionTime => none

/-- weight as `Random` reads it -/
def wOf (b : Backend) : Int := b.weight.getD (Consts.lbRandomDefaultWeight : Nat)

/-- `Random`: `WeightedIndex::new` fails on a negative weight, an all-zero total
    or an `i32` overflow (then uniform `choose`); otherwise only positive
    weights can be sampled. -/
def randomChoices (cands : List Backend) : List Backend :=
  let ws := cands.map wOf
  if ws.any (· < 0) || ws.sum == 0 || ws.sum > 2147483647 then cands
  else cands.filter (fun b => wOf b > 0)

/-- Maglev probe: first table address (in probe order) that is captured in
    `built` and carried by a candidate; the candidate is the first one at that
    address. -/
def maglevLookup (pref built : List Nat) (cands : List Backend) : Option Backend :=
  pref.findSome? (fun a => if built.contains a then cands.find? (fun b => b.addr == a) else none)

/-- `LoadBalancingAlgorithm::next_available_backend`: the new policy state and
    every backend the call may return (`[]` = `None`). -/
def lbChoices (p : Policy) (e : Env) (cands : List Backend) : Policy × List Backend :=
  match p with
  | .roundRobin n => let r := rrPick n cands; (.roundRobin r.2, r.1.toList)
  | .random => (.random, randomChoices cands)
  | .leastLoaded m =>
    (p, match metricFn m with
        | some f => (minFirst f cands).toList
        | none => cands)
  | .powerOfTwo m =>
    (p, match metricFn m with
        | some f => p2cChoices f cands
        | none => cands)
  | .hrw n =>
    match e.key with
    | none => let r := rrPick n cands; (.hrw r.2, r.1.toList)
    | some k => (.hrw n, (maxFirst (fun b => e.score k b.addr b.weight) cands).toList)
  | .maglev built n =>
    match e.key with
    | none => let r := rrPick n cands; (.maglev built r.2, r.1.toList)
    | some k =>
      if cands.isEmpty then (p, [])
      else
        let built' := if built.isEmpty then cands.map (·.addr) else built
        match maglevLookup e.pref built' cands with
        | some b => (.maglev built' n, [b])
        -- no table entry names a candidate: `backends[key % len]` (the key stays pinned)
        | none => (.maglev built' n, (cands[k % cands.length]?).toList)

/-- resolve the random input -/
def pick (choices : List Backend) (rnd : Nat) : Option Backend := choices[rnd % choices.length]?

/-- `LoadBalancingAlgorithm::rebuild` (only Maglev overrides it) -/
def Policy.rebuild (p : Policy) (bs : List Backend) : Policy :=
  match p with
  | .maglev _ n => .maglev (bs.map (·.addr)) n
  | p => p

/-! ### BackendList -/

structure BList where
  backends : List Backend
  policy : Policy
deriving DecidableEq, Repr

def BList.new : BList := { backends := [], policy := .random }

def updFirst (p : Backend → Bool) (f : Backend → Backend) : List Backend → List Backend
  | [] => []
  | b :: t => if p b then f b :: t else b :: updFirst p f t

def updAt (f : Backend → Backend) : Nat → List Backend → List Backend
  | _, [] => []
  | 0, b :: t => f b :: t
  | i + 1, b :: t => b :: updAt f i t

def sameIdent (nb x : Backend) : Bool := x.addr == nb.addr && x.id == nb.id

/-- `BackendList::add_backend`: update in place (keeping retry/health/counters) or push; then rebuild -/
def addBackend (l : BList) (nb : Backend) : BList :=
  let bs :=
    if l.backends.any (sameIdent nb) then
      updFirst (sameIdent nb) (fun o => { o with sticky := nb.sticky, weight := nb.weight, backup := nb.backup }) l.backends
    else l.backends ++ [nb]
  { backends := bs, policy := l.policy.rebuild bs }

/-- `BackendList::remove_backend` -/
def removeBackend (l : BList) (a : Nat) : BList × List Nat :=
  let removed := (l.backends.filter (fun b => b.addr == a)).map (·.id)
  let bs := l.backends.filter (fun b => !(b.addr == a))
  ({ backends := bs, policy := if removed.isEmpty then l.policy else l.policy.rebuild bs }, removed)

/-- `find_backend` -/
def findBackend (l : BList) (a : Nat) : Option Backend := l.backends.find? (fun b => b.addr == a)

/-- `find_sticky`: the first holder of the sticky id that can accept a connection -/
def findSticky (l : BList) (s now : Nat) : Option Backend :=
  l.backends.find? (fun b => b.sticky == some s && canOpen now b)

/-- `available_backends(backup)` -/
def available (now : Nat) (bs : List Backend) (backup : Bool) : List Backend :=
  bs.filter (fun b => b.backup == backup && canOpen now b)

/-- the fail-open candidate set -/
def failOpen (now : Nat) (bs : List Backend) : List Backend :=
  bs.filter (fun b => b.status == .normal && b.retry.okay now)

/-- the cascade primary → backup → fail-open of `next_available_backend_with_key` -/
def candidates (now : Nat) (bs : List Backend) : List Backend :=
  if !(available now bs false).isEmpty then available now bs false
  else if !(available now bs true).isEmpty then available now bs true
  else failOpen now bs

/-- `next_available_backend_with_key`: new list state and every possible result -/
def selectChoices (l : BList) (now : Nat) (e : Env) : BList × List Backend :=
  let c := candidates now l.backends
  if c.isEmpty then (l, [])
  else let r := lbChoices l.policy e c; ({ l with policy := r.1 }, r.2)

/-- `set_load_balancing_policy` -/
def setPolicy (l : BList) (k : PolicyKind) (m : Option Metric) : BList :=
  { l with policy :=
      match k with
      | .roundRobin => .roundRobin 0
      | .random => .random
      | .leastLoaded => .leastLoaded (m.getD .connections)
      | .powerOfTwo => .powerOfTwo (m.getD .connections)
      | .hrw => .hrw 0
      | .maglev => .maglev (l.backends.map (·.addr)) 0 }

/-- `BackendMap::close_backend_connection`: `find_backend(addr)` then `dec_connections` -/
def closeByAddr (l : BList) (a : Nat) : BList :=
  { l with backends := updFirst (fun b => b.addr == a) (fun b => (decConn b).1) l.backends }

/-! ### BackendMap and the op interpreter -/

structure State where
  now : Nat
  clusters : KMap Nat BList

def State.init : State := { now := 0, clusters := [] }

def State.get (s : State) (c : Nat) : Option BList := KMap.get? s.clusters c
def State.put (s : State) (c : Nat) (l : BList) : State := { s with clusters := KMap.set s.clusters c l }

inductive Op where
  | tick (d : Nat)
  | add (c id addr : Nat) (sticky : Option Nat) (weight : Option Int) (backup : Bool)
  | remove (c addr : Nat)
  | setPolicy (c : Nat) (k : PolicyKind) (m : Option Metric)
  /-- the call site `HealthChecker::record_check_result`: `find_backend(addr)` then record -/
  | health (c addr : Nat) (ok : Bool) (thr : Nat)
  /-- `set_health_check_config(c, None)` -/
  | healthOff (c : Nat)
  | fail (c i w : Nat)
  | succeed (c i : Nat)
  | inc (c i : Nat)
  | dec (c i : Nat)
  | closing (c i : Nat)
  | reqInc (c i : Nat)
  | reqDec (c i : Nat)
  | closeAddr (c addr : Nat)
  /-- `backend_from_cluster_id_with_key` -/
  | select (c : Nat) (e : Env)
  /-- the selection of `backend_from_sticky_session`: `find_sticky`, else keyless selection -/
  | sticky (c s : Nat) (e : Env)

inductive Out where
  | ok
  | absent
  | count (r : Option Nat)
  | flag (b : Bool)
  | ids (l : List Nat)
  | sel (choices : List Backend) (picked : Option Backend) (viaSticky : Bool)

/-- apply `f` to backend `i` of cluster `c`; `g` computes the op's result from the old backend -/
def onBackend (s : State) (c i : Nat) (f : Backend → Backend) (g : Backend → Out) : State × Out :=
  match s.get c with
  | none => (s, .absent)
  | some l =>
    match l.backends[i]? with
    | none => (s, .absent)
    | some b => (s.put c { l with backends := updAt f i l.backends }, g b)

def step (s : State) : Op → State × Out
  | .tick d => ({ s with now := s.now + d }, .ok)
  | .add c id addr sticky weight backup =>
    (s.put c (addBackend ((s.get c).getD BList.new) (Backend.new s.now id addr sticky weight backup)), .ok)
  | .remove c a =>
    match s.get c with
    | none => (s, .ids [])
    | some l => let r := removeBackend l a; (s.put c r.1, .ids r.2)
  | .setPolicy c k m => (s.put c (setPolicy ((s.get c).getD BList.new) k m), .ok)
  | .health c a ok thr =>
    match s.get c with
    | none => (s, .absent)
    | some l =>
      match findBackend l a with
      | none => (s, .absent)
      | some b =>
        (s.put c { l with backends := updFirst (fun x => x.addr == a) (fun x => (recordCheck x ok thr).1) l.backends },
         .flag (recordCheck b ok thr).2)
  | .healthOff c =>
    match s.get c with
    | none => (s, .ok)
    | some l => (s.put c { l with backends := l.backends.map resetHealth }, .ok)
  | .fail c i w => onBackend s c i (fun b => { b with retry := b.retry.fail s.now w }) (fun _ => .ok)
  | .succeed c i => onBackend s c i (fun b => { b with retry := b.retry.succeed s.now }) (fun _ => .ok)
  | .inc c i => onBackend s c i (fun b => (incConn b).1) (fun b => .count (incConn b).2)
  | .dec c i => onBackend s c i (fun b => (decConn b).1) (fun b => .count (decConn b).2)
  | .closing c i => onBackend s c i setClosing (fun _ => .ok)
  | .reqInc c i => onBackend s c i (fun b => { b with reqs := b.reqs + 1 }) (fun _ => .ok)
  | .reqDec c i => onBackend s c i (fun b => { b with reqs := b.reqs - 1 }) (fun _ => .ok)
  | .closeAddr c a =>
    match s.get c with
    | none => (s, .ok)
    | some l => (s.put c (closeByAddr l a), .ok)
  | .select c e =>
    match s.get c with
    | none => (s, .sel [] none false)
    | some l =>
      let r := selectChoices l s.now e
      (s.put c r.1, .sel r.2 (pick r.2 e.rnd) false)
  | .sticky c st e =>
    match s.get c with
    | none => (s, .sel [] none false)
    | some l =>
      match findSticky l st s.now with
      | some b => (s, .sel [b] (some b) true)
      | none =>
        let r := selectChoices l s.now { e with key := none }
        (s.put c r.1, .sel r.2 (pick r.2 e.rnd) false)

def run (s : State) (ops : List Op) : State := ops.foldl (fun s o => (step s o).1) s

end Sozu.Backends
