import Sozu.Backends.Lemmas
/-
C12 — "Traffic only goes to backends that are eligible right now".
Only the property theorems (`C12_*`) and their non-vacuity examples live here.
Vocabulary (defined in `Lemmas`): `Eligible now b` = healthy ∧ status Normal ∧
back-off window elapsed; `FailOpenOk now b` = status Normal ∧ back-off window
elapsed; `Out.picked` = the backend a selection op returned; `ident` = (id,
address, weight). `run s0 ops` is the state after the history `ops` from `s0`
(histories of add / remove / re-add, health results, fail / succeed, open /
close, policy changes, time passing, earlier selections).
-/
set_option linter.unusedSimpArgs false
set_option linter.unusedVariables false
namespace Sozu.Backends
open Sozu

/-! fixtures for the non-vacuity examples -/

/-- backend `id` at address `addr` created at time 0 -/
def bk (id addr : Nat) (sticky : Option Nat := none) (backup : Bool := false) : Backend :=
  Backend.new 0 id addr sticky none backup

def env0 : Env := { key := none, score := fun _ _ _ => 0, pref := [], rnd := 0 }
def envK (k : Nat) (pref : List Nat := []) : Env :=
  { key := some k, score := fun _ a _ => a, pref := pref, rnd := 0 }

/-- one cluster `0` holding `bs` under policy `p` at time `now` -/
def st1 (now : Nat) (bs : List Backend) (p : Policy) : State :=
  { now := now, clusters := [(0, { backends := bs, policy := p })] }

/-! ### eligibility of every selected backend -/

/-- For every start state, every history and every selection request (any key,
    any random choice, any score function, any Maglev table content): the
    returned backend currently belongs to the request's cluster and is eligible
    right now — or nothing in the cluster is eligible and the backend is Normal
    and not backing off (the documented fail-open case). -/
theorem C12_selected_is_eligible (s0 : State) (ops : List Op) (c : Nat) (e : Env) (b : Backend)
    (h : (step (run s0 ops) (.select c e)).2.picked = some b) :
    ∃ l, (run s0 ops).get c = some l ∧ b ∈ l.backends ∧
      (Eligible (run s0 ops).now b ∨
        ((∀ x ∈ l.backends, ¬ Eligible (run s0 ops).now x) ∧ FailOpenOk (run s0 ops).now b)) :=
  thm_selected_is_eligible s0 ops c e b h

example : (step (st1 5 [{ bk 0 0 with healthy := false }, bk 1 1] (.roundRobin 0)) (.select 0 env0)).2.picked
    = some (bk 1 1) := by decide

/-- The same for the sticky-session entry point: a backend returned through
    the cookie is eligible (no fail-open on that path); otherwise the keyless
    selection applies. -/
theorem C12_selected_is_eligible_sticky (s0 : State) (ops : List Op) (c st : Nat) (e : Env) (b : Backend)
    (h : (step (run s0 ops) (.sticky c st e)).2.picked = some b) :
    ∃ l, (run s0 ops).get c = some l ∧ b ∈ l.backends ∧
      (Eligible (run s0 ops).now b ∨
        ((step (run s0 ops) (.sticky c st e)).2.viaSticky = false ∧
          (∀ x ∈ l.backends, ¬ Eligible (run s0 ops).now x) ∧ FailOpenOk (run s0 ops).now b)) :=
  thm_selected_is_eligible_sticky s0 ops c st e b h

example : (step (st1 5 [bk 0 0, bk 1 1 (sticky := some 7)] (.roundRobin 0)) (.sticky 0 7 env0)).2.picked
    = some (bk 1 1 (sticky := some 7)) := by decide

/-- the fail-open branch is reachable: every backend unhealthy, a Normal one that is not backing off is used -/
example : (step (st1 5 [{ bk 0 0 with healthy := false }] (.roundRobin 0)) (.select 0 env0)).2.picked
    = some { bk 0 0 with healthy := false } := by decide

/-- Corollary: a backend that is being removed (Closing / Closed) or inside its
    failure back-off window is never returned — not even by fail-open. -/
theorem C12_never_closing_or_backing_off (s0 : State) (ops : List Op) (c : Nat) (e : Env) (b : Backend)
    (h : (step (run s0 ops) (.select c e)).2.picked = some b) :
    b.status = .normal ∧ b.retry.wait ≤ (run s0 ops).now - b.retry.last :=
  thm_never_closing_or_backing_off s0 ops c e b h

/-- The back-off window: a `fail()` that takes effect at time `now` with drawn
    wait `w` makes the policy answer WAIT exactly until `w` seconds have elapsed. -/
theorem C12_backoff_window (r : Retry) (now w now' : Nat) (heff : ¬ (now - r.last < r.wait)) :
    (r.fail now w).okay now' = true ↔ w ≤ now' - now :=
  thm_backoff_window r now w now' heff

/-- inside the window the failed backend is skipped, afterwards it is used again -/
example : (step (run (st1 5 [bk 0 0, bk 1 1] (.roundRobin 0)) [.fail 0 0 3, .tick 2]) (.select 0 env0)).2.picked
    = some (bk 1 1) := by decide
example : ((step (run (st1 5 [bk 0 0, bk 1 1] (.roundRobin 0)) [.fail 0 0 3, .tick 3]) (.select 0 env0)).2.picked).map (·.id)
    = some 0 := by decide

/-- Exact membership in the cascade's candidate list, for every backend list:
    primary stage ⇔ some primary is eligible and `b` is an eligible primary;
    backup stage ⇔ no primary is eligible, some backup is, and `b` is an eligible
    backup; fail-open ⇔ nothing is eligible and `b` is Normal and not backing off. -/
theorem C12_candidates_iff (now : Nat) (bs : List Backend) (b : Backend) :
    b ∈ candidates now bs ↔ b ∈ bs ∧
      (((∃ x ∈ bs, x.backup = false ∧ Eligible now x) ∧ b.backup = false ∧ Eligible now b) ∨
       ((∀ x ∈ bs, x.backup = false → ¬ Eligible now x) ∧ (∃ x ∈ bs, x.backup = true ∧ Eligible now x) ∧
          b.backup = true ∧ Eligible now b) ∨
       ((∀ x ∈ bs, ¬ Eligible now x) ∧ FailOpenOk now b)) :=
  mem_candidates_iff now bs b

example : candidates 5 [{ bk 0 0 with healthy := false }, bk 1 1 (backup := true), bk 2 2 (backup := true)]
    = [bk 1 1 (backup := true), bk 2 2 (backup := true)] := by decide

/-- Fail-open as an iff, for every history and every request (any policy, key,
    random choice): some selection outcome is a non-eligible backend **exactly
    when** the cluster exists, none of its backends is eligible and at least one
    is Normal and not backing off. -/
theorem C12_fail_open_iff (s0 : State) (ops : List Op) (c : Nat) (e : Env) :
    (∃ b, (step (run s0 ops) (.select c e)).2.picked = some b ∧ ¬ Eligible (run s0 ops).now b) ↔
    ∃ l, (run s0 ops).get c = some l ∧ (∀ x ∈ l.backends, ¬ Eligible (run s0 ops).now x) ∧
      (∃ x ∈ l.backends, FailOpenOk (run s0 ops).now x) :=
  fail_open_iff (run s0 ops) c e

/-- … and a selection returns nothing exactly when no backend of the cluster is
    Normal and outside its back-off window (so an eligible backend, or a
    fail-open candidate, is never left unused by any of the six policies). -/
theorem C12_selection_none_iff (s0 : State) (ops : List Op) (c : Nat) (e : Env) :
    (step (run s0 ops) (.select c e)).2.picked = none ↔
    ∀ l, (run s0 ops).get c = some l → ∀ b ∈ l.backends, ¬ FailOpenOk (run s0 ops).now b :=
  select_picked_none_iff (run s0 ops) c e

example : (step (st1 5 [{ bk 0 0 with status := .closing }] (.powerOfTwo .connections)) (.select 0 env0)).2.picked
    = none := by decide
example : ∃ b, (step (st1 5 [{ bk 0 0 with healthy := false }] .random) (.select 0 env0)).2.picked = some b ∧
    ¬ Eligible 5 b := ⟨{ bk 0 0 with healthy := false }, by decide, by decide⟩

/-! ### backups -/

/-- A backup backend is returned by a selection only when no primary of the
    cluster is eligible. -/
theorem C12_backup_only_if_no_primary (s0 : State) (ops : List Op) (c : Nat) (e : Env) (b : Backend)
    (h : (step (run s0 ops) (.select c e)).2.picked = some b) (hb : b.backup = true) :
    ∀ l, (run s0 ops).get c = some l → ∀ x ∈ l.backends, x.backup = false → ¬ Eligible (run s0 ops).now x :=
  thm_backup_only_if_no_primary s0 ops c e b h hb

/-- sticky entry point: a backup is returned either because the cookie names it, or no primary is eligible -/
theorem C12_backup_only_if_no_primary_sticky (s0 : State) (ops : List Op) (c st : Nat) (e : Env) (b : Backend)
    (h : (step (run s0 ops) (.sticky c st e)).2.picked = some b) (hb : b.backup = true)
    (hv : (step (run s0 ops) (.sticky c st e)).2.viaSticky = false) :
    ∀ l, (run s0 ops).get c = some l → ∀ x ∈ l.backends, x.backup = false → ¬ Eligible (run s0 ops).now x :=
  thm_backup_only_if_no_primary_sticky s0 ops c st e b h hb hv

example : (step (st1 5 [{ bk 0 0 with healthy := false }, bk 1 1 (backup := true)] (.roundRobin 0)) (.select 0 env0)).2.picked
    = some (bk 1 1 (backup := true)) := by decide

/-! ### sticky cookies -/

/-- A cookie wins whenever a backend it designates is eligible: the request goes,
    through the sticky path, to an eligible member of the cluster carrying that
    sticky id (no uniqueness assumption: `find_sticky` takes the first holder
    that can accept a connection). -/
theorem C12_sticky_wins (s : State) (c st : Nat) (e : Env) (l : BList) (b : Backend)
    (hl : s.get c = some l) (hb : b ∈ l.backends) (hs : b.sticky = some st) (he : Eligible s.now b) :
    ∃ b', (step s (.sticky c st e)).2.picked = some b' ∧ (step s (.sticky c st e)).2.viaSticky = true ∧
      b' ∈ l.backends ∧ b'.sticky = some st ∧ Eligible s.now b' :=
  thm_sticky_wins s c st e l b hl hb hs he

/-- and when the sticky id designates one backend only, that backend is the one returned -/
theorem C12_sticky_wins_unique (s : State) (c st : Nat) (e : Env) (l : BList) (b : Backend)
    (hl : s.get c = some l) (hb : b ∈ l.backends) (hs : b.sticky = some st) (he : Eligible s.now b)
    (huniq : ∀ x ∈ l.backends, ∀ y ∈ l.backends, x.sticky = some st → y.sticky = some st → x = y) :
    (step s (.sticky c st e)).2.picked = some b :=
  thm_sticky_wins_unique s c st e l b hl hb hs he huniq

example : ∃ (s : State) (l : BList) (b : Backend), s.get 0 = some l ∧ b ∈ l.backends ∧ b.sticky = some 7 ∧ Eligible s.now b :=
  ⟨st1 5 [bk 0 0, bk 1 1 (sticky := some 7)] .random, _, bk 1 1 (sticky := some 7), rfl, by simp, rfl, by decide⟩

/-- regression (former counterexample, repaired by `fix: a sticky id selects the
    first holder that can accept a connection`): two backends share sticky id 7,
    the first is unhealthy, the second is eligible — the cookie now reaches it. -/
example : (step (st1 5 [{ bk 0 0 (sticky := some 7) with healthy := false }, bk 2 2, bk 1 1 (sticky := some 7)]
      (.roundRobin 0)) (.sticky 0 7 env0)).2.picked = some (bk 1 1 (sticky := some 7)) := by decide

/-! ### affinity -/

/-- HRW with a key: whenever the eligible candidates (as (id, address, weight),
    in list order) are the same, the same backend is returned — whatever happened
    to cursors, counters, health counters or time in between. -/
theorem C12_affinity_stable (l1 l2 : BList) (now1 now2 n1 n2 k : Nat) (e1 e2 : Env)
    (hp1 : l1.policy = .hrw n1) (hp2 : l2.policy = .hrw n2)
    (hk1 : e1.key = some k) (hk2 : e2.key = some k) (hsc : e1.score = e2.score)
    (hc : (candidates now1 l1.backends).map ident = (candidates now2 l2.backends).map ident) :
    (selectChoices l1 now1 e1).2.map ident = (selectChoices l2 now2 e2).2.map ident :=
  affinity_hrw l1 l2 now1 now2 n1 n2 k e1 e2 hp1 hp2 hk1 hk2 hsc hc

example : (selectChoices { backends := [bk 0 0, bk 1 1, bk 2 2], policy := .hrw 0 } 5 (envK 9)).2 = [bk 2 2] := by decide

/-- Maglev with a key, same captured address set and same table content:
    whenever the eligible candidates are the same, the same backend is returned —
    through the table when an entry names a candidate, otherwise through
    `candidates[key % len]`. (Keyless calls use the round-robin cursor and are
    not affinity calls.) -/
theorem C12_affinity_stable_maglev (l1 l2 : BList) (now1 now2 n1 n2 k : Nat) (built : List Nat) (e1 e2 : Env)
    (hp1 : l1.policy = .maglev built n1) (hp2 : l2.policy = .maglev built n2)
    (hk1 : e1.key = some k) (hk2 : e2.key = some k) (hpf : e1.pref = e2.pref)
    (hc : (candidates now1 l1.backends).map ident = (candidates now2 l2.backends).map ident) :
    (selectChoices l1 now1 e1).2.map ident = (selectChoices l2 now2 e2).2.map ident :=
  affinity_maglev l1 l2 now1 now2 n1 n2 k built e1 e2 hp1 hp2 hk1 hk2 hpf hc

example : (selectChoices { backends := [bk 0 0, bk 1 1, bk 2 2], policy := .maglev [0, 1, 2] 0 } 5 (envK 9 [1, 0, 2])).2
    = [bk 1 1] := by decide

/-- regression (former counterexample, repaired by `fix: keep a key pinned when the
    Maglev table holds no eligible backend`): no table entry names an eligible
    backend, and the same key is now sent to the same backend twice in a row. -/
example :
    let l : BList := { backends := [{ bk 0 0 with healthy := false }, bk 1 1, bk 2 2], policy := .maglev [0, 1, 2] 0 }
    (selectChoices l 5 (envK 9 [0])).2 = [bk 2 2] ∧
      (selectChoices (selectChoices l 5 (envK 9 [0])).1 5 (envK 9 [0])).2 = [bk 2 2] := by decide

/-! ### counters -/

/-- For every history of open / close / set-closing on one backend in which
    only open connections get closed: the connection count equals the number of
    connections currently open at every point (so it never saturates, never
    drifts) — in particular it is back to 0 when every open was closed — and a
    Closed backend holds none. -/
theorem C12_counters_balanced (b : Backend) (ops : List COp) (b' : Backend) (out' : Nat)
    (h0 : b.conns = 0) (h : crun (b, 0) ops = some (b', out')) :
    b'.conns = out' ∧ (out' = 0 → b'.conns = 0) ∧ (b'.status = .closed → b'.conns = 0) :=
  thm_counters_balanced b ops b' out' h0 h

example : crun (bk 0 0, 0) [.inc, .inc, .dec, .closing, .inc, .dec] =
    some ({ bk 0 0 with status := .closed }, 0) := by decide

/-- Whole map, **any** op sequence from the initial state (no bracketing
    assumption): a Closed backend never holds a connection, and the back-off
    policy never exceeds its try budget. -/
theorem C12_closed_holds_none (ops : List Op) (c : Nat) (l : BList) (b : Backend)
    (hl : (run State.init ops).get c = some l) (hb : b ∈ l.backends) :
    (b.status = .closed → b.conns = 0) ∧ b.retry.tries ≤ b.retry.max :=
  ⟨allB_run stable_closedEmpty ops (allB_init _) c l hl b hb,
   allB_run stable_triesBounded ops (allB_init _) c l hl b hb⟩

example : ((run State.init [.add 0 1 1 none none false, .inc 0 0, .closing 0 0, .dec 0 0, .dec 0 0, .inc 0 0]).get 0).map
    (fun l => l.backends.map (fun b => (b.status, b.conns))) = some [(.closed, 0)] := by decide

/-- Whole map, any start state, any history: the (id, address, connections,
    requests) rows of a cluster change **only** through the counter ops aimed at
    that cluster (inc / dec / close-by-address / request inc / dec) and through
    add / remove of that cluster. Health results, health-check removal, retry
    fail / succeed, set-closing, policy changes, time, selections and sticky
    selections, and every op on another cluster leave every count as it is — so
    together with `C12_counters_balanced` counts move by exactly one per open /
    close and by nothing else. -/
theorem C12_counters_untouched_by_other_ops (s : State) (c : Nat) (ops : List Op)
    (hops : ∀ o ∈ ops, o.touchesCounters c = false) : ctrsOf (run s ops) c = ctrsOf s c :=
  ctrs_run ops s hops

example : ctrsOf (run (st1 5 [{ bk 0 0 with conns := 2, reqs := 1 }, bk 1 1] (.roundRobin 0))
    [.health 0 0 false 1, .fail 0 1 3, .tick 9, .select 0 env0, .setPolicy 0 .maglev none, .closing 0 0, .inc 1 0,
     .healthOff 0, .sticky 0 3 env0]) 0 = [(0, 0, 2, 1), (1, 1, 0, 0)] := by decide

/-- What one proxied request does to the selected backend (router glue:
    `try_connect` → `inc`, then `succeed` on a completed connect or `fail` on a
    refused one, then `dec` when the backend connection is closed): for every
    state and every Normal backend, the whole cycle leaves every (id, address,
    connections, requests) row of the cluster as it was — a finished or failed
    request can neither leak nor lose a connection count. -/
theorem C12_connect_cycle_balanced (s : State) (c i : Nat) (l : BList) (b : Backend) (mid : Op)
    (hg : s.get c = some l) (hb : l.backends[i]? = some b) (hn : b.status = .normal)
    (hmid : (∃ w, mid = .fail c i w) ∨ mid = .succeed c i) :
    ctrsOf (step (step (step s (.inc c i)).1 mid).1 (.dec c i)).1 c = ctrsOf s c :=
  connect_cycle_balanced s c i l b mid hg hb hn hmid

example : ctrsOf (run (st1 5 [bk 0 0, { bk 1 1 with conns := 2 }] .random) [.inc 0 1, .fail 0 1 1, .dec 0 1]) 0
    = [(0, 0, 0, 0), (1, 1, 2, 0)] := by decide

/-- request counter (`active_requests += 1` / `saturating_sub(1)` at the session
    call sites): in every history where only requests in flight end, the count
    equals the number of requests in flight, hence 0 when all have ended. -/
theorem C12_request_counter_balanced (ops : List Bool) (q' out' : Nat)
    (h : rrun (0, 0) ops = some (q', out')) : q' = out' :=
  rrun_inv ops (0, 0) (q', out') rfl h

example : rrun (0, 0) [true, true, false, true, false, false] = some (0, 0) := by decide

/-- Address-keyed close (`close_backend_connection`): with **unique addresses**
    in the cluster, opening a connection on a backend and closing it by that
    backend's address restores every counter. -/
theorem C12_close_by_address_partial (l : BList) (i : Nat) (b : Backend) (hb : l.backends[i]? = some b)
    (hn : b.status = .normal) (huniq : (l.backends.map (·.addr)).Nodup) :
    (closeByAddr (incAt l i) b.addr).backends = l.backends :=
  thm_close_by_address_partial l i b hb hn huniq

example : (closeByAddr (incAt { backends := [bk 0 0, bk 1 1], policy := .random } 1) 1).backends = [bk 0 0, bk 1 1] := by
  decide

/-- With two backends sharing an address (allowed as A/B variants) it fails:
    the connection opened on the second is closed on the first — whose count
    saturates at 0 — and the second keeps a connection that no longer exists. -/
theorem C12_close_by_address_counterexample :
    ∃ (l : BList) (i : Nat) (b : Backend), l.backends[i]? = some b ∧ b.status = .normal ∧
      (closeByAddr (incAt l i) b.addr).backends ≠ l.backends ∧
      ((closeByAddr (incAt l i) b.addr).backends.map (·.conns)) = [0, 1] :=
  ⟨{ backends := [bk 0 1, bk 1 1], policy := .random }, 1, bk 1 1, rfl, rfl, by decide, by decide⟩

/-! ### health results are recorded by address -/

/-- `record_check_result` looks the backend up by address. With **unique
    addresses** in the cluster a result for the backend at position `i` is
    recorded on that backend and on no other. -/
theorem C12_health_by_address_partial (s : State) (c i : Nat) (b : Backend) (ok : Bool) (thr : Nat)
    (hb : (backendsOf s c)[i]? = some b) (huniq : ((backendsOf s c).map (·.addr)).Nodup) :
    backendsOf (step s (.health c b.addr ok thr)).1 c =
      updAt (fun x => (recordCheck x ok thr).1) i (backendsOf s c) :=
  (health_step_backends s c b.addr ok thr).trans
    (updFirst_eq_updAt_of_unique _ (backendsOf s c) i b hb huniq)

example : backendsOf (step (st1 5 [bk 0 0, bk 1 1] .random) (.health 0 1 false 1)).1 0
    = [bk 0 0, { bk 1 1 with healthy := false, fails := 1 }] := by decide

/-- Without unique addresses: every backend that sits behind another backend of
    the same address (an A/B variant) is left untouched by **every** run of
    health results for that address — it can never be marked unhealthy (nor
    healthy again). -/
theorem C12_health_by_address_shadowed (s : State) (c a : Nat) (rs : List (Bool × Nat)) (l1 l2 : List Backend)
    (hb : backendsOf s c = l1 ++ l2) (hhit : ∃ y ∈ l1, y.addr = a) :
    ∃ l1', backendsOf (run s (healthOps c a rs)) c = l1' ++ l2 ∧ l1'.map (·.addr) = l1.map (·.addr) :=
  health_run_shadowed c a rs s l1 l2 hb hhit

example : backendsOf (run (st1 5 [bk 0 1, bk 1 1, bk 2 2] .random) (healthOps 0 1 [(false, 1), (false, 1), (true, 1)])) 0
    = [{ bk 0 1 with succ := 1 }, bk 1 1, bk 2 2] := by decide

/-- the excluded point: two backends at address 1, two failed probes (one per
    backend, threshold 1): the first is marked, the second is not, and the next
    request goes to the second — same dead address. -/
theorem C12_health_by_address_counterexample :
    (step (run (st1 5 [bk 0 1, bk 1 1] (.roundRobin 0)) [.health 0 1 false 1, .health 0 1 false 1])
      (.select 0 env0)).2.picked = some (bk 1 1) ∧
    (backendsOf (run (st1 5 [bk 0 1, bk 1 1] (.roundRobin 0)) [.health 0 1 false 1, .health 0 1 false 1]) 0).map
      (·.healthy) = [false, true] := by decide

/-! ### removal -/

/-- After `remove_backend(c, a)`, for every following history that does not add
    address `a` to cluster `c` again, no selection in `c` returns a backend at
    that address. -/
theorem C12_removed_never_selected (s : State) (c a : Nat) (ops : List Op)
    (hops : ∀ o ∈ ops, o.addsAddr c a = false) (e : Env) (b : Backend)
    (h : (step (run (step s (.remove c a)).1 ops) (.select c e)).2.picked = some b) : b.addr ≠ a :=
  thm_removed_never_selected s c a ops hops e b h

theorem C12_removed_never_selected_sticky (s : State) (c a st : Nat) (ops : List Op)
    (hops : ∀ o ∈ ops, o.addsAddr c a = false) (e : Env) (b : Backend)
    (h : (step (run (step s (.remove c a)).1 ops) (.sticky c st e)).2.picked = some b) : b.addr ≠ a :=
  thm_removed_never_selected_sticky s c a st ops hops e b h

example : (step (run (step (st1 5 [bk 0 0 (sticky := some 4), bk 1 1] (.roundRobin 0)) (.remove 0 0)).1 [.tick 1])
    (.sticky 0 4 env0)).2.picked = some (bk 1 1) := by decide

example : (step (run (step (st1 5 [bk 0 0, bk 1 1] (.roundRobin 0)) (.remove 0 0)).1
      [.tick 3, .add 0 2 2 none none false, .inc 0 0]) (.select 0 env0)).2.picked = some { bk 1 1 with conns := 1 } := by
  decide

end Sozu.Backends
