import Sozu.Backends.Lemmas
/-
C12 — "Traffic only goes to backends that are eligible right now".
Only the property theorems (`C12_*`) and their non-vacuity examples live here.
Vocabulary (defined in `Lemmas`): `Eligible now b` = healthy ∧ status Normal ∧
back-off window elapsed; `FailOpenOk now b` = status Normal ∧ back-off window
elapsed; `Out.picked` = the backend a selection op returned; `ident` = (id,
address, weight). `run s0 ops` is the state after the history `ops` from `s0`
(histories of add / remove / re-add, health results, fail / succeed, open /
close, policy changes, time passing, earlier selections).
-/
set_option linter.unusedSimpArgs false
set_option linter.unusedVariables false
namespace Sozu.Backends
open Sozu

/-! fixtures for the non-vacuity examples -/

/-- backend `id` at address `addr` created at time 0 -/
def bk (id addr : Nat) (sticky : Option Nat := none) (backup : Bool := false) : Backend :=
  Backend.new 0 id addr sticky none backup

def env0 : Env := { key := none, score := fun _ _ _ => 0, pref := [], rnd := 0 }
def envK (k : Nat) (pref : List Nat := []) : Env :=
  { key := some k, score := fun _ a _ => a, pref := pref, rnd := 0 }

/-- one cluster `0` holding `bs` under policy `p` at time `now` -/
def st1 (now : Nat) (bs : List Backend) (p : Policy) : State :=
  { now := now, clusters := [(0, { backends := bs, policy := p })] }

/-! ### eligibility of every selected backend -/

/-- For every start state, every history and every selection request (any key,
    any random choice, any score function, any Maglev table content): the
    returned backend currently belongs to the request's cluster and is eligible
    right now — or nothing in the cluster is eligible and the backend is Normal
    and not backing off (the documented fail-open case). -/
theorem C12_selected_is_eligible (s0 : State) (ops : List Op) (c : Nat) (e : Env) (b : Backend)
    (h : (step (run s0 ops) (.select c e)).2.picked = some b) :
    ∃ l, (run s0 ops).get c = some l ∧ b ∈ l.backends ∧
      (Eligible (run s0 ops).now b ∨
        ((∀ x ∈ l.backends, ¬ Eligible (run s0 ops).now x) ∧ FailOpenOk (run s0 ops).now b)) := by
  obtain ⟨l, hl, hc⟩ := select_spec h
  obtain ⟨hm, hor⟩ := mem_candidates hc
  refine ⟨l, hl, hm, ?_⟩
  rcases hor with ho | ⟨hall, hn, hk⟩
  · exact Or.inl ((eligible_iff _ _).mpr ho)
  · exact Or.inr ⟨fun x hx => not_eligible_of _ _ (hall x hx), hn, (okay_iff _ _).mp hk⟩

example : (step (st1 5 [{ bk 0 0 with healthy := false }, bk 1 1] (.roundRobin 0)) (.select 0 env0)).2.picked
    = some (bk 1 1) := by decide

/-- The same for the sticky-session entry point: a backend returned through
    the cookie is eligible (no fail-open on that path); otherwise the keyless
    selection applies. -/
theorem C12_selected_is_eligible_sticky (s0 : State) (ops : List Op) (c st : Nat) (e : Env) (b : Backend)
    (h : (step (run s0 ops) (.sticky c st e)).2.picked = some b) :
    ∃ l, (run s0 ops).get c = some l ∧ b ∈ l.backends ∧
      (Eligible (run s0 ops).now b ∨
        ((step (run s0 ops) (.sticky c st e)).2.viaSticky = false ∧
          (∀ x ∈ l.backends, ¬ Eligible (run s0 ops).now x) ∧ FailOpenOk (run s0 ops).now b)) := by
  obtain ⟨l, hl, hor⟩ := sticky_spec h
  refine ⟨l, hl, ?_⟩
  rcases hor with ⟨hf, _⟩ | ⟨_, hv, hc⟩
  · obtain ⟨hm, _, ho⟩ := findSticky_spec hf
    exact ⟨hm, Or.inl ((eligible_iff _ _).mpr ho)⟩
  · obtain ⟨hm, hor⟩ := mem_candidates hc
    refine ⟨hm, ?_⟩
    rcases hor with ho | ⟨hall, hn, hk⟩
    · exact Or.inl ((eligible_iff _ _).mpr ho)
    · exact Or.inr ⟨hv, fun x hx => not_eligible_of _ _ (hall x hx), hn, (okay_iff _ _).mp hk⟩

example : (step (st1 5 [bk 0 0, bk 1 1 (sticky := some 7)] (.roundRobin 0)) (.sticky 0 7 env0)).2.picked
    = some (bk 1 1 (sticky := some 7)) := by decide

/-- the fail-open branch is reachable: every backend unhealthy, a Normal one that is not backing off is used -/
example : (step (st1 5 [{ bk 0 0 with healthy := false }] (.roundRobin 0)) (.select 0 env0)).2.picked
    = some { bk 0 0 with healthy := false } := by decide

/-- Corollary: a backend that is being removed (Closing / Closed) or inside its
    failure back-off window is never returned — not even by fail-open. -/
theorem C12_never_closing_or_backing_off (s0 : State) (ops : List Op) (c : Nat) (e : Env) (b : Backend)
    (h : (step (run s0 ops) (.select c e)).2.picked = some b) :
    b.status = .normal ∧ b.retry.wait ≤ (run s0 ops).now - b.retry.last := by
  obtain ⟨l, _, _, hor⟩ := C12_selected_is_eligible s0 ops c e b h
  rcases hor with ⟨_, hn, hw⟩ | ⟨_, hn, hw⟩ <;> exact ⟨hn, hw⟩

/-- The back-off window: a `fail()` that takes effect at time `now` with drawn
    wait `w` makes the policy answer WAIT exactly until `w` seconds have elapsed. -/
theorem C12_backoff_window (r : Retry) (now w now' : Nat) (heff : ¬ (now - r.last < r.wait)) :
    (r.fail now w).okay now' = true ↔ w ≤ now' - now := by
  simp [Retry.fail, heff, Retry.okay]

/-- inside the window the failed backend is skipped, afterwards it is used again -/
example : (step (run (st1 5 [bk 0 0, bk 1 1] (.roundRobin 0)) [.fail 0 0 3, .tick 2]) (.select 0 env0)).2.picked
    = some (bk 1 1) := by decide
example : ((step (run (st1 5 [bk 0 0, bk 1 1] (.roundRobin 0)) [.fail 0 0 3, .tick 3]) (.select 0 env0)).2.picked).map (·.id)
    = some 0 := by decide

/-! ### backups -/

/-- A backup backend is returned by a selection only when no primary of the
    cluster is eligible. -/
theorem C12_backup_only_if_no_primary (s0 : State) (ops : List Op) (c : Nat) (e : Env) (b : Backend)
    (h : (step (run s0 ops) (.select c e)).2.picked = some b) (hb : b.backup = true) :
    ∀ l, (run s0 ops).get c = some l → ∀ x ∈ l.backends, x.backup = false → ¬ Eligible (run s0 ops).now x := by
  obtain ⟨l, hl, hc⟩ := select_spec h
  intro l' hl' x hx hxb
  rw [hl] at hl'; cases hl'
  exact not_eligible_of _ _ (candidates_backup hc hb x hx hxb)

/-- sticky entry point: a backup is returned either because the cookie names it, or no primary is eligible -/
theorem C12_backup_only_if_no_primary_sticky (s0 : State) (ops : List Op) (c st : Nat) (e : Env) (b : Backend)
    (h : (step (run s0 ops) (.sticky c st e)).2.picked = some b) (hb : b.backup = true)
    (hv : (step (run s0 ops) (.sticky c st e)).2.viaSticky = false) :
    ∀ l, (run s0 ops).get c = some l → ∀ x ∈ l.backends, x.backup = false → ¬ Eligible (run s0 ops).now x := by
  obtain ⟨l, hl, hor⟩ := sticky_spec h
  intro l' hl' x hx hxb
  rw [hl] at hl'; cases hl'
  rcases hor with ⟨_, hv'⟩ | ⟨_, _, hc⟩
  · rw [hv] at hv'; cases hv'
  · exact not_eligible_of _ _ (candidates_backup hc hb x hx hxb)

example : (step (st1 5 [{ bk 0 0 with healthy := false }, bk 1 1 (backup := true)] (.roundRobin 0)) (.select 0 env0)).2.picked
    = some (bk 1 1 (backup := true)) := by decide

/-! ### sticky cookies -/

/-- A cookie wins whenever a backend it designates is eligible: the request goes,
    through the sticky path, to an eligible member of the cluster carrying that
    sticky id (no uniqueness assumption: `find_sticky` takes the first holder
    that can accept a connection). -/
theorem C12_sticky_wins (s : State) (c st : Nat) (e : Env) (l : BList) (b : Backend)
    (hl : s.get c = some l) (hb : b ∈ l.backends) (hs : b.sticky = some st) (he : Eligible s.now b) :
    ∃ b', (step s (.sticky c st e)).2.picked = some b' ∧ (step s (.sticky c st e)).2.viaSticky = true ∧
      b' ∈ l.backends ∧ b'.sticky = some st ∧ Eligible s.now b' := by
  obtain ⟨b', hf⟩ := findSticky_isSome (l := l) hb hs ((eligible_iff _ _).mp he)
  obtain ⟨hm, hs', hc'⟩ := findSticky_spec hf
  exact ⟨b', by simp [step, hl, hf, Out.picked], by simp [step, hl, hf, Out.viaSticky], hm, hs',
    (eligible_iff _ _).mpr hc'⟩

/-- and when the sticky id designates one backend only, that backend is the one returned -/
theorem C12_sticky_wins_unique (s : State) (c st : Nat) (e : Env) (l : BList) (b : Backend)
    (hl : s.get c = some l) (hb : b ∈ l.backends) (hs : b.sticky = some st) (he : Eligible s.now b)
    (huniq : ∀ x ∈ l.backends, ∀ y ∈ l.backends, x.sticky = some st → y.sticky = some st → x = y) :
    (step s (.sticky c st e)).2.picked = some b := by
  obtain ⟨b', hp, _, hm, hs', _⟩ := C12_sticky_wins s c st e l b hl hb hs he
  rw [hp, huniq b' hm b hb hs' hs]

example : ∃ (s : State) (l : BList) (b : Backend), s.get 0 = some l ∧ b ∈ l.backends ∧ b.sticky = some 7 ∧ Eligible s.now b :=
  ⟨st1 5 [bk 0 0, bk 1 1 (sticky := some 7)] .random, _, bk 1 1 (sticky := some 7), rfl, by simp, rfl, by decide⟩

/-- regression (former counterexample, repaired by `fix: a sticky id selects the
    first holder that can accept a connection`): two backends share sticky id 7,
    the first is unhealthy, the second is eligible — the cookie now reaches it. -/
example : (step (st1 5 [{ bk 0 0 (sticky := some 7) with healthy := false }, bk 2 2, bk 1 1 (sticky := some 7)]
      (.roundRobin 0)) (.sticky 0 7 env0)).2.picked = some (bk 1 1 (sticky := some 7)) := by decide

/-! ### affinity -/

/-- HRW with a key: whenever the eligible candidates (as (id, address, weight),
    in list order) are the same, the same backend is returned — whatever happened
    to cursors, counters, health counters or time in between. -/
theorem C12_affinity_stable (l1 l2 : BList) (now1 now2 n1 n2 k : Nat) (e1 e2 : Env)
    (hp1 : l1.policy = .hrw n1) (hp2 : l2.policy = .hrw n2)
    (hk1 : e1.key = some k) (hk2 : e2.key = some k) (hsc : e1.score = e2.score)
    (hc : (candidates now1 l1.backends).map ident = (candidates now2 l2.backends).map ident) :
    (selectChoices l1 now1 e1).2.map ident = (selectChoices l2 now2 e2).2.map ident := by
  unfold selectChoices
  simp only
  rw [isEmpty_of_ident hc]
  split
  · rfl
  · simp only [hp1, hp2, lbChoices, hk1, hk2, hsc]
    have := maxFirst_ident (fun b => e2.score k b.addr b.weight)
      (by intro x y hxy; simp [ident] at hxy; simp [hxy]) _ _ hc
    generalize maxFirst (fun b => e2.score k b.addr b.weight) (candidates now1 l1.backends) = o1 at this
    generalize maxFirst (fun b => e2.score k b.addr b.weight) (candidates now2 l2.backends) = o2 at this
    cases o1 <;> cases o2 <;> simp at this ⊢
    exact this

example : (selectChoices { backends := [bk 0 0, bk 1 1, bk 2 2], policy := .hrw 0 } 5 (envK 9)).2 = [bk 2 2] := by decide

/-- Maglev with a key, same captured address set and same table content:
    whenever the eligible candidates are the same, the same backend is returned —
    through the table when an entry names a candidate, otherwise through
    `candidates[key % len]`. (Keyless calls use the round-robin cursor and are
    not affinity calls.) -/
theorem C12_affinity_stable_maglev (l1 l2 : BList) (now1 now2 n1 n2 k : Nat) (built : List Nat) (e1 e2 : Env)
    (hp1 : l1.policy = .maglev built n1) (hp2 : l2.policy = .maglev built n2)
    (hk1 : e1.key = some k) (hk2 : e2.key = some k) (hpf : e1.pref = e2.pref)
    (hc : (candidates now1 l1.backends).map ident = (candidates now2 l2.backends).map ident) :
    (selectChoices l1 now1 e1).2.map ident = (selectChoices l2 now2 e2).2.map ident := by
  unfold selectChoices
  simp only
  rw [isEmpty_of_ident hc]
  split
  · rfl
  · next hne =>
    have hne1 : (candidates now1 l1.backends).isEmpty = false := by rw [isEmpty_of_ident hc]; simpa using hne
    have hne2 : (candidates now2 l2.backends).isEmpty = false := by simpa using hne
    simp only [hp1, hp2, lbChoices, hk1, hk2, hne1, hne2, Bool.false_eq_true, if_false]
    have hb : (if built.isEmpty then (candidates now1 l1.backends).map (·.addr) else built) =
        (if built.isEmpty then (candidates now2 l2.backends).map (·.addr) else built) := by
      rw [map_addr_of_ident hc]
    have hlk := maglevLookup_ident e1.pref
      (if built.isEmpty then (candidates now1 l1.backends).map (·.addr) else built) _ _ hc
    have hget := getElem?_ident (k % (candidates now1 l1.backends).length) _ _ hc
    rw [← hpf, ← hb, ← length_of_ident hc]
    cases h1 : maglevLookup e1.pref
        (if built.isEmpty then (candidates now1 l1.backends).map (·.addr) else built) (candidates now1 l1.backends) with
    | none =>
      rw [h1] at hlk
      cases h2 : maglevLookup e1.pref
          (if built.isEmpty then (candidates now1 l1.backends).map (·.addr) else built) (candidates now2 l2.backends) with
      | some b2 => rw [h2] at hlk; simp at hlk
      | none =>
        simp only
        generalize (candidates now1 l1.backends)[k % (candidates now1 l1.backends).length]? = o1 at hget
        generalize (candidates now2 l2.backends)[k % (candidates now1 l1.backends).length]? = o2 at hget
        cases o1 <;> cases o2 <;> simp at hget ⊢
        exact hget
    | some b1 =>
      rw [h1] at hlk
      cases h2 : maglevLookup e1.pref
          (if built.isEmpty then (candidates now1 l1.backends).map (·.addr) else built) (candidates now2 l2.backends) with
      | none => rw [h2] at hlk; simp at hlk
      | some b2 => rw [h2] at hlk; simpa using hlk

example : (selectChoices { backends := [bk 0 0, bk 1 1, bk 2 2], policy := .maglev [0, 1, 2] 0 } 5 (envK 9 [1, 0, 2])).2
    = [bk 1 1] := by decide

/-- regression (former counterexample, repaired by `fix: keep a key pinned when the
    Maglev table holds no eligible backend`): no table entry names an eligible
    backend, and the same key is now sent to the same backend twice in a row. -/
example :
    let l : BList := { backends := [{ bk 0 0 with healthy := false }, bk 1 1, bk 2 2], policy := .maglev [0, 1, 2] 0 }
    (selectChoices l 5 (envK 9 [0])).2 = [bk 2 2] ∧
      (selectChoices (selectChoices l 5 (envK 9 [0])).1 5 (envK 9 [0])).2 = [bk 2 2] := by decide

/-! ### counters -/

/-- For every history of open / close / set-closing on one backend in which
    only open connections get closed: the connection count equals the number of
    connections currently open at every point (so it never saturates, never
    drifts) — in particular it is back to 0 when every open was closed — and a
    Closed backend holds none. -/
theorem C12_counters_balanced (b : Backend) (ops : List COp) (b' : Backend) (out' : Nat)
    (h0 : b.conns = 0) (h : crun (b, 0) ops = some (b', out')) :
    b'.conns = out' ∧ (out' = 0 → b'.conns = 0) ∧ (b'.status = .closed → b'.conns = 0) := by
  have hi : CInv (b, 0) := ⟨h0, fun _ => rfl⟩
  have := cinv_run ops hi h
  exact ⟨this.1, fun hz => this.1.trans hz, fun hc => this.1.trans (this.2 hc)⟩

example : crun (bk 0 0, 0) [.inc, .inc, .dec, .closing, .inc, .dec] =
    some ({ bk 0 0 with status := .closed }, 0) := by decide

/-- request counter (`active_requests += 1` / `saturating_sub(1)` at the session
    call sites): in every history where only requests in flight end, the count
    equals the number of requests in flight, hence 0 when all have ended. -/
theorem C12_request_counter_balanced (ops : List Bool) (q' out' : Nat)
    (h : rrun (0, 0) ops = some (q', out')) : q' = out' :=
  rrun_inv ops (0, 0) (q', out') rfl h

example : rrun (0, 0) [true, true, false, true, false, false] = some (0, 0) := by decide

/-- Address-keyed close (`close_backend_connection`): with **unique addresses**
    in the cluster, opening a connection on a backend and closing it by that
    backend's address restores every counter. -/
theorem C12_close_by_address_partial (l : BList) (i : Nat) (b : Backend) (hb : l.backends[i]? = some b)
    (hn : b.status = .normal) (huniq : (l.backends.map (·.addr)).Nodup) :
    (closeByAddr (incAt l i) b.addr).backends = l.backends := by
  simp only [closeByAddr, incAt]
  exact close_after_open_unique l.backends i b hb hn huniq

example : (closeByAddr (incAt { backends := [bk 0 0, bk 1 1], policy := .random } 1) 1).backends = [bk 0 0, bk 1 1] := by
  decide

/-- With two backends sharing an address (allowed as A/B variants) it fails:
    the connection opened on the second is closed on the first — whose count
    saturates at 0 — and the second keeps a connection that no longer exists. -/
theorem C12_close_by_address_counterexample :
    ∃ (l : BList) (i : Nat) (b : Backend), l.backends[i]? = some b ∧ b.status = .normal ∧
      (closeByAddr (incAt l i) b.addr).backends ≠ l.backends ∧
      ((closeByAddr (incAt l i) b.addr).backends.map (·.conns)) = [0, 1] :=
  ⟨{ backends := [bk 0 1, bk 1 1], policy := .random }, 1, bk 1 1, rfl, rfl, by decide, by decide⟩

/-! ### removal -/

/-- After `remove_backend(c, a)`, for every following history that does not add
    address `a` to cluster `c` again, no selection in `c` returns a backend at
    that address. -/
theorem C12_removed_never_selected (s : State) (c a : Nat) (ops : List Op)
    (hops : ∀ o ∈ ops, o.addsAddr c a = false) (e : Env) (b : Backend)
    (h : (step (run (step s (.remove c a)).1 ops) (.select c e)).2.picked = some b) : b.addr ≠ a := by
  have hn := noAddr_run ops _ (noAddr_remove s c a) hops
  obtain ⟨l, hl, hc⟩ := select_spec h
  exact hn l hl b (mem_candidates hc).1

theorem C12_removed_never_selected_sticky (s : State) (c a st : Nat) (ops : List Op)
    (hops : ∀ o ∈ ops, o.addsAddr c a = false) (e : Env) (b : Backend)
    (h : (step (run (step s (.remove c a)).1 ops) (.sticky c st e)).2.picked = some b) : b.addr ≠ a := by
  have hn := noAddr_run ops _ (noAddr_remove s c a) hops
  obtain ⟨l, hl, hor⟩ := sticky_spec h
  rcases hor with ⟨hf, _⟩ | ⟨_, _, hc⟩
  · exact hn l hl b (findSticky_spec hf).1
  · exact hn l hl b (mem_candidates hc).1

example : (step (run (step (st1 5 [bk 0 0, bk 1 1] (.roundRobin 0)) (.remove 0 0)).1
      [.tick 3, .add 0 2 2 none none false, .inc 0 0]) (.select 0 env0)).2.picked = some { bk 1 1 with conns := 1 } := by
  decide

end Sozu.Backends
