import Sozu.Backends.Model
/-
Helper lemmas for the C12 theorems: every load-balancing policy returns a
member of the candidate list it was given; the cascade's candidate list is
characterised; address-preserving list updates; map get/put.
-/
set_option linter.unusedSimpArgs false
set_option linter.unusedVariables false
namespace Sozu.Backends
open Sozu

/-! ### policies return members of the candidate list -/

theorem rrPick_mem {n : Nat} {cs : List Backend} {b : Backend} (h : (rrPick n cs).1 = some b) : b ∈ cs := by
  unfold rrPick at h
  split at h
  · simp at h
  · exact List.mem_of_getElem? h

theorem foldl_sel_mem (g : Backend → Backend → Backend) (hg : ∀ x y, g x y = x ∨ g x y = y)
    (t : List Backend) (b : Backend) : t.foldl g b = b ∨ t.foldl g b ∈ t := by
  induction t generalizing b with
  | nil => simp
  | cons x t ih =>
    simp only [List.foldl_cons, List.mem_cons]
    rcases ih (g b x) with h | h
    · rcases hg b x with h2 | h2
      · left; rw [h, h2]
      · right; left; rw [h, h2]
    · right; right; exact h

theorem minFirst_mem {m : Backend → Nat} {cs : List Backend} {b : Backend} (h : minFirst m cs = some b) : b ∈ cs := by
  cases cs with
  | nil => simp [minFirst] at h
  | cons x t =>
    simp only [minFirst, Option.some.injEq] at h
    have := foldl_sel_mem (fun best y => if m y < m best then y else best)
      (by intro a c; by_cases hc : m c < m a <;> simp [hc]) t x
    rw [h] at this
    rcases this with h1 | h1
    · simp [h1]
    · simp [h1]

theorem maxFirst_mem {f : Backend → Nat} {cs : List Backend} {b : Backend} (h : maxFirst f cs = some b) : b ∈ cs := by
  cases cs with
  | nil => simp [maxFirst] at h
  | cons x t =>
    simp only [maxFirst, Option.some.injEq] at h
    have := foldl_sel_mem (fun best y => if f best ≥ f y then best else y)
      (by intro a c; by_cases hc : f a ≥ f c <;> simp [hc]) t x
    rw [h] at this
    rcases this with h1 | h1
    · simp [h1]
    · simp [h1]

/-- both slots of the PowerOfTwo accumulator hold members -/
def PairIn (cs : List Backend) (st : Option Backend × Option Backend) : Prop :=
  (∀ b, st.1 = some b → b ∈ cs) ∧ (∀ b, st.2 = some b → b ∈ cs)

theorem p2cStep_in {m : Backend → Nat} {cs : List Backend} {st : Option Backend × Option Backend} {x : Backend}
    (h : PairIn cs st) (hx : x ∈ cs) : PairIn cs (p2cStep m st x) := by
  obtain ⟨f, s⟩ := st
  obtain ⟨h1, h2⟩ := h
  cases f with
  | none => exact ⟨by intro b hb; simp [p2cStep] at hb; exact hb ▸ hx, by intro b hb; simp [p2cStep] at hb; exact h2 b hb⟩
  | some f =>
    cases s with
    | none =>
      simp only [p2cStep]
      split
      · exact ⟨by intro b hb; simp at hb; exact hb ▸ h1 f rfl, by intro b hb; simp at hb; exact hb ▸ hx⟩
      · exact ⟨by intro b hb; simp at hb; exact hb ▸ hx, by intro b hb; simp at hb; exact hb ▸ h1 f rfl⟩
    | some s =>
      simp only [p2cStep]
      split
      · exact ⟨by intro b hb; simp at hb; exact hb ▸ h1 f rfl, by intro b hb; simp at hb; exact hb ▸ hx⟩
      · exact ⟨by intro b hb; simp at hb; exact hb ▸ hx, by intro b hb; simp at hb; exact hb ▸ h1 f rfl⟩

theorem foldl_p2c_in {m : Backend → Nat} {cs : List Backend} (l : List Backend) (hl : ∀ x ∈ l, x ∈ cs)
    (st : Option Backend × Option Backend) (h : PairIn cs st) : PairIn cs (l.foldl (p2cStep m) st) := by
  induction l generalizing st with
  | nil => simpa using h
  | cons x t ih =>
    simp only [List.foldl_cons]
    exact ih (fun y hy => hl y (List.mem_cons_of_mem _ hy)) _ (p2cStep_in h (hl x (by simp)))

theorem p2cChoices_sub {m : Backend → Nat} {cs : List Backend} {b : Backend} (h : b ∈ p2cChoices m cs) : b ∈ cs := by
  have hp : PairIn cs (p2cPair m cs) :=
    foldl_p2c_in cs (fun x hx => hx) (none, none) ⟨by intro b hb; simp at hb, by intro b hb; simp at hb⟩
  unfold p2cChoices at h
  generalize p2cPair m cs = pr at h hp
  obtain ⟨f, s⟩ := pr
  obtain ⟨h1, h2⟩ := hp
  cases f <;> cases s <;> simp at h
  · exact h ▸ h2 _ rfl
  · exact h ▸ h1 _ rfl
  · rcases h with h | h
    · exact h ▸ h1 _ rfl
    · exact h ▸ h2 _ rfl

theorem randomChoices_sub {cs : List Backend} {b : Backend} (h : b ∈ randomChoices cs) : b ∈ cs := by
  unfold randomChoices at h
  simp only at h
  split at h
  · exact h
  · exact (List.mem_filter.mp h).1

theorem maglevLookup_mem {pref built : List Nat} {cs : List Backend} {b : Backend}
    (h : maglevLookup pref built cs = some b) : b ∈ cs := by
  unfold maglevLookup at h
  obtain ⟨a, _, ha⟩ := List.exists_of_findSome?_eq_some h
  split at ha
  · exact List.mem_of_find?_eq_some ha
  · simp at ha

theorem mem_toList {o : Option Backend} {b : Backend} (h : b ∈ o.toList) : o = some b := by
  cases o <;> simp at h
  exact h ▸ rfl

theorem lbChoices_sub {p : Policy} {e : Env} {cs : List Backend} {b : Backend}
    (h : b ∈ (lbChoices p e cs).2) : b ∈ cs := by
  unfold lbChoices at h
  cases p with
  | roundRobin n => exact rrPick_mem (mem_toList h)
  | random => exact randomChoices_sub h
  | leastLoaded m =>
    simp only at h
    split at h
    · exact minFirst_mem (mem_toList h)
    · exact h
  | powerOfTwo m =>
    simp only at h
    split at h
    · exact p2cChoices_sub h
    · exact h
  | hrw n =>
    simp only at h
    split at h
    · exact rrPick_mem (mem_toList h)
    · exact maxFirst_mem (mem_toList h)
  | maglev built n =>
    simp only at h
    split at h
    · exact rrPick_mem (mem_toList h)
    · split at h
      · simp at h
      · split at h
        · next hb => simp at h; exact h ▸ maglevLookup_mem hb
        · exact List.mem_of_getElem? (mem_toList h)

theorem pick_mem {l : List Backend} {r : Nat} {b : Backend} (h : pick l r = some b) : b ∈ l :=
  List.mem_of_getElem? h

/-! ### the cascade -/

theorem okay_iff (r : Retry) (now : Nat) : r.okay now = true ↔ r.wait ≤ now - r.last := by
  simp [Retry.okay]

theorem canOpen_iff (now : Nat) (b : Backend) :
    canOpen now b = true ↔ b.healthy = true ∧ b.status = .normal ∧ b.retry.wait ≤ now - b.retry.last := by
  unfold canOpen
  cases hh : b.healthy <;> simp [hh, Retry.okay]

theorem mem_available {now : Nat} {bs : List Backend} {bk : Bool} {b : Backend} :
    b ∈ available now bs bk ↔ b ∈ bs ∧ b.backup = bk ∧ canOpen now b = true := by
  simp [available, List.mem_filter]

theorem available_empty {now : Nat} {bs : List Backend} {bk : Bool} (h : (available now bs bk).isEmpty = true) :
    ∀ x ∈ bs, x.backup = bk → canOpen now x = false := by
  intro x hx hb
  cases hc : canOpen now x
  · rfl
  · have : x ∈ available now bs bk := mem_available.mpr ⟨hx, hb, hc⟩
    rw [List.isEmpty_iff.mp h] at this
    simp at this

theorem mem_failOpen {now : Nat} {bs : List Backend} {b : Backend} :
    b ∈ failOpen now bs ↔ b ∈ bs ∧ b.status = .normal ∧ b.retry.okay now = true := by
  simp [failOpen, List.mem_filter]

/-- which stage produced the candidate list -/
theorem candidates_cases (now : Nat) (bs : List Backend) :
    ((available now bs false).isEmpty = false ∧ candidates now bs = available now bs false) ∨
    ((available now bs false).isEmpty = true ∧ (available now bs true).isEmpty = false ∧
        candidates now bs = available now bs true) ∨
    ((available now bs false).isEmpty = true ∧ (available now bs true).isEmpty = true ∧
        candidates now bs = failOpen now bs) := by
  unfold candidates
  cases h1 : (available now bs false).isEmpty <;> cases h2 : (available now bs true).isEmpty <;> simp [h1, h2]

theorem mem_candidates {now : Nat} {bs : List Backend} {b : Backend} (h : b ∈ candidates now bs) :
    b ∈ bs ∧ (canOpen now b = true ∨
      ((∀ x ∈ bs, canOpen now x = false) ∧ b.status = .normal ∧ b.retry.okay now = true)) := by
  rcases candidates_cases now bs with ⟨_, hc⟩ | ⟨_, _, hc⟩ | ⟨h1, h2, hc⟩
  · rw [hc] at h; have := mem_available.mp h; exact ⟨this.1, Or.inl this.2.2⟩
  · rw [hc] at h; have := mem_available.mp h; exact ⟨this.1, Or.inl this.2.2⟩
  · rw [hc] at h
    have := mem_failOpen.mp h
    refine ⟨this.1, Or.inr ⟨?_, this.2⟩⟩
    intro x hx
    cases hb : x.backup
    · exact available_empty h1 x hx hb
    · exact available_empty h2 x hx hb

theorem candidates_backup {now : Nat} {bs : List Backend} {b : Backend} (h : b ∈ candidates now bs)
    (hb : b.backup = true) : ∀ x ∈ bs, x.backup = false → canOpen now x = false := by
  rcases candidates_cases now bs with ⟨_, hc⟩ | ⟨h1, _, hc⟩ | ⟨h1, _, hc⟩
  · rw [hc] at h; have := (mem_available.mp h).2.1; rw [hb] at this; cases this
  · exact available_empty h1
  · exact available_empty h1

theorem selectChoices_sub {l : BList} {now : Nat} {e : Env} {b : Backend}
    (h : b ∈ (selectChoices l now e).2) : b ∈ candidates now l.backends := by
  unfold selectChoices at h
  simp only at h
  split at h
  · simp at h
  · exact lbChoices_sub h

theorem selectChoices_backends (l : BList) (now : Nat) (e : Env) :
    (selectChoices l now e).1.backends = l.backends := by
  unfold selectChoices
  simp only
  split <;> rfl

/-! ### list updates that keep addresses -/

def AddrPres (f : Backend → Backend) : Prop := ∀ b, (f b).addr = b.addr

theorem map_addr_updAt {f : Backend → Backend} (hf : AddrPres f) (i : Nat) (l : List Backend) :
    (updAt f i l).map (·.addr) = l.map (·.addr) := by
  induction l generalizing i with
  | nil => cases i <;> rfl
  | cons b t ih =>
    cases i with
    | zero => simp [updAt, hf b]
    | succ i => simp [updAt, ih]

theorem map_addr_updFirst {f : Backend → Backend} (hf : AddrPres f) (p : Backend → Bool) (l : List Backend) :
    (updFirst p f l).map (·.addr) = l.map (·.addr) := by
  induction l with
  | nil => rfl
  | cons b t ih =>
    simp only [updFirst]
    split
    · simp [hf b]
    · simp [ih]

theorem map_addr_map {f : Backend → Backend} (hf : AddrPres f) (l : List Backend) :
    (l.map f).map (·.addr) = l.map (·.addr) := by
  simp [List.map_map, Function.comp_def, hf _]

theorem decConn_addr (b : Backend) : (decConn b).1.addr = b.addr := by
  unfold decConn; split <;> (try split) <;> rfl

theorem incConn_addr (b : Backend) : (incConn b).1.addr = b.addr := by
  unfold incConn; split <;> rfl

theorem recordCheck_addr (b : Backend) (ok : Bool) (thr : Nat) : (recordCheck b ok thr).1.addr = b.addr := by
  have h1 : (recordSuccess b thr).1.addr = b.addr := by unfold recordSuccess; simp only; split <;> rfl
  have h2 : (recordFailure b thr).1.addr = b.addr := by unfold recordFailure; simp only; split <;> rfl
  unfold recordCheck
  cases ok <;> simp [h1, h2]

theorem addrPres_decConn : AddrPres (fun b => (decConn b).1) := fun b => decConn_addr b

theorem addrPres_incConn : AddrPres (fun b => (incConn b).1) := fun b => incConn_addr b

theorem addrPres_recordCheck (ok : Bool) (thr : Nat) : AddrPres (fun b => (recordCheck b ok thr).1) :=
  fun b => recordCheck_addr b ok thr

/-- no backend of the list carries address `a` -/
def NoAddrL (a : Nat) (l : List Backend) : Prop := ∀ b ∈ l, b.addr ≠ a

theorem noAddrL_iff (a : Nat) (l : List Backend) : NoAddrL a l ↔ a ∉ l.map (·.addr) := by
  simp only [NoAddrL, List.mem_map, not_exists, not_and]

theorem noAddrL_of_map_eq {a : Nat} {l l' : List Backend} (h : l'.map (·.addr) = l.map (·.addr))
    (hl : NoAddrL a l) : NoAddrL a l' := by
  rw [noAddrL_iff] at hl ⊢; rw [h]; exact hl

theorem noAddrL_remove (a : Nat) (l : BList) : NoAddrL a (removeBackend l a).1.backends := by
  intro b hb
  simp only [removeBackend, List.mem_filter] at hb
  intro e
  simp [e] at hb

theorem noAddrL_remove_other {a a' : Nat} {l : BList} (h : NoAddrL a l.backends) :
    NoAddrL a (removeBackend l a').1.backends := by
  intro b hb
  simp only [removeBackend, List.mem_filter] at hb
  exact h b hb.1

theorem noAddrL_add {a : Nat} {l : BList} {nb : Backend} (h : NoAddrL a l.backends) (hn : nb.addr ≠ a) :
    NoAddrL a (addBackend l nb).backends := by
  unfold addBackend
  simp only
  split
  · exact noAddrL_of_map_eq (map_addr_updFirst (by intro b; rfl) _ _) h
  · intro b hb
    rcases List.mem_append.mp hb with hb | hb
    · exact h b hb
    · simp at hb; rw [hb]; exact hn

/-! ### the map -/

theorem get_put (s : State) (c c' : Nat) (l : BList) :
    (s.put c l).get c' = if c' = c then some l else s.get c' := by
  simp [State.put, State.get, KMap.get?_set]

theorem now_put (s : State) (c : Nat) (l : BList) : (s.put c l).now = s.now := rfl

/-! ### find_sticky / find? under uniqueness -/

theorem find?_unique {p : Backend → Bool} {l : List Backend} {b : Backend} (hb : b ∈ l) (hp : p b = true)
    (huniq : ∀ x ∈ l, ∀ y ∈ l, p x = true → p y = true → x = y) : l.find? p = some b := by
  cases h : l.find? p with
  | none => have := List.find?_eq_none.mp h b hb; simp [hp] at this
  | some x =>
    have hx := List.mem_of_find?_eq_some h
    have hpx := List.find?_some h
    rw [huniq x hx b hb hpx hp]

/-! ### affinity: results depend only on (id, addr, weight) of the candidates -/

def ident (b : Backend) : Nat × Nat × Option Int := (b.id, b.addr, b.weight)

theorem foldl_max_ident (f : Backend → Nat) (hf : ∀ x y, ident x = ident y → f x = f y)
    (t1 t2 : List Backend) (h : t1.map ident = t2.map ident) (b1 b2 : Backend) (hb : ident b1 = ident b2) :
    ident (t1.foldl (fun best x => if f best ≥ f x then best else x) b1) =
    ident (t2.foldl (fun best x => if f best ≥ f x then best else x) b2) := by
  induction t1 generalizing t2 b1 b2 with
  | nil =>
    cases t2 with
    | nil => simpa using hb
    | cons y t2 => simp at h
  | cons x t1 ih =>
    cases t2 with
    | nil => simp at h
    | cons y t2 =>
      simp only [List.map_cons, List.cons.injEq] at h
      simp only [List.foldl_cons]
      apply ih t2 h.2
      rw [hf b1 b2 hb, hf x y h.1]
      split
      · exact hb
      · exact h.1

theorem maxFirst_ident (f : Backend → Nat) (hf : ∀ x y, ident x = ident y → f x = f y)
    (l1 l2 : List Backend) (h : l1.map ident = l2.map ident) :
    (maxFirst f l1).map ident = (maxFirst f l2).map ident := by
  cases l1 with
  | nil => cases l2 with
    | nil => rfl
    | cons y t2 => simp at h
  | cons x t1 => cases l2 with
    | nil => simp at h
    | cons y t2 =>
      simp only [List.map_cons, List.cons.injEq] at h
      simp only [maxFirst, Option.map_some, Option.some.injEq]
      exact foldl_max_ident f hf t1 t2 h.2 x y h.1

theorem find?_addr_ident (a : Nat) (l1 l2 : List Backend) (h : l1.map ident = l2.map ident) :
    (l1.find? (fun b => b.addr == a)).map ident = (l2.find? (fun b => b.addr == a)).map ident := by
  induction l1 generalizing l2 with
  | nil => cases l2 with
    | nil => rfl
    | cons y t2 => simp at h
  | cons x t1 ih => cases l2 with
    | nil => simp at h
    | cons y t2 =>
      simp only [List.map_cons, List.cons.injEq] at h
      have ha : x.addr = y.addr := by have := h.1; simp [ident] at this; exact this.2.1
      simp only [List.find?_cons, ha]
      split
      · simp [h.1]
      · exact ih t2 h.2

theorem maglevLookup_ident (pref built : List Nat) (l1 l2 : List Backend) (h : l1.map ident = l2.map ident) :
    (maglevLookup pref built l1).map ident = (maglevLookup pref built l2).map ident := by
  unfold maglevLookup
  induction pref with
  | nil => rfl
  | cons a t ih =>
    simp only [List.findSome?_cons]
    by_cases hb : built.contains a = true
    · simp only [hb, if_true]
      have hf := find?_addr_ident a l1 l2 h
      cases h1 : l1.find? (fun b => b.addr == a) <;> cases h2 : l2.find? (fun b => b.addr == a)
      · exact ih
      · rw [h1, h2] at hf; simp at hf
      · rw [h1, h2] at hf; simp at hf
      · rw [h1, h2] at hf; simpa using hf
    · simp only [hb]
      exact ih

theorem getElem?_ident (i : Nat) (l1 l2 : List Backend) (h : l1.map ident = l2.map ident) :
    (l1[i]?).map ident = (l2[i]?).map ident := by
  have : (l1.map ident)[i]? = (l2.map ident)[i]? := by rw [h]
  simpa using this

theorem length_of_ident {l1 l2 : List Backend} (h : l1.map ident = l2.map ident) : l1.length = l2.length := by
  have : (l1.map ident).length = (l2.map ident).length := by rw [h]
  simpa using this

theorem map_addr_of_ident {l1 l2 : List Backend} (h : l1.map ident = l2.map ident) :
    l1.map (·.addr) = l2.map (·.addr) := by
  have : (l1.map ident).map (fun t => t.2.1) = (l2.map ident).map (fun t => t.2.1) := by rw [h]
  simpa [List.map_map, Function.comp_def, ident] using this

theorem isEmpty_of_ident {l1 l2 : List Backend} (h : l1.map ident = l2.map ident) : l1.isEmpty = l2.isEmpty := by
  cases l1 <;> cases l2 <;> simp at h ⊢

/-! ### observation helpers and the spec vocabulary of C12 -/

def Out.picked : Out → Option Backend
  | .sel _ p _ => p
  | _ => none

def Out.viaSticky : Out → Bool
  | .sel _ _ v => v
  | _ => false

/-- the property text: not marked unhealthy, not being removed, not inside its failure back-off -/
def Eligible (now : Nat) (b : Backend) : Prop :=
  b.healthy = true ∧ b.status = .normal ∧ b.retry.wait ≤ now - b.retry.last

/-- the documented fail-open exception: normal and not backing off -/
def FailOpenOk (now : Nat) (b : Backend) : Prop :=
  b.status = .normal ∧ b.retry.wait ≤ now - b.retry.last

instance (now : Nat) (b : Backend) : Decidable (Eligible now b) := by unfold Eligible; infer_instance
instance (now : Nat) (b : Backend) : Decidable (FailOpenOk now b) := by unfold FailOpenOk; infer_instance

theorem eligible_iff (now : Nat) (b : Backend) : Eligible now b ↔ canOpen now b = true :=
  (canOpen_iff now b).symm

theorem not_eligible_of (now : Nat) (b : Backend) (h : canOpen now b = false) : ¬ Eligible now b := by
  rw [eligible_iff]; simp [h]

theorem select_spec {s : State} {c : Nat} {e : Env} {b : Backend}
    (h : (step s (.select c e)).2.picked = some b) :
    ∃ l, s.get c = some l ∧ b ∈ candidates s.now l.backends := by
  simp only [step] at h
  cases hl : s.get c with
  | none => simp [hl, Out.picked] at h
  | some l =>
    simp only [hl, Out.picked] at h
    exact ⟨l, rfl, selectChoices_sub (pick_mem h)⟩

theorem sticky_spec {s : State} {c st : Nat} {e : Env} {b : Backend}
    (h : (step s (.sticky c st e)).2.picked = some b) :
    ∃ l, s.get c = some l ∧
      ((findSticky l st s.now = some b ∧ (step s (.sticky c st e)).2.viaSticky = true) ∨
       (findSticky l st s.now = none ∧ (step s (.sticky c st e)).2.viaSticky = false ∧
          b ∈ candidates s.now l.backends)) := by
  simp only [step] at h ⊢
  cases hl : s.get c with
  | none => simp [hl, Out.picked] at h
  | some l =>
    simp only [hl] at h ⊢
    refine ⟨l, rfl, ?_⟩
    cases hf : findSticky l st s.now with
    | some x =>
      simp only [hf, Out.picked, Option.some.injEq] at h
      left; simp [h, Out.viaSticky]
    | none =>
      simp only [hf, Out.picked] at h
      right; exact ⟨rfl, by simp [Out.viaSticky], selectChoices_sub (pick_mem h)⟩

theorem findSticky_spec {l : BList} {st now : Nat} {b : Backend} (h : findSticky l st now = some b) :
    b ∈ l.backends ∧ b.sticky = some st ∧ canOpen now b = true := by
  unfold findSticky at h
  have hp := List.find?_some h
  simp only [Bool.and_eq_true, beq_iff_eq] at hp
  exact ⟨List.mem_of_find?_eq_some h, hp.1, hp.2⟩

theorem findSticky_isSome {l : BList} {st now : Nat} {b : Backend} (hb : b ∈ l.backends)
    (hs : b.sticky = some st) (hc : canOpen now b = true) : ∃ b', findSticky l st now = some b' := by
  unfold findSticky
  cases h : l.backends.find? (fun b => b.sticky == some st && canOpen now b) with
  | some x => exact ⟨x, rfl⟩
  | none => have := List.find?_eq_none.mp h b hb; simp [hs, hc] at this

/-! ### removal: an address stays absent until it is added again -/

def NoAddr (s : State) (c a : Nat) : Prop := ∀ l, s.get c = some l → NoAddrL a l.backends

def Op.addsAddr (c a : Nat) : Op → Bool
  | .add c' _ a' _ _ _ => c' == c && a' == a
  | _ => false

theorem noAddr_put {s : State} {c c' a : Nat} {l : BList} (h : NoAddr s c a)
    (hl : c' = c → NoAddrL a l.backends) : NoAddr (s.put c' l) c a := by
  intro l' hl'
  rw [get_put] at hl'
  by_cases hc : c = c'
  · simp [hc] at hl'; subst hl'; exact hl hc.symm
  · simp [hc] at hl'; exact h l' hl'

theorem noAddrL_getD {s : State} {c a : Nat} (h : NoAddr s c a) : NoAddrL a ((s.get c).getD BList.new).backends := by
  cases hg : s.get c with
  | none => intro b hb; simp [BList.new] at hb
  | some l => exact h l hg

theorem noAddr_onBackend {s : State} {c c' i a : Nat} {f : Backend → Backend} {g : Backend → Out}
    (hf : AddrPres f) (h : NoAddr s c a) : NoAddr (onBackend s c' i f g).1 c a := by
  unfold onBackend
  cases hg : s.get c' with
  | none => exact h
  | some l =>
    simp only
    cases hb : l.backends[i]? with
    | none => exact h
    | some b =>
      simp only
      apply noAddr_put h
      intro hc
      subst hc
      exact noAddrL_of_map_eq (map_addr_updAt hf i l.backends) (h l hg)

theorem noAddr_step {s : State} {c a : Nat} (op : Op) (h : NoAddr s c a) (hop : op.addsAddr c a = false) :
    NoAddr (step s op).1 c a := by
  cases op with
  | tick d => exact h
  | add c' id a' st w bk =>
    simp only [step]
    apply noAddr_put h
    intro hc
    subst hc
    apply noAddrL_add (noAddrL_getD h)
    simp [Op.addsAddr] at hop
    simpa [Backend.new] using hop
  | remove c' a' =>
    simp only [step]
    cases hg : s.get c' with
    | none => exact h
    | some l =>
      simp only
      apply noAddr_put h
      intro hc; subst hc
      exact noAddrL_remove_other (h l hg)
  | setPolicy c' k m =>
    simp only [step]
    apply noAddr_put h
    intro hc; subst hc
    simpa [setPolicy] using noAddrL_getD h
  | health c' a' ok thr =>
    simp only [step]
    cases hg : s.get c' with
    | none => exact h
    | some l =>
      simp only
      cases hf : findBackend l a' with
      | none => exact h
      | some b =>
        simp only
        apply noAddr_put h
        intro hc; subst hc
        exact noAddrL_of_map_eq (map_addr_updFirst (addrPres_recordCheck ok thr) _ _) (h l hg)
  | healthOff c' =>
    simp only [step]
    cases hg : s.get c' with
    | none => exact h
    | some l =>
      simp only
      apply noAddr_put h
      intro hc; subst hc
      exact noAddrL_of_map_eq (map_addr_map (f := resetHealth) (fun b => rfl) _) (h l hg)
  | fail c' i w => exact noAddr_onBackend (fun b => rfl) h
  | succeed c' i => exact noAddr_onBackend (fun b => rfl) h
  | inc c' i => exact noAddr_onBackend addrPres_incConn h
  | dec c' i => exact noAddr_onBackend addrPres_decConn h
  | closing c' i => exact noAddr_onBackend (fun b => rfl) h
  | reqInc c' i => exact noAddr_onBackend (fun b => rfl) h
  | reqDec c' i => exact noAddr_onBackend (fun b => rfl) h
  | closeAddr c' a' =>
    simp only [step]
    cases hg : s.get c' with
    | none => exact h
    | some l =>
      simp only
      apply noAddr_put h
      intro hc; subst hc
      exact noAddrL_of_map_eq (map_addr_updFirst addrPres_decConn _ _) (h l hg)
  | select c' e =>
    simp only [step]
    cases hg : s.get c' with
    | none => exact h
    | some l =>
      simp only
      apply noAddr_put h
      intro hc; subst hc
      rw [selectChoices_backends]; exact h l hg
  | sticky c' st e =>
    simp only [step]
    cases hg : s.get c' with
    | none => exact h
    | some l =>
      simp only
      cases hf : findSticky l st s.now with
      | some b => exact h
      | none =>
        simp only
        apply noAddr_put h
        intro hc; subst hc
        rw [selectChoices_backends]; exact h l hg

theorem noAddr_run {c a : Nat} (ops : List Op) (s : State) (h : NoAddr s c a)
    (hops : ∀ o ∈ ops, o.addsAddr c a = false) : NoAddr (run s ops) c a := by
  induction ops generalizing s with
  | nil => exact h
  | cons o t ih =>
    simp only [run, List.foldl_cons]
    exact ih _ (noAddr_step o h (hops o (by simp))) (fun o' ho' => hops o' (List.mem_cons_of_mem _ ho'))

theorem noAddr_remove (s : State) (c a : Nat) : NoAddr (step s (.remove c a)).1 c a := by
  simp only [step]
  cases hg : s.get c with
  | none => intro l hl; simp [hg] at hl
  | some l =>
    simp only
    intro l' hl'
    rw [get_put] at hl'
    simp at hl'; subst hl'
    exact noAddrL_remove a l

/-! ### counters -/

theorem decConn_incConn (b : Backend) (h : b.status = .normal) : (decConn (incConn b).1).1 = b := by
  cases b
  simp only at h
  subst h
  simp [incConn, decConn, decN]

inductive COp where
  | inc | dec | closing
deriving DecidableEq, Repr

/-- one step of a connection history on one backend, with the ghost count
    `out` of connections currently open; a `dec` without an open connection is
    outside the call-site protocol (`none`). -/
def cstep (st : Backend × Nat) : COp → Option (Backend × Nat)
  | .inc => some ((incConn st.1).1, if (incConn st.1).2.isSome then st.2 + 1 else st.2)
  | .dec => if st.2 = 0 then none else some ((decConn st.1).1, st.2 - 1)
  | .closing => some (setClosing st.1, st.2)

def crun : Backend × Nat → List COp → Option (Backend × Nat)
  | st, [] => some st
  | st, o :: t => (cstep st o).bind (fun st' => crun st' t)

def CInv (st : Backend × Nat) : Prop := st.1.conns = st.2 ∧ (st.1.status = .closed → st.2 = 0)

theorem cinv_step {st st' : Backend × Nat} {o : COp} (h : CInv st) (hs : cstep st o = some st') : CInv st' := by
  obtain ⟨b, out⟩ := st
  obtain ⟨hc, hz⟩ := h
  simp only at hc hz
  cases o with
  | inc =>
    simp only [cstep, Option.some.injEq] at hs
    subst hs
    unfold incConn
    by_cases hn : b.status = .normal
    · simp [hn, CInv, hc]
    · simp only [hn, if_false]; exact ⟨by simpa using hc, by simpa using hz⟩
  | dec =>
    simp only [cstep] at hs
    split at hs
    · simp at hs
    · next hne =>
      simp only [Option.some.injEq] at hs
      subst hs
      unfold decConn
      cases hst : b.status with
      | normal =>
        refine ⟨?_, ?_⟩
        · simp only [decN]; split <;> omega
        · intro h2; simp [hst] at h2
      | closed => exact absurd (hz hst) hne
      | closing =>
        simp only
        split
        · next h0 => refine ⟨?_, ?_⟩
                     · simp only [decN] at h0 ⊢; split <;> omega
                     · intro _; simp only [decN] at h0; split at h0 <;> omega
        · next h0 => refine ⟨?_, ?_⟩
                     · simp only [decN]; split <;> omega
                     · intro h2; simp [hst] at h2
  | closing =>
    simp only [cstep, Option.some.injEq] at hs
    subst hs
    exact ⟨by simpa [setClosing] using hc, by intro h2; simp [setClosing] at h2⟩

theorem cinv_run (ops : List COp) {st st' : Backend × Nat} (h : CInv st) (hr : crun st ops = some st') : CInv st' := by
  induction ops generalizing st with
  | nil => simp [crun] at hr; exact hr ▸ h
  | cons o t ih =>
    simp only [crun] at hr
    cases hs : cstep st o with
    | none => simp [hs] at hr
    | some st1 =>
      simp only [hs, Option.bind_some] at hr
      exact ih (cinv_step h hs) hr

/-- request counter history (`active_requests += 1` / `saturating_sub(1)`) with the
    ghost count of requests in flight; ending a request that is not in flight is
    outside the protocol (`none`). `true` = a request starts. -/
def rrun : Nat × Nat → List Bool → Option (Nat × Nat)
  | st, [] => some st
  | st, true :: t => rrun (st.1 + 1, st.2 + 1) t
  | st, false :: t => if st.2 = 0 then none else rrun (st.1 - 1, st.2 - 1) t

theorem rrun_inv (ops : List Bool) (st st' : Nat × Nat) (h : st.1 = st.2) (hr : rrun st ops = some st') :
    st'.1 = st'.2 := by
  induction ops generalizing st with
  | nil => simp [rrun] at hr; exact hr ▸ h
  | cons o t ih =>
    cases o with
    | true => simp only [rrun] at hr; exact ih _ (by simp [h]) hr
    | false =>
      simp only [rrun] at hr
      split at hr
      · simp at hr
      · exact ih _ (by simp [h]) hr

def incAt (l : BList) (i : Nat) : BList := { l with backends := updAt (fun b => (incConn b).1) i l.backends }

theorem close_after_open_unique (bs : List Backend) (i : Nat) (b : Backend) (hb : bs[i]? = some b)
    (hn : b.status = .normal) (huniq : (bs.map (·.addr)).Nodup) :
    updFirst (fun x => x.addr == b.addr) (fun x => (decConn x).1) (updAt (fun x => (incConn x).1) i bs) = bs := by
  induction bs generalizing i with
  | nil => simp at hb
  | cons x t ih =>
    cases i with
    | zero =>
      simp at hb; subst hb
      simp [updAt, updFirst, incConn_addr, decConn_incConn x hn]
    | succ i =>
      simp only [List.getElem?_cons_succ] at hb
      simp only [List.map_cons, List.nodup_cons] at huniq
      have hne : (x.addr == b.addr) = false := by
        have hm : b.addr ∈ t.map (·.addr) := List.mem_map.mpr ⟨b, List.mem_of_getElem? hb, rfl⟩
        cases hx : x.addr == b.addr
        · rfl
        · have : x.addr = b.addr := by simpa using hx
          exact absurd (this ▸ hm) huniq.1
      simp only [updAt, updFirst, hne]
      simp [ih i hb huniq.2]

/-! ### generic preservation machinery for whole-map, whole-history statements -/

def Pres {β : Type} (g : Backend → β) (f : Backend → Backend) : Prop := ∀ b, g (f b) = g b

theorem map_updAt_pres {β : Type} {g : Backend → β} {f : Backend → Backend} (hf : Pres g f) (i : Nat)
    (l : List Backend) : (updAt f i l).map g = l.map g := by
  induction l generalizing i with
  | nil => cases i <;> rfl
  | cons b t ih =>
    cases i with
    | zero => simp [updAt, hf b]
    | succ i => simp [updAt, ih]

theorem map_updFirst_pres {β : Type} {g : Backend → β} {f : Backend → Backend} (hf : Pres g f)
    (p : Backend → Bool) (l : List Backend) : (updFirst p f l).map g = l.map g := by
  induction l with
  | nil => rfl
  | cons b t ih =>
    simp only [updFirst]
    split
    · simp [hf b]
    · simp [ih]

theorem map_map_pres {β : Type} {g : Backend → β} {f : Backend → Backend} (hf : Pres g f) (l : List Backend) :
    (l.map f).map g = l.map g := by
  simp [List.map_map, Function.comp_def, hf _]

theorem mem_updAt {f : Backend → Backend} {i : Nat} {l : List Backend} {x : Backend} (h : x ∈ updAt f i l) :
    x ∈ l ∨ ∃ b ∈ l, x = f b := by
  induction l generalizing i with
  | nil => cases i <;> simp [updAt] at h
  | cons b t ih =>
    cases i with
    | zero =>
      simp only [updAt, List.mem_cons] at h
      rcases h with h | h
      · exact Or.inr ⟨b, by simp, h⟩
      · exact Or.inl (by simp [h])
    | succ i =>
      simp only [updAt, List.mem_cons] at h
      rcases h with h | h
      · exact Or.inl (by simp [h])
      · rcases ih h with h1 | ⟨y, hy, he⟩
        · exact Or.inl (by simp [h1])
        · exact Or.inr ⟨y, by simp [hy], he⟩

theorem mem_updFirst {p : Backend → Bool} {f : Backend → Backend} {l : List Backend} {x : Backend}
    (h : x ∈ updFirst p f l) : x ∈ l ∨ ∃ b ∈ l, x = f b := by
  induction l with
  | nil => simp [updFirst] at h
  | cons b t ih =>
    simp only [updFirst] at h
    split at h
    · simp only [List.mem_cons] at h
      rcases h with h | h
      · exact Or.inr ⟨b, by simp, h⟩
      · exact Or.inl (by simp [h])
    · simp only [List.mem_cons] at h
      rcases h with h | h
      · exact Or.inl (by simp [h])
      · rcases ih h with h1 | ⟨y, hy, he⟩
        · exact Or.inl (by simp [h1])
        · exact Or.inr ⟨y, by simp [hy], he⟩

/-- every backend of every cluster satisfies `P` -/
def AllB (P : Backend → Prop) (s : State) : Prop := ∀ c l, s.get c = some l → ∀ b ∈ l.backends, P b

/-- `P` is kept by every way the op interpreter creates or rewrites a backend -/
structure Stable (P : Backend → Prop) : Prop where
  new : ∀ now id a st w bk, P (Backend.new now id a st w bk)
  upd : ∀ b st w bk, P b → P { b with sticky := st, weight := w, backup := bk }
  check : ∀ b ok thr, P b → P (recordCheck b ok thr).1
  reset : ∀ b, P b → P (resetHealth b)
  retry : ∀ b now w, P b → P { b with retry := b.retry.fail now w }
  succ : ∀ b now, P b → P { b with retry := b.retry.succeed now }
  inc : ∀ b, P b → P (incConn b).1
  dec : ∀ b, P b → P (decConn b).1
  closing : ∀ b, P b → P (setClosing b)
  reqs : ∀ b n, P b → P { b with reqs := n }

theorem allB_put {P : Backend → Prop} {s : State} {c : Nat} {l : BList} (h : AllB P s)
    (hl : ∀ b ∈ l.backends, P b) : AllB P (s.put c l) := by
  intro c' l' hg b hb
  rw [get_put] at hg
  by_cases hc : c' = c
  · simp [hc] at hg; subst hg; exact hl b hb
  · simp [hc] at hg; exact h c' l' hg b hb

theorem allB_onBackend {P : Backend → Prop} {s : State} {c i : Nat} {f : Backend → Backend} {g : Backend → Out}
    (hf : ∀ b, P b → P (f b)) (h : AllB P s) : AllB P (onBackend s c i f g).1 := by
  unfold onBackend
  cases hg : s.get c with
  | none => exact h
  | some l =>
    simp only
    cases hb : l.backends[i]? with
    | none => exact h
    | some b0 =>
      simp only
      apply allB_put h
      intro x hx
      rcases mem_updAt hx with h1 | ⟨y, hy, he⟩
      · exact h c l hg x h1
      · exact he ▸ hf y (h c l hg y hy)

theorem allB_getD {P : Backend → Prop} {s : State} {c : Nat} (h : AllB P s) :
    ∀ b ∈ ((s.get c).getD BList.new).backends, P b := by
  cases hg : s.get c with
  | none => intro b hb; simp [BList.new] at hb
  | some l => exact h c l hg

theorem allB_step {P : Backend → Prop} (hP : Stable P) {s : State} (op : Op) (h : AllB P s) :
    AllB P (step s op).1 := by
  cases op with
  | tick d => exact h
  | add c id a st w bk =>
    simp only [step]
    apply allB_put h
    intro x hx
    unfold addBackend at hx
    simp only at hx
    split at hx
    · rcases mem_updFirst hx with h1 | ⟨y, hy, he⟩
      · exact allB_getD h x h1
      · exact he ▸ hP.upd y _ _ _ (allB_getD h y hy)
    · rcases List.mem_append.mp hx with h1 | h1
      · exact allB_getD h x h1
      · simp at h1; exact h1 ▸ hP.new _ _ _ _ _ _
  | remove c a =>
    simp only [step]
    cases hg : s.get c with
    | none => exact h
    | some l =>
      simp only
      apply allB_put h
      intro x hx
      simp only [removeBackend, List.mem_filter] at hx
      exact h c l hg x hx.1
  | setPolicy c k m =>
    simp only [step]
    apply allB_put h
    simpa [setPolicy] using allB_getD (c := c) h
  | health c a ok thr =>
    simp only [step]
    cases hg : s.get c with
    | none => exact h
    | some l =>
      simp only
      cases hf : findBackend l a with
      | none => exact h
      | some b =>
        simp only
        apply allB_put h
        intro x hx
        rcases mem_updFirst hx with h1 | ⟨y, hy, he⟩
        · exact h c l hg x h1
        · exact he ▸ hP.check y ok thr (h c l hg y hy)
  | healthOff c =>
    simp only [step]
    cases hg : s.get c with
    | none => exact h
    | some l =>
      simp only
      apply allB_put h
      intro x hx
      obtain ⟨y, hy, he⟩ := List.mem_map.mp hx
      exact he ▸ hP.reset y (h c l hg y hy)
  | fail c i w => exact allB_onBackend (fun b hb => hP.retry b _ _ hb) h
  | succeed c i => exact allB_onBackend (fun b hb => hP.succ b _ hb) h
  | inc c i => exact allB_onBackend hP.inc h
  | dec c i => exact allB_onBackend hP.dec h
  | closing c i => exact allB_onBackend hP.closing h
  | reqInc c i => exact allB_onBackend (fun b hb => hP.reqs b _ hb) h
  | reqDec c i => exact allB_onBackend (fun b hb => hP.reqs b _ hb) h
  | closeAddr c a =>
    simp only [step]
    cases hg : s.get c with
    | none => exact h
    | some l =>
      simp only
      apply allB_put h
      intro x hx
      rcases mem_updFirst hx with h1 | ⟨y, hy, he⟩
      · exact h c l hg x h1
      · exact he ▸ hP.dec y (h c l hg y hy)
  | select c e =>
    simp only [step]
    cases hg : s.get c with
    | none => exact h
    | some l =>
      simp only
      apply allB_put h
      rw [selectChoices_backends]; exact h c l hg
  | sticky c st e =>
    simp only [step]
    cases hg : s.get c with
    | none => exact h
    | some l =>
      simp only
      cases hf : findSticky l st s.now with
      | some b => exact h
      | none =>
        simp only
        apply allB_put h
        rw [selectChoices_backends]; exact h c l hg

theorem allB_run {P : Backend → Prop} (hP : Stable P) (ops : List Op) {s : State} (h : AllB P s) :
    AllB P (run s ops) := by
  induction ops generalizing s with
  | nil => exact h
  | cons o t ih => simp only [run, List.foldl_cons]; exact ih (allB_step hP o h)

theorem allB_init (P : Backend → Prop) : AllB P State.init := by
  intro c l hg; simp [State.init, State.get] at hg

/-- a health result rewrites the health fields only -/
theorem recordCheck_frame (b : Backend) (ok : Bool) (thr : Nat) :
    (recordCheck b ok thr).1.id = b.id ∧ (recordCheck b ok thr).1.addr = b.addr ∧
    (recordCheck b ok thr).1.status = b.status ∧ (recordCheck b ok thr).1.conns = b.conns ∧
    (recordCheck b ok thr).1.reqs = b.reqs ∧ (recordCheck b ok thr).1.retry = b.retry ∧
    (recordCheck b ok thr).1.sticky = b.sticky ∧ (recordCheck b ok thr).1.weight = b.weight ∧
    (recordCheck b ok thr).1.backup = b.backup := by
  have h1 : ∀ r, r = (recordSuccess b thr).1 → r.id = b.id ∧ r.addr = b.addr ∧ r.status = b.status ∧
      r.conns = b.conns ∧ r.reqs = b.reqs ∧ r.retry = b.retry ∧ r.sticky = b.sticky ∧ r.weight = b.weight ∧
      r.backup = b.backup := by
    intro r hr; subst hr; unfold recordSuccess; simp only; split <;> simp
  have h2 : ∀ r, r = (recordFailure b thr).1 → r.id = b.id ∧ r.addr = b.addr ∧ r.status = b.status ∧
      r.conns = b.conns ∧ r.reqs = b.reqs ∧ r.retry = b.retry ∧ r.sticky = b.sticky ∧ r.weight = b.weight ∧
      r.backup = b.backup := by
    intro r hr; subst hr; unfold recordFailure; simp only; split <;> simp
  unfold recordCheck
  cases ok
  · exact h2 _ rfl
  · exact h1 _ rfl

/-- a Closed backend holds no connection -/
def ClosedEmpty (b : Backend) : Prop := b.status = .closed → b.conns = 0

theorem stable_closedEmpty : Stable ClosedEmpty where
  new := by intro now id a st w bk h; simp [Backend.new] at h
  upd := by intro b st w bk h; exact h
  check := by
    intro b ok thr h
    have h1 := recordCheck_frame b ok thr
    intro hc; rw [h1.2.2.2.1]; exact h (h1.2.2.1 ▸ hc)
  reset := by intro b h; exact h
  retry := by intro b now w h; exact h
  succ := by intro b now h; exact h
  inc := by
    intro b h; unfold incConn
    by_cases hn : b.status = .normal
    · simp only [hn, if_true]; intro hc; simp [hn] at hc
    · simp only [hn, if_false]; exact h
  dec := by
    intro b h; unfold decConn
    cases hst : b.status with
    | normal => intro hc; simp [hst] at hc
    | closed => simp only; exact h
    | closing =>
      simp only
      split
      · next h0 => intro _; exact h0
      · intro hc; simp [hst] at hc
  closing := by intro b h hc; simp [setClosing] at hc
  reqs := by intro b n h; exact h

/-- the back-off policy never exceeds its try budget -/
def TriesBounded (b : Backend) : Prop := b.retry.tries ≤ b.retry.max

theorem stable_triesBounded : Stable TriesBounded where
  new := by intro now id a st w bk; simp [TriesBounded, Backend.new, Retry.new]
  upd := by intro b st w bk h; exact h
  check := by
    intro b ok thr h
    have h1 := (recordCheck_frame b ok thr).2.2.2.2.2.1
    simpa [TriesBounded, h1] using h
  reset := by intro b h; exact h
  retry := by
    intro b now w h
    simp only [TriesBounded, Retry.fail] at h ⊢
    split
    · exact h
    · simp only; omega
  succ := by intro b now h; simp [TriesBounded, Retry.succeed]
  inc := by intro b h; unfold incConn; split <;> exact h
  dec := by intro b h; unfold decConn; split <;> (try split) <;> exact h
  closing := by intro b h; exact h
  reqs := by intro b n h; exact h

/-! ### counters are touched by the counter ops only -/

/-- identity and load of a backend -/
def ctr (b : Backend) : Nat × Nat × Nat × Nat := (b.id, b.addr, b.conns, b.reqs)

def ctrsOf (s : State) (c : Nat) : List (Nat × Nat × Nat × Nat) :=
  ((s.get c).map (fun l => l.backends.map ctr)).getD []

/-- ops that may change the membership or a counter of cluster `c` -/
def Op.touchesCounters (c : Nat) : Op → Bool
  | .add c' _ _ _ _ _ => c' == c
  | .remove c' _ => c' == c
  | .inc c' _ => c' == c
  | .dec c' _ => c' == c
  | .reqInc c' _ => c' == c
  | .reqDec c' _ => c' == c
  | .closeAddr c' _ => c' == c
  | _ => false

theorem ctrsOf_put_other {s : State} {c c' : Nat} {l : BList} (h : c ≠ c') : ctrsOf (s.put c' l) c = ctrsOf s c := by
  simp [ctrsOf, get_put, h]

theorem ctrsOf_put_same {s : State} {c : Nat} {l l' : BList} (hg : s.get c = some l)
    (h : l'.backends.map ctr = l.backends.map ctr) : ctrsOf (s.put c l') c = ctrsOf s c := by
  simp [ctrsOf, get_put, hg, h]

theorem ctrsOf_put {s : State} {c c' : Nat} {l l' : BList} (hg : s.get c' = some l)
    (h : l'.backends.map ctr = l.backends.map ctr) : ctrsOf (s.put c' l') c = ctrsOf s c := by
  by_cases hc : c = c'
  · subst hc; exact ctrsOf_put_same hg h
  · exact ctrsOf_put_other hc

theorem ctrsOf_onBackend {s : State} {c c' i : Nat} {f : Backend → Backend} {g : Backend → Out}
    (hf : c ≠ c' ∨ Pres ctr f) : ctrsOf (onBackend s c' i f g).1 c = ctrsOf s c := by
  unfold onBackend
  cases hg : s.get c' with
  | none => rfl
  | some l =>
    simp only
    cases hb : l.backends[i]? with
    | none => rfl
    | some b =>
      simp only
      rcases hf with hne | hp
      · exact ctrsOf_put_other hne
      · exact ctrsOf_put hg (map_updAt_pres hp i l.backends)

theorem recordCheck_ctr (b : Backend) (ok : Bool) (thr : Nat) : ctr (recordCheck b ok thr).1 = ctr b := by
  have h := recordCheck_frame b ok thr
  simp [ctr, h.1, h.2.1, h.2.2.2.1, h.2.2.2.2.1]

theorem ctrs_step {s : State} {c : Nat} (op : Op) (hop : op.touchesCounters c = false) :
    ctrsOf (step s op).1 c = ctrsOf s c := by
  cases op with
  | tick d => rfl
  | add c' id a st w bk =>
    simp [Op.touchesCounters] at hop
    simp only [step]; exact ctrsOf_put_other (fun e => hop e.symm)
  | remove c' a =>
    simp [Op.touchesCounters] at hop
    simp only [step]
    cases hg : s.get c' with
    | none => rfl
    | some l => exact ctrsOf_put_other (fun e => hop e.symm)
  | setPolicy c' k m =>
    simp only [step]
    cases hg : s.get c' with
    | none =>
      by_cases hc : c = c'
      · subst hc; simp [ctrsOf, get_put, hg, setPolicy, BList.new]
      · exact ctrsOf_put_other hc
    | some l => exact ctrsOf_put hg (by simp [setPolicy])
  | health c' a ok thr =>
    simp only [step]
    cases hg : s.get c' with
    | none => rfl
    | some l =>
      simp only
      cases hf : findBackend l a with
      | none => rfl
      | some b => exact ctrsOf_put hg (map_updFirst_pres (fun b => recordCheck_ctr b ok thr) _ _)
  | healthOff c' =>
    simp only [step]
    cases hg : s.get c' with
    | none => rfl
    | some l => exact ctrsOf_put hg (map_map_pres (f := resetHealth) (fun b => rfl) _)
  | fail c' i w => exact ctrsOf_onBackend (Or.inr (fun b => rfl))
  | succeed c' i => exact ctrsOf_onBackend (Or.inr (fun b => rfl))
  | inc c' i => simp [Op.touchesCounters] at hop; exact ctrsOf_onBackend (Or.inl (fun e => hop e.symm))
  | dec c' i => simp [Op.touchesCounters] at hop; exact ctrsOf_onBackend (Or.inl (fun e => hop e.symm))
  | closing c' i => exact ctrsOf_onBackend (Or.inr (fun b => rfl))
  | reqInc c' i => simp [Op.touchesCounters] at hop; exact ctrsOf_onBackend (Or.inl (fun e => hop e.symm))
  | reqDec c' i => simp [Op.touchesCounters] at hop; exact ctrsOf_onBackend (Or.inl (fun e => hop e.symm))
  | closeAddr c' a =>
    simp [Op.touchesCounters] at hop
    simp only [step]
    cases hg : s.get c' with
    | none => rfl
    | some l => exact ctrsOf_put_other (fun e => hop e.symm)
  | select c' e =>
    simp only [step]
    cases hg : s.get c' with
    | none => rfl
    | some l => exact ctrsOf_put hg (by rw [selectChoices_backends])
  | sticky c' st e =>
    simp only [step]
    cases hg : s.get c' with
    | none => rfl
    | some l =>
      simp only
      cases hf : findSticky l st s.now with
      | some b => rfl
      | none => exact ctrsOf_put hg (by rw [selectChoices_backends])

theorem ctrs_run {c : Nat} (ops : List Op) (s : State) (hops : ∀ o ∈ ops, o.touchesCounters c = false) :
    ctrsOf (run s ops) c = ctrsOf s c := by
  induction ops generalizing s with
  | nil => rfl
  | cons o t ih =>
    have h1 := ih (step s o).1 (fun o' ho' => hops o' (List.mem_cons_of_mem _ ho'))
    simp only [run, List.foldl_cons] at h1 ⊢
    rw [h1]
    exact ctrs_step o (hops o (by simp))

/-! ### a non-empty candidate list always yields a backend -/

theorem rrPick_some {n : Nat} {cs : List Backend} (h : cs ≠ []) : ∃ b, (rrPick n cs).1 = some b := by
  unfold rrPick
  have hl : 0 < cs.length := List.length_pos_iff.mpr h
  have he : cs.isEmpty = false := by cases cs <;> simp at h ⊢
  simp only [he, Bool.false_eq_true, if_false]
  exact ⟨cs[n % cs.length]'(Nat.mod_lt _ hl), List.getElem?_eq_getElem _⟩

theorem getElem?_mod_some {k : Nat} {cs : List Backend} (h : cs ≠ []) : ∃ b, cs[k % cs.length]? = some b := by
  have hl : 0 < cs.length := List.length_pos_iff.mpr h
  exact ⟨cs[k % cs.length]'(Nat.mod_lt _ hl), List.getElem?_eq_getElem _⟩

theorem foldl_p2c_first (m : Backend → Nat) (l : List Backend) (st : Option Backend × Option Backend)
    (h : st.1.isSome = true) : (l.foldl (p2cStep m) st).1.isSome = true := by
  induction l generalizing st with
  | nil => simpa using h
  | cons x t ih =>
    simp only [List.foldl_cons]
    apply ih
    obtain ⟨f, sd⟩ := st
    cases f with
    | none => simp at h
    | some f => cases sd <;> simp only [p2cStep] <;> split <;> rfl

theorem p2cChoices_ne_nil {m : Backend → Nat} {cs : List Backend} (h : cs ≠ []) : p2cChoices m cs ≠ [] := by
  cases cs with
  | nil => exact absurd rfl h
  | cons x t =>
    have h1 : (p2cPair m (x :: t)).1.isSome = true := by
      simp only [p2cPair, List.foldl_cons]
      exact foldl_p2c_first m t _ (by simp [p2cStep])
    unfold p2cChoices
    generalize p2cPair m (x :: t) = pr at h1
    obtain ⟨f, sd⟩ := pr
    cases f <;> cases sd <;> simp at h1 ⊢

theorem exists_pos_of_sum_ne_zero (ws : List Int) (hn : ∀ x ∈ ws, 0 ≤ x) (hs : ws.sum ≠ 0) : ∃ x ∈ ws, 0 < x := by
  induction ws with
  | nil => simp at hs
  | cons a t ih =>
    by_cases ha : 0 < a
    · exact ⟨a, by simp, ha⟩
    · have h0 : a = 0 := by have := hn a (by simp); omega
      have : t.sum ≠ 0 := by simpa [h0] using hs
      obtain ⟨x, hx, hp⟩ := ih (fun x hx => hn x (List.mem_cons_of_mem _ hx)) this
      exact ⟨x, List.mem_cons_of_mem _ hx, hp⟩

theorem randomChoices_ne_nil {cs : List Backend} (h : cs ≠ []) : randomChoices cs ≠ [] := by
  unfold randomChoices
  simp only
  split
  · exact h
  · next hc =>
    simp only [Bool.or_eq_true, not_or, Bool.not_eq_true] at hc
    obtain ⟨⟨h1, h2⟩, _⟩ := hc
    have hn : ∀ x ∈ cs.map wOf, 0 ≤ x := by
      intro x hx
      have := List.any_eq_false.mp h1 x hx
      simpa using this
    have hs : (cs.map wOf).sum ≠ 0 := by simpa using h2
    obtain ⟨x, hx, hp⟩ := exists_pos_of_sum_ne_zero _ hn hs
    obtain ⟨b, hb, he⟩ := List.mem_map.mp hx
    intro hnil
    have : b ∈ cs.filter (fun b => wOf b > 0) := List.mem_filter.mpr ⟨hb, by simpa [he] using hp⟩
    rw [hnil] at this; simp at this

theorem lbChoices_ne_nil (p : Policy) (e : Env) {cs : List Backend} (h : cs ≠ []) : (lbChoices p e cs).2 ≠ [] := by
  have he : cs.isEmpty = false := by cases cs <;> simp at h ⊢
  unfold lbChoices
  cases p with
  | roundRobin n => obtain ⟨b, hb⟩ := rrPick_some (n := n) h; simp [hb]
  | random => exact randomChoices_ne_nil h
  | leastLoaded m =>
    simp only
    split
    · cases cs with
      | nil => exact absurd rfl h
      | cons x t => simp [minFirst]
    · exact h
  | powerOfTwo m =>
    simp only
    split
    · exact p2cChoices_ne_nil h
    · exact h
  | hrw n =>
    simp only
    split
    · obtain ⟨b, hb⟩ := rrPick_some (n := n) h; simp [hb]
    · cases cs with
      | nil => exact absurd rfl h
      | cons x t => simp [maxFirst]
  | maglev built n =>
    simp only
    split
    · obtain ⟨b, hb⟩ := rrPick_some (n := n) h; simp [hb]
    · next k _ =>
      simp only [he, Bool.false_eq_true, if_false]
      split
      · simp
      · obtain ⟨b, hb⟩ := getElem?_mod_some (k := k) h; simp [hb]

theorem pick_some {l : List Backend} (r : Nat) (h : l ≠ []) : ∃ b, pick l r = some b := by
  have hl : 0 < l.length := List.length_pos_iff.mpr h
  exact ⟨l[r % l.length]'(Nat.mod_lt _ hl), List.getElem?_eq_getElem _⟩

theorem selectChoices_ne_nil (l : BList) (now : Nat) (e : Env) (h : candidates now l.backends ≠ []) :
    (selectChoices l now e).2 ≠ [] := by
  have he : (candidates now l.backends).isEmpty = false := by
    cases hc : candidates now l.backends <;> simp [hc] at h ⊢
  unfold selectChoices
  simp only [he, Bool.false_eq_true, if_false]
  exact lbChoices_ne_nil _ _ h

/-- the candidate list is empty exactly when the fail-open set is -/
theorem candidates_eq_nil_iff (now : Nat) (bs : List Backend) :
    candidates now bs = [] ↔ ∀ b ∈ bs, ¬ FailOpenOk now b := by
  constructor
  · intro h b hb hf
    have hm : b ∈ failOpen now bs := mem_failOpen.mpr ⟨hb, hf.1, (okay_iff _ _).mpr hf.2⟩
    rcases candidates_cases now bs with ⟨h1, hc⟩ | ⟨_, h2, hc⟩ | ⟨_, _, hc⟩
    · rw [h] at hc; rw [← hc] at h1; simp at h1
    · rw [h] at hc; rw [← hc] at h2; simp at h2
    · rw [h] at hc; rw [← hc] at hm; simp at hm
  · intro h
    cases hc : candidates now bs with
    | nil => rfl
    | cons x t =>
      have hx : x ∈ candidates now bs := by rw [hc]; simp
      obtain ⟨hm, hor⟩ := mem_candidates hx
      rcases hor with ho | ⟨_, hn, hk⟩
      · have := (canOpen_iff now x).mp ho
        exact absurd ⟨this.2.1, this.2.2⟩ (h x hm)
      · exact absurd ⟨hn, (okay_iff _ _).mp hk⟩ (h x hm)

theorem select_picked_none_iff (s : State) (c : Nat) (e : Env) :
    (step s (.select c e)).2.picked = none ↔ ∀ l, s.get c = some l → ∀ b ∈ l.backends, ¬ FailOpenOk s.now b := by
  simp only [step]
  cases hl : s.get c with
  | none => simp [Out.picked]
  | some l =>
    simp only [Out.picked]
    constructor
    · intro h l' hl'; cases hl'
      rw [← candidates_eq_nil_iff]
      cases hc : candidates s.now l.backends with
      | nil => rfl
      | cons x t =>
        obtain ⟨b, hb⟩ := pick_some e.rnd (selectChoices_ne_nil l s.now e (by rw [hc]; simp))
        rw [hb] at h; cases h
    · intro h
      have := (candidates_eq_nil_iff s.now l.backends).mpr (h l rfl)
      simp [selectChoices, this, pick]

theorem fail_open_iff (s : State) (c : Nat) (e : Env) :
    (∃ b, (step s (.select c e)).2.picked = some b ∧ ¬ Eligible s.now b) ↔
    ∃ l, s.get c = some l ∧ (∀ x ∈ l.backends, ¬ Eligible s.now x) ∧ (∃ x ∈ l.backends, FailOpenOk s.now x) := by
  constructor
  · rintro ⟨b, hp, hne⟩
    obtain ⟨l, hl, hc⟩ := select_spec hp
    obtain ⟨hm, hor⟩ := mem_candidates hc
    rcases hor with ho | ⟨hall, hn, hk⟩
    · exact absurd ((eligible_iff _ _).mpr ho) hne
    · exact ⟨l, hl, fun x hx => not_eligible_of _ _ (hall x hx), b, hm, hn, (okay_iff _ _).mp hk⟩
  · rintro ⟨l, hl, hall, x, hx, hf⟩
    cases hp : (step s (.select c e)).2.picked with
    | none =>
      exact absurd hf ((select_picked_none_iff s c e).mp hp l hl x hx)
    | some b =>
      obtain ⟨l', hl', hc⟩ := select_spec hp
      rw [hl] at hl'; cases hl'
      exact ⟨b, rfl, hall b (mem_candidates hc).1⟩

/-- exact membership in the cascade's candidate list -/
theorem mem_candidates_iff (now : Nat) (bs : List Backend) (b : Backend) :
    b ∈ candidates now bs ↔ b ∈ bs ∧
      (((∃ x ∈ bs, x.backup = false ∧ Eligible now x) ∧ b.backup = false ∧ Eligible now b) ∨
       ((∀ x ∈ bs, x.backup = false → ¬ Eligible now x) ∧ (∃ x ∈ bs, x.backup = true ∧ Eligible now x) ∧
          b.backup = true ∧ Eligible now b) ∨
       ((∀ x ∈ bs, ¬ Eligible now x) ∧ FailOpenOk now b)) := by
  have hne : ∀ bk, (available now bs bk).isEmpty = false ↔ ∃ x ∈ bs, x.backup = bk ∧ Eligible now x := by
    intro bk
    constructor
    · intro h
      cases ha : available now bs bk with
      | nil => simp [ha] at h
      | cons x t =>
        have hx : x ∈ available now bs bk := by rw [ha]; simp
        have := mem_available.mp hx
        exact ⟨x, this.1, this.2.1, (eligible_iff _ _).mpr this.2.2⟩
    · rintro ⟨x, hx, hb, he⟩
      have : x ∈ available now bs bk := mem_available.mpr ⟨hx, hb, (eligible_iff _ _).mp he⟩
      cases ha : available now bs bk with
      | nil => rw [ha] at this; simp at this
      | cons y t => rfl
  have hem : ∀ bk, (available now bs bk).isEmpty = true ↔ ∀ x ∈ bs, x.backup = bk → ¬ Eligible now x := by
    intro bk
    constructor
    · intro h x hx hb; exact not_eligible_of _ _ (available_empty h x hx hb)
    · intro h
      cases ha : (available now bs bk).isEmpty with
      | true => rfl
      | false => obtain ⟨x, hx, hb, he⟩ := (hne bk).mp ha; exact absurd he (h x hx hb)
  rcases candidates_cases now bs with ⟨h1, hc⟩ | ⟨h1, h2, hc⟩ | ⟨h1, h2, hc⟩
  · rw [hc, mem_available]
    have hex := (hne false).mp h1
    constructor
    · rintro ⟨hm, hb, ho⟩; exact ⟨hm, Or.inl ⟨hex, hb, (eligible_iff _ _).mpr ho⟩⟩
    · rintro ⟨hm, hor⟩
      rcases hor with ⟨_, hb, he⟩ | ⟨hno, _⟩ | ⟨hno, _⟩
      · exact ⟨hm, hb, (eligible_iff _ _).mp he⟩
      · obtain ⟨x, hx, hxb, hxe⟩ := hex; exact absurd hxe (hno x hx hxb)
      · obtain ⟨x, hx, _, hxe⟩ := hex; exact absurd hxe (hno x hx)
  · rw [hc, mem_available]
    have hno := (hem false).mp h1
    have hex := (hne true).mp h2
    constructor
    · rintro ⟨hm, hb, ho⟩; exact ⟨hm, Or.inr (Or.inl ⟨hno, hex, hb, (eligible_iff _ _).mpr ho⟩)⟩
    · rintro ⟨hm, hor⟩
      rcases hor with ⟨⟨x, hx, hxb, hxe⟩, _⟩ | ⟨_, _, hb, he⟩ | ⟨hnone, _⟩
      · exact absurd hxe (hno x hx hxb)
      · exact ⟨hm, hb, (eligible_iff _ _).mp he⟩
      · obtain ⟨x, hx, _, hxe⟩ := hex; exact absurd hxe (hnone x hx)
  · rw [hc, mem_failOpen]
    have hnone : ∀ x ∈ bs, ¬ Eligible now x := by
      intro x hx
      cases hb : x.backup
      · exact (hem false).mp h1 x hx hb
      · exact (hem true).mp h2 x hx hb
    constructor
    · rintro ⟨hm, hn, hk⟩; exact ⟨hm, Or.inr (Or.inr ⟨hnone, hn, (okay_iff _ _).mp hk⟩)⟩
    · rintro ⟨hm, hor⟩
      rcases hor with ⟨_, _, he⟩ | ⟨_, _, _, he⟩ | ⟨_, hn, hk⟩
      · exact absurd he (hnone b hm)
      · exact absurd he (hnone b hm)
      · exact ⟨hm, hn, (okay_iff _ _).mpr hk⟩

/-! ### health results are recorded by address -/

theorem updFirst_append_hit {p : Backend → Bool} {f : Backend → Backend} (l1 l2 : List Backend)
    (h : ∃ y ∈ l1, p y = true) : updFirst p f (l1 ++ l2) = updFirst p f l1 ++ l2 := by
  induction l1 with
  | nil => obtain ⟨y, hy, _⟩ := h; simp at hy
  | cons x t ih =>
    simp only [List.cons_append, updFirst]
    split
    · rfl
    · next hx =>
      obtain ⟨y, hy, hp⟩ := h
      simp only [List.mem_cons] at hy
      rcases hy with hy | hy
      · subst hy; exact absurd hp hx
      · rw [ih ⟨y, hy, hp⟩]; rfl

theorem updFirst_no_hit {p : Backend → Bool} {f : Backend → Backend} (l : List Backend)
    (h : ∀ x ∈ l, p x = false) : updFirst p f l = l := by
  induction l with
  | nil => rfl
  | cons x t ih =>
    simp only [updFirst, h x (by simp), Bool.false_eq_true, if_false]
    rw [ih (fun y hy => h y (List.mem_cons_of_mem _ hy))]

theorem updFirst_eq_updAt_of_unique (f : Backend → Backend) (bs : List Backend) (i : Nat) (b : Backend)
    (hb : bs[i]? = some b) (huniq : (bs.map (·.addr)).Nodup) :
    updFirst (fun x => x.addr == b.addr) f bs = updAt f i bs := by
  induction bs generalizing i with
  | nil => simp at hb
  | cons x t ih =>
    cases i with
    | zero => simp at hb; subst hb; simp [updAt, updFirst]
    | succ i =>
      simp only [List.getElem?_cons_succ] at hb
      simp only [List.map_cons, List.nodup_cons] at huniq
      have hne : (x.addr == b.addr) = false := by
        have hm : b.addr ∈ t.map (·.addr) := List.mem_map.mpr ⟨b, List.mem_of_getElem? hb, rfl⟩
        cases hx : x.addr == b.addr
        · rfl
        · have : x.addr = b.addr := by simpa using hx
          exact absurd (this ▸ hm) huniq.1
      simp [updAt, updFirst, hne, ih i hb huniq.2]

/-- backends of cluster `c` (empty when the cluster is absent) -/
def backendsOf (s : State) (c : Nat) : List Backend := ((s.get c).map (·.backends)).getD []

theorem health_step_backends (s : State) (c a : Nat) (ok : Bool) (thr : Nat) :
    backendsOf (step s (.health c a ok thr)).1 c =
      updFirst (fun x => x.addr == a) (fun x => (recordCheck x ok thr).1) (backendsOf s c) := by
  simp only [step, backendsOf]
  cases hg : s.get c with
  | none => simp [hg, updFirst]
  | some l =>
    simp only
    cases hf : findBackend l a with
    | none =>
      simp only [hg, Option.map_some, Option.getD_some]
      have : ∀ x ∈ l.backends, (x.addr == a) = false := by
        intro x hx
        have := List.find?_eq_none.mp hf x hx
        simpa using this
      rw [updFirst_no_hit _ this]
    | some b => simp [get_put]

/-- a run of health results for address `a` in cluster `c` -/
def healthOps (c a : Nat) (rs : List (Bool × Nat)) : List Op := rs.map (fun r => Op.health c a r.1 r.2)

theorem health_run_shadowed (c a : Nat) (rs : List (Bool × Nat)) (s : State) (l1 l2 : List Backend)
    (hb : backendsOf s c = l1 ++ l2) (hhit : ∃ y ∈ l1, y.addr = a) :
    ∃ l1', backendsOf (run s (healthOps c a rs)) c = l1' ++ l2 ∧ l1'.map (·.addr) = l1.map (·.addr) := by
  induction rs generalizing s l1 with
  | nil => exact ⟨l1, hb, rfl⟩
  | cons r t ih =>
    simp only [healthOps, List.map_cons, run, List.foldl_cons]
    have hs := health_step_backends s c a r.1 r.2
    rw [hb, updFirst_append_hit l1 l2 (by obtain ⟨y, hy, he⟩ := hhit; exact ⟨y, hy, by simp [he]⟩)] at hs
    have hmap := map_addr_updFirst (addrPres_recordCheck r.1 r.2) (fun x => x.addr == a) l1
    obtain ⟨l1', h1, h2⟩ := ih (step s (.health c a r.1 r.2)).1 _ hs (by
      obtain ⟨y, hy, he⟩ := hhit
      have : a ∈ (updFirst (fun x => x.addr == a) (fun x => (recordCheck x r.1 r.2).1) l1).map (·.addr) := by
        rw [hmap]; exact List.mem_map.mpr ⟨y, hy, he⟩
      obtain ⟨z, hz, hze⟩ := List.mem_map.mp this
      exact ⟨z, hz, hze⟩)
    exact ⟨l1', by simpa [healthOps, run] using h1, h2.trans hmap⟩

theorem affinity_hrw (l1 l2 : BList) (now1 now2 n1 n2 k : Nat) (e1 e2 : Env)
    (hp1 : l1.policy = .hrw n1) (hp2 : l2.policy = .hrw n2)
    (hk1 : e1.key = some k) (hk2 : e2.key = some k) (hsc : e1.score = e2.score)
    (hc : (candidates now1 l1.backends).map ident = (candidates now2 l2.backends).map ident) :
    (selectChoices l1 now1 e1).2.map ident = (selectChoices l2 now2 e2).2.map ident := by
  unfold selectChoices
  simp only
  rw [isEmpty_of_ident hc]
  split
  · rfl
  · simp only [hp1, hp2, lbChoices, hk1, hk2, hsc]
    have := maxFirst_ident (fun b => e2.score k b.addr b.weight)
      (by intro x y hxy; simp [ident] at hxy; simp [hxy]) _ _ hc
    generalize maxFirst (fun b => e2.score k b.addr b.weight) (candidates now1 l1.backends) = o1 at this
    generalize maxFirst (fun b => e2.score k b.addr b.weight) (candidates now2 l2.backends) = o2 at this
    cases o1 <;> cases o2 <;> simp at this ⊢
    exact this

theorem affinity_maglev (l1 l2 : BList) (now1 now2 n1 n2 k : Nat) (built : List Nat) (e1 e2 : Env)
    (hp1 : l1.policy = .maglev built n1) (hp2 : l2.policy = .maglev built n2)
    (hk1 : e1.key = some k) (hk2 : e2.key = some k) (hpf : e1.pref = e2.pref)
    (hc : (candidates now1 l1.backends).map ident = (candidates now2 l2.backends).map ident) :
    (selectChoices l1 now1 e1).2.map ident = (selectChoices l2 now2 e2).2.map ident := by
  unfold selectChoices
  simp only
  rw [isEmpty_of_ident hc]
  split
  · rfl
  · next hne =>
    have hne1 : (candidates now1 l1.backends).isEmpty = false := by rw [isEmpty_of_ident hc]; simpa using hne
    have hne2 : (candidates now2 l2.backends).isEmpty = false := by simpa using hne
    simp only [hp1, hp2, lbChoices, hk1, hk2, hne1, hne2, Bool.false_eq_true, if_false]
    have hb : (if built.isEmpty then (candidates now1 l1.backends).map (·.addr) else built) =
        (if built.isEmpty then (candidates now2 l2.backends).map (·.addr) else built) := by
      rw [map_addr_of_ident hc]
    have hlk := maglevLookup_ident e1.pref
      (if built.isEmpty then (candidates now1 l1.backends).map (·.addr) else built) _ _ hc
    have hget := getElem?_ident (k % (candidates now1 l1.backends).length) _ _ hc
    rw [← hpf, ← hb, ← length_of_ident hc]
    cases h1 : maglevLookup e1.pref
        (if built.isEmpty then (candidates now1 l1.backends).map (·.addr) else built) (candidates now1 l1.backends) with
    | none =>
      rw [h1] at hlk
      cases h2 : maglevLookup e1.pref
          (if built.isEmpty then (candidates now1 l1.backends).map (·.addr) else built) (candidates now2 l2.backends) with
      | some b2 => rw [h2] at hlk; simp at hlk
      | none =>
        simp only
        generalize (candidates now1 l1.backends)[k % (candidates now1 l1.backends).length]? = o1 at hget
        generalize (candidates now2 l2.backends)[k % (candidates now1 l1.backends).length]? = o2 at hget
        cases o1 <;> cases o2 <;> simp at hget ⊢
        exact hget
    | some b1 =>
      rw [h1] at hlk
      cases h2 : maglevLookup e1.pref
          (if built.isEmpty then (candidates now1 l1.backends).map (·.addr) else built) (candidates now2 l2.backends) with
      | none => rw [h2] at hlk; simp at hlk
      | some b2 => rw [h2] at hlk; simpa using hlk

theorem thm_selected_is_eligible (s0 : State) (ops : List Op) (c : Nat) (e : Env) (b : Backend)
    (h : (step (run s0 ops) (.select c e)).2.picked = some b) :
    ∃ l, (run s0 ops).get c = some l ∧ b ∈ l.backends ∧
      (Eligible (run s0 ops).now b ∨
        ((∀ x ∈ l.backends, ¬ Eligible (run s0 ops).now x) ∧ FailOpenOk (run s0 ops).now b)) := by
  obtain ⟨l, hl, hc⟩ := select_spec h
  obtain ⟨hm, hor⟩ := mem_candidates hc
  refine ⟨l, hl, hm, ?_⟩
  rcases hor with ho | ⟨hall, hn, hk⟩
  · exact Or.inl ((eligible_iff _ _).mpr ho)
  · exact Or.inr ⟨fun x hx => not_eligible_of _ _ (hall x hx), hn, (okay_iff _ _).mp hk⟩

theorem thm_selected_is_eligible_sticky (s0 : State) (ops : List Op) (c st : Nat) (e : Env) (b : Backend)
    (h : (step (run s0 ops) (.sticky c st e)).2.picked = some b) :
    ∃ l, (run s0 ops).get c = some l ∧ b ∈ l.backends ∧
      (Eligible (run s0 ops).now b ∨
        ((step (run s0 ops) (.sticky c st e)).2.viaSticky = false ∧
          (∀ x ∈ l.backends, ¬ Eligible (run s0 ops).now x) ∧ FailOpenOk (run s0 ops).now b)) := by
  obtain ⟨l, hl, hor⟩ := sticky_spec h
  refine ⟨l, hl, ?_⟩
  rcases hor with ⟨hf, _⟩ | ⟨_, hv, hc⟩
  · obtain ⟨hm, _, ho⟩ := findSticky_spec hf
    exact ⟨hm, Or.inl ((eligible_iff _ _).mpr ho)⟩
  · obtain ⟨hm, hor⟩ := mem_candidates hc
    refine ⟨hm, ?_⟩
    rcases hor with ho | ⟨hall, hn, hk⟩
    · exact Or.inl ((eligible_iff _ _).mpr ho)
    · exact Or.inr ⟨hv, fun x hx => not_eligible_of _ _ (hall x hx), hn, (okay_iff _ _).mp hk⟩

theorem thm_never_closing_or_backing_off (s0 : State) (ops : List Op) (c : Nat) (e : Env) (b : Backend)
    (h : (step (run s0 ops) (.select c e)).2.picked = some b) :
    b.status = .normal ∧ b.retry.wait ≤ (run s0 ops).now - b.retry.last := by
  obtain ⟨l, _, _, hor⟩ := thm_selected_is_eligible s0 ops c e b h
  rcases hor with ⟨_, hn, hw⟩ | ⟨_, hn, hw⟩ <;> exact ⟨hn, hw⟩

theorem thm_backoff_window (r : Retry) (now w now' : Nat) (heff : ¬ (now - r.last < r.wait)) :
    (r.fail now w).okay now' = true ↔ w ≤ now' - now := by
  simp [Retry.fail, heff, Retry.okay]

theorem thm_backup_only_if_no_primary (s0 : State) (ops : List Op) (c : Nat) (e : Env) (b : Backend)
    (h : (step (run s0 ops) (.select c e)).2.picked = some b) (hb : b.backup = true) :
    ∀ l, (run s0 ops).get c = some l → ∀ x ∈ l.backends, x.backup = false → ¬ Eligible (run s0 ops).now x := by
  obtain ⟨l, hl, hc⟩ := select_spec h
  intro l' hl' x hx hxb
  rw [hl] at hl'; cases hl'
  exact not_eligible_of _ _ (candidates_backup hc hb x hx hxb)

theorem thm_backup_only_if_no_primary_sticky (s0 : State) (ops : List Op) (c st : Nat) (e : Env) (b : Backend)
    (h : (step (run s0 ops) (.sticky c st e)).2.picked = some b) (hb : b.backup = true)
    (hv : (step (run s0 ops) (.sticky c st e)).2.viaSticky = false) :
    ∀ l, (run s0 ops).get c = some l → ∀ x ∈ l.backends, x.backup = false → ¬ Eligible (run s0 ops).now x := by
  obtain ⟨l, hl, hor⟩ := sticky_spec h
  intro l' hl' x hx hxb
  rw [hl] at hl'; cases hl'
  rcases hor with ⟨_, hv'⟩ | ⟨_, _, hc⟩
  · rw [hv] at hv'; cases hv'
  · exact not_eligible_of _ _ (candidates_backup hc hb x hx hxb)

theorem thm_sticky_wins (s : State) (c st : Nat) (e : Env) (l : BList) (b : Backend)
    (hl : s.get c = some l) (hb : b ∈ l.backends) (hs : b.sticky = some st) (he : Eligible s.now b) :
    ∃ b', (step s (.sticky c st e)).2.picked = some b' ∧ (step s (.sticky c st e)).2.viaSticky = true ∧
      b' ∈ l.backends ∧ b'.sticky = some st ∧ Eligible s.now b' := by
  obtain ⟨b', hf⟩ := findSticky_isSome (l := l) hb hs ((eligible_iff _ _).mp he)
  obtain ⟨hm, hs', hc'⟩ := findSticky_spec hf
  exact ⟨b', by simp [step, hl, hf, Out.picked], by simp [step, hl, hf, Out.viaSticky], hm, hs',
    (eligible_iff _ _).mpr hc'⟩

theorem thm_sticky_wins_unique (s : State) (c st : Nat) (e : Env) (l : BList) (b : Backend)
    (hl : s.get c = some l) (hb : b ∈ l.backends) (hs : b.sticky = some st) (he : Eligible s.now b)
    (huniq : ∀ x ∈ l.backends, ∀ y ∈ l.backends, x.sticky = some st → y.sticky = some st → x = y) :
    (step s (.sticky c st e)).2.picked = some b := by
  obtain ⟨b', hp, _, hm, hs', _⟩ := thm_sticky_wins s c st e l b hl hb hs he
  rw [hp, huniq b' hm b hb hs' hs]

theorem thm_counters_balanced (b : Backend) (ops : List COp) (b' : Backend) (out' : Nat)
    (h0 : b.conns = 0) (h : crun (b, 0) ops = some (b', out')) :
    b'.conns = out' ∧ (out' = 0 → b'.conns = 0) ∧ (b'.status = .closed → b'.conns = 0) := by
  have hi : CInv (b, 0) := ⟨h0, fun _ => rfl⟩
  have := cinv_run ops hi h
  exact ⟨this.1, fun hz => this.1.trans hz, fun hc => this.1.trans (this.2 hc)⟩

theorem thm_close_by_address_partial (l : BList) (i : Nat) (b : Backend) (hb : l.backends[i]? = some b)
    (hn : b.status = .normal) (huniq : (l.backends.map (·.addr)).Nodup) :
    (closeByAddr (incAt l i) b.addr).backends = l.backends := by
  simp only [closeByAddr, incAt]
  exact close_after_open_unique l.backends i b hb hn huniq

theorem thm_removed_never_selected (s : State) (c a : Nat) (ops : List Op)
    (hops : ∀ o ∈ ops, o.addsAddr c a = false) (e : Env) (b : Backend)
    (h : (step (run (step s (.remove c a)).1 ops) (.select c e)).2.picked = some b) : b.addr ≠ a := by
  have hn := noAddr_run ops _ (noAddr_remove s c a) hops
  obtain ⟨l, hl, hc⟩ := select_spec h
  exact hn l hl b (mem_candidates hc).1

theorem thm_removed_never_selected_sticky (s : State) (c a st : Nat) (ops : List Op)
    (hops : ∀ o ∈ ops, o.addsAddr c a = false) (e : Env) (b : Backend)
    (h : (step (run (step s (.remove c a)).1 ops) (.sticky c st e)).2.picked = some b) : b.addr ≠ a := by
  have hn := noAddr_run ops _ (noAddr_remove s c a) hops
  obtain ⟨l, hl, hor⟩ := sticky_spec h
  rcases hor with ⟨hf, _⟩ | ⟨_, _, hc⟩
  · exact hn l hl b (findSticky_spec hf).1
  · exact hn l hl b (mem_candidates hc).1

/-! ### one proxied request = inc, (succeed | fail), dec on the selected backend -/

theorem getElem?_updAt (f : Backend → Backend) (i : Nat) (l : List Backend) :
    (updAt f i l)[i]? = (l[i]?).map f := by
  induction l generalizing i with
  | nil => cases i <;> simp [updAt]
  | cons b t ih =>
    cases i with
    | zero => simp [updAt]
    | succ i => simp [updAt, ih]

theorem updAt_updAt (f g : Backend → Backend) (i : Nat) (l : List Backend) :
    updAt g i (updAt f i l) = updAt (fun b => g (f b)) i l := by
  induction l generalizing i with
  | nil => cases i <;> simp [updAt]
  | cons b t ih =>
    cases i with
    | zero => simp [updAt]
    | succ i => simp [updAt, ih]

theorem onBackend_hit {s : State} {c i : Nat} {l : BList} {b : Backend} (f : Backend → Backend) (g : Backend → Out)
    (hg : s.get c = some l) (hb : l.backends[i]? = some b) :
    (onBackend s c i f g).1 = s.put c { l with backends := updAt f i l.backends } := by
  simp [onBackend, hg, hb]

theorem map_ctr_updAt_at {f : Backend → Backend} {i : Nat} {l : List Backend} {b : Backend}
    (hb : l[i]? = some b) (hf : ctr (f b) = ctr b) : (updAt f i l).map ctr = l.map ctr := by
  induction l generalizing i with
  | nil => simp at hb
  | cons x t ih =>
    cases i with
    | zero => simp at hb; subst hb; simp [updAt, hf]
    | succ i => simp only [List.getElem?_cons_succ] at hb; simp [updAt, ih hb]

/-- open, then the connect outcome `r` on the retry policy, then close: counts as before -/
theorem cycle_ctr (b : Backend) (r : Retry → Retry) (hn : b.status = .normal) :
    ctr (decConn { (incConn b).1 with retry := r (incConn b).1.retry }).1 = ctr b := by
  cases b
  simp only at hn
  subst hn
  simp [incConn, decConn, decN, ctr]

theorem onBackend_get {s : State} {c i : Nat} {l : BList} {b : Backend} (f : Backend → Backend) (g : Backend → Out)
    (hg : s.get c = some l) (hb : l.backends[i]? = some b) :
    (onBackend s c i f g).1.get c = some { l with backends := updAt f i l.backends } ∧
    (onBackend s c i f g).1.now = s.now := by
  rw [onBackend_hit f g hg hb, get_put]; simp [State.put]

theorem connect_cycle_balanced (s : State) (c i : Nat) (l : BList) (b : Backend) (mid : Op)
    (hg : s.get c = some l) (hb : l.backends[i]? = some b) (hn : b.status = .normal)
    (hmid : (∃ w, mid = .fail c i w) ∨ mid = .succeed c i) :
    ctrsOf (step (step (step s (.inc c i)).1 mid).1 (.dec c i)).1 c = ctrsOf s c := by
  let fI : Backend → Backend := fun x => (incConn x).1
  let fD : Backend → Backend := fun x => (decConn x).1
  let l1 : BList := { l with backends := updAt fI i l.backends }
  have h1 := onBackend_get (s := s) fI (fun x => Out.count (incConn x).2) hg hb
  have hb1 : l1.backends[i]? = some (fI b) := by simp [l1, getElem?_updAt, hb]
  obtain ⟨r, h2⟩ : ∃ r : Retry → Retry,
      (step (step s (.inc c i)).1 mid).1.get c =
        some { l1 with backends := updAt (fun x => { x with retry := r x.retry }) i l1.backends } := by
    rcases hmid with ⟨w, hw⟩ | hw
    · subst hw
      refine ⟨fun rt => rt.fail (step s (.inc c i)).1.now w, ?_⟩
      have := (onBackend_get (s := (step s (.inc c i)).1) (fun x => { x with retry := x.retry.fail (step s (.inc c i)).1.now w })
        (fun _ => Out.ok) h1.1 hb1).1
      simp only [step] at this ⊢
      exact this
    · subst hw
      refine ⟨fun rt => rt.succeed (step s (.inc c i)).1.now, ?_⟩
      have := (onBackend_get (s := (step s (.inc c i)).1) (fun x => { x with retry := x.retry.succeed (step s (.inc c i)).1.now })
        (fun _ => Out.ok) h1.1 hb1).1
      simp only [step] at this ⊢
      exact this
  let fR : Backend → Backend := fun x => { x with retry := r x.retry }
  let l2 : BList := { l1 with backends := updAt fR i l1.backends }
  have hb2 : l2.backends[i]? = some (fR (fI b)) := by simp [l2, getElem?_updAt, hb1]
  have h3 := (onBackend_get (s := (step (step s (.inc c i)).1 mid).1) fD (fun x => Out.count (decConn x).2) h2 hb2).1
  have h3' : (step (step (step s (.inc c i)).1 mid).1 (.dec c i)).1.get c =
      some { l2 with backends := updAt fD i l2.backends } := by simpa only [step] using h3
  simp only [ctrsOf, h3', hg, Option.map_some, Option.getD_some]
  show (updAt fD i (updAt fR i (updAt fI i l.backends))).map ctr = l.backends.map ctr
  rw [updAt_updAt, updAt_updAt]
  exact map_ctr_updAt_at hb (cycle_ctr b r hn)

end Sozu.Backends
