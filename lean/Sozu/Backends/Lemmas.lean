import Sozu.Backends.Model
/-
Helper lemmas for the C12 theorems: every load-balancing policy returns a
member of the candidate list it was given; the cascade's candidate list is
characterised; address-preserving list updates; map get/put.
-/
set_option linter.unusedSimpArgs false
set_option linter.unusedVariables false
namespace Sozu.Backends
open Sozu

/-! ### policies return members of the candidate list -/

theorem rrPick_mem {n : Nat} {cs : List Backend} {b : Backend} (h : (rrPick n cs).1 = some b) : b ∈ cs := by
  unfold rrPick at h
  split at h
  · simp at h
  · exact List.mem_of_getElem? h

theorem foldl_sel_mem (g : Backend → Backend → Backend) (hg : ∀ x y, g x y = x ∨ g x y = y)
    (t : List Backend) (b : Backend) : t.foldl g b = b ∨ t.foldl g b ∈ t := by
  induction t generalizing b with
  | nil => simp
  | cons x t ih =>
    simp only [List.foldl_cons, List.mem_cons]
    rcases ih (g b x) with h | h
    · rcases hg b x with h2 | h2
      · left; rw [h, h2]
      · right; left; rw [h, h2]
    · right; right; exact h

theorem minFirst_mem {m : Backend → Nat} {cs : List Backend} {b : Backend} (h : minFirst m cs = some b) : b ∈ cs := by
  cases cs with
  | nil => simp [minFirst] at h
  | cons x t =>
    simp only [minFirst, Option.some.injEq] at h
    have := foldl_sel_mem (fun best y => if m y < m best then y else best)
      (by intro a c; by_cases hc : m c < m a <;> simp [hc]) t x
    rw [h] at this
    rcases this with h1 | h1
    · simp [h1]
    · simp [h1]

theorem maxFirst_mem {f : Backend → Nat} {cs : List Backend} {b : Backend} (h : maxFirst f cs = some b) : b ∈ cs := by
  cases cs with
  | nil => simp [maxFirst] at h
  | cons x t =>
    simp only [maxFirst, Option.some.injEq] at h
    have := foldl_sel_mem (fun best y => if f best ≥ f y then best else y)
      (by intro a c; by_cases hc : f a ≥ f c <;> simp [hc]) t x
    rw [h] at this
    rcases this with h1 | h1
    · simp [h1]
    · simp [h1]

/-- both slots of the PowerOfTwo accumulator hold members -/
def PairIn (cs : List Backend) (st : Option Backend × Option Backend) : Prop :=
  (∀ b, st.1 = some b → b ∈ cs) ∧ (∀ b, st.2 = some b → b ∈ cs)

theorem p2cStep_in {m : Backend → Nat} {cs : List Backend} {st : Option Backend × Option Backend} {x : Backend}
    (h : PairIn cs st) (hx : x ∈ cs) : PairIn cs (p2cStep m st x) := by
  obtain ⟨f, s⟩ := st
  obtain ⟨h1, h2⟩ := h
  cases f with
  | none => exact ⟨by intro b hb; simp [p2cStep] at hb; exact hb ▸ hx, by intro b hb; simp [p2cStep] at hb; exact h2 b hb⟩
  | some f =>
    cases s with
    | none =>
      simp only [p2cStep]
      split
      · exact ⟨by intro b hb; simp at hb; exact hb ▸ h1 f rfl, by intro b hb; simp at hb; exact hb ▸ hx⟩
      · exact ⟨by intro b hb; simp at hb; exact hb ▸ hx, by intro b hb; simp at hb; exact hb ▸ h1 f rfl⟩
    | some s =>
      simp only [p2cStep]
      split
      · exact ⟨by intro b hb; simp at hb; exact hb ▸ h1 f rfl, by intro b hb; simp at hb; exact hb ▸ hx⟩
      · exact ⟨by intro b hb; simp at hb; exact hb ▸ hx, by intro b hb; simp at hb; exact hb ▸ h1 f rfl⟩

theorem foldl_p2c_in {m : Backend → Nat} {cs : List Backend} (l : List Backend) (hl : ∀ x ∈ l, x ∈ cs)
    (st : Option Backend × Option Backend) (h : PairIn cs st) : PairIn cs (l.foldl (p2cStep m) st) := by
  induction l generalizing st with
  | nil => simpa using h
  | cons x t ih =>
    simp only [List.foldl_cons]
    exact ih (fun y hy => hl y (List.mem_cons_of_mem _ hy)) _ (p2cStep_in h (hl x (by simp)))

theorem p2cChoices_sub {m : Backend → Nat} {cs : List Backend} {b : Backend} (h : b ∈ p2cChoices m cs) : b ∈ cs := by
  have hp : PairIn cs (p2cPair m cs) :=
    foldl_p2c_in cs (fun x hx => hx) (none, none) ⟨by intro b hb; simp at hb, by intro b hb; simp at hb⟩
  unfold p2cChoices at h
  generalize p2cPair m cs = pr at h hp
  obtain ⟨f, s⟩ := pr
  obtain ⟨h1, h2⟩ := hp
  cases f <;> cases s <;> simp at h
  · exact h ▸ h2 _ rfl
  · exact h ▸ h1 _ rfl
  · rcases h with h | h
    · exact h ▸ h1 _ rfl
    · exact h ▸ h2 _ rfl

theorem randomChoices_sub {cs : List Backend} {b : Backend} (h : b ∈ randomChoices cs) : b ∈ cs := by
  unfold randomChoices at h
  simp only at h
  split at h
  · exact h
  · exact (List.mem_filter.mp h).1

theorem maglevLookup_mem {pref built : List Nat} {cs : List Backend} {b : Backend}
    (h : maglevLookup pref built cs = some b) : b ∈ cs := by
  unfold maglevLookup at h
  obtain ⟨a, _, ha⟩ := List.exists_of_findSome?_eq_some h
  split at ha
  · exact List.mem_of_find?_eq_some ha
  · simp at ha

theorem mem_toList {o : Option Backend} {b : Backend} (h : b ∈ o.toList) : o = some b := by
  cases o <;> simp at h
  exact h ▸ rfl

theorem lbChoices_sub {p : Policy} {e : Env} {cs : List Backend} {b : Backend}
    (h : b ∈ (lbChoices p e cs).2) : b ∈ cs := by
  unfold lbChoices at h
  cases p with
  | roundRobin n => exact rrPick_mem (mem_toList h)
  | random => exact randomChoices_sub h
  | leastLoaded m =>
    simp only at h
    split at h
    · exact minFirst_mem (mem_toList h)
    · exact h
  | powerOfTwo m =>
    simp only at h
    split at h
    · exact p2cChoices_sub h
    · exact h
  | hrw n =>
    simp only at h
    split at h
    · exact rrPick_mem (mem_toList h)
    · exact maxFirst_mem (mem_toList h)
  | maglev built n =>
    simp only at h
    split at h
    · exact rrPick_mem (mem_toList h)
    · split at h
      · simp at h
      · split at h
        · next hb => simp at h; exact h ▸ maglevLookup_mem hb
        · exact List.mem_of_getElem? (mem_toList h)

theorem pick_mem {l : List Backend} {r : Nat} {b : Backend} (h : pick l r = some b) : b ∈ l :=
  List.mem_of_getElem? h

/-! ### the cascade -/

theorem okay_iff (r : Retry) (now : Nat) : r.okay now = true ↔ r.wait ≤ now - r.last := by
  simp [Retry.okay]

theorem canOpen_iff (now : Nat) (b : Backend) :
    canOpen now b = true ↔ b.healthy = true ∧ b.status = .normal ∧ b.retry.wait ≤ now - b.retry.last := by
  unfold canOpen
  cases hh : b.healthy <;> simp [hh, Retry.okay]

theorem mem_available {now : Nat} {bs : List Backend} {bk : Bool} {b : Backend} :
    b ∈ available now bs bk ↔ b ∈ bs ∧ b.backup = bk ∧ canOpen now b = true := by
  simp [available, List.mem_filter]

theorem available_empty {now : Nat} {bs : List Backend} {bk : Bool} (h : (available now bs bk).isEmpty = true) :
    ∀ x ∈ bs, x.backup = bk → canOpen now x = false := by
  intro x hx hb
  cases hc : canOpen now x
  · rfl
  · have : x ∈ available now bs bk := mem_available.mpr ⟨hx, hb, hc⟩
    rw [List.isEmpty_iff.mp h] at this
    simp at this

theorem mem_failOpen {now : Nat} {bs : List Backend} {b : Backend} :
    b ∈ failOpen now bs ↔ b ∈ bs ∧ b.status = .normal ∧ b.retry.okay now = true := by
  simp [failOpen, List.mem_filter]

/-- which stage produced the candidate list -/
theorem candidates_cases (now : Nat) (bs : List Backend) :
    ((available now bs false).isEmpty = false ∧ candidates now bs = available now bs false) ∨
    ((available now bs false).isEmpty = true ∧ (available now bs true).isEmpty = false ∧
        candidates now bs = available now bs true) ∨
    ((available now bs false).isEmpty = true ∧ (available now bs true).isEmpty = true ∧
        candidates now bs = failOpen now bs) := by
  unfold candidates
  cases h1 : (available now bs false).isEmpty <;> cases h2 : (available now bs true).isEmpty <;> simp [h1, h2]

theorem mem_candidates {now : Nat} {bs : List Backend} {b : Backend} (h : b ∈ candidates now bs) :
    b ∈ bs ∧ (canOpen now b = true ∨
      ((∀ x ∈ bs, canOpen now x = false) ∧ b.status = .normal ∧ b.retry.okay now = true)) := by
  rcases candidates_cases now bs with ⟨_, hc⟩ | ⟨_, _, hc⟩ | ⟨h1, h2, hc⟩
  · rw [hc] at h; have := mem_available.mp h; exact ⟨this.1, Or.inl this.2.2⟩
  · rw [hc] at h; have := mem_available.mp h; exact ⟨this.1, Or.inl this.2.2⟩
  · rw [hc] at h
    have := mem_failOpen.mp h
    refine ⟨this.1, Or.inr ⟨?_, this.2⟩⟩
    intro x hx
    cases hb : x.backup
    · exact available_empty h1 x hx hb
    · exact available_empty h2 x hx hb

theorem candidates_backup {now : Nat} {bs : List Backend} {b : Backend} (h : b ∈ candidates now bs)
    (hb : b.backup = true) : ∀ x ∈ bs, x.backup = false → canOpen now x = false := by
  rcases candidates_cases now bs with ⟨_, hc⟩ | ⟨h1, _, hc⟩ | ⟨h1, _, hc⟩
  · rw [hc] at h; have := (mem_available.mp h).2.1; rw [hb] at this; cases this
  · exact available_empty h1
  · exact available_empty h1

theorem selectChoices_sub {l : BList} {now : Nat} {e : Env} {b : Backend}
    (h : b ∈ (selectChoices l now e).2) : b ∈ candidates now l.backends := by
  unfold selectChoices at h
  simp only at h
  split at h
  · simp at h
  · exact lbChoices_sub h

theorem selectChoices_backends (l : BList) (now : Nat) (e : Env) :
    (selectChoices l now e).1.backends = l.backends := by
  unfold selectChoices
  simp only
  split <;> rfl

/-! ### list updates that keep addresses -/

def AddrPres (f : Backend → Backend) : Prop := ∀ b, (f b).addr = b.addr

theorem map_addr_updAt {f : Backend → Backend} (hf : AddrPres f) (i : Nat) (l : List Backend) :
    (updAt f i l).map (·.addr) = l.map (·.addr) := by
  induction l generalizing i with
  | nil => cases i <;> rfl
  | cons b t ih =>
    cases i with
    | zero => simp [updAt, hf b]
    | succ i => simp [updAt, ih]

theorem map_addr_updFirst {f : Backend → Backend} (hf : AddrPres f) (p : Backend → Bool) (l : List Backend) :
    (updFirst p f l).map (·.addr) = l.map (·.addr) := by
  induction l with
  | nil => rfl
  | cons b t ih =>
    simp only [updFirst]
    split
    · simp [hf b]
    · simp [ih]

theorem map_addr_map {f : Backend → Backend} (hf : AddrPres f) (l : List Backend) :
    (l.map f).map (·.addr) = l.map (·.addr) := by
  simp [List.map_map, Function.comp_def, hf _]

theorem decConn_addr (b : Backend) : (decConn b).1.addr = b.addr := by
  unfold decConn; split <;> (try split) <;> rfl

theorem incConn_addr (b : Backend) : (incConn b).1.addr = b.addr := by
  unfold incConn; split <;> rfl

theorem recordCheck_addr (b : Backend) (ok : Bool) (thr : Nat) : (recordCheck b ok thr).1.addr = b.addr := by
  have h1 : (recordSuccess b thr).1.addr = b.addr := by unfold recordSuccess; simp only; split <;> rfl
  have h2 : (recordFailure b thr).1.addr = b.addr := by unfold recordFailure; simp only; split <;> rfl
  unfold recordCheck
  cases ok <;> simp [h1, h2]

theorem addrPres_decConn : AddrPres (fun b => (decConn b).1) := fun b => decConn_addr b

theorem addrPres_incConn : AddrPres (fun b => (incConn b).1) := fun b => incConn_addr b

theorem addrPres_recordCheck (ok : Bool) (thr : Nat) : AddrPres (fun b => (recordCheck b ok thr).1) :=
  fun b => recordCheck_addr b ok thr

/-- no backend of the list carries address `a` -/
def NoAddrL (a : Nat) (l : List Backend) : Prop := ∀ b ∈ l, b.addr ≠ a

theorem noAddrL_iff (a : Nat) (l : List Backend) : NoAddrL a l ↔ a ∉ l.map (·.addr) := by
  simp only [NoAddrL, List.mem_map, not_exists, not_and]

theorem noAddrL_of_map_eq {a : Nat} {l l' : List Backend} (h : l'.map (·.addr) = l.map (·.addr))
    (hl : NoAddrL a l) : NoAddrL a l' := by
  rw [noAddrL_iff] at hl ⊢; rw [h]; exact hl

theorem noAddrL_remove (a : Nat) (l : BList) : NoAddrL a (removeBackend l a).1.backends := by
  intro b hb
  simp only [removeBackend, List.mem_filter] at hb
  intro e
  simp [e] at hb

theorem noAddrL_remove_other {a a' : Nat} {l : BList} (h : NoAddrL a l.backends) :
    NoAddrL a (removeBackend l a').1.backends := by
  intro b hb
  simp only [removeBackend, List.mem_filter] at hb
  exact h b hb.1

theorem noAddrL_add {a : Nat} {l : BList} {nb : Backend} (h : NoAddrL a l.backends) (hn : nb.addr ≠ a) :
    NoAddrL a (addBackend l nb).backends := by
  unfold addBackend
  simp only
  split
  · exact noAddrL_of_map_eq (map_addr_updFirst (by intro b; rfl) _ _) h
  · intro b hb
    rcases List.mem_append.mp hb with hb | hb
    · exact h b hb
    · simp at hb; rw [hb]; exact hn

/-! ### the map -/

theorem get_put (s : State) (c c' : Nat) (l : BList) :
    (s.put c l).get c' = if c' = c then some l else s.get c' := by
  simp [State.put, State.get, KMap.get?_set]

theorem now_put (s : State) (c : Nat) (l : BList) : (s.put c l).now = s.now := rfl

/-! ### find_sticky / find? under uniqueness -/

theorem find?_unique {p : Backend → Bool} {l : List Backend} {b : Backend} (hb : b ∈ l) (hp : p b = true)
    (huniq : ∀ x ∈ l, ∀ y ∈ l, p x = true → p y = true → x = y) : l.find? p = some b := by
  cases h : l.find? p with
  | none => have := List.find?_eq_none.mp h b hb; simp [hp] at this
  | some x =>
    have hx := List.mem_of_find?_eq_some h
    have hpx := List.find?_some h
    rw [huniq x hx b hb hpx hp]

/-! ### affinity: results depend only on (id, addr, weight) of the candidates -/

def ident (b : Backend) : Nat × Nat × Option Int := (b.id, b.addr, b.weight)

theorem foldl_max_ident (f : Backend → Nat) (hf : ∀ x y, ident x = ident y → f x = f y)
    (t1 t2 : List Backend) (h : t1.map ident = t2.map ident) (b1 b2 : Backend) (hb : ident b1 = ident b2) :
    ident (t1.foldl (fun best x => if f best ≥ f x then best else x) b1) =
    ident (t2.foldl (fun best x => if f best ≥ f x then best else x) b2) := by
  induction t1 generalizing t2 b1 b2 with
  | nil =>
    cases t2 with
    | nil => simpa using hb
    | cons y t2 => simp at h
  | cons x t1 ih =>
    cases t2 with
    | nil => simp at h
    | cons y t2 =>
      simp only [List.map_cons, List.cons.injEq] at h
      simp only [List.foldl_cons]
      apply ih t2 h.2
      rw [hf b1 b2 hb, hf x y h.1]
      split
      · exact hb
      · exact h.1

theorem maxFirst_ident (f : Backend → Nat) (hf : ∀ x y, ident x = ident y → f x = f y)
    (l1 l2 : List Backend) (h : l1.map ident = l2.map ident) :
    (maxFirst f l1).map ident = (maxFirst f l2).map ident := by
  cases l1 with
  | nil => cases l2 with
    | nil => rfl
    | cons y t2 => simp at h
  | cons x t1 => cases l2 with
    | nil => simp at h
    | cons y t2 =>
      simp only [List.map_cons, List.cons.injEq] at h
      simp only [maxFirst, Option.map_some, Option.some.injEq]
      exact foldl_max_ident f hf t1 t2 h.2 x y h.1

theorem find?_addr_ident (a : Nat) (l1 l2 : List Backend) (h : l1.map ident = l2.map ident) :
    (l1.find? (fun b => b.addr == a)).map ident = (l2.find? (fun b => b.addr == a)).map ident := by
  induction l1 generalizing l2 with
  | nil => cases l2 with
    | nil => rfl
    | cons y t2 => simp at h
  | cons x t1 ih => cases l2 with
    | nil => simp at h
    | cons y t2 =>
      simp only [List.map_cons, List.cons.injEq] at h
      have ha : x.addr = y.addr := by have := h.1; simp [ident] at this; exact this.2.1
      simp only [List.find?_cons, ha]
      split
      · simp [h.1]
      · exact ih t2 h.2

theorem maglevLookup_ident (pref built : List Nat) (l1 l2 : List Backend) (h : l1.map ident = l2.map ident) :
    (maglevLookup pref built l1).map ident = (maglevLookup pref built l2).map ident := by
  unfold maglevLookup
  induction pref with
  | nil => rfl
  | cons a t ih =>
    simp only [List.findSome?_cons]
    by_cases hb : built.contains a = true
    · simp only [hb, if_true]
      have hf := find?_addr_ident a l1 l2 h
      cases h1 : l1.find? (fun b => b.addr == a) <;> cases h2 : l2.find? (fun b => b.addr == a)
      · exact ih
      · rw [h1, h2] at hf; simp at hf
      · rw [h1, h2] at hf; simp at hf
      · rw [h1, h2] at hf; simpa using hf
    · simp only [hb]
      exact ih

theorem getElem?_ident (i : Nat) (l1 l2 : List Backend) (h : l1.map ident = l2.map ident) :
    (l1[i]?).map ident = (l2[i]?).map ident := by
  have : (l1.map ident)[i]? = (l2.map ident)[i]? := by rw [h]
  simpa using this

theorem length_of_ident {l1 l2 : List Backend} (h : l1.map ident = l2.map ident) : l1.length = l2.length := by
  have : (l1.map ident).length = (l2.map ident).length := by rw [h]
  simpa using this

theorem map_addr_of_ident {l1 l2 : List Backend} (h : l1.map ident = l2.map ident) :
    l1.map (·.addr) = l2.map (·.addr) := by
  have : (l1.map ident).map (fun t => t.2.1) = (l2.map ident).map (fun t => t.2.1) := by rw [h]
  simpa [List.map_map, Function.comp_def, ident] using this

theorem isEmpty_of_ident {l1 l2 : List Backend} (h : l1.map ident = l2.map ident) : l1.isEmpty = l2.isEmpty := by
  cases l1 <;> cases l2 <;> simp at h ⊢

/-! ### observation helpers and the spec vocabulary of C12 -/

def Out.picked : Out → Option Backend
  | .sel _ p _ => p
  | _ => none

def Out.viaSticky : Out → Bool
  | .sel _ _ v => v
  | _ => false

/-- the property text: not marked unhealthy, not being removed, not inside its failure back-off -/
def Eligible (now : Nat) (b : Backend) : Prop :=
  b.healthy = true ∧ b.status = .normal ∧ b.retry.wait ≤ now - b.retry.last

/-- the documented fail-open exception: normal and not backing off -/
def FailOpenOk (now : Nat) (b : Backend) : Prop :=
  b.status = .normal ∧ b.retry.wait ≤ now - b.retry.last

instance (now : Nat) (b : Backend) : Decidable (Eligible now b) := by unfold Eligible; infer_instance
instance (now : Nat) (b : Backend) : Decidable (FailOpenOk now b) := by unfold FailOpenOk; infer_instance

theorem eligible_iff (now : Nat) (b : Backend) : Eligible now b ↔ canOpen now b = true :=
  (canOpen_iff now b).symm

theorem not_eligible_of (now : Nat) (b : Backend) (h : canOpen now b = false) : ¬ Eligible now b := by
  rw [eligible_iff]; simp [h]

theorem select_spec {s : State} {c : Nat} {e : Env} {b : Backend}
    (h : (step s (.select c e)).2.picked = some b) :
    ∃ l, s.get c = some l ∧ b ∈ candidates s.now l.backends := by
  simp only [step] at h
  cases hl : s.get c with
  | none => simp [hl, Out.picked] at h
  | some l =>
    simp only [hl, Out.picked] at h
    exact ⟨l, rfl, selectChoices_sub (pick_mem h)⟩

theorem sticky_spec {s : State} {c st : Nat} {e : Env} {b : Backend}
    (h : (step s (.sticky c st e)).2.picked = some b) :
    ∃ l, s.get c = some l ∧
      ((findSticky l st s.now = some b ∧ (step s (.sticky c st e)).2.viaSticky = true) ∨
       (findSticky l st s.now = none ∧ (step s (.sticky c st e)).2.viaSticky = false ∧
          b ∈ candidates s.now l.backends)) := by
  simp only [step] at h ⊢
  cases hl : s.get c with
  | none => simp [hl, Out.picked] at h
  | some l =>
    simp only [hl] at h ⊢
    refine ⟨l, rfl, ?_⟩
    cases hf : findSticky l st s.now with
    | some x =>
      simp only [hf, Out.picked, Option.some.injEq] at h
      left; simp [h, Out.viaSticky]
    | none =>
      simp only [hf, Out.picked] at h
      right; exact ⟨rfl, by simp [Out.viaSticky], selectChoices_sub (pick_mem h)⟩

theorem findSticky_spec {l : BList} {st now : Nat} {b : Backend} (h : findSticky l st now = some b) :
    b ∈ l.backends ∧ b.sticky = some st ∧ canOpen now b = true := by
  unfold findSticky at h
  have hp := List.find?_some h
  simp only [Bool.and_eq_true, beq_iff_eq] at hp
  exact ⟨List.mem_of_find?_eq_some h, hp.1, hp.2⟩

theorem findSticky_isSome {l : BList} {st now : Nat} {b : Backend} (hb : b ∈ l.backends)
    (hs : b.sticky = some st) (hc : canOpen now b = true) : ∃ b', findSticky l st now = some b' := by
  unfold findSticky
  cases h : l.backends.find? (fun b => b.sticky == some st && canOpen now b) with
  | some x => exact ⟨x, rfl⟩
  | none => have := List.find?_eq_none.mp h b hb; simp [hs, hc] at this

/-! ### removal: an address stays absent until it is added again -/

def NoAddr (s : State) (c a : Nat) : Prop := ∀ l, s.get c = some l → NoAddrL a l.backends

def Op.addsAddr (c a : Nat) : Op → Bool
  | .add c' _ a' _ _ _ => c' == c && a' == a
  | _ => false

theorem noAddr_put {s : State} {c c' a : Nat} {l : BList} (h : NoAddr s c a)
    (hl : c' = c → NoAddrL a l.backends) : NoAddr (s.put c' l) c a := by
  intro l' hl'
  rw [get_put] at hl'
  by_cases hc : c = c'
  · simp [hc] at hl'; subst hl'; exact hl hc.symm
  · simp [hc] at hl'; exact h l' hl'

theorem noAddrL_getD {s : State} {c a : Nat} (h : NoAddr s c a) : NoAddrL a ((s.get c).getD BList.new).backends := by
  cases hg : s.get c with
  | none => intro b hb; simp [BList.new] at hb
  | some l => exact h l hg

theorem noAddr_onBackend {s : State} {c c' i a : Nat} {f : Backend → Backend} {g : Backend → Out}
    (hf : AddrPres f) (h : NoAddr s c a) : NoAddr (onBackend s c' i f g).1 c a := by
  unfold onBackend
  cases hg : s.get c' with
  | none => exact h
  | some l =>
    simp only
    cases hb : l.backends[i]? with
    | none => exact h
    | some b =>
      simp only
      apply noAddr_put h
      intro hc
      subst hc
      exact noAddrL_of_map_eq (map_addr_updAt hf i l.backends) (h l hg)

theorem noAddr_step {s : State} {c a : Nat} (op : Op) (h : NoAddr s c a) (hop : op.addsAddr c a = false) :
    NoAddr (step s op).1 c a := by
  cases op with
  | tick d => exact h
  | add c' id a' st w bk =>
    simp only [step]
    apply noAddr_put h
    intro hc
    subst hc
    apply noAddrL_add (noAddrL_getD h)
    simp [Op.addsAddr] at hop
    simpa [Backend.new] using hop
  | remove c' a' =>
    simp only [step]
    cases hg : s.get c' with
    | none => exact h
    | some l =>
      simp only
      apply noAddr_put h
      intro hc; subst hc
      exact noAddrL_remove_other (h l hg)
  | setPolicy c' k m =>
    simp only [step]
    apply noAddr_put h
    intro hc; subst hc
    simpa [setPolicy] using noAddrL_getD h
  | health c' a' ok thr =>
    simp only [step]
    cases hg : s.get c' with
    | none => exact h
    | some l =>
      simp only
      cases hf : findBackend l a' with
      | none => exact h
      | some b =>
        simp only
        apply noAddr_put h
        intro hc; subst hc
        exact noAddrL_of_map_eq (map_addr_updFirst (addrPres_recordCheck ok thr) _ _) (h l hg)
  | healthOff c' =>
    simp only [step]
    cases hg : s.get c' with
    | none => exact h
    | some l =>
      simp only
      apply noAddr_put h
      intro hc; subst hc
      exact noAddrL_of_map_eq (map_addr_map (f := resetHealth) (fun b => rfl) _) (h l hg)
  | fail c' i w => exact noAddr_onBackend (fun b => rfl) h
  | succeed c' i => exact noAddr_onBackend (fun b => rfl) h
  | inc c' i => exact noAddr_onBackend addrPres_incConn h
  | dec c' i => exact noAddr_onBackend addrPres_decConn h
  | closing c' i => exact noAddr_onBackend (fun b => rfl) h
  | reqInc c' i => exact noAddr_onBackend (fun b => rfl) h
  | reqDec c' i => exact noAddr_onBackend (fun b => rfl) h
  | closeAddr c' a' =>
    simp only [step]
    cases hg : s.get c' with
    | none => exact h
    | some l =>
      simp only
      apply noAddr_put h
      intro hc; subst hc
      exact noAddrL_of_map_eq (map_addr_updFirst addrPres_decConn _ _) (h l hg)
  | select c' e =>
    simp only [step]
    cases hg : s.get c' with
    | none => exact h
    | some l =>
      simp only
      apply noAddr_put h
      intro hc; subst hc
      rw [selectChoices_backends]; exact h l hg
  | sticky c' st e =>
    simp only [step]
    cases hg : s.get c' with
    | none => exact h
    | some l =>
      simp only
      cases hf : findSticky l st s.now with
      | some b => exact h
      | none =>
        simp only
        apply noAddr_put h
        intro hc; subst hc
        rw [selectChoices_backends]; exact h l hg

theorem noAddr_run {c a : Nat} (ops : List Op) (s : State) (h : NoAddr s c a)
    (hops : ∀ o ∈ ops, o.addsAddr c a = false) : NoAddr (run s ops) c a := by
  induction ops generalizing s with
  | nil => exact h
  | cons o t ih =>
    simp only [run, List.foldl_cons]
    exact ih _ (noAddr_step o h (hops o (by simp))) (fun o' ho' => hops o' (List.mem_cons_of_mem _ ho'))

theorem noAddr_remove (s : State) (c a : Nat) : NoAddr (step s (.remove c a)).1 c a := by
  simp only [step]
  cases hg : s.get c with
  | none => intro l hl; simp [hg] at hl
  | some l =>
    simp only
    intro l' hl'
    rw [get_put] at hl'
    simp at hl'; subst hl'
    exact noAddrL_remove a l

/-! ### counters -/

theorem decConn_incConn (b : Backend) (h : b.status = .normal) : (decConn (incConn b).1).1 = b := by
  cases b
  simp only at h
  subst h
  simp [incConn, decConn, decN]

inductive COp where
  | inc | dec | closing
deriving DecidableEq, Repr

/-- one step of a connection history on one backend, with the ghost count
    `out` of connections currently open; a `dec` without an open connection is
    outside the call-site protocol (`none`). -/
def cstep (st : Backend × Nat) : COp → Option (Backend × Nat)
  | .inc => some ((incConn st.1).1, if (incConn st.1).2.isSome then st.2 + 1 else st.2)
  | .dec => if st.2 = 0 then none else some ((decConn st.1).1, st.2 - 1)
  | .closing => some (setClosing st.1, st.2)

def crun : Backend × Nat → List COp → Option (Backend × Nat)
  | st, [] => some st
  | st, o :: t => (cstep st o).bind (fun st' => crun st' t)

def CInv (st : Backend × Nat) : Prop := st.1.conns = st.2 ∧ (st.1.status = .closed → st.2 = 0)

theorem cinv_step {st st' : Backend × Nat} {o : COp} (h : CInv st) (hs : cstep st o = some st') : CInv st' := by
  obtain ⟨b, out⟩ := st
  obtain ⟨hc, hz⟩ := h
  simp only at hc hz
  cases o with
  | inc =>
    simp only [cstep, Option.some.injEq] at hs
    subst hs
    unfold incConn
    by_cases hn : b.status = .normal
    · simp [hn, CInv, hc]
    · simp only [hn, if_false]; exact ⟨by simpa using hc, by simpa using hz⟩
  | dec =>
    simp only [cstep] at hs
    split at hs
    · simp at hs
    · next hne =>
      simp only [Option.some.injEq] at hs
      subst hs
      unfold decConn
      cases hst : b.status with
      | normal =>
        refine ⟨?_, ?_⟩
        · simp only [decN]; split <;> omega
        · intro h2; simp [hst] at h2
      | closed => exact absurd (hz hst) hne
      | closing =>
        simp only
        split
        · next h0 => refine ⟨?_, ?_⟩
                     · simp only [decN] at h0 ⊢; split <;> omega
                     · intro _; simp only [decN] at h0; split at h0 <;> omega
        · next h0 => refine ⟨?_, ?_⟩
                     · simp only [decN]; split <;> omega
                     · intro h2; simp [hst] at h2
  | closing =>
    simp only [cstep, Option.some.injEq] at hs
    subst hs
    exact ⟨by simpa [setClosing] using hc, by intro h2; simp [setClosing] at h2⟩

theorem cinv_run (ops : List COp) {st st' : Backend × Nat} (h : CInv st) (hr : crun st ops = some st') : CInv st' := by
  induction ops generalizing st with
  | nil => simp [crun] at hr; exact hr ▸ h
  | cons o t ih =>
    simp only [crun] at hr
    cases hs : cstep st o with
    | none => simp [hs] at hr
    | some st1 =>
      simp only [hs, Option.bind_some] at hr
      exact ih (cinv_step h hs) hr

/-- request counter history (`active_requests += 1` / `saturating_sub(1)`) with the
    ghost count of requests in flight; ending a request that is not in flight is
    outside the protocol (`none`). `true` = a request starts. -/
def rrun : Nat × Nat → List Bool → Option (Nat × Nat)
  | st, [] => some st
  | st, true :: t => rrun (st.1 + 1, st.2 + 1) t
  | st, false :: t => if st.2 = 0 then none else rrun (st.1 - 1, st.2 - 1) t

theorem rrun_inv (ops : List Bool) (st st' : Nat × Nat) (h : st.1 = st.2) (hr : rrun st ops = some st') :
    st'.1 = st'.2 := by
  induction ops generalizing st with
  | nil => simp [rrun] at hr; exact hr ▸ h
  | cons o t ih =>
    cases o with
    | true => simp only [rrun] at hr; exact ih _ (by simp [h]) hr
    | false =>
      simp only [rrun] at hr
      split at hr
      · simp at hr
      · exact ih _ (by simp [h]) hr

def incAt (l : BList) (i : Nat) : BList := { l with backends := updAt (fun b => (incConn b).1) i l.backends }

theorem close_after_open_unique (bs : List Backend) (i : Nat) (b : Backend) (hb : bs[i]? = some b)
    (hn : b.status = .normal) (huniq : (bs.map (·.addr)).Nodup) :
    updFirst (fun x => x.addr == b.addr) (fun x => (decConn x).1) (updAt (fun x => (incConn x).1) i bs) = bs := by
  induction bs generalizing i with
  | nil => simp at hb
  | cons x t ih =>
    cases i with
    | zero =>
      simp at hb; subst hb
      simp [updAt, updFirst, incConn_addr, decConn_incConn x hn]
    | succ i =>
      simp only [List.getElem?_cons_succ] at hb
      simp only [List.map_cons, List.nodup_cons] at huniq
      have hne : (x.addr == b.addr) = false := by
        have hm : b.addr ∈ t.map (·.addr) := List.mem_map.mpr ⟨b, List.mem_of_getElem? hb, rfl⟩
        cases hx : x.addr == b.addr
        · rfl
        · have : x.addr = b.addr := by simpa using hx
          exact absurd (this ▸ hm) huniq.1
      simp only [updAt, updFirst, hne]
      simp [ih i hb huniq.2]

end Sozu.Backends
