import Sozu.Trie.Model
/-
Model of `sozu_lib::router::Router` (lib/src/router/mod.rs): `pre` / `post`
rule lists, the host trie of `(PathRule, MethodRule, Route)` leaves,
`add_http_front` / `remove_http_front`, `add_tree_rule` / `remove_tree_rule`,
and `lookup` with its path/method selection loop — transcribed as the code is
(rank-based selection loop: first candidate of maximal rank).

Parameters (not modelled): the `regex` crate (`Oracle`: truth value of each
regex on the subject at hand, and whether a pattern compiles), `idna`
(identity on the lower-case ASCII names used), rewrite-template capture
substitution (templates are literals here).
-/
namespace Sozu.Router
open Sozu Sozu.Trie

structure Oracle where
  /-- segment regex (trie) `pat` matches the host label -/
  seg : Bytes → Bytes → Bool
  /-- `DomainRule::Regex` built from the hostname pattern matches the host -/
  dom : Bytes → Bytes → Bool
  /-- path regex matches the path -/
  path : Bytes → Bytes → Bool

inductive PathRule where
  | pfx (s : Bytes)
  | regex (s : Bytes)
  | equals (s : Bytes)
deriving DecidableEq, Repr

inductive PathRes where
  | regex | pfx (n : Nat) | equals | none
deriving DecidableEq, Repr

def isPrefixOf (p s : Bytes) : Bool := s.take p.length == p

/-- `PathRule::matches` -/
def PathRule.matches (o : Oracle) (r : PathRule) (path : Bytes) : PathRes :=
  match r with
  | .pfx p => if isPrefixOf p path then .pfx p.length else .none
  | .regex s => if o.path s path then .regex else .none
  | .equals s => if path = s then .equals else .none

/-- `impl PartialEq for PathRule`: same variant and same string (regexes are
    compared by source) — since fix b632e1a the `Equals` arm exists, so this is
    plain equality of the model values. -/
def PathRule.eqImpl : PathRule → PathRule → Bool
  | .pfx a, .pfx b => a == b
  | .regex a, .regex b => a == b
  | .equals a, .equals b => a == b
  | _, _ => false

abbrev MethodRule := Option Bytes

inductive MethodRes where
  | all | equals | none
deriving DecidableEq, Repr

/-- `MethodRule::matches` (methods are canonical tokens) -/
def methodMatches (m : MethodRule) (method : Bytes) : MethodRes :=
  match m with
  | Option.none => .all
  | some x => if method = x then .equals else .none

inductive DomainRule where
  | any
  | exact (s : Bytes)
  | wildcard (s : Bytes)
  | regex (s : Bytes)
deriving DecidableEq, Repr

/-- `DomainRule::from_str`; `regexOk` = the converted regex compiles -/
def parseDomain (s : Bytes) (regexOk : Bool) : Option DomainRule :=
  if s = [STAR] then some .any
  else if s.contains SLASH then (if regexOk then some (.regex s) else none)
  else if s.contains STAR then (if s.head? = some STAR then some (.wildcard s) else none)
  else some (.exact s)

def endsWith (s suffix : Bytes) : Bool :=
  suffix.length ≤ s.length && s.drop (s.length - suffix.length) == suffix

/-- `DomainRule::matches` -/
def DomainRule.matches (o : Oracle) (d : DomainRule) (host : Bytes) : Bool :=
  match d with
  | .any => true
  | .exact s => s == host
  | .wildcard s =>
    let suffix := s.drop 1
    endsWith host suffix &&
      (let pre := host.take (host.length - suffix.length)
       !pre.isEmpty && !pre.contains DOT)
  | .regex s => o.dom s host

/-- `Frontend` (the fields that reach `RouteResult`) -/
structure Frontend where
  cluster : Option Bytes
  redirect : Nat
  scheme : Nat
  tmpl : Option Bytes
  rhost : Option Bytes
  rpath : Option Bytes
  rport : Option Nat
  auth : Bool
  /-- number of request-side header edits -/
  nreq : Nat := 0
  /-- number of response-side header edits other than the HSTS one -/
  nresp : Nat := 0
  /-- a `Strict-Transport-Security` response edit is materialised -/
  sts : Bool := false
  /-- `inherits_listener_hsts` -/
  inherits : Bool := false
deriving DecidableEq, Repr

inductive Route where
  | deny
  | cluster (id : Bytes)
  | frontend (f : Frontend)
deriving DecidableEq, Repr

/-- `RouteResult` -/
structure RouteResult where
  cluster : Option Bytes
  redirect : Nat
  scheme : Nat
  tmpl : Option Bytes
  rhost : Option Bytes
  rpath : Option Bytes
  rport : Option Nat
  auth : Bool
  /-- `headers_request.len()` / `headers_response.len()` -/
  nreq : Nat := 0
  nresp : Nat := 0
deriving DecidableEq, Repr

def UNAUTHORIZED : Nat := 2

/-- `RouteResult::new_no_trie` / `new_with_trie` / `from_frontend` (literal templates) -/
def Route.result : Route → RouteResult
  | .deny => ⟨none, UNAUTHORIZED, 0, none, none, none, none, false, 0, 0⟩
  | .cluster id => ⟨some id, 0, 0, none, none, none, none, false, 0, 0⟩
  | .frontend f =>
    let nresp := f.nresp + (if f.sts then 1 else 0)
    if f.redirect = UNAUTHORIZED then ⟨f.cluster, UNAUTHORIZED, f.scheme, f.tmpl, none, none, none, f.auth, 0, nresp⟩
    else ⟨f.cluster, f.redirect, f.scheme, f.tmpl, f.rhost, f.rpath, f.rport, f.auth, f.nreq, nresp⟩

/-- the `HttpFrontend` fields the router reads -/
structure Front where
  pos : Nat
  host : Bytes
  kind : Nat
  path : Bytes
  method : Option Bytes
  cluster : Option Bytes := none
  redirect : Option Nat := none
  scheme : Option Nat := none
  tmpl : Option Bytes := none
  rhost : Option Bytes := none
  rpath : Option Bytes := none
  rport : Option Nat := none
  auth : Option Bool := none
  /-- `headers`: the `HeaderPosition` of each entry (1 request, 2 response, 3 both, else dropped) -/
  headers : List Nat := []
  /-- `hsts`: `(enabled == Some(true), max_age.is_some())` -/
  hsts : Option (Bool × Bool) := none
  /-- `HstsOrigin::InheritedFromListenerDefault` -/
  inherit : Bool := false
  /-- the path regex compiles (`Regex::new(..).ok()`) -/
  pathOk : Bool := true
  /-- the hostname regex compiles -/
  hostOk : Bool := true
deriving DecidableEq, Repr

/-- `PathRule::from_config` -/
def pathOfFront (f : Front) : Option PathRule :=
  if f.kind = 0 then some (.pfx f.path)
  else if f.kind = 1 then (if f.pathOk then some (.regex f.path) else none)
  else if f.kind = 2 then some (.equals f.path)
  else none

def nonEmpty (x : Option Bytes) : Option Bytes := x.filter (fun s => !s.isEmpty)

/-- the `has_policy` test and `Frontend::new` of `add_http_front` -/
def routeOfFront (f : Front) : Route :=
  let hasPolicy := f.redirect.isSome || f.scheme.isSome || f.tmpl.isSome || f.rhost.isSome
    || f.rpath.isSome || f.rport.isSome || f.auth.getD false || !f.headers.isEmpty || f.hsts.isSome
  if hasPolicy then
    let redirect := match f.redirect with
      | some r => if r ≤ 4 then r else 0
      | none => 0
    let scheme := match f.scheme with
      | some s => if s ≤ 2 then s else 0
      | none => 0
    let auth := f.auth.getD false
    let rport := f.rport.bind fun p => if p ≤ 65535 then some p else none
    let deny := redirect = UNAUTHORIZED || (f.cluster.isNone && redirect = 0)
    -- the HSTS edit is rendered when `enabled = Some(true)` and `max_age` is present
    let sts := match f.hsts with
      | some (en, age) => en && age
      | none => false
    let inherits := f.inherit && f.hsts.isSome
    if deny then
      .frontend { cluster := f.cluster, redirect := UNAUTHORIZED, scheme, tmpl := none, rhost := none, rpath := none,
                  rport := none, auth, nreq := 0, nresp := 0, sts, inherits }
    else
      .frontend { cluster := f.cluster, redirect, scheme, tmpl := nonEmpty f.tmpl, rhost := nonEmpty f.rhost,
                  rpath := nonEmpty f.rpath, rport, auth,
                  nreq := (f.headers.filter fun p => p = 1 || p = 3).length,
                  nresp := (f.headers.filter fun p => p = 2 || p = 3).length, sts, inherits }
  else
    match f.cluster with
    | some id => .cluster id
    | none => .deny

abbrev Rule3 := PathRule × MethodRule × Route
abbrev Rule4 := DomainRule × PathRule × MethodRule × Route

structure Router where
  pre : List Rule4
  tree : Node (List Rule3)
  post : List Rule4

def Router.new : Router := ⟨[], Node.root, []⟩

def sameKey4 (d : DomainRule) (p : PathRule) (m : MethodRule) (r : Rule4) : Bool :=
  r.1 == d && r.2.1.eqImpl p && r.2.2.1 == m

def sameKey3 (p : PathRule) (m : MethodRule) (r : Rule3) : Bool :=
  r.1.eqImpl p && r.2.1 == m

/-- `add_pre_rule` / `add_post_rule` on the list -/
def addList (l : List Rule4) (d : DomainRule) (p : PathRule) (m : MethodRule) (r : Route) :
    List Rule4 × Bool :=
  if l.any (sameKey4 d p m) then (l, false) else (l ++ [(d, p, m, r)], true)

def removeFirst (l : List Rule4) (f : Rule4 → Bool) : List Rule4 :=
  match l with
  | [] => []
  | x :: t => if f x then t else x :: removeFirst t f

/-- `remove_pre_rule` / `remove_post_rule` -/
def removeList (l : List Rule4) (d : DomainRule) (p : PathRule) (m : MethodRule) : List Rule4 × Bool :=
  if l.any (sameKey4 d p m) then (removeFirst l (sameKey4 d p m), true) else (l, false)

/-- outcome of `add_tree_rule`. Since fix 13212df `insert` reports `Failed` for a key the
    trie cannot store (instead of panicking) and the frontend is refused; the result is
    always `some` (the `Option` is kept for the callers' `panic` arm, now dead). -/
def addTree (o : Oracle) (t : Node (List Rule3)) (host : Bytes) (p : PathRule) (m : MethodRule) (r : Route) :
    Option (Node (List Rule3) × Bool) :=
  match domainLookupMut o.seg t host false with
  | some (_, paths) =>
    if !paths.any (sameKey3 p m) then
      some (domainModifyMut o.seg t host false (fun l => l ++ [(p, m, r)]), true)
    else some (t, false)
  | none =>
    let res := insert t host [(p, m, r)]
    some (res.2, res.1 == .ok)

/-- `remove_tree_rule` (always reports success) -/
def removeTree (o : Oracle) (t : Node (List Rule3)) (host : Bytes) (p : PathRule) (m : MethodRule) :
    Node (List Rule3) × Bool :=
  match domainLookupMut o.seg t host false with
  | some (_, paths) =>
    let keep := fun (x : Rule3) => !(sameKey3 p m x)
    let t' := domainModifyMut o.seg t host false (fun l => l.filter keep)
    if (paths.filter keep).isEmpty then ((remove t' host).2, true) else (t', true)
  | none => (t, true)

inductive AddOut | ok | errPath | errDomain | errAdd | panic
deriving DecidableEq, Repr

/-- `add_http_front` -/
def addFront (o : Oracle) (s : Router) (f : Front) : Router × AddOut :=
  match pathOfFront f with
  | none => (s, .errPath)
  | some p =>
    match parseDomain f.host f.hostOk with
    | none => (s, .errDomain)
    | some d =>
      let route := routeOfFront f
      if f.pos = 0 then
        let r := addList s.pre d p f.method route
        ({ s with pre := r.1 }, if r.2 then .ok else .errAdd)
      else if f.pos = 1 then
        let r := addList s.post d p f.method route
        ({ s with post := r.1 }, if r.2 then .ok else .errAdd)
      else
        match addTree o s.tree f.host p f.method route with
        | none => (s, .panic)
        | some r => ({ s with tree := r.1 }, if r.2 then .ok else .errAdd)

inductive RemoveOut | ok | errPath | errDomain | errRemove
deriving DecidableEq, Repr

/-- `remove_http_front` -/
def removeFront (o : Oracle) (s : Router) (f : Front) : Router × RemoveOut :=
  match pathOfFront f with
  | none => (s, .errPath)
  | some p =>
    if f.pos = 0 then
      match parseDomain f.host f.hostOk with
      | none => (s, .errDomain)
      | some d =>
        let r := removeList s.pre d p f.method
        ({ s with pre := r.1 }, if r.2 then .ok else .errRemove)
    else if f.pos = 1 then
      match parseDomain f.host f.hostOk with
      | none => (s, .errDomain)
      | some d =>
        let r := removeList s.post d p f.method
        ({ s with post := r.1 }, if r.2 then .ok else .errRemove)
    else
      let r := removeTree o s.tree f.host p f.method
      ({ s with tree := r.1 }, if r.2 then .ok else .errRemove)


/-- what `refresh_inheriting_hsts` does to one route; `edit` = the listener
    default renders to an HSTS header (`enabled = Some(true)` with a `max_age`) -/
def refreshRoute (edit : Bool) : Route → Route
  | .frontend f => if f.inherits then .frontend { f with sts := edit } else .frontend f
  | .cluster id =>
    if edit then
      .frontend { cluster := some id, redirect := 0, scheme := 0, tmpl := none, rhost := none, rpath := none,
                  rport := none, auth := false, nreq := 0, nresp := 0, sts := true, inherits := true }
    else .cluster id
  | .deny =>
    if edit then
      .frontend { cluster := none, redirect := UNAUTHORIZED, scheme := 0, tmpl := none, rhost := none, rpath := none,
                  rport := none, auth := false, nreq := 0, nresp := 0, sts := true, inherits := true }
    else .deny

/-- `Router::refresh_inheriting_hsts` -/
def refreshHsts (edit : Bool) (s : Router) : Router :=
  { pre := s.pre.map fun r => (r.1, r.2.1, r.2.2.1, refreshRoute edit r.2.2.2),
    tree := s.tree.mapV (fun l => l.map fun r => (r.1, r.2.1, refreshRoute edit r.2.2)),
    post := s.post.map fun r => (r.1, r.2.1, r.2.2.1, refreshRoute edit r.2.2.2) }

/-- first pre/post rule that matches -/
def scanList (o : Oracle) (l : List Rule4) (host path method : Bytes) : Option Route :=
  match l.find? (fun r => r.1.matches o host && r.2.1.matches o path != PathRes.none
      && methodMatches r.2.2.1 method != MethodRes.none) with
  | some r => some r.2.2.2
  | none => none

/-- rank of a leaf rule for a request, as computed inside the selection loop
    of `lookup` (`None` = one of the two `continue`s):
    `(EQUALS 2 / REGEX 1 / PREFIX 0, prefix length, method-specific 1 / agnostic 0)` -/
def ruleRank (o : Oracle) (path method : Bytes) (rule : Rule3) : Option (Nat × Nat × Nat) :=
  match methodMatches rule.2.1 method with
  | .none => none
  | mr =>
    let k := if mr = .equals then 1 else 0
    match rule.1.matches o path with
    | .equals => some (2, 0, k)
    | .regex => some (1, 0, k)
    | .pfx size => some (0, size, k)
    | .none => none

/-- `rank > best_rank` on `(u8, usize, u8)` tuples (lexicographic) -/
def rankGt (a b : Nat × Nat × Nat) : Bool :=
  a.1 > b.1 || (a.1 == b.1 && (a.2.1 > b.2.1 || (a.2.1 == b.2.1 && a.2.2 > b.2.2)))

/-- state of the selection loop: `(best_rank, matched)` -/
structure Sel where
  best : Nat × Nat × Nat
  m : Option Route
deriving DecidableEq, Repr

def selStep (o : Oracle) (path method : Bytes) (s : Sel) (rule : Rule3) : Sel :=
  match ruleRank o path method rule with
  | none => s
  | some rank => if s.m.isNone || rankGt rank s.best then ⟨rank, some rule.2.2⟩ else s

/-- the selection loop over one leaf (rank-based since fix 3989b45) -/
def selectLeaf (o : Oracle) (rules : List Rule3) (path method : Bytes) : Option Route :=
  (rules.foldl (selStep o path method) ⟨(0, 0, 0), none⟩).m

/-- the tree part of `lookup` -/
def lookupTree (o : Oracle) (t : Node (List Rule3)) (host path method : Bytes) : Option Route :=
  match domainLookup o.seg t host true with
  | some (_, rules) => selectLeaf o rules path method
  | none => none

/-- `Router::lookup` (which `Route` decides; `none` = `RouteNotFound`) -/
def lookupRoute (o : Oracle) (s : Router) (host path method : Bytes) : Option Route :=
  match scanList o s.pre host path method with
  | some r => some r
  | none =>
    match lookupTree o s.tree host path method with
    | some r => some r
    | none => scanList o s.post host path method

def lookup (o : Oracle) (s : Router) (host path method : Bytes) : Option RouteResult :=
  (lookupRoute o s host path method).map Route.result


-- ------------------------------------------------------- listener glue --

/-- `Router::has_hostname` (decides whether the hostname's tags are dropped
    after a removal): the *pattern string* is matched as if it were a request
    host — pre/post rules by `DomainRule::matches`, the tree by the immutable
    `domain_lookup(.., false)`. -/
def hasHostname (o : Oracle) (s : Router) (host : Bytes) : Bool :=
  s.pre.any (fun r => r.1.matches o host) || (domainLookup o.seg s.tree host false).isSome
    || s.post.any (fun r => r.1.matches o host)

def isHostChar (b : Nat) : Bool :=
  (48 ≤ b && b ≤ 57) || (65 ≤ b && b ≤ 90) || (97 ≤ b && b ≤ 122) || b = 45 || b = 46

def isDigit (b : Nat) : Bool := 48 ≤ b && b ≤ 57

def digitsVal (ds : List Nat) : Nat := ds.foldl (fun acc d => acc * 10 + (d - 48)) 0

/-- `hostname_and_port` as used by `frontend_from_request`: the hostname of a
    `Host` / `:authority` value, `none` when the value is rejected (empty host,
    foreign character, port missing after `:`, port 0 or above 65535) -/
def authorityHost (a : Bytes) : Option Bytes :=
  let host := a.takeWhile isHostChar
  if host.isEmpty then none
  else
    match a.dropWhile isHostChar with
    | [] => some host
    | c :: ds =>
      if c = 58 then
        let digs := ds.takeWhile isDigit
        if digs.isEmpty then none
        else if digitsVal digs = 0 || digitsVal digs > 65535 then none
        else if (ds.dropWhile isDigit).isEmpty then some host else none
      else none

/-- a listener: plain HTTP (`https = false`) or HTTPS, its address, its router
    and the hostnames that carry tags -/
structure Listener where
  https : Bool
  addr : Nat
  fronts : Router
  tags : List Bytes

def Listener.new (https : Bool) (addr : Nat) : Listener := ⟨https, addr, Router.new, []⟩

inductive LOut | ok | errPath | errDomain | errAdd | errRemove | errHsts | errInput | errNoListener | panic
deriving DecidableEq, Repr

/-- `HttpProxy::add_http_frontend` (HSTS refused on plain HTTP, `to_frontend`,
    listener chosen by address, tags set after a successful add) and the
    HTTPS listener's `add_https_front_with_hsts_origin` -/
def Listener.add (o : Oracle) (l : Listener) (f : Front) (addr : Nat) : Listener × LOut :=
  if !l.https && f.hsts.isSome then (l, .errHsts)
  else if f.pos > 2 then (l, .errInput)
  else if addr ≠ l.addr then (l, .errNoListener)
  else
    let r := addFront o l.fronts (if l.https then f else { f with inherit := false })
    match r.2 with
    | .ok => ({ l with fronts := r.1, tags := if l.tags.contains f.host then l.tags else f.host :: l.tags }, .ok)
    | .errPath => (l, .errPath)
    | .errDomain => (l, .errDomain)
    | .errAdd => (l, .errAdd)
    | .panic => (l, .panic)

/-- `HttpProxy::remove_http_frontend`: the tags of the hostname go when
    `has_hostname` says no route references it any more -/
def Listener.remove (o : Oracle) (l : Listener) (f : Front) (addr : Nat) : Listener × LOut :=
  if f.pos > 2 then (l, .errInput)
  else if addr ≠ l.addr then (l, .errNoListener)
  else
    let r := removeFront o l.fronts f
    match r.2 with
    | .ok =>
      ({ l with fronts := r.1,
                tags := if hasHostname o r.1 f.host then l.tags else l.tags.filter (· ≠ f.host) }, .ok)
    | .errPath => (l, .errPath)
    | .errDomain => (l, .errDomain)
    | .errRemove => (l, .errRemove)

/-- `frontend_from_request`: `none` = the authority is rejected; `some none` = no route -/
def Listener.lookup (o : Oracle) (l : Listener) (authority path method : Bytes) : Option (Option RouteResult) :=
  (authorityHost authority).map fun host => _root_.Sozu.Router.lookup o l.fronts host path method

/-- operations of a history -/
inductive Op where
  | add (f : Front)
  | remove (f : Front)
deriving DecidableEq, Repr

def step (o : Oracle) (s : Router) : Op → Router
  | .add f => (addFront o s f).1
  | .remove f => (removeFront o s f).1

def run (o : Oracle) (ops : List Op) : Router := ops.foldl (step o) Router.new

end Sozu.Router
