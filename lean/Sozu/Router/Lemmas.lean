import Sozu.Router.Model
import Sozu.Router.Spec
import Sozu.Trie.Lemmas
/-
Helper lemmas for the router: the selection loop of `lookup` picks the
candidate of strictly largest `crank` (the priority the loop really
implements), wherever it stands in the leaf's rule list.
-/
set_option linter.unusedSimpArgs false
set_option linter.unusedVariables false
namespace Sozu.Router
open Sozu Sozu.Trie

/-- the priority the selection loop of `lookup` *actually* gives a candidate
    (0 = does not match): Regex/Equals with a specific method returns at once;
    Regex/Equals with any method sets `prefix_length = |path|`; a prefix of
    length `n` needs `n >= prefix_length`. -/
def crank (o : Oracle) (path method : Bytes) (r : Rule3) : Nat :=
  match r.1.matches o path, methodMatches r.2.1 method with
  | .regex, .equals => path.length + 2
  | .equals, .equals => path.length + 2
  | .regex, .all => path.length + 1
  | .equals, .all => path.length + 1
  | .pfx n, .equals => n + 1
  | .pfx n, .all => n + 1
  | _, _ => 0

theorem isPrefixOf_length {p s : Bytes} (h : isPrefixOf p s = true) : p.length ≤ s.length := by
  simp only [isPrefixOf, beq_iff_eq] at h
  have := congrArg List.length h
  simp at this
  omega

theorem matches_pfx_le (o : Oracle) (r : PathRule) (path : Bytes) (n : Nat)
    (h : r.matches o path = PathRes.pfx n) : n ≤ path.length := by
  cases r with
  | pfx p =>
    simp only [PathRule.matches] at h
    split at h
    · next hp => cases h; exact isPrefixOf_length hp
    · cases h
  | regex s => simp only [PathRule.matches] at h; split at h <;> cases h
  | equals s => simp only [PathRule.matches] at h; split at h <;> cases h

theorem crank_le (o : Oracle) (path method : Bytes) (r : Rule3) : crank o path method r ≤ path.length + 2 := by
  unfold crank
  split <;> try omega
  all_goals (next n h _ => have := matches_pfx_le o _ _ _ h; omega)

theorem sel_pre (o : Oracle) (path method : Bytes) (K : Nat) :
    K ≤ path.length + 2 →
    ∀ (l : List Rule3) (p : Nat) (m : Option Route), p + 1 ≤ K → (∀ c ∈ l, crank o path method c < K) →
      ∃ p' m', l.foldl (selStep o path method) (.cont p m) = .cont p' m' ∧ p' + 1 ≤ K := by
  intro hK l
  induction l with
  | nil => intro p m hp _; exact ⟨p, m, rfl, hp⟩
  | cons c t ih =>
    intro p m hp hall
    have hc := hall c (by simp)
    have hle := crank_le o path method c
    have ht : ∀ c ∈ t, crank o path method c < K := fun x hx => hall x (by simp [hx])
    simp only [List.foldl_cons]
    unfold crank at hc
    simp only [selStep]
    cases h1 : c.1.matches o path <;> cases h2 : methodMatches c.2.1 method <;> simp only [h1, h2] at hc ⊢
    all_goals first
      | exact ih _ _ hp ht
      | exact ih _ _ (by omega) ht
      | (exfalso; omega)
      | (split <;> first | exact ih _ _ hp ht | exact ih _ _ (by omega) ht)


theorem foldl_ret (o : Oracle) (path method : Bytes) (r : Route) (l : List Rule3) :
    l.foldl (selStep o path method) (.ret r) = .ret r := by
  induction l with
  | nil => rfl
  | cons c t ih => simpa [List.foldl_cons, selStep] using ih

theorem sel_post (o : Oracle) (path method : Bytes) (K : Nat) (r : Route) (hK1 : 1 ≤ K) (hK : K ≤ path.length + 1) :
    ∀ (l : List Rule3), (∀ c ∈ l, crank o path method c < K) →
      l.foldl (selStep o path method) (.cont (K - 1) (some r)) = .cont (K - 1) (some r) := by
  intro l
  induction l with
  | nil => intro _; rfl
  | cons c t ih =>
    intro hall
    have hc := hall c (by simp)
    have ht : ∀ c ∈ t, crank o path method c < K := fun x hx => hall x (by simp [hx])
    simp only [List.foldl_cons]
    unfold crank at hc
    simp only [selStep]
    cases h1 : c.1.matches o path <;> cases h2 : methodMatches c.2.1 method <;> simp only [h1, h2] at hc ⊢
    all_goals first
      | exact ih ht
      | (exfalso; omega)
      | (split <;> first | exact ih ht | (exfalso; omega))

/-- the candidate with the strictly largest `crank` wins, wherever it stands -/
theorem select_unique_max (o : Oracle) (path method : Bytes) (l₁ l₂ : List Rule3) (r : Rule3)
    (hr : 0 < crank o path method r)
    (h₁ : ∀ c ∈ l₁, crank o path method c < crank o path method r)
    (h₂ : ∀ c ∈ l₂, crank o path method c < crank o path method r) :
    selectLeaf o (l₁ ++ r :: l₂) path method = some r.2.2 := by
  have hle := crank_le o path method r
  obtain ⟨p, m, hpre, hp⟩ := sel_pre o path method _ hle l₁ 0 none (by omega) h₁
  simp only [selectLeaf, List.foldl_append, List.foldl_cons, hpre]
  have hcr : crank o path method r = crank o path method r := rfl
  revert hp h₂ hr hle
  generalize hK : crank o path method r = K
  intro hr hle hp h₂
  unfold crank at hK
  simp only [selStep]
  cases h1 : r.1.matches o path <;> cases h2 : methodMatches r.2.1 method <;> simp only [h1, h2] at hK ⊢
  all_goals first
    | (rw [foldl_ret]; rfl)
    | (exfalso; omega)
    | (have hpost := sel_post o path method K r.2.2 (by omega) (by omega) l₂ hle
       have e : path.length = K - 1 := by omega
       rw [e, hpost]; rfl)
    | (next n =>
       have hn := matches_pfx_le o _ _ _ h1
       have hpost := sel_post o path method K r.2.2 (by omega) (by omega) l₂ hle
       have e : n = K - 1 := by omega
       have hge : n ≥ p := by omega
       rw [if_pos hge, e, hpost]; rfl)

end Sozu.Router
