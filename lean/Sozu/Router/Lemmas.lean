import Sozu.Router.Model
import Sozu.Router.Spec
import Sozu.Trie.Lemmas
/-
Helper lemmas for the router: the (rank-based) selection loop of `lookup`
returns a candidate of maximal documented rank, whatever the order of the
leaf's rule list; order-preservation facts for the pre/post lists.
-/
set_option linter.unusedSimpArgs false
set_option linter.unusedVariables false
namespace Sozu.Router
open Sozu Sozu.Trie

abbrev Rank := Nat × Nat × Nat

theorem rankGt_irrefl (a : Rank) : rankGt a a = false := by
  simp [rankGt]

theorem rankGt_trans {a b c : Rank} (h1 : rankGt a b = true) (h2 : rankGt b c = true) : rankGt a c = true := by
  obtain ⟨a1, a2, a3⟩ := a; obtain ⟨b1, b2, b3⟩ := b; obtain ⟨c1, c2, c3⟩ := c
  simp only [rankGt, Bool.or_eq_true, Bool.and_eq_true, decide_eq_true_eq, beq_iff_eq, gt_iff_lt] at *
  omega

theorem rank_eq_of_not_gt {a b : Rank} (h1 : rankGt a b = false) (h2 : rankGt b a = false) : a = b := by
  obtain ⟨a1, a2, a3⟩ := a; obtain ⟨b1, b2, b3⟩ := b
  have h1' : ¬ rankGt (a1, a2, a3) (b1, b2, b3) = true := by simp [h1]
  have h2' : ¬ rankGt (b1, b2, b3) (a1, a2, a3) = true := by simp [h2]
  simp only [rankGt, Bool.or_eq_true, Bool.and_eq_true, decide_eq_true_eq, beq_iff_eq, gt_iff_lt] at h1' h2'
  have e1 : a1 = b1 := by omega
  have e2 : a2 = b2 := by omega
  have e3 : a3 = b3 := by omega
  subst e1 e2 e3; rfl

theorem rankGt_eq_specLt (a b : Rank) : rankGt a b = Spec.rankLt b a := by
  obtain ⟨a1, a2, a3⟩ := a; obtain ⟨b1, b2, b3⟩ := b
  have e1 : (a1 == b1) = (b1 == a1) := by
    rw [Bool.eq_iff_iff, beq_iff_eq, beq_iff_eq]; exact eq_comm
  have e2 : (a2 == b2) = (b2 == a2) := by
    rw [Bool.eq_iff_iff, beq_iff_eq, beq_iff_eq]; exact eq_comm
  simp only [rankGt, Spec.rankLt, e1, e2, gt_iff_lt]

/-- the loop's rank is the Spec's rank of the rule seen as a tree frontend -/
theorem ruleRank_eq_spec (o : Oracle) (path method : Bytes) (r : Rule3) (host : Bytes) :
    ruleRank o path method r = Spec.rank o ⟨2, host, r.1, r.2.1, r.2.2⟩ path method := by
  simp only [ruleRank, Spec.rank]
  cases methodMatches r.2.1 method <;> cases r.1.matches o path <;> simp

/-- what the selection loop has established after scanning the rules `l` -/
def Good (o : Oracle) (path method : Bytes) (l : List Rule3) (s : Sel) : Prop :=
  (s.m = none ∧ ∀ c ∈ l, ruleRank o path method c = none) ∨
  (∃ r ∈ l, s.m = some r.2.2 ∧ ruleRank o path method r = some s.best ∧
      ∀ c ∈ l, ∀ kc, ruleRank o path method c = some kc → rankGt kc s.best = false)

theorem good_step (o : Oracle) (path method : Bytes) (l : List Rule3) (s : Sel) (c : Rule3)
    (h : Good o path method l s) : Good o path method (l ++ [c]) (selStep o path method s c) := by
  unfold selStep
  cases hc : ruleRank o path method c with
  | none =>
    simp only []
    rcases h with ⟨hm, hall⟩ | ⟨r, hr, hm, hrk, hall⟩
    · left; refine ⟨hm, ?_⟩
      intro x hx; simp only [List.mem_append, List.mem_singleton] at hx
      rcases hx with hx | rfl
      · exact hall x hx
      · exact hc
    · right; refine ⟨r, by simp [hr], hm, hrk, ?_⟩
      intro x hx kc hk; simp only [List.mem_append, List.mem_singleton] at hx
      rcases hx with hx | rfl
      · exact hall x hx kc hk
      · rw [hc] at hk; cases hk
  | some rank =>
    simp only []
    rcases h with ⟨hm, hall⟩ | ⟨r, hr, hm, hrk, hall⟩
    · simp only [hm, Option.isNone_none, Bool.true_or, ↓reduceIte]
      right; refine ⟨c, by simp, rfl, hc, ?_⟩
      intro x hx kc hk; simp only [List.mem_append, List.mem_singleton] at hx
      rcases hx with hx | rfl
      · rw [hall x hx] at hk; cases hk
      · rw [hc] at hk; cases hk; exact rankGt_irrefl _
    · simp only [hm, Option.isNone_some, Bool.false_or]
      by_cases hg : rankGt rank s.best = true
      · simp only [hg, ↓reduceIte]
        right; refine ⟨c, by simp, rfl, hc, ?_⟩
        intro x hx kc hk; simp only [List.mem_append, List.mem_singleton] at hx
        rcases hx with hx | rfl
        · have := hall x hx kc hk
          cases hgt : rankGt kc rank with
          | false => rfl
          | true => rw [rankGt_trans hgt hg] at this; cases this
        · rw [hc] at hk; cases hk; exact rankGt_irrefl _
      · simp only [hg, Bool.false_eq_true, ↓reduceIte]
        right; refine ⟨r, by simp [hr], hm, hrk, ?_⟩
        intro x hx kc hk; simp only [List.mem_append, List.mem_singleton] at hx
        rcases hx with hx | rfl
        · exact hall x hx kc hk
        · rw [hc] at hk; cases hk; simpa using hg

theorem good_fold (o : Oracle) (path method : Bytes) (l : List Rule3) :
    ∀ (l₀ : List Rule3) (s : Sel), Good o path method l₀ s →
      Good o path method (l₀ ++ l) (l.foldl (selStep o path method) s) := by
  induction l with
  | nil => intro l₀ s h; simpa using h
  | cons c t ih =>
    intro l₀ s h
    have := ih (l₀ ++ [c]) _ (good_step o path method l₀ s c h)
    simpa [List.append_assoc] using this

/-- the selection loop returns the route of a candidate of maximal rank; it
    returns nothing only when no rule matches -/
theorem select_good (o : Oracle) (path method : Bytes) (l : List Rule3) :
    (selectLeaf o l path method = none ∧ ∀ c ∈ l, ruleRank o path method c = none) ∨
    (∃ r ∈ l, ∃ k, selectLeaf o l path method = some r.2.2 ∧ ruleRank o path method r = some k ∧
        ∀ c ∈ l, ∀ kc, ruleRank o path method c = some kc → rankGt kc k = false) := by
  have h := good_fold o path method l [] ⟨(0, 0, 0), none⟩ (Or.inl ⟨rfl, by simp⟩)
  simp only [List.nil_append] at h
  rcases h with ⟨hm, hall⟩ | ⟨r, hr, hm, hrk, hall⟩
  · left; exact ⟨hm, hall⟩
  · right; exact ⟨r, hr, _, hm, hrk, hall⟩


/-! ### definitions and helper lemmas used by `Props.lean` -/

/-- a proper (regex-free) pattern key: dotted literal labels, TLD first, then
    the leftmost label, which may be `*` -/
abbrev PKey := List Bytes × Bytes

inductive TOp (V : Type) where
  | ins (k : PKey) (key : Bytes) (v : V)
  | rem (k : PKey)

def tstep {V : Type} (t : Node V) : TOp V → Node V
  | .ins k key v => (insertRec t (keySteps k.1 k.2) key v).2
  | .rem k => (removeRec t (keySteps k.1 k.2)).2

/-- the abstract map: insert keeps an existing binding (`InsertResult::Existing`) -/
def mstep {V : Type} (m : KMap PKey (Bytes × V)) : TOp V → KMap PKey (Bytes × V)
  | .ins k key v => if (KMap.get? m k).isSome then m else KMap.set m k (key, v)
  | .rem k => KMap.erase m k

/-- abstract lookup: the exact key, else the `*` key of the same parent -/
def mlookup {V : Type} (m : KMap PKey (Bytes × V)) (q : PKey) : Option (Bytes × V) :=
  (KMap.get? m q).orElse (fun _ => KMap.get? m (q.1, [STAR]))

/-- simulation relation between a trie and the abstract map -/
def TRel {V : Type} (t : Node V) (m : KMap PKey (Bytes × V)) : Prop :=
  WF t ∧ ∀ k : PKey, get t (keySteps k.1 k.2) = KMap.get? m k

theorem trel_root {V : Type} : TRel (Node.root : Node V) [] := by
  refine ⟨wf_root, ?_⟩
  intro k
  obtain ⟨ds, l⟩ := k
  cases ds <;> simp [keySteps_nil, keySteps_cons, get_leafKey', get_cons, Node.root, Node.wc, Node.children]

theorem pkey_ne {k k' : PKey} (e : k' ≠ k) : (k'.1, k'.2) ≠ (k.1, k.2) := by
  intro h; apply e; exact Prod.ext (by simpa using congrArg Prod.fst h) (by simpa using congrArg Prod.snd h)

theorem trel_step {V : Type} (t : Node V) (m : KMap PKey (Bytes × V)) (op : TOp V) (h : TRel t m) :
    TRel (tstep t op) (mstep m op) := by
  obtain ⟨hwf, hget⟩ := h
  cases op with
  | ins k key v =>
    have sp := insertRec_spec key v k.1 k.2 _ hwf
    refine ⟨sp.wf, ?_⟩
    intro k'
    simp only [tstep, mstep]
    by_cases e : k' = k
    · subst e
      rw [sp.self, hget]
      cases hk : KMap.get? m k' <;> simp [hk]
    · rw [sp.other k'.1 k'.2 (pkey_ne e), hget]
      split
      · rfl
      · rw [KMap.get?_set_ne _ _ e]
  | rem k =>
    have sp := removeRec_spec k.1 k.2 _ hwf
    refine ⟨sp.wf, ?_⟩
    intro k'
    simp only [tstep, mstep]
    by_cases e : k' = k
    · subst e; rw [sp.self]; simp
    · rw [sp.other k'.1 k'.2 (pkey_ne e), hget, KMap.get?_erase_ne _ e]

theorem trel_run {V : Type} (ops : List (TOp V)) :
    ∀ (t : Node V) (m : KMap PKey (Bytes × V)), TRel t m → TRel (ops.foldl tstep t) (ops.foldl mstep m) := by
  induction ops with
  | nil => intro t m h; exact h
  | cons op ops ih => intro t m h; exact ih _ _ (trel_step t m op h)

/-- a leaf rule seen as a configured tree frontend of host `host` -/
def feOf (host : Bytes) (r : Rule3) : Spec.Fe := ⟨2, host, r.1, r.2.1, r.2.2⟩

theorem mem_same_key {l : List Rule3}
    (hp : l.Pairwise (fun a b => ¬ (a.1 = b.1 ∧ a.2.1 = b.2.1))) :
    ∀ a ∈ l, ∀ b ∈ l, a.1 = b.1 → a.2.1 = b.2.1 → a = b := by
  induction l with
  | nil => intro a ha; cases ha
  | cons x t ih =>
    rw [List.pairwise_cons] at hp
    intro a ha b hb h1 h2
    simp only [List.mem_cons] at ha hb
    rcases ha with rfl | ha <;> rcases hb with rfl | hb
    · rfl
    · exact absurd ⟨h1, h2⟩ (hp.1 b hb)
    · exact absurd ⟨h1.symm, h2.symm⟩ (hp.1 a ha)
    · exact ih hp.2 a ha b hb h1 h2

theorem isPrefixOf_eq {p q s : Bytes} (hp : isPrefixOf p s = true) (hq : isPrefixOf q s = true)
    (hl : p.length = q.length) : p = q := by
  simp only [isPrefixOf, beq_iff_eq] at hp hq
  rw [← hp, ← hq, hl]

theorem methodMatches_equals {m : MethodRule} {method : Bytes} (h : methodMatches m method = .equals) :
    m = some method := by
  cases m with
  | none => simp [methodMatches] at h
  | some y => simp only [methodMatches] at h; split at h <;> simp_all

theorem methodMatches_all {m : MethodRule} {method : Bytes} (h : methodMatches m method = .all) : m = none := by
  cases m with
  | none => rfl
  | some y => simp only [methodMatches] at h; split at h <;> cases h

theorem matches_equals {o : Oracle} {p : PathRule} {path : Bytes} (h : p.matches o path = .equals) :
    p = .equals path := by
  cases p <;> simp only [PathRule.matches] at h <;> split at h <;> simp_all

theorem matches_regex {o : Oracle} {p : PathRule} {path : Bytes} (h : p.matches o path = .regex) :
    ∃ s, p = .regex s := by
  cases p <;> simp only [PathRule.matches] at h <;> split at h <;> simp_all

theorem matches_pfx {o : Oracle} {p : PathRule} {path : Bytes} {n : Nat} (h : p.matches o path = .pfx n) :
    ∃ s, p = .pfx s ∧ s.length = n ∧ isPrefixOf s path = true := by
  cases p <;> simp only [PathRule.matches] at h <;> split at h <;> simp_all

/-- shape of a rank: the method part and the path part -/
theorem ruleRank_some {o : Oracle} {path method : Bytes} {r : Rule3} {k : Rank}
    (h : ruleRank o path method r = some k) :
    ((methodMatches r.2.1 method = .equals ∧ k.2.2 = 1) ∨ (methodMatches r.2.1 method = .all ∧ k.2.2 = 0)) ∧
    ((r.1.matches o path = .equals ∧ k.1 = 2) ∨ (r.1.matches o path = .regex ∧ k.1 = 1) ∨
      (r.1.matches o path = .pfx k.2.1 ∧ k.1 = 0)) := by
  simp only [ruleRank] at h
  cases hm : methodMatches r.2.1 method <;> cases hp : r.1.matches o path <;> simp only [hm, hp] at h <;>
    first | (cases h; done) | (cases h; simp)

/-- two rules of equal rank for a request have the same `(path, method)` key,
    unless both are REGEX rules -/
theorem same_rank_same_key (o : Oracle) (path method : Bytes) (a b : Rule3) (k : Rank)
    (ha : ruleRank o path method a = some k) (hb : ruleRank o path method b = some k) :
    (∃ s s', a.1 = .regex s ∧ b.1 = .regex s') ∨ (a.1 = b.1 ∧ a.2.1 = b.2.1) := by
  obtain ⟨hma, hpa⟩ := ruleRank_some ha
  obtain ⟨hmb, hpb⟩ := ruleRank_some hb
  have hmeth : a.2.1 = b.2.1 := by
    rcases hma with ⟨e1, k1⟩ | ⟨e1, k1⟩ <;> rcases hmb with ⟨e2, k2⟩ | ⟨e2, k2⟩
    · rw [methodMatches_equals e1, methodMatches_equals e2]
    · omega
    · omega
    · rw [methodMatches_all e1, methodMatches_all e2]
  rcases hpa with ⟨e1, k1⟩ | ⟨e1, k1⟩ | ⟨e1, k1⟩ <;> rcases hpb with ⟨e2, k2⟩ | ⟨e2, k2⟩ | ⟨e2, k2⟩ <;>
    try (exfalso; omega)
  · right; exact ⟨by rw [matches_equals e1, matches_equals e2], hmeth⟩
  · left
    obtain ⟨s, hs⟩ := matches_regex e1
    obtain ⟨s', hs'⟩ := matches_regex e2
    exact ⟨s, s', hs, hs'⟩
  · right
    obtain ⟨s, hs, hl, hp⟩ := matches_pfx e1
    obtain ⟨s', hs', hl', hp'⟩ := matches_pfx e2
    refine ⟨?_, hmeth⟩
    rw [hs, hs', isPrefixOf_eq hp hp' (by omega)]

theorem eqImpl_iff (a b : PathRule) : a.eqImpl b = true ↔ a = b := by
  cases a <;> cases b <;> simp [PathRule.eqImpl]

theorem sameKey3_iff (p : PathRule) (m : MethodRule) (x : Rule3) :
    sameKey3 p m x = true ↔ (x.1 = p ∧ x.2.1 = m) := by
  simp [sameKey3, eqImpl_iff]

/-- the rule list `remove_tree_rule` leaves in a leaf -/
def keepRules (p : PathRule) (m : MethodRule) (paths : List Rule3) : List Rule3 :=
  paths.filter fun x => !sameKey3 p m x

theorem removeTree_spec (o : Oracle) (t : Node (List Rule3)) (hwf : WF t)
    (host : Bytes) (ds : List Bytes) (l : Bytes) (hsplit : splitKey host = some (keySteps ds l))
    (p : PathRule) (m : MethodRule) :
    WF (removeTree o t host p m).1 ∧
    get (removeTree o t host p m).1 (keySteps ds l) =
      (match get t (keySteps ds l) with
       | none => none
       | some kv => if (keepRules p m kv.2).isEmpty then none else some (kv.1, keepRules p m kv.2)) ∧
    (∀ ds' l', (ds', l') ≠ (ds, l) →
        get (removeTree o t host p m).1 (keySteps ds' l') = get t (keySteps ds' l')) := by
  simp only [removeTree, domainLookupMut, domainModifyMut, remove, hsplit, lookupMut_eq_get o.seg ds l t hwf]
  cases hg : get t (keySteps ds l) with
  | none => exact ⟨hwf, hg, fun _ _ _ => rfl⟩
  | some kv =>
    obtain ⟨key, paths⟩ := kv
    have sp := modifyMut_spec o.seg (fun l => l.filter fun x => !sameKey3 p m x) ds l t hwf
    simp only [keepRules]
    split
    · next he =>
      have sr := removeRec_spec ds l _ sp.wf
      refine ⟨sr.wf, ?_, ?_⟩
      · rw [sr.self]; simp [he]
      · intro ds' l' hne; rw [sr.other ds' l' hne, sp.other ds' l' hne]
    · next he =>
      refine ⟨sp.wf, ?_, sp.other⟩
      rw [sp.self, hg]; simp [he]

theorem not_proper_empty (ds : List Bytes) (l : Bytes) : splitKey ([] : Bytes) ≠ some (keySteps ds l) := by
  cases ds <;> simp [splitKey, splitKeyAux, keySteps_nil, keySteps_cons]

theorem not_proper_dot (ds : List Bytes) (l : Bytes) : splitKey [DOT] ≠ some (keySteps ds l) := by
  have : splitKey [DOT] = some [Step.lit (true, [])] := by decide
  rw [this]
  cases ds with
  | nil => simp [keySteps_nil]
  | cons d t => cases t <;> simp [keySteps_nil, keySteps_cons]

theorem addTree_spec (o : Oracle) (t t' : Node (List Rule3)) (hwf : WF t)
    (host : Bytes) (ds : List Bytes) (l : Bytes) (hsplit : splitKey host = some (keySteps ds l))
    (p : PathRule) (m : MethodRule) (r : Route) (b : Bool) (hadd : addTree o t host p m r = some (t', b)) :
    WF t' ∧
    get t' (keySteps ds l) =
      (match get t (keySteps ds l) with
       | none => some (host, [(p, m, r)])
       | some kv => if kv.2.any (sameKey3 p m) then some kv else some (kv.1, kv.2 ++ [(p, m, r)])) ∧
    (∀ ds' l', (ds', l') ≠ (ds, l) → get t' (keySteps ds' l') = get t (keySteps ds' l')) := by
  simp only [addTree, domainLookupMut, domainModifyMut, hsplit, lookupMut_eq_get o.seg ds l t hwf] at hadd
  cases hg : get t (keySteps ds l) with
  | none =>
    rw [hg] at hadd
    simp only [] at hadd
    have sp := insertRec_spec host [(p, m, r)] ds l t hwf
    have h1 : host ≠ [] := by intro e; subst e; exact not_proper_empty ds l hsplit
    have h2 : host ≠ [DOT] := by intro e; subst e; exact not_proper_dot ds l hsplit
    simp only [Trie.insert, h1, h2, Bool.or_self, Bool.false_eq_true, ↓reduceIte, hsplit, decide_false,
      Option.some.injEq, Prod.mk.injEq] at hadd
    obtain ⟨rfl, _⟩ := hadd
    refine ⟨sp.wf, ?_, sp.other⟩
    rw [sp.self, hg]; rfl
  | some kv =>
    rw [hg] at hadd
    simp only [] at hadd
    split at hadd
    · next hany =>
      have sp := modifyMut_spec o.seg (fun l => l ++ [(p, m, r)]) ds l t hwf
      simp only [Option.some.injEq, Prod.mk.injEq] at hadd
      obtain ⟨rfl, _⟩ := hadd
      refine ⟨sp.wf, ?_, sp.other⟩
      rw [sp.self, hg]
      simp only [Bool.not_eq_eq_eq_not, Bool.not_true] at hany
      simp [hany]
    · next hany =>
      simp only [Option.some.injEq, Prod.mk.injEq] at hadd
      obtain ⟨rfl, _⟩ := hadd
      refine ⟨hwf, ?_, fun _ _ _ => rfl⟩
      simp only [Bool.not_eq_eq_eq_not, Bool.not_true, Bool.not_eq_false] at hany
      simp [hany, hg]

theorem lookupTree_congr (o : Oracle) (t t' : Node (List Rule3)) (hwf : WF t) (hwf' : WF t')
    (qhost : Bytes) (qds : List Bytes) (ql : Bytes) (hq : splitHost qhost = qSegs qds ql)
    (h1 : get t' (keySteps qds ql) = get t (keySteps qds ql))
    (h2 : get t' (keySteps qds [STAR]) = get t (keySteps qds [STAR])) (path method : Bytes) :
    lookupTree o t' qhost path method = lookupTree o t qhost path method := by
  simp only [lookupTree, domainLookup, hq, lookup_eq o.seg qds ql t' hwf', lookup_eq o.seg qds ql t hwf, h1, h2]

/-- a pre/post rule matches the request -/
def rule4Matches (o : Oracle) (host path method : Bytes) (r : Rule4) : Bool :=
  r.1.matches o host && r.2.1.matches o path != PathRes.none && methodMatches r.2.2.1 method != MethodRes.none

theorem scanList_eq (o : Oracle) (l : List Rule4) (host path method : Bytes) :
    scanList o l host path method = (l.find? (rule4Matches o host path method)).map (·.2.2.2) := by
  have e : rule4Matches o host path method = fun r => r.1.matches o host && r.2.1.matches o path != PathRes.none
      && methodMatches r.2.2.1 method != MethodRes.none := by funext r; rfl
  rw [e]; simp only [scanList]
  cases List.find? _ l <;> rfl

theorem sameKey4_iff (d : DomainRule) (p : PathRule) (m : MethodRule) (x : Rule4) :
    sameKey4 d p m x = true ↔ (x.1 = d ∧ x.2.1 = p ∧ x.2.2.1 = m) := by
  simp [sameKey4, eqImpl_iff, and_assoc]

theorem find?_removeFirst_nomatch (g f : Rule4 → Bool) (l : List Rule4)
    (h : ∀ x ∈ l, f x = true → g x = false) : (removeFirst l f).find? g = l.find? g := by
  induction l with
  | nil => rfl
  | cons x t ih =>
    simp only [removeFirst]
    split
    · next hf => simp [List.find?_cons, h x (by simp) hf]
    · simp only [List.find?_cons]
      split
      · rfl
      · exact ih (fun y hy => h y (by simp [hy]))

/-- pairwise distinct `(domain, path, method)` keys -/
def PPKeys (l : List Rule4) : Prop :=
  l.Pairwise (fun a b => ¬ (a.1 = b.1 ∧ a.2.1 = b.2.1 ∧ a.2.2.1 = b.2.2.1))

theorem removeFirst_sublist (l : List Rule4) (f : Rule4 → Bool) : (removeFirst l f).Sublist l := by
  induction l with
  | nil => exact List.Sublist.slnil
  | cons x t ih =>
    simp only [removeFirst]
    split
    · exact List.sublist_cons_self x t
    · exact ih.cons_cons x

theorem ppkeys_add (l : List Rule4) (d : DomainRule) (p : PathRule) (m : MethodRule) (r : Route)
    (h : PPKeys l) : PPKeys (addList l d p m r).1 := by
  simp only [addList]
  split
  · exact h
  · next hany =>
    simp only [PPKeys, List.pairwise_append, List.pairwise_cons, List.not_mem_nil, false_imp_iff, implies_true,
      List.Pairwise.nil, and_self, List.mem_singleton, forall_eq, true_and]
    refine ⟨h, ?_⟩
    intro a ha hk
    apply hany
    simp only [List.any_eq_true]
    exact ⟨a, ha, (sameKey4_iff d p m a).mpr hk⟩

theorem ppkeys_remove (l : List Rule4) (d : DomainRule) (p : PathRule) (m : MethodRule)
    (h : PPKeys l) : PPKeys (removeList l d p m).1 := by
  simp only [removeList]
  split
  · exact List.Pairwise.sublist (removeFirst_sublist l _) h
  · exact h

theorem removeFirst_nokey (d : DomainRule) (p : PathRule) (m : MethodRule) (l : List Rule4) (h : PPKeys l) :
    ∀ x ∈ removeFirst l (sameKey4 d p m), sameKey4 d p m x = false := by
  induction l with
  | nil => intro x hx; simp [removeFirst] at hx
  | cons y t ih =>
    rw [PPKeys, List.pairwise_cons] at h
    simp only [removeFirst]
    split
    · next hy =>
      intro x hx
      cases hs : sameKey4 d p m x with
      | false => rfl
      | true =>
        have h1 := (sameKey4_iff d p m y).mp hy
        have h2 := (sameKey4_iff d p m x).mp hs
        exact absurd ⟨h1.1.trans h2.1.symm, h1.2.1.trans h2.2.1.symm, h1.2.2.trans h2.2.2.symm⟩ (h.1 x hx)
    · next hy =>
      intro x hx
      simp only [List.mem_cons] at hx
      rcases hx with rfl | hx
      · simpa using hy
      · exact ih h.2 x hx

def frontOf : Op → Front
  | .add f => f
  | .remove f => f

/-- a tree frontend's hostname is a regex-free pattern: it splits into a
    proper key and contains no `/` -/
def ProperFront (f : Front) : Prop :=
  f.pos ≠ 0 → f.pos ≠ 1 → (∃ ds l, splitKey f.host = some (keySteps ds l)) ∧ f.host.contains SLASH = false

def treeHosts (ops : List Op) : List Bytes :=
  (ops.filter fun op => (frontOf op).pos != 0 && (frontOf op).pos != 1).map fun op => (frontOf op).host

/-- rules of the leaf of a key (`[]` when there is no leaf) -/
def leafRules (t : Node (List Rule3)) (ds : List Bytes) (l : Bytes) : List Rule3 :=
  match get t (keySteps ds l) with
  | none => []
  | some kv => kv.2

/-- the configured tree frontends of host `H`, in configuration order -/
def specLeaf (S : Spec.State) (H : Bytes) : List Rule3 :=
  (S.filter fun fe => fe.pos == 2 && fe.host == H).map fun fe => (fe.path, fe.method, fe.route)

structure Inv (Hs : List Bytes) (s : Router) (S : Spec.State) : Prop where
  wf : WF s.tree
  nonempty : ∀ ds l kv, get s.tree (keySteps ds l) = some kv → kv.2 ≠ []
  leaf : ∀ H ∈ Hs, ∀ ds l, splitKey H = some (keySteps ds l) → leafRules s.tree ds l = specLeaf S H
  foreign : ∀ ds l, (∀ H ∈ Hs, splitKey H ≠ some (keySteps ds l)) → get s.tree (keySteps ds l) = none
  specok : ∀ fe ∈ S, fe.host.contains SLASH = false → (parseDomain fe.host true).isSome = true
  pre : PPKeys s.pre
  post : PPKeys s.post

theorem parseDomain_noslash (h : Bytes) (b : Bool) (hs : h.contains SLASH = false) :
    parseDomain h b = parseDomain h true := by
  have : ¬ SLASH ∈ h := by simpa using hs
  simp [parseDomain, this]

theorem feSameKey_iff (a b : Spec.Fe) :
    Spec.Fe.sameKey a b = true ↔ (a.pos = b.pos ∧ a.host = b.host ∧ a.path = b.path ∧ a.method = b.method) := by
  simp [Spec.Fe.sameKey, and_assoc]

theorem specLeaf_add (S : Spec.State) (fe : Spec.Fe) (H : Bytes) (hpos : fe.pos = 2) :
    specLeaf (Spec.add S fe) H =
      if fe.host = H then
        (if (specLeaf S H).any (sameKey3 fe.path fe.method) then specLeaf S H
         else specLeaf S H ++ [(fe.path, fe.method, fe.route)])
      else specLeaf S H := by
  have hany : S.any (Spec.Fe.sameKey fe) = (specLeaf S fe.host).any (sameKey3 fe.path fe.method) := by
    rw [Bool.eq_iff_iff]
    simp only [specLeaf, List.any_eq_true, List.mem_map, List.mem_filter, Bool.and_eq_true, beq_iff_eq,
      feSameKey_iff, sameKey3_iff]
    constructor
    · rintro ⟨x, hx, h1, h2, h3, h4⟩
      exact ⟨_, ⟨x, ⟨hx, by omega, h2.symm⟩, rfl⟩, h3.symm, h4.symm⟩
    · rintro ⟨_, ⟨x, ⟨hx, h1, h2⟩, rfl⟩, h3, h4⟩
      exact ⟨x, hx, by omega, h2.symm, h3.symm, h4.symm⟩
  simp only [Spec.add]
  by_cases e : fe.host = H
  · subst e
    simp only [↓reduceIte, ← hany]
    split
    · rfl
    · simp [specLeaf, List.filter_append, hpos]
  · simp only [e, ↓reduceIte]
    split
    · rfl
    · simp [specLeaf, List.filter_append, e]

theorem specLeaf_remove (S : Spec.State) (fe : Spec.Fe) (H : Bytes) (hpos : fe.pos = 2) :
    specLeaf (Spec.remove S fe) H =
      if fe.host = H then keepRules fe.path fe.method (specLeaf S H) else specLeaf S H := by
  simp only [Spec.remove, specLeaf, keepRules, List.filter_filter, List.filter_map]
  by_cases e : fe.host = H
  · simp only [e, ↓reduceIte]
    congr 1
    apply List.filter_congr
    intro x hx
    rw [Bool.eq_iff_iff]
    simp only [Function.comp, Bool.and_eq_true, beq_iff_eq, Bool.not_eq_eq_eq_not, Bool.not_true,
      ← Bool.not_eq_true, feSameKey_iff, sameKey3_iff]
    grind
  · simp only [e, ↓reduceIte]
    congr 1
    apply List.filter_congr
    intro x hx
    rw [Bool.eq_iff_iff]
    simp only [Bool.and_eq_true, beq_iff_eq, Bool.not_eq_eq_eq_not, Bool.not_true,
      ← Bool.not_eq_true, feSameKey_iff]
    grind

theorem specLeaf_add_other (S : Spec.State) (fe : Spec.Fe) (H : Bytes) (hpos : fe.pos ≠ 2) :
    specLeaf (Spec.add S fe) H = specLeaf S H := by
  simp only [Spec.add]
  split
  · rfl
  · simp [specLeaf, List.filter_append, hpos]

theorem specLeaf_remove_other (S : Spec.State) (fe : Spec.Fe) (H : Bytes) (hpos : fe.pos ≠ 2) :
    specLeaf (Spec.remove S fe) H = specLeaf S H := by
  simp only [Spec.remove, specLeaf, List.filter_filter]
  congr 1
  apply List.filter_congr
  intro x hx
  rw [Bool.eq_iff_iff]
  simp only [Bool.and_eq_true, beq_iff_eq, Bool.not_eq_eq_eq_not, Bool.not_true, ← Bool.not_eq_true, feSameKey_iff]
  grind

theorem leafRules_of_get {t : Node (List Rule3)} {ds : List Bytes} {l : Bytes} :
    leafRules t ds l = (match get t (keySteps ds l) with | none => [] | some kv => kv.2) := rfl

theorem keySteps_inj {ds ds' : List Bytes} {l l' : Bytes} (h : keySteps ds l = keySteps ds' l') :
    (ds, l) = (ds', l') := by
  induction ds generalizing ds' with
  | nil =>
    cases ds' with
    | nil => simp [keySteps_nil] at h; simp [h]
    | cons d' t' => cases t' <;> simp [keySteps_nil, keySteps_cons] at h
  | cons d t ih =>
    cases ds' with
    | nil => cases t <;> simp [keySteps_nil, keySteps_cons] at h
    | cons d' t' =>
      simp only [keySteps_cons, List.cons.injEq, Step.lit.injEq, Prod.mk.injEq, true_and] at h
      have := ih h.2
      simp only [Prod.mk.injEq] at this
      simp [h.1, this.1, this.2]

/-- adding a tree frontend keeps the invariant -/
theorem tree_add_inv (o : Oracle) (Hs : List Bytes)
    (hinj : ∀ H ∈ Hs, ∀ H' ∈ Hs, splitKey H = splitKey H' → H = H')
    (s : Router) (S : Spec.State) (h : Inv Hs s S)
    (host : Bytes) (hmem : host ∈ Hs) (ds : List Bytes) (l : Bytes) (hsplit : splitKey host = some (keySteps ds l))
    (p : PathRule) (m : MethodRule) (r : Route) (t' : Node (List Rule3)) (b : Bool)
    (hadd : addTree o s.tree host p m r = some (t', b))
    (hok : host.contains SLASH = false → (parseDomain host true).isSome = true) :
    Inv Hs { s with tree := t' } (Spec.add S ⟨2, host, p, m, r⟩) := by
  obtain ⟨hwf', hself, hother⟩ := addTree_spec o s.tree t' h.wf host ds l hsplit p m r b hadd
  have hleafH := h.leaf host hmem ds l hsplit
  refine ⟨hwf', ?_, ?_, ?_, ?_, h.pre, h.post⟩
  · intro ds' l' kv hg
    by_cases e : (ds', l') = (ds, l)
    · simp only [Prod.mk.injEq] at e
      obtain ⟨rfl, rfl⟩ := e
      simp only [] at hg
      rw [hself] at hg
      cases hq : get s.tree (keySteps ds' l') with
      | none => rw [hq] at hg; cases hg; simp
      | some kv0 =>
        rw [hq] at hg
        simp only [] at hg
        split at hg
        · cases hg; exact h.nonempty ds' l' _ hq
        · cases hg; simp
    · exact h.nonempty ds' l' kv (by rw [← hother ds' l' e]; exact hg)
  · intro H hH ds' l' hsp
    by_cases e : H = host
    · subst e
      rw [hsplit] at hsp
      have := keySteps_inj (Option.some.inj hsp)
      simp only [Prod.mk.injEq] at this
      obtain ⟨rfl, rfl⟩ := this
      rw [specLeaf_add S _ H rfl]
      simp only [↓reduceIte, ← hleafH]
      simp only [leafRules_of_get, hself]
      have key : ∀ g : Option (Bytes × List Rule3),
          (match (match g with
                  | none => some (H, [(p, m, r)])
                  | some kv => if kv.2.any (sameKey3 p m) = true then some kv else some (kv.1, kv.2 ++ [(p, m, r)])) with
            | none => []
            | some kv => kv.2) =
          if (match g with | none => [] | some kv => kv.2).any (sameKey3 p m) = true
          then (match g with | none => [] | some kv => kv.2)
          else (match g with | none => [] | some kv => kv.2) ++ [(p, m, r)] := by
        intro g
        cases g with
        | none => simp
        | some kv0 => simp only []; by_cases hb : kv0.2.any (sameKey3 p m) = true <;> simp [hb]
      exact key _
    · have hne : (ds', l') ≠ (ds, l) := by
        intro e2
        simp only [Prod.mk.injEq] at e2
        obtain ⟨rfl, rfl⟩ := e2
        exact e (hinj H hH host hmem (by rw [hsp, hsplit]))
      have e' : ¬ host = H := fun x => e x.symm
      rw [specLeaf_add S _ H rfl]
      simp only [e', ↓reduceIte]
      rw [← h.leaf H hH ds' l' hsp, leafRules_of_get, leafRules_of_get]
      show (match get t' (keySteps ds' l') with | none => [] | some kv => kv.2) = _
      rw [hother ds' l' hne]
  · intro ds' l' hall
    have hne : (ds', l') ≠ (ds, l) := by
      intro e2
      simp only [Prod.mk.injEq] at e2
      obtain ⟨rfl, rfl⟩ := e2
      exact hall host hmem hsplit
    show get t' (keySteps ds' l') = none
    rw [hother ds' l' hne]
    exact h.foreign ds' l' hall
  · intro fe hfe hs
    simp only [Spec.add] at hfe
    split at hfe
    · exact h.specok fe hfe hs
    · simp only [List.mem_append, List.mem_singleton] at hfe
      rcases hfe with hfe | rfl
      · exact h.specok fe hfe hs
      · exact hok hs

/-- removing a tree frontend keeps the invariant (`S'` is the Spec's answer:
    the key filtered out of the host's frontends) -/
theorem tree_remove_inv (o : Oracle) (Hs : List Bytes)
    (hinj : ∀ H ∈ Hs, ∀ H' ∈ Hs, splitKey H = splitKey H' → H = H')
    (s : Router) (S S' : Spec.State) (h : Inv Hs s S)
    (host : Bytes) (hmem : host ∈ Hs) (ds : List Bytes) (l : Bytes) (hsplit : splitKey host = some (keySteps ds l))
    (p : PathRule) (m : MethodRule)
    (hS1 : specLeaf S' host = keepRules p m (specLeaf S host))
    (hS2 : ∀ H, H ≠ host → specLeaf S' H = specLeaf S H)
    (hS3 : ∀ fe ∈ S', fe ∈ S) :
    Inv Hs { s with tree := (removeTree o s.tree host p m).1 } S' := by
  obtain ⟨hwf', hself, hother⟩ := removeTree_spec o s.tree h.wf host ds l hsplit p m
  have hleafH := h.leaf host hmem ds l hsplit
  refine ⟨hwf', ?_, ?_, ?_, fun fe hfe => h.specok fe (hS3 fe hfe), h.pre, h.post⟩
  · intro ds' l' kv hg
    by_cases e : (ds', l') = (ds, l)
    · simp only [Prod.mk.injEq] at e
      obtain ⟨rfl, rfl⟩ := e
      change get (removeTree o s.tree host p m).1 (keySteps ds' l') = some kv at hg
      rw [hself] at hg
      cases hq : get s.tree (keySteps ds' l') with
      | none => rw [hq] at hg; cases hg
      | some kv0 =>
        rw [hq] at hg
        simp only [] at hg
        split at hg
        · cases hg
        · next hne => cases hg; simpa using hne
    · exact h.nonempty ds' l' kv (by rw [← hother ds' l' e]; exact hg)
  · intro H hH ds' l' hsp
    by_cases e : H = host
    · subst e
      rw [hsplit] at hsp
      have := keySteps_inj (Option.some.inj hsp)
      simp only [Prod.mk.injEq] at this
      obtain ⟨rfl, rfl⟩ := this
      rw [hS1, ← hleafH]
      simp only [leafRules_of_get]
      change (match get (removeTree o s.tree H p m).1 (keySteps ds l) with | none => [] | some kv => kv.2) = _
      rw [hself]
      cases hq : get s.tree (keySteps ds l) with
      | none => simp [keepRules]
      | some kv0 =>
        simp only []
        by_cases hb : (keepRules p m kv0.2).isEmpty = true
        · simp only [hb, ↓reduceIte]; simpa using hb.symm
        · simp [hb]
    · have hne : (ds', l') ≠ (ds, l) := by
        intro e2
        simp only [Prod.mk.injEq] at e2
        obtain ⟨rfl, rfl⟩ := e2
        exact e (hinj H hH host hmem (by rw [hsp, hsplit]))
      rw [hS2 H e, ← h.leaf H hH ds' l' hsp, leafRules_of_get, leafRules_of_get]
      change (match get (removeTree o s.tree host p m).1 (keySteps ds' l') with | none => [] | some kv => kv.2) = _
      rw [hother ds' l' hne]
  · intro ds' l' hall
    have hne : (ds', l') ≠ (ds, l) := by
      intro e2
      simp only [Prod.mk.injEq] at e2
      obtain ⟨rfl, rfl⟩ := e2
      exact hall host hmem hsplit
    change get (removeTree o s.tree host p m).1 (keySteps ds' l') = none
    rw [hother ds' l' hne]
    exact h.foreign ds' l' hall

theorem addTree_total (o : Oracle) (t : Node (List Rule3)) (hwf : WF t)
    (host : Bytes) (ds : List Bytes) (l : Bytes) (hsplit : splitKey host = some (keySteps ds l))
    (p : PathRule) (m : MethodRule) (r : Route) : ∃ x, addTree o t host p m r = some x := by
  simp only [addTree]
  cases domainLookupMut o.seg t host false with
  | some kv => simp only []; split <;> exact ⟨_, rfl⟩
  | none => exact ⟨_, rfl⟩

theorem mem_spec_add {S : Spec.State} {fe x : Spec.Fe} (h : x ∈ Spec.add S fe) : x ∈ S ∨ x = fe := by
  simp only [Spec.add] at h
  by_cases hb : S.any (Spec.Fe.sameKey fe) = true
  · rw [if_pos hb] at h; exact Or.inl h
  · rw [if_neg hb] at h
    simp only [List.mem_append, List.mem_singleton] at h
    exact h

/-- every operation keeps the invariant -/
theorem inv_step (o : Oracle) (Hs : List Bytes)
    (hinj : ∀ H ∈ Hs, ∀ H' ∈ Hs, splitKey H = splitKey H' → H = H')
    (s : Router) (S : Spec.State) (h : Inv Hs s S) (op : Op) (hp : ProperFront (frontOf op))
    (hmem : (frontOf op).pos ≠ 0 → (frontOf op).pos ≠ 1 → (frontOf op).host ∈ Hs) :
    Inv Hs (step o s op) (Spec.step S op) := by
  cases op with
  | add f =>
    simp only [frontOf] at hp hmem
    simp only [step, addFront, Spec.step, Spec.feOfFront]
    cases hpath : pathOfFront f with
    | none => exact h
    | some p =>
      cases hdom : parseDomain f.host f.hostOk with
      | none => exact h
      | some d =>
        simp only []
        have hok : f.host.contains SLASH = false → (parseDomain f.host true).isSome = true := by
          intro hs; rw [← parseDomain_noslash f.host f.hostOk hs, hdom]; rfl
        by_cases h0 : f.pos = 0
        · simp only [h0, ↓reduceIte]
          refine ⟨h.wf, h.nonempty, ?_, h.foreign, ?_, ppkeys_add _ d p f.method _ h.pre, h.post⟩
          · intro H hH ds l hsp; rw [specLeaf_add_other _ _ _ (by simp)]; exact h.leaf H hH ds l hsp
          · intro fe hfe hs
            rcases mem_spec_add hfe with hfe | rfl
            · exact h.specok fe hfe hs
            · exact hok hs
        · by_cases h1 : f.pos = 1
          · simp only [h0, h1, ↓reduceIte]
            refine ⟨h.wf, h.nonempty, ?_, h.foreign, ?_, h.pre, ppkeys_add _ d p f.method _ h.post⟩
            · intro H hH ds l hsp; rw [specLeaf_add_other _ _ _ (by simp)]; exact h.leaf H hH ds l hsp
            · intro fe hfe hs
              rcases mem_spec_add hfe with hfe | rfl
              · exact h.specok fe hfe hs
              · exact hok hs
          · simp only [h0, h1, ↓reduceIte]
            obtain ⟨⟨ds, l, hsplit⟩, _⟩ := hp h0 h1
            obtain ⟨x, hx⟩ := addTree_total o s.tree h.wf f.host ds l hsplit p f.method (routeOfFront f)
            rw [hx]
            exact tree_add_inv o Hs hinj s S h f.host (hmem h0 h1) ds l hsplit p f.method (routeOfFront f) x.1 x.2
              (by simpa using hx) hok
  | remove f =>
    simp only [frontOf] at hp hmem
    simp only [step, removeFront, Spec.step, Spec.feOfFront]
    cases hpath : pathOfFront f with
    | none => exact h
    | some p =>
      simp only []
      by_cases h0 : f.pos = 0
      · simp only [h0, ↓reduceIte]
        cases hdom : parseDomain f.host f.hostOk with
        | none => exact h
        | some d =>
          simp only []
          refine ⟨h.wf, h.nonempty, ?_, h.foreign, ?_, ppkeys_remove _ d p f.method h.pre, h.post⟩
          · intro H hH ds l hsp; rw [specLeaf_remove_other _ _ _ (by simp)]; exact h.leaf H hH ds l hsp
          · intro fe hfe hs
            exact h.specok fe (by simp only [Spec.remove, List.mem_filter] at hfe; exact hfe.1) hs
      · by_cases h1 : f.pos = 1
        · simp only [h0, h1, ↓reduceIte]
          cases hdom : parseDomain f.host f.hostOk with
          | none => exact h
          | some d =>
            simp only []
            refine ⟨h.wf, h.nonempty, ?_, h.foreign, ?_, h.pre, ppkeys_remove _ d p f.method h.post⟩
            · intro H hH ds l hsp; rw [specLeaf_remove_other _ _ _ (by simp)]; exact h.leaf H hH ds l hsp
            · intro fe hfe hs
              exact h.specok fe (by simp only [Spec.remove, List.mem_filter] at hfe; exact hfe.1) hs
        · simp only [h0, h1, ↓reduceIte]
          obtain ⟨⟨ds, l, hsplit⟩, hns⟩ := hp h0 h1
          cases hdom : parseDomain f.host f.hostOk with
          | some d =>
            simp only []
            exact tree_remove_inv o Hs hinj s S _ h f.host (hmem h0 h1) ds l hsplit p f.method
              (by rw [specLeaf_remove _ _ _ rfl]; simp)
              (fun H hH => by
                have hne : ¬ f.host = H := fun e => hH e.symm
                rw [specLeaf_remove _ _ _ rfl]; simp [hne])
              (fun fe hfe => by simp only [Spec.remove, List.mem_filter] at hfe; exact hfe.1)
          | none =>
            simp only []
            -- the host never parsed, so nothing of it is configured: the leaf is empty on both sides
            have hnone : specLeaf S f.host = [] := by
              simp only [specLeaf, List.map_eq_nil_iff, List.filter_eq_nil_iff, Bool.and_eq_true, beq_iff_eq, not_and]
              intro fe hfe _ hh
              have := h.specok fe hfe (by rw [hh]; exact hns)
              rw [hh, ← parseDomain_noslash f.host f.hostOk hns, hdom] at this
              cases this
            exact tree_remove_inv o Hs hinj s S S h f.host (hmem h0 h1) ds l hsplit p f.method
              (by rw [hnone]; rfl) (fun _ _ => rfl) (fun _ hfe => hfe)

theorem inv_init (Hs : List Bytes) : Inv Hs Router.new [] := by
  have hroot : ∀ ds l, get (Node.root : Node (List Rule3)) (keySteps ds l) = none := by
    intro ds l
    cases ds <;> simp [keySteps_nil, keySteps_cons, get_leafKey', get_cons, Node.root, Node.wc, Node.children]
  refine ⟨wf_root, ?_, ?_, ?_, ?_, List.Pairwise.nil, List.Pairwise.nil⟩
  · intro ds l kv hg; simp only [Router.new] at hg; rw [hroot] at hg; cases hg
  · intro H _ ds l _; simp [leafRules, Router.new, hroot, specLeaf]
  · intro ds l _; exact hroot ds l
  · intro fe hfe; cases hfe

theorem inv_run (o : Oracle) (Hs : List Bytes)
    (hinj : ∀ H ∈ Hs, ∀ H' ∈ Hs, splitKey H = splitKey H' → H = H') (ops : List Op) :
    ∀ (s : Router) (S : Spec.State), Inv Hs s S →
      (∀ op ∈ ops, ProperFront (frontOf op)) →
      (∀ op ∈ ops, (frontOf op).pos ≠ 0 → (frontOf op).pos ≠ 1 → (frontOf op).host ∈ Hs) →
      Inv Hs (ops.foldl (step o) s) (ops.foldl Spec.step S) := by
  induction ops with
  | nil => intro s S h _ _; exact h
  | cons op t ih =>
    intro s S h hp hm
    exact ih _ _ (inv_step o Hs hinj s S h op (hp op (by simp)) (hm op (by simp)))
      (fun x hx => hp x (by simp [hx])) (fun x hx => hm x (by simp [hx]))

/-- a history whose tree frontends have regex-free hostnames, pairwise
    distinguishable by their split (byte-level injectivity of `splitKey` on the
    hostnames used is a hypothesis here) -/
structure ProperHistory (ops : List Op) : Prop where
  proper : ∀ op ∈ ops, ProperFront (frontOf op)
  inj : ∀ H ∈ treeHosts ops, ∀ H' ∈ treeHosts ops, splitKey H = splitKey H' → H = H'

theorem mem_treeHosts {ops : List Op} {op : Op} (h : op ∈ ops) (h0 : (frontOf op).pos ≠ 0) (h1 : (frontOf op).pos ≠ 1) :
    (frontOf op).host ∈ treeHosts ops := by
  simp only [treeHosts, List.mem_map, List.mem_filter, Bool.and_eq_true, bne_iff_ne, ne_eq]
  exact ⟨op, ⟨h, h0, h1⟩, rfl⟩

/-- the Spec's configured set has pairwise distinct keys -/
theorem spec_keys (ops : List Op) :
    ∀ (S : Spec.State), S.Pairwise (fun a b => ¬ Spec.Fe.sameKey a b = true) →
      (ops.foldl Spec.step S).Pairwise (fun a b => ¬ Spec.Fe.sameKey a b = true) := by
  induction ops with
  | nil => intro S h; exact h
  | cons op t ih =>
    intro S h
    apply ih
    cases op with
    | add f =>
      simp only [Spec.step]
      split
      · next fe _ =>
        simp only [Spec.add]
        split
        · exact h
        · next hany =>
          rw [List.pairwise_append]
          refine ⟨h, List.pairwise_singleton _ _, ?_⟩
          intro a ha b hb
          simp only [List.mem_singleton] at hb
          subst hb
          intro hk
          apply hany
          rw [List.any_eq_true]
          refine ⟨a, ha, ?_⟩
          rw [feSameKey_iff] at hk ⊢
          exact ⟨hk.1.symm, hk.2.1.symm, hk.2.2.1.symm, hk.2.2.2.symm⟩
      · exact h
    | remove f =>
      simp only [Spec.step]
      split
      · exact List.Pairwise.sublist List.filter_sublist h
      · exact h

theorem specLeaf_keys (S : Spec.State) (hS : S.Pairwise (fun a b => ¬ Spec.Fe.sameKey a b = true)) (H : Bytes) :
    (specLeaf S H).Pairwise (fun a b => ¬ (a.1 = b.1 ∧ a.2.1 = b.2.1)) := by
  simp only [specLeaf]
  rw [List.pairwise_map]
  refine List.Pairwise.imp_of_mem ?_ (List.Pairwise.filter _ hS)
  intro a b ha hb hk hkey
  simp only [List.mem_filter, Bool.and_eq_true, beq_iff_eq] at ha hb
  apply hk
  rw [feSameKey_iff]
  exact ⟨by omega, ha.2.2.trans hb.2.2.symm, hkey.1, hkey.2⟩

/-- "at most one REGEX rule attains the maximal rank for the request" -/
def AtMostOneRegexAtMax (o : Oracle) (path method : Bytes) (l : List Rule3) : Prop :=
  ∀ a ∈ l, ∀ b ∈ l, ∀ k, ruleRank o path method a = some k → ruleRank o path method b = some k →
    (∀ c ∈ l, ∀ kc, ruleRank o path method c = some kc → rankGt kc k = false) →
    (∃ s s', a.1 = .regex s ∧ b.1 = .regex s') → a = b

theorem get_none_iff_leafRules {Hs : List Bytes} {s : Router} {S : Spec.State} (h : Inv Hs s S)
    (ds : List Bytes) (l : Bytes) : get s.tree (keySteps ds l) = none ↔ leafRules s.tree ds l = [] := by
  simp only [leafRules]
  cases hg : get s.tree (keySteps ds l) with
  | none => simp
  | some kv => simpa using h.nonempty ds l kv hg

/-! ### pre / post lists are the Spec's pre / post frontends -/

/-- the pre/post rule a configured frontend stands for -/
def toRule4 (fe : Spec.Fe) : Rule4 := ((parseDomain fe.host true).getD .any, fe.path, fe.method, fe.route)

def specList (S : Spec.State) (pos : Nat) : List Rule4 := (S.filter fun fe => fe.pos == pos).map toRule4

theorem parseDomain_mono {h : Bytes} {b : Bool} {d : DomainRule} (hd : parseDomain h b = some d) :
    parseDomain h true = some d := by
  simp only [parseDomain] at hd ⊢
  repeat' split at hd
  all_goals simp_all

theorem parseDomain_inj {h h' : Bytes} {d : DomainRule} (hd : parseDomain h true = some d)
    (hd' : parseDomain h' true = some d) : h = h' := by
  simp only [parseDomain, ↓reduceIte] at hd hd'
  repeat' split at hd
  all_goals (repeat' split at hd')
  all_goals (try simp only [Option.some.injEq, reduceCtorEq] at hd hd')
  all_goals (try subst hd)
  all_goals (try simp only [DomainRule.regex.injEq, DomainRule.wildcard.injEq, DomainRule.exact.injEq, reduceCtorEq] at hd')
  all_goals (first | (subst hd'; rfl) | simp_all)

structure PInv (Hs : List Bytes) (s : Router) (S : Spec.State) : Prop where
  okAll : ∀ fe ∈ S, (parseDomain fe.host true).isSome = true
  hosts : ∀ fe ∈ S, fe.pos = 2 → fe.host ∈ Hs
  pos : ∀ fe ∈ S, fe.pos ≤ 2
  pre : s.pre = specList S 0
  post : s.post = specList S 1

theorem sameKey4_toRule4 (S : Spec.State) (hok : ∀ fe ∈ S, (parseDomain fe.host true).isSome = true)
    (fe : Spec.Fe) (d : DomainRule) (hd : parseDomain fe.host true = some d) (x : Spec.Fe) (hx : x ∈ S)
    (hpos : x.pos = fe.pos) :
    sameKey4 d fe.path fe.method (toRule4 x) = Spec.Fe.sameKey fe x := by
  rw [Bool.eq_iff_iff, sameKey4_iff, feSameKey_iff]
  have hxok := hok x hx
  cases hpx : parseDomain x.host true with
  | none => rw [hpx] at hxok; cases hxok
  | some dx =>
    simp only [toRule4, hpx, Option.getD_some]
    constructor
    · rintro ⟨h1, h2, h3⟩
      subst h1
      exact ⟨hpos.symm, parseDomain_inj hd hpx, h2.symm, h3.symm⟩
    · rintro ⟨_, h2, h3, h4⟩
      rw [← h2, hd] at hpx
      exact ⟨(Option.some.inj hpx).symm, h3.symm, h4.symm⟩

theorem specList_add (S : Spec.State) (hok : ∀ fe ∈ S, (parseDomain fe.host true).isSome = true)
    (fe : Spec.Fe) (d : DomainRule) (hd : parseDomain fe.host true = some d) (pos : Nat) :
    specList (Spec.add S fe) pos =
      if fe.pos = pos then (addList (specList S pos) d fe.path fe.method fe.route).1 else specList S pos := by
  by_cases hp : fe.pos = pos
  · subst hp
    simp only [↓reduceIte, addList, Spec.add]
    have hany : (specList S fe.pos).any (sameKey4 d fe.path fe.method) = S.any (Spec.Fe.sameKey fe) := by
      rw [Bool.eq_iff_iff]
      simp only [specList, List.any_eq_true, List.mem_map, List.mem_filter, beq_iff_eq]
      constructor
      · rintro ⟨_, ⟨x, ⟨hx, hpx⟩, rfl⟩, hk⟩
        exact ⟨x, hx, by rw [← sameKey4_toRule4 S hok fe d hd x hx hpx]; exact hk⟩
      · rintro ⟨x, hx, hk⟩
        have hpx : x.pos = fe.pos := ((feSameKey_iff fe x).mp hk).1.symm
        exact ⟨_, ⟨x, ⟨hx, hpx⟩, rfl⟩, by rw [sameKey4_toRule4 S hok fe d hd x hx hpx]; exact hk⟩
    rw [hany]
    split
    · rfl
    · simp [specList, List.filter_append, toRule4, hd]
  · simp only [hp, ↓reduceIte, Spec.add]
    split
    · rfl
    · simp [specList, List.filter_append, hp]

theorem removeFirst_eq_filter (d : DomainRule) (p : PathRule) (m : MethodRule) (l : List Rule4) (h : PPKeys l) :
    removeFirst l (sameKey4 d p m) = l.filter (fun x => !sameKey4 d p m x) := by
  induction l with
  | nil => rfl
  | cons y t ih =>
    have h' := h
    rw [PPKeys, List.pairwise_cons] at h
    simp only [removeFirst, List.filter_cons]
    by_cases hy : sameKey4 d p m y = true
    · simp only [hy, ↓reduceIte, Bool.not_true, Bool.false_eq_true]
      symm
      rw [List.filter_eq_self]
      intro x hx
      cases hs : sameKey4 d p m x with
      | false => rfl
      | true =>
        have h1 := (sameKey4_iff d p m y).mp hy
        have h2 := (sameKey4_iff d p m x).mp hs
        exact absurd ⟨h1.1.trans h2.1.symm, h1.2.1.trans h2.2.1.symm, h1.2.2.trans h2.2.2.symm⟩ (h.1 x hx)
    · simp only [hy, Bool.false_eq_true, ↓reduceIte, Bool.not_false]
      rw [ih h.2]

theorem removeList_eq_filter (d : DomainRule) (p : PathRule) (m : MethodRule) (l : List Rule4) (h : PPKeys l) :
    (removeList l d p m).1 = l.filter (fun x => !sameKey4 d p m x) := by
  simp only [removeList]
  split
  · exact removeFirst_eq_filter d p m l h
  · next hany =>
    symm
    rw [List.filter_eq_self]
    intro x hx
    cases hs : sameKey4 d p m x with
    | false => rfl
    | true => exact absurd (List.any_eq_true.mpr ⟨x, hx, hs⟩) hany

theorem specList_remove (S : Spec.State) (hok : ∀ fe ∈ S, (parseDomain fe.host true).isSome = true)
    (fe : Spec.Fe) (d : DomainRule) (hd : parseDomain fe.host true = some d) (pos : Nat) :
    specList (Spec.remove S fe) pos =
      if fe.pos = pos then (specList S pos).filter (fun x => !sameKey4 d fe.path fe.method x) else specList S pos := by
  simp only [Spec.remove, specList, List.filter_filter, List.filter_map]
  by_cases hp : fe.pos = pos
  · subst hp
    simp only [↓reduceIte]
    congr 1
    apply List.filter_congr
    intro x hx
    by_cases hpx : x.pos = fe.pos
    · simp only [Function.comp, sameKey4_toRule4 S hok fe d hd x hx hpx, hpx, beq_self_eq_true, Bool.and_true, Bool.true_and]
    · have : Spec.Fe.sameKey fe x = false := by
        cases hs : Spec.Fe.sameKey fe x with
        | false => rfl
        | true => exact absurd ((feSameKey_iff fe x).mp hs).1.symm hpx
      simp [hpx, this]
  · simp only [hp, ↓reduceIte]
    congr 1
    apply List.filter_congr
    intro x hx
    by_cases hpx : x.pos = pos
    · have : Spec.Fe.sameKey fe x = false := by
        cases hs : Spec.Fe.sameKey fe x with
        | false => rfl
        | true => exact absurd (((feSameKey_iff fe x).mp hs).1.trans hpx) hp
      simp [hpx, this]
    · simp [hpx]


theorem mem_spec_remove {S : Spec.State} {fe x : Spec.Fe} (h : x ∈ Spec.remove S fe) : x ∈ S := by
  simp only [Spec.remove, List.mem_filter] at h; exact h.1

theorem pinv_add (Hs : List Bytes) (s s' : Router) (S : Spec.State) (h : PInv Hs s S) (fe : Spec.Fe)
    (d : DomainRule) (hd : parseDomain fe.host true = some d) (hpos : fe.pos ≤ 2)
    (hhost : fe.pos = 2 → fe.host ∈ Hs)
    (hpre : s'.pre = if fe.pos = 0 then (addList s.pre d fe.path fe.method fe.route).1 else s.pre)
    (hpost : s'.post = if fe.pos = 1 then (addList s.post d fe.path fe.method fe.route).1 else s.post) :
    PInv Hs s' (Spec.add S fe) := by
  refine ⟨?_, ?_, ?_, ?_, ?_⟩
  · intro x hx; rcases mem_spec_add hx with hx | rfl
    · exact h.okAll x hx
    · rw [hd]; rfl
  · intro x hx hp; rcases mem_spec_add hx with hx | rfl
    · exact h.hosts x hx hp
    · exact hhost hp
  · intro x hx; rcases mem_spec_add hx with hx | rfl
    · exact h.pos x hx
    · exact hpos
  · rw [hpre, specList_add S h.okAll fe d hd 0, h.pre]
  · rw [hpost, specList_add S h.okAll fe d hd 1, h.post]

theorem pinv_remove (Hs : List Bytes) (s s' : Router) (S : Spec.State) (h : PInv Hs s S) (fe : Spec.Fe)
    (d : DomainRule) (hd : parseDomain fe.host true = some d)
    (hk0 : PPKeys s.pre) (hk1 : PPKeys s.post)
    (hpre : s'.pre = if fe.pos = 0 then (removeList s.pre d fe.path fe.method).1 else s.pre)
    (hpost : s'.post = if fe.pos = 1 then (removeList s.post d fe.path fe.method).1 else s.post) :
    PInv Hs s' (Spec.remove S fe) := by
  refine ⟨fun x hx => h.okAll x (mem_spec_remove hx), fun x hx => h.hosts x (mem_spec_remove hx),
    fun x hx => h.pos x (mem_spec_remove hx), ?_, ?_⟩
  · rw [hpre, specList_remove S h.okAll fe d hd 0, ← h.pre]
    split
    · exact removeList_eq_filter d _ _ _ hk0
    · rfl
  · rw [hpost, specList_remove S h.okAll fe d hd 1, ← h.post]
    split
    · exact removeList_eq_filter d _ _ _ hk1
    · rfl

/-- every operation keeps the pre/post correspondence -/
theorem pinv_step (o : Oracle) (Hs : List Bytes) (s : Router) (S : Spec.State) (h : PInv Hs s S)
    (hk0 : PPKeys s.pre) (hk1 : PPKeys s.post) (op : Op)
    (hmem : (frontOf op).pos ≠ 0 → (frontOf op).pos ≠ 1 → (frontOf op).host ∈ Hs) :
    PInv Hs (step o s op) (Spec.step S op) := by
  cases op with
  | add f =>
    simp only [frontOf] at hmem
    simp only [step, addFront, Spec.step, Spec.feOfFront]
    cases hpath : pathOfFront f with
    | none => exact h
    | some p =>
      cases hdom : parseDomain f.host f.hostOk with
      | none => exact h
      | some d =>
        simp only []
        have hd := parseDomain_mono hdom
        by_cases h0 : f.pos = 0
        · simp only [h0, ↓reduceIte]
          exact pinv_add Hs s _ S h ⟨0, f.host, p, f.method, routeOfFront f⟩ d hd (by simp) (by simp) (by simp) (by simp)
        · by_cases h1 : f.pos = 1
          · simp only [h0, h1, ↓reduceIte]
            exact pinv_add Hs s _ S h ⟨1, f.host, p, f.method, routeOfFront f⟩ d hd (by simp) (by simp) (by simp) (by simp)
          · simp only [h0, h1, ↓reduceIte]
            apply pinv_add Hs s _ S h ⟨2, f.host, p, f.method, routeOfFront f⟩ d hd (by simp) (fun _ => hmem h0 h1)
            · cases addTree o s.tree f.host p f.method (routeOfFront f) <;> simp
            · cases addTree o s.tree f.host p f.method (routeOfFront f) <;> simp
  | remove f =>
    simp only [frontOf] at hmem
    simp only [step, removeFront, Spec.step, Spec.feOfFront]
    cases hpath : pathOfFront f with
    | none => exact h
    | some p =>
      simp only []
      by_cases h0 : f.pos = 0
      · simp only [h0, ↓reduceIte]
        cases hdom : parseDomain f.host f.hostOk with
        | none => exact h
        | some d =>
          simp only []
          exact pinv_remove Hs s _ S h ⟨0, f.host, p, f.method, routeOfFront f⟩ d (parseDomain_mono hdom) hk0 hk1 (by simp) (by simp)
      · by_cases h1 : f.pos = 1
        · simp only [h0, h1, ↓reduceIte]
          cases hdom : parseDomain f.host f.hostOk with
          | none => exact h
          | some d =>
            simp only []
            exact pinv_remove Hs s _ S h ⟨1, f.host, p, f.method, routeOfFront f⟩ d (parseDomain_mono hdom) hk0 hk1 (by simp) (by simp)
        · simp only [h0, h1, ↓reduceIte]
          cases hdom : parseDomain f.host f.hostOk with
          | none => exact ⟨h.okAll, h.hosts, h.pos, h.pre, h.post⟩
          | some d =>
            simp only []
            exact pinv_remove Hs s _ S h ⟨2, f.host, p, f.method, routeOfFront f⟩ d (parseDomain_mono hdom) hk0 hk1 (by simp) (by simp)


/-! ### pre / post scan = the Spec's first match -/

theorem rule4Matches_toRule4 (o : Oracle) (host path method : Bytes) (fe : Spec.Fe)
    (hok : (parseDomain fe.host true).isSome = true) :
    rule4Matches o host path method (toRule4 fe) = Spec.prePostMatch o fe host path method := by
  cases hd : parseDomain fe.host true with
  | none => rw [hd] at hok; cases hok
  | some d => simp [rule4Matches, toRule4, Spec.prePostMatch, hd]

theorem scan_eq_firstOf (o : Oracle) (S : Spec.State) (hok : ∀ fe ∈ S, (parseDomain fe.host true).isSome = true)
    (pos : Nat) (host path method : Bytes) :
    scanList o (specList S pos) host path method = Spec.firstOf o S pos host path method := by
  rw [scanList_eq]
  induction S with
  | nil => rfl
  | cons x t ih =>
    have ih' := ih (fun fe hfe => hok fe (by simp [hfe]))
    have hx := rule4Matches_toRule4 o host path method x (hok x (by simp))
    simp only [specList, Spec.firstOf, List.filter_cons, List.find?_cons] at ih' ⊢
    by_cases hp : (x.pos == pos) = true
    · simp only [hp, ↓reduceIte, List.map_cons, List.find?_cons, hx, Bool.true_and]
      cases hm : Spec.prePostMatch o x host path method with
      | true => simp [toRule4]
      | false => simpa using ih'
    · simp only [hp, Bool.false_eq_true, ↓reduceIte, Bool.false_and]
      simpa using ih'


/-! ### host matching of proper keys -/

def vecE (n : Nat) : List Nat := List.replicate (n + 1) 2
def vecW (n : Nat) : List Nat := List.replicate n 2 ++ [1]

theorem hostMatch_proper (o : Oracle) (ds : List Bytes) (l : Bytes) :
    ∀ (qds : List Bytes) (ql : Bytes),
      Spec.hostMatch o (keySteps ds l) (qSegs qds ql) =
        if l = [STAR] then (if ds = qds then some (vecW ds.length) else none)
        else if ds = qds ∧ l = ql then some (vecE ds.length) else none := by
  induction ds with
  | nil =>
    intro qds ql
    cases qds with
    | nil =>
      simp only [keySteps_nil, qSegs, List.map_nil, List.nil_append, Spec.hostMatch]
      by_cases hl : l = [STAR]
      · subst hl; simp [vecW]
      · have : ((false, l) : Seg) ≠ (false, [STAR]) := by simp [hl]
        simp only [this, ↓reduceIte, hl]
        by_cases e : l = ql
        · subst e; simp [Spec.hostMatch, vecE]
        · have : ((false, l) : Seg) ≠ (false, ql) := by simp [e]
          simp [this, e]
    | cons qd qt =>
      simp only [keySteps_nil, qSegs, List.map_cons, List.cons_append, Spec.hostMatch]
      by_cases hl : l = [STAR]
      · subst hl
        have : (List.map (fun d => ((true, d) : Seg)) qt ++ [(false, ql)]).isEmpty = false := by
          cases qt <;> rfl
        simp [this]
      · have h1 : ((false, l) : Seg) ≠ (false, [STAR]) := by simp [hl]
        have h2 : ((false, l) : Seg) ≠ (true, qd) := by simp
        simp [h1, h2, hl]
  | cons d t ih =>
    intro qds ql
    have hne : ((true, d) : Seg) ≠ (false, [STAR]) := by simp
    cases qds with
    | nil =>
      have h2 : ((true, d) : Seg) ≠ (false, ql) := by simp
      simp only [keySteps_cons, qSegs, List.map_nil, List.nil_append, Spec.hostMatch, hne, h2, ↓reduceIte]
      by_cases hl : l = [STAR] <;> simp [hl]
    | cons qd qt =>
      have := ih qt ql
      simp only [qSegs] at this
      simp only [keySteps_cons, qSegs, List.map_cons, List.cons_append, Spec.hostMatch, hne, ↓reduceIte]
      by_cases e : d = qd
      · subst e
        simp only [↓reduceIte, this, List.cons.injEq, true_and, List.length_cons]
        by_cases hl : l = [STAR]
        · simp only [hl, ↓reduceIte]
          by_cases e2 : t = qt <;> simp [e2, vecW, List.replicate_succ]
        · simp only [hl, ↓reduceIte]
          by_cases e2 : t = qt ∧ l = ql <;> simp [e2, vecE, List.replicate_succ]
      · have : ((true, d) : Seg) ≠ (true, qd) := by simp [e]
        simp only [this, ↓reduceIte, List.cons.injEq, e, false_and]
        by_cases hl : l = [STAR] <;> simp [hl]

theorem vecLt_W_E (n : Nat) : Spec.vecLt (vecW n) (vecE n) = true := by
  induction n with
  | zero => decide
  | succ k ih => simpa [vecW, vecE, List.replicate_succ, Spec.vecLt] using ih

theorem vecLt_irrefl (v : List Nat) : Spec.vecLt v v = false := by
  induction v with
  | nil => rfl
  | cons a t ih => simp [Spec.vecLt, ih]

theorem vecLt_E_W (n : Nat) : Spec.vecLt (vecE n) (vecW n) = false := by
  induction n with
  | zero => decide
  | succ k ih => simpa [vecW, vecE, List.replicate_succ, Spec.vecLt] using ih


/-! ### the most specific host group of the Spec, for regex-free hosts -/

def isK (k : List Bytes × Bytes) (fe : Spec.Fe) : Bool := fe.pos == 2 && decide (keyOf fe.host = k)
def isE (qds : List Bytes) (ql : Bytes) (fe : Spec.Fe) : Bool := isK (qds, ql) fe && (ql != [STAR])
def isW (qds : List Bytes) (fe : Spec.Fe) : Bool := isK (qds, [STAR]) fe

theorem treeHostMatch_good (o : Oracle) (fe : Spec.Fe) (hg : GoodName fe.host) (hp : fe.pos = 2)
    (host : Bytes) (qds : List Bytes) (ql : Bytes) (hq : splitHost host = qSegs qds ql) :
    Spec.treeHostMatch o fe.host host =
      if isE qds ql fe then some (vecE qds.length) else if isW qds fe then some (vecW qds.length) else none := by
  obtain ⟨ds, l, _, _, hk, hs⟩ := good_split hg
  simp only [Spec.treeHostMatch, hs, hq, hostMatch_proper, isE, isW, isK, hp, hk, beq_self_eq_true, Bool.true_and]
  by_cases hl : l = [STAR]
  · subst hl
    by_cases hd : ds = qds
    · subst hd
      by_cases hql : ql = [STAR]
      · subst hql; simp
      · have : ¬ [STAR] = ql := fun e => hql e.symm
        simp [hql, this]
    · simp [hd]
  · by_cases hd : ds = qds ∧ l = ql
    · obtain ⟨rfl, rfl⟩ := hd
      simp [hl]
    · have : ¬ (ds, l) = (qds, ql) := by simpa using hd
      have h2 : ¬ (ds, l) = (qds, [STAR]) := by simp [hl]
      simp [hl, hd, this, h2]

theorem filterMap_filter_fst {V : Type} (S : List Spec.Fe) (g : Spec.Fe → Option (Spec.Fe × V))
    (P : Spec.Fe × V → Bool) (Q : Spec.Fe → Bool)
    (h : ∀ fe ∈ S, match g fe with
      | some x => x.1 = fe ∧ P x = Q fe
      | none => Q fe = false) :
    ((S.filterMap g).filter P).map (·.1) = S.filter Q := by
  induction S with
  | nil => rfl
  | cons a t ih =>
    have ha := h a (by simp)
    have iht := ih (fun fe hfe => h fe (by simp [hfe]))
    simp only [List.filterMap_cons, List.filter_cons]
    cases hga : g a with
    | none => rw [hga] at ha; simp only [] at ha; simp [ha, iht]
    | some x =>
      rw [hga] at ha; simp only [] at ha
      simp only [List.filter_cons, ha.2]
      by_cases hq : Q a = true
      · simp [hq, ha.1, iht]
      · simp [hq, iht]

/-- the Spec's most specific host group: the frontends of the exact host if
    there are any, else those of the wildcard host -/
theorem bestHostGroup_good (o : Oracle) (S : Spec.State)
    (hgood : ∀ fe ∈ S, fe.pos = 2 → GoodName fe.host)
    (host : Bytes) (qds : List Bytes) (ql : Bytes) (hq : splitHost host = qSegs qds ql) :
    Spec.bestHostGroup o S host = if S.any (isE qds ql) then S.filter (isE qds ql) else S.filter (isW qds) := by
  let n := qds.length
  have hg : ∀ fe ∈ S, (if fe.pos = 2 then (Spec.treeHostMatch o fe.host host).map (fe, ·) else none) =
      if isE qds ql fe then some (fe, vecE n) else if isW qds fe then some (fe, vecW n) else none := by
    intro fe hfe
    by_cases hp : fe.pos = 2
    · simp only [hp, ↓reduceIte, treeHostMatch_good o fe (hgood fe hfe hp) hp host qds ql hq]
      by_cases h1 : isE qds ql fe = true
      · simp [h1, n]
      · by_cases h2 : isW qds fe = true <;> simp [h1, h2, n]
    · have h1 : isE qds ql fe = false := by simp [isE, isK, hp]
      have h2 : isW qds fe = false := by simp [isW, isK, hp]
      simp [hp, h1, h2]
  have hmem : ∀ y, y ∈ Spec.treeHosts o S host ↔
      ∃ fe ∈ S, (isE qds ql fe = true ∧ y = (fe, vecE n)) ∨ (isE qds ql fe = false ∧ isW qds fe = true ∧ y = (fe, vecW n)) := by
    intro y
    simp only [Spec.treeHosts, List.mem_filterMap]
    constructor
    · rintro ⟨fe, hfe, hy⟩
      rw [hg fe hfe] at hy
      refine ⟨fe, hfe, ?_⟩
      by_cases h1 : isE qds ql fe = true
      · simp only [h1, ↓reduceIte, Option.some.injEq] at hy; exact Or.inl ⟨h1, hy.symm⟩
      · by_cases h2 : isW qds fe = true
        · simp only [h1, h2, Bool.false_eq_true, ↓reduceIte, Option.some.injEq] at hy
          exact Or.inr ⟨by simpa using h1, h2, hy.symm⟩
        · simp [h1, h2] at hy
    · rintro ⟨fe, hfe, h | h⟩
      · exact ⟨fe, hfe, by rw [hg fe hfe]; simp [h.1, h.2]⟩
      · exact ⟨fe, hfe, by rw [hg fe hfe]; simp [h.1, h.2.1, h.2.2]⟩
  simp only [Spec.bestHostGroup]
  by_cases hany : S.any (isE qds ql) = true
  · simp only [hany, ↓reduceIte]
    obtain ⟨fe0, hfe0, he0⟩ := List.any_eq_true.mp hany
    apply filterMap_filter_fst
    intro fe hfe
    rw [hg fe hfe]
    by_cases h1 : isE qds ql fe = true
    · simp only [h1, ↓reduceIte, true_and]
      rw [Bool.eq_iff_iff]
      simp only [Bool.not_eq_eq_eq_not, Bool.not_true, iff_true]
      rw [← Bool.not_eq_true, List.any_eq_true]
      rintro ⟨y, hy, hlt⟩
      obtain ⟨fe', _, h | h⟩ := (hmem y).mp hy
      · rw [h.2] at hlt; simp [vecLt_irrefl] at hlt
      · rw [h.2.2] at hlt; simp [vecLt_E_W] at hlt
    · by_cases h2 : isW qds fe = true
      · simp only [h1, h2, Bool.false_eq_true, ↓reduceIte, true_and]
        have : (Spec.treeHosts o S host).any (fun y => Spec.vecLt (vecW n) y.2) = true := by
          rw [List.any_eq_true]
          exact ⟨(fe0, vecE n), (hmem _).mpr ⟨fe0, hfe0, Or.inl ⟨he0, rfl⟩⟩, vecLt_W_E n⟩
        simp [this]
      · simp [h1, h2]
  · simp only [hany, Bool.false_eq_true, ↓reduceIte]
    have hnoE : ∀ fe ∈ S, isE qds ql fe = false := by
      intro fe hfe
      cases h : isE qds ql fe with
      | false => rfl
      | true => exact absurd (List.any_eq_true.mpr ⟨fe, hfe, h⟩) hany
    apply filterMap_filter_fst
    intro fe hfe
    rw [hg fe hfe]
    simp only [hnoE fe hfe, Bool.false_eq_true, ↓reduceIte]
    by_cases h2 : isW qds fe = true
    · simp only [h2, ↓reduceIte, true_and]
      rw [Bool.eq_iff_iff]
      simp only [Bool.not_eq_eq_eq_not, Bool.not_true, iff_true]
      rw [← Bool.not_eq_true, List.any_eq_true]
      rintro ⟨y, hy, hlt⟩
      obtain ⟨fe', hfe', h | h⟩ := (hmem y).mp hy
      · rw [hnoE fe' hfe'] at h; cases h.1
      · rw [h.2.2] at hlt; simp [vecLt_irrefl] at hlt
    · simp [h2]


/-! ### the trie leaf of a key is the Spec's group of that key -/

def toRule3 (fe : Spec.Fe) : Rule3 := (fe.path, fe.method, fe.route)

theorem specLeaf_eq (S : Spec.State) (H : Bytes) :
    specLeaf S H = (S.filter fun fe => fe.pos == 2 && fe.host == H).map toRule3 := rfl

theorem splitKey_inj_good {H H' : Bytes} (hg : GoodName H) (hg' : GoodName H') (h : splitKey H = splitKey H') :
    H = H' := by
  obtain ⟨ds, l, _, _, hk, hs⟩ := good_split hg
  obtain ⟨ds', l', _, _, hk', hs'⟩ := good_split hg'
  rw [hs, hs'] at h
  have := keySteps_inj (Option.some.inj h)
  exact keyOf_inj (by rw [hk, hk', this])

theorem leaf_of_group (Hs : List Bytes) (hgood : ∀ H ∈ Hs, GoodName H) (s : Router) (S : Spec.State)
    (hI : Inv Hs s S) (hP : PInv Hs s S) (k : List Bytes × Bytes) :
    (S.any (isK k) = true →
      ∃ kv H, get s.tree (keySteps k.1 k.2) = some kv ∧ kv.2 = (S.filter (isK k)).map toRule3 ∧
        (∀ fe ∈ S.filter (isK k), fe.host = H) ∧ S.filter (isK k) ≠ []) ∧
    (S.any (isK k) = false → get s.tree (keySteps k.1 k.2) = none) := by
  have hkey : ∀ H ∈ Hs, ∀ ds l, splitKey H = some (keySteps ds l) → keyOf H = (ds, l) := by
    intro H hH ds l hs
    obtain ⟨ds', l', _, _, hk, hs'⟩ := good_split (hgood H hH)
    rw [hs'] at hs
    rw [hk, keySteps_inj (Option.some.inj hs)]
  constructor
  · intro hany
    obtain ⟨fe0, hfe0, hk0⟩ := List.any_eq_true.mp hany
    simp only [isK, Bool.and_eq_true, beq_iff_eq, decide_eq_true_eq] at hk0
    have hH := hP.hosts fe0 hfe0 hk0.1
    obtain ⟨ds, l, _, _, hk, hs⟩ := good_split (hgood _ hH)
    have e : (ds, l) = k := by rw [← hk, hk0.2]
    subst e
    have hfilter : S.filter (isK (ds, l)) = S.filter (fun fe => fe.pos == 2 && fe.host == fe0.host) := by
      apply List.filter_congr
      intro x hx
      rw [Bool.eq_iff_iff]
      simp only [isK, Bool.and_eq_true, beq_iff_eq, decide_eq_true_eq]
      constructor
      · rintro ⟨h1, h2⟩; exact ⟨h1, keyOf_inj (by rw [h2, hk])⟩
      · rintro ⟨h1, h2⟩; exact ⟨h1, by rw [h2, hk]⟩
    have hleaf := hI.leaf fe0.host hH ds l hs
    rw [specLeaf_eq, ← hfilter] at hleaf
    have hne : S.filter (isK (ds, l)) ≠ [] := by
      intro e
      have : fe0 ∈ S.filter (isK (ds, l)) := by
        simp only [List.mem_filter, isK, Bool.and_eq_true, beq_iff_eq, decide_eq_true_eq]
        exact ⟨hfe0, hk0.1, hk0.2⟩
      rw [e] at this; cases this
    cases hg : get s.tree (keySteps ds l) with
    | none =>
      simp only [leafRules, hg] at hleaf
      exact absurd (List.map_eq_nil_iff.mp hleaf.symm) hne
    | some kv =>
      simp only [leafRules, hg] at hleaf
      refine ⟨kv, fe0.host, rfl, hleaf, ?_, hne⟩
      intro fe hfe
      rw [hfilter] at hfe
      simp only [List.mem_filter, Bool.and_eq_true, beq_iff_eq] at hfe
      exact hfe.2.2
  · intro hany
    obtain ⟨kds, kl⟩ := k
    by_cases hex : ∃ H ∈ Hs, splitKey H = some (keySteps kds kl)
    · obtain ⟨H, hH, hs⟩ := hex
      have hleaf := hI.leaf H hH kds kl hs
      have hnil : specLeaf S H = [] := by
        rw [specLeaf_eq, List.map_eq_nil_iff, List.filter_eq_nil_iff]
        intro fe hfe hc
        simp only [Bool.and_eq_true, beq_iff_eq] at hc
        have : isK (kds, kl) fe = true := by
          simp only [isK, Bool.and_eq_true, beq_iff_eq, decide_eq_true_eq]
          exact ⟨hc.1, by rw [hc.2]; exact hkey H hH kds kl hs⟩
        have h2 : S.any (isK (kds, kl)) = true := List.any_eq_true.mpr ⟨fe, hfe, this⟩
        rw [hany] at h2; cases h2
      rw [hnil] at hleaf
      exact (get_none_iff_leafRules hI kds kl).mpr hleaf
    · exact hI.foreign kds kl (fun H hH e => hex ⟨H, hH, e⟩)


/-! ### rank selection = the Spec's best candidates of one host -/

theorem rank_toRule3 (o : Oracle) (path method : Bytes) (fe : Spec.Fe) :
    Spec.rank o fe path method = ruleRank o path method (toRule3 fe) := by
  rw [ruleRank_eq_spec o path method (toRule3 fe) fe.host]
  rfl

theorem select_bestIn (o : Oracle) (G : List Spec.Fe) (path method : Bytes) :
    (selectLeaf o (G.map toRule3) path method = none ∧ Spec.bestIn o G path method = []) ∨
    (∃ r, selectLeaf o (G.map toRule3) path method = some r ∧ r ∈ Spec.bestIn o G path method) := by
  rcases select_good o path method (G.map toRule3) with ⟨hn, hall⟩ | ⟨r, hr, k, hs, hk, hmax⟩
  · left
    refine ⟨hn, ?_⟩
    have : G.filterMap (fun fe => (Spec.rank o fe path method).map (fe, ·)) = [] := by
      rw [List.filterMap_eq_nil_iff]
      intro fe hfe
      rw [rank_toRule3, hall (toRule3 fe) (List.mem_map_of_mem hfe)]
      rfl
    simp [Spec.bestIn, this]
  · right
    obtain ⟨fe, hfe, rfl⟩ := List.mem_map.mp hr
    refine ⟨fe.route, hs, ?_⟩
    simp only [Spec.bestIn, List.mem_map, List.mem_filter, List.mem_filterMap]
    refine ⟨(fe, k), ⟨⟨fe, hfe, by rw [rank_toRule3, hk]; rfl⟩, ?_⟩, rfl⟩
    rw [Bool.not_eq_eq_eq_not, Bool.not_true, ← Bool.not_eq_true, List.any_eq_true]
    rintro ⟨y, hy, hlt⟩
    simp only [List.mem_filterMap] at hy
    obtain ⟨fe', hfe', hy⟩ := hy
    rw [rank_toRule3] at hy
    cases hrk : ruleRank o path method (toRule3 fe') with
    | none => rw [hrk] at hy; cases hy
    | some kc =>
      rw [hrk] at hy
      simp only [Option.map_some, Option.some.injEq] at hy
      subst hy
      have := hmax (toRule3 fe') (List.mem_map_of_mem hfe') kc hrk
      rw [rankGt_eq_specLt] at this
      simp only [] at hlt
      rw [this] at hlt; cases hlt

theorem hostsOf_single (G : List Spec.Fe) (H : Bytes) (hall : ∀ fe ∈ G, fe.host = H) (hne : G ≠ []) :
    Spec.hostsOf G = [H] := by
  induction G with
  | nil => exact absurd rfl hne
  | cons fe t ih =>
    have hfe := hall fe (by simp)
    simp only [Spec.hostsOf]
    by_cases ht : t = []
    · subst ht; simp [Spec.hostsOf, hfe]
    · rw [ih (fun x hx => hall x (by simp [hx])) ht, hfe]; simp

theorem treeRoute_of_group (o : Oracle) (S : Spec.State) (host path method : Bytes) (G : List Spec.Fe)
    (hG : Spec.bestHostGroup o S host = G) (H : Bytes) (hall : ∀ fe ∈ G, fe.host = H) :
    Spec.treeRoute o S host path method =
      if G = [] then [none] else
        match Spec.bestIn o G path method with
        | [] => [none]
        | l => l.map some := by
  simp only [Spec.treeRoute, hG]
  by_cases hne : G = []
  · subst hne; simp [Spec.hostsOf]
  · have hf : G.filter (fun fe => fe.host == H) = G := by
      rw [List.filter_eq_self]; intro fe hfe; simp [hall fe hfe]
    simp only [hne, ↓reduceIte, hostsOf_single G H hall hne, List.flatMap_cons, List.flatMap_nil, List.append_nil, hf]
    cases Spec.bestIn o G path method <;> rfl


theorem orElse_self {α : Type} (x : Option α) : (x.orElse fun _ => x) = x := by cases x <;> rfl

/-- the answer of one leaf is admitted by the Spec for the group `G` that fills it -/
theorem leaf_admissible (o : Oracle) (S : Spec.State) (host path method : Bytes) (G : List Spec.Fe)
    (hG : Spec.bestHostGroup o S host = G) (H : Bytes) (hall : ∀ fe ∈ G, fe.host = H) (hne : G ≠ []) :
    selectLeaf o (G.map toRule3) path method ∈ Spec.treeRoute o S host path method := by
  rw [treeRoute_of_group o S host path method G hG H hall]
  simp only [hne, ↓reduceIte]
  rcases select_bestIn o G path method with ⟨h1, h2⟩ | ⟨r, h1, h2⟩
  · rw [h1, h2]; simp
  · rw [h1]
    cases hb : Spec.bestIn o G path method with
    | nil => rw [hb] at h2; cases h2
    | cons a t => rw [hb] at h2; simp only [List.mem_map]; exact ⟨r, h2, rfl⟩

/-- tree part: the trie lookup followed by the rank selection is admitted by
    the Spec's `treeRoute` of the configured set -/
theorem tree_admissible (o : Oracle) (Hs : List Bytes) (hgood : ∀ H ∈ Hs, GoodName H) (s : Router) (S : Spec.State)
    (hI : Inv Hs s S) (hP : PInv Hs s S)
    (host : Bytes) (qds : List Bytes) (ql : Bytes) (hq : splitHost host = qSegs qds ql) (path method : Bytes) :
    lookupTree o s.tree host path method ∈ Spec.treeRoute o S host path method := by
  have hgoodS : ∀ fe ∈ S, fe.pos = 2 → GoodName fe.host := fun fe hfe hp => hgood _ (hP.hosts fe hfe hp)
  have hG := bestHostGroup_good o S hgoodS host qds ql hq
  simp only [lookupTree, domainLookup, hq, lookup_eq o.seg qds ql s.tree hI.wf]
  have lgE := leaf_of_group Hs hgood s S hI hP (qds, ql)
  have lgW := leaf_of_group Hs hgood s S hI hP (qds, [STAR])
  by_cases hanyE : S.any (isE qds ql) = true
  · rw [if_pos hanyE] at hG
    obtain ⟨fe0, hfe0, he0⟩ := List.any_eq_true.mp hanyE
    simp only [isE, Bool.and_eq_true, bne_iff_ne, ne_eq] at he0
    have hql : (ql != [STAR]) = true := by simpa using he0.2
    have hfil : S.filter (isE qds ql) = S.filter (isK (qds, ql)) := by
      apply List.filter_congr; intro x _; simp [isE, hql]
    obtain ⟨kv, H, hget, hkv, hall, hne⟩ := lgE.1 (List.any_eq_true.mpr ⟨fe0, hfe0, he0.1⟩)
    simp only [] at hget
    rw [hfil] at hG
    simp only [hget, Option.orElse]
    rw [hkv]
    exact leaf_admissible o S host path method _ hG H hall hne
  · rw [if_neg hanyE] at hG
    have hfil : S.filter (isW qds) = S.filter (isK (qds, [STAR])) := rfl
    have horelse : ((get s.tree (keySteps qds ql)).orElse fun _ => get s.tree (keySteps qds [STAR])) =
        get s.tree (keySteps qds [STAR]) := by
      by_cases hql : ql = [STAR]
      · subst hql; exact orElse_self _
      · have : S.any (isK (qds, ql)) = false := by
          rw [← Bool.not_eq_true, List.any_eq_true]
          rintro ⟨fe, hfe, hk⟩
          apply hanyE
          exact List.any_eq_true.mpr ⟨fe, hfe, by simp [isE, hk, hql]⟩
        have := lgE.2 this
        simp only [] at this
        rw [this]; rfl
    rw [horelse]
    by_cases hanyW : S.any (isK (qds, [STAR])) = true
    · obtain ⟨kv, H, hget, hkv, hall, hne⟩ := lgW.1 hanyW
      simp only [] at hget
      simp only [hget]
      rw [hkv]
      exact leaf_admissible o S host path method _ (by rw [hG, hfil]) H hall hne
    · have hW : S.any (isK (qds, [STAR])) = false := by simpa using hanyW
      have hget := lgW.2 hW
      simp only [] at hget
      simp only [hget]
      have hnil : S.filter (isW qds) = [] := by
        rw [hfil, List.filter_eq_nil_iff]
        intro fe hfe hk
        exact hanyW (List.any_eq_true.mpr ⟨fe, hfe, hk⟩)
      rw [treeRoute_of_group o S host path method [] (by rw [hG, hnil]) [] (by intro fe hfe; cases hfe)]
      simp


/-! ### histories -/

/-- a tree frontend's hostname is a plain (regex-free, non-degenerate) name:
    not empty, no leading dot, no `/` — `*` labels are allowed -/
def GoodFront (f : Front) : Prop := f.pos ≠ 0 → f.pos ≠ 1 → GoodName f.host

def GoodHistory (ops : List Op) : Prop := ∀ op ∈ ops, GoodFront (frontOf op)

theorem goodFront_proper {f : Front} (h : GoodFront f) : ProperFront f := by
  intro h0 h1
  have hg := h h0 h1
  obtain ⟨ds, l, _, _, _, hs⟩ := good_split hg
  refine ⟨⟨ds, l, hs⟩, ?_⟩
  have : ¬ SLASH ∈ f.host := hg.2.2
  simpa using this

theorem treeHosts_good {ops : List Op} (hg : GoodHistory ops) : ∀ H ∈ treeHosts ops, GoodName H := by
  intro H hH
  simp only [treeHosts, List.mem_map, List.mem_filter, Bool.and_eq_true, bne_iff_ne, ne_eq] at hH
  obtain ⟨op, ⟨hop, h0, h1⟩, rfl⟩ := hH
  exact hg op hop h0 h1

theorem goodHistory_proper {ops : List Op} (hg : GoodHistory ops) : ProperHistory ops :=
  ⟨fun op hop => goodFront_proper (hg op hop),
   fun H hH H' hH' e => splitKey_inj_good (treeHosts_good hg H hH) (treeHosts_good hg H' hH') e⟩

theorem pinv_init (Hs : List Bytes) : PInv Hs Router.new [] :=
  ⟨fun fe h => (by cases h), fun fe h => (by cases h), fun fe h => (by cases h), rfl, rfl⟩

theorem both_run (o : Oracle) (Hs : List Bytes)
    (hinj : ∀ H ∈ Hs, ∀ H' ∈ Hs, splitKey H = splitKey H' → H = H') (ops : List Op) :
    ∀ (s : Router) (S : Spec.State), Inv Hs s S → PInv Hs s S →
      (∀ op ∈ ops, ProperFront (frontOf op)) →
      (∀ op ∈ ops, (frontOf op).pos ≠ 0 → (frontOf op).pos ≠ 1 → (frontOf op).host ∈ Hs) →
      Inv Hs (ops.foldl (step o) s) (ops.foldl Spec.step S) ∧ PInv Hs (ops.foldl (step o) s) (ops.foldl Spec.step S) := by
  induction ops with
  | nil => intro s S h1 h2 _ _; exact ⟨h1, h2⟩
  | cons op t ih =>
    intro s S h1 h2 hp hm
    exact ih _ _ (inv_step o Hs hinj s S h1 op (hp op (by simp)) (hm op (by simp)))
      (pinv_step o Hs s S h2 h1.pre h1.post op (hm op (by simp)))
      (fun x hx => hp x (by simp [hx])) (fun x hx => hm x (by simp [hx]))

/-- the two invariants after a good history, for any superset `Hs` of its tree hosts -/
theorem both_of_good (o : Oracle) (ops : List Op) (hg : GoodHistory ops) (Hs : List Bytes)
    (hgood : ∀ H ∈ Hs, GoodName H) (hsub : ∀ H ∈ treeHosts ops, H ∈ Hs) :
    Inv Hs (run o ops) (Spec.run ops) ∧ PInv Hs (run o ops) (Spec.run ops) :=
  both_run o Hs (fun H hH H' hH' e => splitKey_inj_good (hgood H hH) (hgood H' hH') e) ops _ _
    (inv_init _) (pinv_init _) (fun op hop => goodFront_proper (hg op hop))
    (fun op hop h0 h1 => hsub _ (mem_treeHosts hop h0 h1))

theorem route_admissible (o : Oracle) (Hs : List Bytes) (hgood : ∀ H ∈ Hs, GoodName H) (s : Router) (S : Spec.State)
    (hI : Inv Hs s S) (hP : PInv Hs s S) (host : Bytes) (hh : GoodHost host) (path method : Bytes) :
    Spec.admissible (lookupRoute o s host path method) (Spec.route o S host path method) = true := by
  obtain ⟨qds, ql, _, _, _, hq⟩ := host_split hh
  have hpre := scan_eq_firstOf o S hP.okAll 0 host path method
  have hpost := scan_eq_firstOf o S hP.okAll 1 host path method
  rw [← hP.pre] at hpre
  rw [← hP.post] at hpost
  have htree := tree_admissible o Hs hgood s S hI hP host qds ql hq path method
  simp only [Spec.admissible, lookupRoute, Spec.route, hpre, hpost, List.contains_iff_mem]
  cases hf : Spec.firstOf o S 0 host path method with
  | some r => simp
  | none =>
    simp only [List.mem_map]
    refine ⟨_, htree, ?_⟩
    cases lookupTree o s.tree host path method <;> rfl


/-- "the frontend of the operation is irrelevant for the request": a pre/post
    rule that does not match the request, or a tree frontend whose host
    pattern does not match the request's host (the F30 caveat: a tree frontend
    that matches the host but not the path is *not* irrelevant, it may create
    or delete the most specific host group) -/
def FrontIrrelevant (o : Oracle) (f : Front) (host path method : Bytes) : Prop :=
  if f.pos = 0 ∨ f.pos = 1 then
    ∀ p d, pathOfFront f = some p → parseDomain f.host f.hostOk = some d →
      rule4Matches o host path method (d, p, f.method, routeOfFront f) = false
  else Spec.treeHostMatch o f.host host = none



theorem rule4Matches_key (o : Oracle) (host path method : Bytes) (x : Rule4) (d : DomainRule) (p : PathRule)
    (m : MethodRule) (r : Route) (hk : sameKey4 d p m x = true) :
    rule4Matches o host path method x = rule4Matches o host path method (d, p, m, r) := by
  obtain ⟨h1, h2, h3⟩ := (sameKey4_iff d p m x).mp hk
  simp [rule4Matches, h1, h2, h3]

theorem irrelevant_keys {o : Oracle} {f : Front} {host : Bytes} {qds : List Bytes} {ql : Bytes}
    (hg : GoodName f.host) (hq : splitHost host = qSegs qds ql)
    (hno : Spec.treeHostMatch o f.host host = none) {ds : List Bytes} {l : Bytes}
    (hk : keyOf f.host = (ds, l)) : (qds, ql) ≠ (ds, l) ∧ (qds, [STAR]) ≠ (ds, l) := by
  have h := treeHostMatch_good o ⟨2, f.host, .pfx [], none, .deny⟩ hg rfl host qds ql hq
  simp only [] at h
  rw [hno] at h
  have hW : isW qds ⟨2, f.host, .pfx [], none, .deny⟩ = false := by
    cases hw : isW qds ⟨2, f.host, .pfx [], none, .deny⟩ with
    | false => rfl
    | true => rw [hw] at h; split at h <;> cases h
  have hE : isE qds ql ⟨2, f.host, .pfx [], none, .deny⟩ = false := by
    cases he : isE qds ql ⟨2, f.host, .pfx [], none, .deny⟩ with
    | false => rfl
    | true => rw [he] at h; cases h
  simp only [isW, isK, beq_self_eq_true, Bool.true_and, decide_eq_false_iff_not, hk] at hW
  simp only [isE, isK, beq_self_eq_true, Bool.true_and, hk, Bool.and_eq_false_imp, decide_eq_true_eq,
    bne_eq_false_iff_eq] at hE
  refine ⟨?_, fun e => hW e.symm⟩
  intro e
  have := hE e.symm
  subst this
  exact hW e.symm


instance (f : Front) : Decidable (GoodFront f) := by unfold GoodFront; exact inferInstance
instance (ops : List Op) : Decidable (GoodHistory ops) := by unfold GoodHistory; exact inferInstance

/-! ### listener-default HSTS refresh, authority parsing -/

/-- the routing decision of a route: everything of its `RouteResult` except
    the header-edit counts -/
def decision (r : Route) : Option Bytes × Nat × Nat × Option Bytes × Option Bytes × Option Bytes × Option Nat × Bool :=
  let x := r.result
  (x.cluster, x.redirect, x.scheme, x.tmpl, x.rhost, x.rpath, x.rport, x.auth)

theorem decision_refreshRoute (edit : Bool) (r : Route) : decision (refreshRoute edit r) = decision r := by
  cases r with
  | deny => cases edit <;> simp [refreshRoute, decision, Route.result, UNAUTHORIZED]
  | cluster id => cases edit <;> simp [refreshRoute, decision, Route.result, UNAUTHORIZED]
  | frontend f =>
    simp only [refreshRoute]
    split <;> simp only [decision, Route.result] <;> split <;> simp

def mapRule3 (φ : Route → Route) (r : Rule3) : Rule3 := (r.1, r.2.1, φ r.2.2)
def mapRule4 (φ : Route → Route) (r : Rule4) : Rule4 := (r.1, r.2.1, r.2.2.1, φ r.2.2.2)

theorem ruleRank_mapRule3 (o : Oracle) (path method : Bytes) (φ : Route → Route) (r : Rule3) :
    ruleRank o path method (mapRule3 φ r) = ruleRank o path method r := rfl

theorem foldl_selStep_map (o : Oracle) (path method : Bytes) (φ : Route → Route) (l : List Rule3) :
    ∀ (s : Sel), (l.map (mapRule3 φ)).foldl (selStep o path method) ⟨s.best, s.m.map φ⟩ =
      ⟨(l.foldl (selStep o path method) s).best, (l.foldl (selStep o path method) s).m.map φ⟩ := by
  induction l with
  | nil => intro s; rfl
  | cons c t ih =>
    intro s
    simp only [List.map_cons, List.foldl_cons]
    have : selStep o path method ⟨s.best, s.m.map φ⟩ (mapRule3 φ c) =
        ⟨(selStep o path method s c).best, (selStep o path method s c).m.map φ⟩ := by
      simp only [selStep, ruleRank_mapRule3]
      cases ruleRank o path method c with
      | none => rfl
      | some rank =>
        simp only [Option.isNone_map]
        split <;> simp [mapRule3]
    rw [this, ih]

theorem selectLeaf_map (o : Oracle) (path method : Bytes) (φ : Route → Route) (l : List Rule3) :
    selectLeaf o (l.map (mapRule3 φ)) path method = (selectLeaf o l path method).map φ := by
  have := foldl_selStep_map o path method φ l ⟨(0, 0, 0), none⟩
  simp only [Option.map_none] at this
  simp only [selectLeaf, this]

theorem scanList_map (o : Oracle) (φ : Route → Route) (l : List Rule4) (host path method : Bytes) :
    scanList o (l.map (mapRule4 φ)) host path method = (scanList o l host path method).map φ := by
  simp only [scanList_eq, List.find?_map]
  have : (rule4Matches o host path method ∘ mapRule4 φ) = rule4Matches o host path method := by
    funext r; rfl
  rw [this]
  cases List.find? (rule4Matches o host path method) l <;> rfl

/-- lookups after `refresh_inheriting_hsts`: the same rule is selected, its route refreshed -/
theorem lookupRoute_refresh (o : Oracle) (edit : Bool) (s : Router) (host path method : Bytes) :
    lookupRoute o (refreshHsts edit s) host path method = (lookupRoute o s host path method).map (refreshRoute edit) := by
  have hpre := scanList_map o (refreshRoute edit) s.pre host path method
  have hpost := scanList_map o (refreshRoute edit) s.post host path method
  have htree : lookupTree o (s.tree.mapV (fun l => l.map (mapRule3 (refreshRoute edit)))) host path method =
      (lookupTree o s.tree host path method).map (refreshRoute edit) := by
    simp only [lookupTree, domainLookup, lookup_mapV]
    cases Trie.lookup o.seg true s.tree (splitHost host) with
    | none => rfl
    | some kv => simp [mapSnd, selectLeaf_map]
  simp only [lookupRoute, refreshHsts]
  change (match scanList o (s.pre.map (mapRule4 (refreshRoute edit))) host path method with
    | some r => some r
    | none => match lookupTree o (s.tree.mapV (fun l => l.map (mapRule3 (refreshRoute edit)))) host path method with
      | some r => some r
      | none => scanList o (s.post.map (mapRule4 (refreshRoute edit))) host path method) = _
  rw [hpre, htree, hpost]
  cases scanList o s.pre host path method <;> cases lookupTree o s.tree host path method <;>
    cases scanList o s.post host path method <;> rfl


theorem takeWhile_append_stop {p : Nat → Bool} (l : List Nat) (c : Nat) (t : List Nat)
    (hl : ∀ x ∈ l, p x = true) (hc : p c = false) :
    (l ++ c :: t).takeWhile p = l ∧ (l ++ c :: t).dropWhile p = c :: t := by
  induction l with
  | nil => simp [List.takeWhile, List.dropWhile, hc]
  | cons a r ih =>
    have ha := hl a (by simp)
    have := ih (fun x hx => hl x (by simp [hx]))
    simp [List.takeWhile, List.dropWhile, ha, this.1, this.2]

theorem takeWhile_all {p : Nat → Bool} (l : List Nat) (hl : ∀ x ∈ l, p x = true) :
    l.takeWhile p = l ∧ l.dropWhile p = [] := by
  induction l with
  | nil => simp
  | cons a r ih =>
    have ha := hl a (by simp)
    have := ih (fun x hx => hl x (by simp [hx]))
    simp [List.takeWhile, List.dropWhile, ha, this.1, this.2]

/-- a plain hostname is its own authority -/
theorem authorityHost_plain (host : Bytes) (hne : host ≠ []) (hh : ∀ x ∈ host, isHostChar x = true) :
    authorityHost host = some host := by
  obtain ⟨h1, h2⟩ := takeWhile_all host hh
  have : host.isEmpty = false := by cases host <;> simp_all
  simp [authorityHost, h1, h2, this]

/-- a valid port is dropped: `host:port` names the same host -/
theorem authorityHost_port (host digits : Bytes) (hne : host ≠ []) (hh : ∀ x ∈ host, isHostChar x = true)
    (hd : ∀ x ∈ digits, isDigit x = true) (hdn : digits ≠ [])
    (hv : 1 ≤ digitsVal digits ∧ digitsVal digits ≤ 65535) :
    authorityHost (host ++ 58 :: digits) = some host := by
  obtain ⟨h1, h2⟩ := takeWhile_append_stop host 58 digits hh (by decide)
  obtain ⟨d1, d2⟩ := takeWhile_all digits hd
  have he : host.isEmpty = false := by cases host <;> simp_all
  have hde : digits.isEmpty = false := by cases digits <;> simp_all
  have hv0 : ¬ digitsVal digits = 0 := by omega
  have hv1 : ¬ digitsVal digits > 65535 := by omega
  simp [authorityHost, h1, h2, d1, d2, he, hde, hv0, hv1]


end Sozu.Router
