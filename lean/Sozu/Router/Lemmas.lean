import Sozu.Router.Model
import Sozu.Router.Spec
import Sozu.Trie.Lemmas
/-
Helper lemmas for the router: the (rank-based) selection loop of `lookup`
returns a candidate of maximal documented rank, whatever the order of the
leaf's rule list; order-preservation facts for the pre/post lists.
-/
set_option linter.unusedSimpArgs false
set_option linter.unusedVariables false
namespace Sozu.Router
open Sozu Sozu.Trie

abbrev Rank := Nat × Nat × Nat

theorem rankGt_irrefl (a : Rank) : rankGt a a = false := by
  simp [rankGt]

theorem rankGt_trans {a b c : Rank} (h1 : rankGt a b = true) (h2 : rankGt b c = true) : rankGt a c = true := by
  obtain ⟨a1, a2, a3⟩ := a; obtain ⟨b1, b2, b3⟩ := b; obtain ⟨c1, c2, c3⟩ := c
  simp only [rankGt, Bool.or_eq_true, Bool.and_eq_true, decide_eq_true_eq, beq_iff_eq, gt_iff_lt] at *
  omega

theorem rank_eq_of_not_gt {a b : Rank} (h1 : rankGt a b = false) (h2 : rankGt b a = false) : a = b := by
  obtain ⟨a1, a2, a3⟩ := a; obtain ⟨b1, b2, b3⟩ := b
  have h1' : ¬ rankGt (a1, a2, a3) (b1, b2, b3) = true := by simp [h1]
  have h2' : ¬ rankGt (b1, b2, b3) (a1, a2, a3) = true := by simp [h2]
  simp only [rankGt, Bool.or_eq_true, Bool.and_eq_true, decide_eq_true_eq, beq_iff_eq, gt_iff_lt] at h1' h2'
  have e1 : a1 = b1 := by omega
  have e2 : a2 = b2 := by omega
  have e3 : a3 = b3 := by omega
  subst e1 e2 e3; rfl

theorem rankGt_eq_specLt (a b : Rank) : rankGt a b = Spec.rankLt b a := by
  obtain ⟨a1, a2, a3⟩ := a; obtain ⟨b1, b2, b3⟩ := b
  have e1 : (a1 == b1) = (b1 == a1) := by
    rw [Bool.eq_iff_iff, beq_iff_eq, beq_iff_eq]; exact eq_comm
  have e2 : (a2 == b2) = (b2 == a2) := by
    rw [Bool.eq_iff_iff, beq_iff_eq, beq_iff_eq]; exact eq_comm
  simp only [rankGt, Spec.rankLt, e1, e2, gt_iff_lt]

/-- the loop's rank is the Spec's rank of the rule seen as a tree frontend -/
theorem ruleRank_eq_spec (o : Oracle) (path method : Bytes) (r : Rule3) (host : Bytes) :
    ruleRank o path method r = Spec.rank o ⟨2, host, r.1, r.2.1, r.2.2⟩ path method := by
  simp only [ruleRank, Spec.rank]
  cases methodMatches r.2.1 method <;> cases r.1.matches o path <;> simp

/-- what the selection loop has established after scanning the rules `l` -/
def Good (o : Oracle) (path method : Bytes) (l : List Rule3) (s : Sel) : Prop :=
  (s.m = none ∧ ∀ c ∈ l, ruleRank o path method c = none) ∨
  (∃ r ∈ l, s.m = some r.2.2 ∧ ruleRank o path method r = some s.best ∧
      ∀ c ∈ l, ∀ kc, ruleRank o path method c = some kc → rankGt kc s.best = false)

theorem good_step (o : Oracle) (path method : Bytes) (l : List Rule3) (s : Sel) (c : Rule3)
    (h : Good o path method l s) : Good o path method (l ++ [c]) (selStep o path method s c) := by
  unfold selStep
  cases hc : ruleRank o path method c with
  | none =>
    simp only []
    rcases h with ⟨hm, hall⟩ | ⟨r, hr, hm, hrk, hall⟩
    · left; refine ⟨hm, ?_⟩
      intro x hx; simp only [List.mem_append, List.mem_singleton] at hx
      rcases hx with hx | rfl
      · exact hall x hx
      · exact hc
    · right; refine ⟨r, by simp [hr], hm, hrk, ?_⟩
      intro x hx kc hk; simp only [List.mem_append, List.mem_singleton] at hx
      rcases hx with hx | rfl
      · exact hall x hx kc hk
      · rw [hc] at hk; cases hk
  | some rank =>
    simp only []
    rcases h with ⟨hm, hall⟩ | ⟨r, hr, hm, hrk, hall⟩
    · simp only [hm, Option.isNone_none, Bool.true_or, ↓reduceIte]
      right; refine ⟨c, by simp, rfl, hc, ?_⟩
      intro x hx kc hk; simp only [List.mem_append, List.mem_singleton] at hx
      rcases hx with hx | rfl
      · rw [hall x hx] at hk; cases hk
      · rw [hc] at hk; cases hk; exact rankGt_irrefl _
    · simp only [hm, Option.isNone_some, Bool.false_or]
      by_cases hg : rankGt rank s.best = true
      · simp only [hg, ↓reduceIte]
        right; refine ⟨c, by simp, rfl, hc, ?_⟩
        intro x hx kc hk; simp only [List.mem_append, List.mem_singleton] at hx
        rcases hx with hx | rfl
        · have := hall x hx kc hk
          cases hgt : rankGt kc rank with
          | false => rfl
          | true => rw [rankGt_trans hgt hg] at this; cases this
        · rw [hc] at hk; cases hk; exact rankGt_irrefl _
      · simp only [hg, Bool.false_eq_true, ↓reduceIte]
        right; refine ⟨r, by simp [hr], hm, hrk, ?_⟩
        intro x hx kc hk; simp only [List.mem_append, List.mem_singleton] at hx
        rcases hx with hx | rfl
        · exact hall x hx kc hk
        · rw [hc] at hk; cases hk; simpa using hg

theorem good_fold (o : Oracle) (path method : Bytes) (l : List Rule3) :
    ∀ (l₀ : List Rule3) (s : Sel), Good o path method l₀ s →
      Good o path method (l₀ ++ l) (l.foldl (selStep o path method) s) := by
  induction l with
  | nil => intro l₀ s h; simpa using h
  | cons c t ih =>
    intro l₀ s h
    have := ih (l₀ ++ [c]) _ (good_step o path method l₀ s c h)
    simpa [List.append_assoc] using this

/-- the selection loop returns the route of a candidate of maximal rank; it
    returns nothing only when no rule matches -/
theorem select_good (o : Oracle) (path method : Bytes) (l : List Rule3) :
    (selectLeaf o l path method = none ∧ ∀ c ∈ l, ruleRank o path method c = none) ∨
    (∃ r ∈ l, ∃ k, selectLeaf o l path method = some r.2.2 ∧ ruleRank o path method r = some k ∧
        ∀ c ∈ l, ∀ kc, ruleRank o path method c = some kc → rankGt kc k = false) := by
  have h := good_fold o path method l [] ⟨(0, 0, 0), none⟩ (Or.inl ⟨rfl, by simp⟩)
  simp only [List.nil_append] at h
  rcases h with ⟨hm, hall⟩ | ⟨r, hr, hm, hrk, hall⟩
  · left; exact ⟨hm, hall⟩
  · right; exact ⟨r, hr, _, hm, hrk, hall⟩

end Sozu.Router
