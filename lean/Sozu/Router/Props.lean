import Sozu.Router.Lemmas
/-
C04 — routing depends only on the configured frontends, by documented
precedence. Property theorems `C04_*` (model as the code is: `_partial` with the
explicit hypothesis + `_counterexample` by `decide` for each excluded point),
and non-vacuity examples. Helper lemmas: `Sozu/Trie/Lemmas.lean`,
`Sozu/Router/Lemmas.lean`.
-/
set_option linter.unusedSimpArgs false
set_option linter.unusedVariables false
namespace Sozu.Router
open Sozu Sozu.Trie

/-! ### trie refinement -/

/-- a proper (regex-free) pattern key: dotted literal labels, TLD first, then
    the leftmost label, which may be `*` -/
abbrev PKey := List Bytes × Bytes

inductive TOp (V : Type) where
  | ins (k : PKey) (key : Bytes) (v : V)
  | rem (k : PKey)

def tstep {V : Type} (t : Node V) : TOp V → Node V
  | .ins k key v => (insertRec t (keySteps k.1 k.2) key v).2
  | .rem k => (removeRec t (keySteps k.1 k.2)).2

/-- the abstract map: insert keeps an existing binding (`InsertResult::Existing`) -/
def mstep {V : Type} (m : KMap PKey (Bytes × V)) : TOp V → KMap PKey (Bytes × V)
  | .ins k key v => if (KMap.get? m k).isSome then m else KMap.set m k (key, v)
  | .rem k => KMap.erase m k

/-- abstract lookup: the exact key, else the `*` key of the same parent -/
def mlookup {V : Type} (m : KMap PKey (Bytes × V)) (q : PKey) : Option (Bytes × V) :=
  (KMap.get? m q).orElse (fun _ => KMap.get? m (q.1, [STAR]))

/-- simulation relation between a trie and the abstract map -/
def TRel {V : Type} (t : Node V) (m : KMap PKey (Bytes × V)) : Prop :=
  WF t ∧ ∀ k : PKey, get t (keySteps k.1 k.2) = KMap.get? m k

theorem trel_root {V : Type} : TRel (Node.root : Node V) [] := by
  refine ⟨wf_root, ?_⟩
  intro k
  obtain ⟨ds, l⟩ := k
  cases ds <;> simp [keySteps_nil, keySteps_cons, get_leafKey', get_cons, Node.root, Node.wc, Node.children]

theorem pkey_ne {k k' : PKey} (e : k' ≠ k) : (k'.1, k'.2) ≠ (k.1, k.2) := by
  intro h; apply e; exact Prod.ext (by simpa using congrArg Prod.fst h) (by simpa using congrArg Prod.snd h)

theorem trel_step {V : Type} (t : Node V) (m : KMap PKey (Bytes × V)) (op : TOp V) (h : TRel t m) :
    TRel (tstep t op) (mstep m op) := by
  obtain ⟨hwf, hget⟩ := h
  cases op with
  | ins k key v =>
    have sp := insertRec_spec key v k.1 k.2 _ hwf
    refine ⟨sp.wf, ?_⟩
    intro k'
    simp only [tstep, mstep]
    by_cases e : k' = k
    · subst e
      rw [sp.self, hget]
      cases hk : KMap.get? m k' <;> simp [hk]
    · rw [sp.other k'.1 k'.2 (pkey_ne e), hget]
      split
      · rfl
      · rw [KMap.get?_set_ne _ _ e]
  | rem k =>
    have sp := removeRec_spec k.1 k.2 _ hwf
    refine ⟨sp.wf, ?_⟩
    intro k'
    simp only [tstep, mstep]
    by_cases e : k' = k
    · subst e; rw [sp.self]; simp
    · rw [sp.other k'.1 k'.2 (pkey_ne e), hget, KMap.get?_erase_ne _ e]

theorem trel_run {V : Type} (ops : List (TOp V)) :
    ∀ (t : Node V) (m : KMap PKey (Bytes × V)), TRel t m → TRel (ops.foldl tstep t) (ops.foldl mstep m) := by
  induction ops with
  | nil => intro t m h; exact h
  | cons op ops ih => intro t m h; exact ih _ _ (trel_step t m op h)

/-- C04 (trie): after **any** history of inserts and removes of regex-free keys,
    the trie's lookup of a request hostname is the abstract map's lookup with
    exact-over-wildcard precedence (single-label wildcard). -/
theorem C04_trie_refines_map_partial {V : Type} (re : Bytes → Bytes → Bool) (ops : List (TOp V)) (q : PKey) :
    Trie.lookup re true (ops.foldl tstep (Node.root : Node V)) (qSegs q.1 q.2) = mlookup (ops.foldl mstep []) q := by
  obtain ⟨hwf, hget⟩ := trel_run ops _ _ trel_root
  rw [lookup_eq re q.1 q.2 _ hwf, mlookup, hget q, hget (q.1, [STAR])]


/-! ### order independence (tree leaf) -/

/-- C04 (order independence, tree part): the selection loop gives the same
    answer on any two orderings of a leaf's rules, provided one candidate has
    the strictly largest priority `crank` for the request (no tie at the top).
    Ties at the top are exactly the order-dependent findings F2 / F3 /
    full-prefix-vs-equals (see the counterexamples) and the documented
    "two REGEX rules are unordered" case. -/
theorem C04_order_independent_partial (o : Oracle) (path method : Bytes) (l l' : List Rule3)
    (hperm : l.Perm l') (l₁ l₂ : List Rule3) (r : Rule3) (hl : l = l₁ ++ r :: l₂)
    (hr : 0 < crank o path method r)
    (hmax : ∀ c ∈ l₁ ++ l₂, crank o path method c < crank o path method r) :
    selectLeaf o l path method = selectLeaf o l' path method := by
  subst hl
  have hmem : r ∈ l' := (hperm.mem_iff).mp (by simp)
  obtain ⟨l₁', l₂', rfl⟩ := List.append_of_mem hmem
  have h1 : (r :: (l₁ ++ l₂)).Perm (r :: (l₁' ++ l₂')) :=
    (List.perm_middle.symm.trans hperm).trans List.perm_middle
  have h2 : (l₁ ++ l₂).Perm (l₁' ++ l₂') := h1.cons_inv
  have hmax' : ∀ c ∈ l₁' ++ l₂', crank o path method c < crank o path method r :=
    fun c hc => hmax c ((h2.mem_iff).mpr hc)
  rw [select_unique_max o path method l₁ l₂ r hr (fun c hc => hmax c (by simp [hc])) (fun c hc => hmax c (by simp [hc])),
      select_unique_max o path method l₁' l₂' r hr (fun c hc => hmax' c (by simp [hc])) (fun c hc => hmax' c (by simp [hc]))]

/-- the same, for the whole tree lookup of two routers whose selected leaves
    hold the same rules in different orders -/
theorem C04_order_independent_tree_partial (o : Oracle) (t t' : Node (List Rule3)) (host path method : Bytes)
    (k k' : Bytes) (l l' : List Rule3)
    (ht : domainLookup o.seg t host true = some (k, l)) (ht' : domainLookup o.seg t' host true = some (k', l'))
    (hperm : l.Perm l') (l₁ l₂ : List Rule3) (r : Rule3) (hl : l = l₁ ++ r :: l₂)
    (hr : 0 < crank o path method r)
    (hmax : ∀ c ∈ l₁ ++ l₂, crank o path method c < crank o path method r) :
    lookupTree o t host path method = lookupTree o t' host path method := by
  simp only [lookupTree, ht, ht']
  exact C04_order_independent_partial o path method l l' hperm l₁ l₂ r hl hr hmax

/-! ### removal -/

/-- C04 (removed never routes, tree part): after `remove_tree_rule` of a
    frontend whose path rule is PREFIX or REGEX (`PathRule::eq` is reflexive on
    it) on a regex-free trie, the leaf of that host holds no rule with the
    removed `(path, method)` key any more, and every other leaf is untouched.
    For EQUALS paths the hypothesis fails and so does the conclusion (F1). -/
theorem C04_removed_never_routes_partial (o : Oracle) (t : Node (List Rule3)) (hwf : WF t)
    (host : Bytes) (ds : List Bytes) (l : Bytes) (hsplit : splitKey host = some (keySteps ds l))
    (p : PathRule) (m : MethodRule) (hp : p.eqImpl p = true) :
    WF (removeTree o t host p m).1 ∧
    (∀ key rules, get (removeTree o t host p m).1 (keySteps ds l) = some (key, rules) →
        ∀ x ∈ rules, ¬ (x.1 = p ∧ x.2.1 = m)) ∧
    (∀ ds' l', (ds', l') ≠ (ds, l) →
        get (removeTree o t host p m).1 (keySteps ds' l') = get t (keySteps ds' l')) := by
  simp only [removeTree, domainLookupMut, domainModifyMut, remove, hsplit, lookupMut_eq_get o.seg ds l t hwf]
  cases hg : get t (keySteps ds l) with
  | none =>
    refine ⟨hwf, ?_, fun _ _ _ => rfl⟩
    intro key rules h; rw [hg] at h; cases h
  | some kv =>
    obtain ⟨key, paths⟩ := kv
    have sp := modifyMut_spec o.seg (fun l => l.filter fun x => !sameKey3 p m x) ds l t hwf
    simp only []
    have hkeep : ∀ x ∈ paths.filter (fun x => !sameKey3 p m x), ¬ (x.1 = p ∧ x.2.1 = m) := by
      intro x hx hxe
      simp only [List.mem_filter, Bool.not_eq_eq_eq_not, Bool.not_true] at hx
      obtain ⟨h1, h2⟩ := hxe
      have : sameKey3 p m x = true := by simp [sameKey3, h1, h2, hp]
      rw [this] at hx; exact absurd hx.2 (by simp)
    split
    · have sr := removeRec_spec ds l _ sp.wf
      refine ⟨sr.wf, ?_, ?_⟩
      · intro key' rules h; rw [sr.self] at h; cases h
      · intro ds' l' hne; rw [sr.other ds' l' hne, sp.other ds' l' hne]
    · refine ⟨sp.wf, ?_, ?_⟩
      · intro key' rules h
        rw [sp.self, hg] at h
        simp only [Option.map_some, Option.some.injEq, Prod.mk.injEq] at h
        obtain ⟨_, rfl⟩ := h
        exact hkeep
      · intro ds' l' hne; exact sp.other ds' l' hne

/-! ### irrelevant change -/

/-- C04 (irrelevant change, tree part): adding a tree frontend for host key
    `(ds, l)` to a regex-free trie changes no leaf but that host's, so every
    request whose exact key and wildcard key both differ from `(ds, l)` — i.e.
    whose host the pattern does not match — keeps its tree lookup. -/
theorem C04_irrelevant_change_add_partial (o : Oracle) (t t' : Node (List Rule3)) (hwf : WF t)
    (host : Bytes) (ds : List Bytes) (l : Bytes) (hsplit : splitKey host = some (keySteps ds l))
    (p : PathRule) (m : MethodRule) (r : Route) (b : Bool) (hadd : addTree o t host p m r = some (t', b))
    (qhost : Bytes) (qds : List Bytes) (ql : Bytes) (hq : splitHost qhost = qSegs qds ql)
    (hne1 : (qds, ql) ≠ (ds, l)) (hne2 : (qds, [STAR]) ≠ (ds, l)) (path method : Bytes) :
    lookupTree o t' qhost path method = lookupTree o t qhost path method := by
  have key : WF t' ∧ ∀ ds' l', (ds', l') ≠ (ds, l) → get t' (keySteps ds' l') = get t (keySteps ds' l') := by
    simp only [addTree, domainLookupMut, domainModifyMut, hsplit, lookupMut_eq_get o.seg ds l t hwf] at hadd
    cases hg : get t (keySteps ds l) with
    | none =>
      rw [hg] at hadd
      simp only [] at hadd
      have sp := insertRec_spec host [(p, m, r)] ds l t hwf
      by_cases hk : (host = [] || host = [DOT]) = true
      · simp [Trie.insert, hk] at hadd
      · simp only [Trie.insert, hk, Bool.false_eq_true, ↓reduceIte, hsplit] at hadd
        split at hadd
        · cases hadd
        · simp only [Option.some.injEq, Prod.mk.injEq] at hadd
          obtain ⟨rfl, _⟩ := hadd
          exact ⟨sp.wf, sp.other⟩
    | some kv =>
      rw [hg] at hadd
      simp only [] at hadd
      split at hadd
      · have sp := modifyMut_spec o.seg (fun l => l ++ [(p, m, r)]) ds l t hwf
        simp only [Option.some.injEq, Prod.mk.injEq] at hadd
        obtain ⟨rfl, _⟩ := hadd
        exact ⟨sp.wf, sp.other⟩
      · simp only [Option.some.injEq, Prod.mk.injEq] at hadd
        obtain ⟨rfl, _⟩ := hadd
        exact ⟨hwf, fun _ _ _ => rfl⟩
  obtain ⟨hwf', hother⟩ := key
  simp only [lookupTree, domainLookup, hq, lookup_eq o.seg qds ql t' hwf', lookup_eq o.seg qds ql t hwf,
    hother qds ql hne1, hother qds [STAR] hne2]


/-! ### precedence vs the Spec, on one leaf -/

/-- the documented rank of a leaf rule for a request (`Spec.rank` on a rule) -/
def ruleRank (o : Oracle) (path method : Bytes) (r : Rule3) : Option (Nat × Nat × Nat) :=
  Spec.rank o ⟨2, [], r.1, r.2.1, r.2.2⟩ path method

/-- C04 (precedence, tree leaf): when one candidate has the strictly largest
    loop priority and no other candidate outranks it in the documented order
    (EQUALS > REGEX > PREFIX, longer prefix, method-specific), the loop returns
    that candidate, which the documented order also puts (weakly) first. The
    second hypothesis is what the method-specific-REGEX-vs-EQUALS deviation
    violates (see the counterexample). -/
theorem C04_lookup_in_spec_partial (o : Oracle) (path method : Bytes) (l₁ l₂ : List Rule3) (r : Rule3)
    (hr : 0 < crank o path method r)
    (hmax : ∀ c ∈ l₁ ++ l₂, crank o path method c < crank o path method r)
    (hdoc : ∀ c ∈ l₁ ++ l₂, ∀ rc rr, ruleRank o path method c = some rc → ruleRank o path method r = some rr →
        Spec.rankLt rr rc = false) :
    selectLeaf o (l₁ ++ r :: l₂) path method = some r.2.2 ∧
    ∀ c ∈ l₁ ++ r :: l₂, ∀ rc rr, ruleRank o path method c = some rc → ruleRank o path method r = some rr →
        Spec.rankLt rr rc = false := by
  refine ⟨select_unique_max o path method l₁ l₂ r hr (fun c hc => hmax c (by simp [hc])) (fun c hc => hmax c (by simp [hc])), ?_⟩
  intro c hc rc rr h1 h2
  simp only [List.mem_append, List.mem_cons] at hc
  rcases hc with hc | rfl | hc
  · exact hdoc c (by simp [hc]) rc rr h1 h2
  · rw [h1] at h2; cases h2
    simp [Spec.rankLt, Nat.lt_irrefl]
  · exact hdoc c (by simp [hc]) rc rr h1 h2

/-! ### counterexamples: the excluded points really fail in the model
    (each was replayed on the real `Router`, see harness corpus) -/

def hAio : Bytes := [97, 46, 105, 111]            -- "a.io"
def hBaio : Bytes := [98, 46, 97, 46, 105, 111]   -- "b.a.io"
def hBcaio : Bytes := [98, 99, 46, 97, 46, 105, 111] -- "bc.a.io"
def hStarAio : Bytes := [42, 46, 97, 46, 105, 111] -- "*.a.io"
def hReAio : Bytes := [47, 98, 46, 42, 47, 46, 97, 46, 105, 111] -- "/b.*/.a.io"
def pSlash : Bytes := [47]
def pA : Bytes := [47, 97]
def pAb : Bytes := [47, 97, 98]
def pZ : Bytes := [47, 122]
def GET : Bytes := [71, 69, 84]
/-- an oracle under which every regex matches -/
def oAll : Oracle := ⟨fun _ _ => true, fun _ _ => true, fun _ _ => true⟩
/-- an oracle under which no regex matches -/
def oNone : Oracle := ⟨fun _ _ => false, fun _ _ => false, fun _ _ => false⟩
def fr (host : Bytes) (kind : Nat) (path : Bytes) (method : Option Bytes) (c : Nat) : Front :=
  { pos := 2, host, kind, path, method, cluster := some [c] }

/-- F1: an EQUALS tree frontend is still routed after its removal. -/
theorem C04_removed_never_routes_counterexample :
    lookupRoute oAll (run oAll [.add (fr hAio 2 pA none 1), .remove (fr hAio 2 pA none 1)]) hAio pA GET
      = some (.cluster [1]) ∧
    Spec.route oAll (Spec.run [.add (fr hAio 2 pA none 1), .remove (fr hAio 2 pA none 1)]) hAio pA GET = [] := by
  decide

/-- F2: REGEX vs EQUALS on the same host (both method-agnostic): the last added wins
    (with a specific method on both, the first added wins). -/
theorem C04_order_independent_counterexample_regex_vs_equals :
    lookupRoute oAll (run oAll [.add (fr hAio 1 pA none 1), .add (fr hAio 2 pAb none 2)]) hAio pAb GET = some (.cluster [2]) ∧
    lookupRoute oAll (run oAll [.add (fr hAio 2 pAb none 2), .add (fr hAio 1 pA none 1)]) hAio pAb GET = some (.cluster [1]) ∧
    lookupRoute oAll (run oAll [.add (fr hAio 1 pA (some GET) 1), .add (fr hAio 2 pAb (some GET) 2)]) hAio pAb GET = some (.cluster [1]) ∧
    lookupRoute oAll (run oAll [.add (fr hAio 2 pAb (some GET) 2), .add (fr hAio 1 pA (some GET) 1)]) hAio pAb GET = some (.cluster [2]) := by
  decide

/-- F3: PREFIX+GET vs PREFIX+any on the same prefix: the last added wins. -/
theorem C04_order_independent_counterexample_method_specificity :
    lookupRoute oAll (run oAll [.add (fr hAio 0 pA (some GET) 1), .add (fr hAio 0 pA none 2)]) hAio pAb GET = some (.cluster [2]) ∧
    lookupRoute oAll (run oAll [.add (fr hAio 0 pA none 2), .add (fr hAio 0 pA (some GET) 1)]) hAio pAb GET = some (.cluster [1]) := by
  decide

/-- EQUALS (any method) vs a PREFIX equal to the whole path: the last added wins. -/
theorem C04_order_independent_counterexample_full_prefix :
    lookupRoute oAll (run oAll [.add (fr hAio 2 pAb none 1), .add (fr hAio 0 pAb none 2)]) hAio pAb GET = some (.cluster [2]) ∧
    lookupRoute oAll (run oAll [.add (fr hAio 0 pAb none 2), .add (fr hAio 2 pAb none 1)]) hAio pAb GET = some (.cluster [1]) := by
  decide

/-- a method-specific REGEX beats a method-agnostic EQUALS (in both orders),
    against the documented EQUALS > REGEX. -/
theorem C04_lookup_in_spec_counterexample :
    lookupRoute oAll (run oAll [.add (fr hAio 1 pA (some GET) 1), .add (fr hAio 2 pAb none 2)]) hAio pAb GET = some (.cluster [1]) ∧
    lookupRoute oAll (run oAll [.add (fr hAio 2 pAb none 2), .add (fr hAio 1 pA (some GET) 1)]) hAio pAb GET = some (.cluster [1]) ∧
    Spec.route oAll (Spec.run [.add (fr hAio 1 pA (some GET) 1), .add (fr hAio 2 pAb none 2)]) hAio pAb GET = [.cluster [2]] := by
  decide

/-- a literal host added after a leftmost-regex host that matches its label is
    stored in the regex host's leaf (`lookup_mut` falls through to the regex
    entries): the frontend for `bc.a.io` then serves `b.a.io`. This is why the
    trie/router theorems are stated for regex-free tries. -/
theorem C04_trie_refines_map_counterexample :
    lookupRoute oAll (run oAll [.add (fr hReAio 0 pSlash none 1), .add (fr hBcaio 0 pA none 2)]) hBaio pA GET
      = some (.cluster [2]) ∧
    Spec.route oAll (Spec.run [.add (fr hReAio 0 pSlash none 1), .add (fr hBcaio 0 pA none 2)]) hBaio pA GET
      = [.cluster [1]] := by
  decide

/-- the literal reading of "a frontend that does not match a request never
    changes its route" fails for host-first selection: `b.a.io` + `/z` does not
    match `GET b.a.io/a`, yet adding it takes the request away from `*.a.io`
    (the Spec, which selects the host first, says the same). -/
theorem C04_irrelevant_change_counterexample :
    lookupRoute oAll (run oAll [.add (fr hStarAio 0 pSlash none 1)]) hBaio pA GET = some (.cluster [1]) ∧
    lookupRoute oAll (run oAll [.add (fr hStarAio 0 pSlash none 1), .add (fr hBaio 0 pZ none 2)]) hBaio pA GET = none ∧
    Spec.route oAll (Spec.run [.add (fr hStarAio 0 pSlash none 1), .add (fr hBaio 0 pZ none 2)]) hBaio pA GET = [] := by
  decide

/-! ### non-vacuity -/

-- a 5-frontend state (exact + wildcard host, EQUALS + REGEX + two PREFIX, GET-specific)
def demoOps : List Op :=
  [.add (fr hStarAio 0 pSlash none 1), .add (fr hBaio 0 pA none 2), .add (fr hBaio 0 pAb (some GET) 3),
   .add (fr hBaio 2 pZ none 4), .add (fr hBaio 1 pZ none 5)]

example : lookupRoute oNone (run oNone demoOps) hBaio pAb GET = some (.cluster [3]) := by decide
example : Spec.route oNone (Spec.run demoOps) hBaio pAb GET = [.cluster [3]] := by decide
example : lookupRoute oNone (run oNone demoOps) hBcaio pA GET = some (.cluster [1]) := by decide
-- the hypotheses of the leaf theorems hold for the `b.a.io` leaf and `GET /ab`
example : 0 < crank oAll pAb GET (.pfx pAb, some GET, .cluster [3]) := by decide
example : ∀ c ∈ [((.pfx pA, none, .cluster [2]) : Rule3)] ++ [], crank oAll pAb GET c < crank oAll pAb GET (.pfx pAb, some GET, .cluster [3]) := by decide
-- `PathRule::eq` is reflexive on PREFIX and REGEX rules, not on EQUALS
example : (PathRule.pfx pA).eqImpl (.pfx pA) = true ∧ (PathRule.regex pA).eqImpl (.regex pA) = true ∧ (PathRule.equals pA).eqImpl (.equals pA) = false := by decide
-- the byte-level splitters produce proper keys / queries on real host names
example : splitKey hBaio = some (keySteps [[105, 111], [97]] [98]) := by decide
example : splitKey hStarAio = some (keySteps [[105, 111], [97]] [STAR]) := by decide
example : splitHost hBaio = qSegs [[105, 111], [97]] [98] := by decide
-- the tree of the demo state is reached from the root by `add_tree_rule`s only and is regex-free
example : (run oNone demoOps).tree.regexps = [] := by decide
-- trie refinement instance: exact over wildcard after insert / insert / remove
example : Trie.lookup (fun _ _ => false) true
    ([TOp.ins ([[105, 111], [97]], [STAR]) hStarAio 1, .ins ([[105, 111], [97]], [98]) hBaio 2, .rem ([[105, 111], [97]], [98])].foldl tstep (Node.root : Node Nat))
    (qSegs [[105, 111], [97]] [98]) = some (hStarAio, 1) := by decide

end Sozu.Router
